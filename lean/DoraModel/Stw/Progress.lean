import DoraModel.Stw.LiveStep4
/-! # C04 — progress: in every reachable state with a live thread some step other than a spurious wake-up is possible -/
namespace Dora.Stw

/-- the thread exists and has not left -/
def live : PC → Bool
  | .unborn | .embryo | .ready | .dead | .panicked => false
  | _ => true

/-- sleeping in a condition variable -/
def sleeping : PC → Bool
  | .spWait | .unpWait _ | .wuWait _ => true
  | _ => false

/-- next operation is `threads.lock()` -/
def needsL : PC → Bool
  | .addL0 _ | .stwL0 | .rmL0 => true
  | _ => false

theorem en_of {s : State} {w : Nat} {x : Thr} (hx : s.thr[w]? = some x) (a : Act) (ha : a ≠ .spur)
    (hok : (stepAt s w x x.pc a).isOk = true) :
    ∃ (e : Event) (s' : State), e.act ≠ .spur ∧ accept s e = .ok s' := by
  cases hs : stepAt s w x x.pc a with
  | ok s' => exact ⟨⟨w, a⟩, s', ha, by simp [accept, hx, hs]⟩
  | error m => rw [hs] at hok; simp [Except.isOk, Except.toBool] at hok

/-- whoever holds `Barrier::data` can take a step -/
theorem holderB_enabled {s : State} (h : Inv s) {b : Nat} {x : Thr} (hx : s.thr[b]? = some x)
    (hh : holdsB x.pc = true) : ∃ (e : Event) (s' : State), e.act ≠ .spur ∧ accept s e = .ok s' := by
  obtain ⟨pc, st, idx⟩ := x
  have en := en_of hx
  simp only at en hh
  have n1 : ∃ a, a ≠ Act.spur ∧ ∀ pcq, (pcq = PC.spB1 ∨ ∃ r, pcq = PC.parkB1 r) →
      (stepAt s b ⟨pcq, st, idx⟩ pcq a).isOk = true := by
    by_cases hz : s.thr.countP isWaitN = 0
    · refine ⟨.n1N none, by simp, ?_⟩
      rintro pcq (rfl | ⟨r, rfl⟩) <;> simp [stepAt, hz, Except.isOk, Except.toBool]
    · have hpos : 0 < s.thr.countP isWaitN := by omega
      rw [List.countP_pos_iff] at hpos
      obtain ⟨y, hy, hyw⟩ := hpos
      obtain ⟨u, hu⟩ := List.getElem?_of_mem hy
      obtain ⟨pcy, sty, idxy⟩ := y
      cases pcy <;> simp [isWaitN] at hyw
      refine ⟨.n1N (some u), by simp, ?_⟩
      rintro pcq (rfl | ⟨r, rfl⟩) <;> simp [stepAt, State.pcOf, hu, Except.isOk, Except.toBool]
  cases pc <;> simp [holdsB] at hh
  case spB1 => obtain ⟨a, ha, hok⟩ := n1; exact en a ha (hok _ (Or.inl rfl))
  case parkB1 r => obtain ⟨a, ha, hok⟩ := n1; exact en a ha (hok _ (Or.inr ⟨r, rfl⟩))
  case spB2 =>
    cases ha : s.armed
    · exact en .unlockB (by simp) (by simp [stepAt, ha, Except.isOk, Except.toBool])
    · exact en .waitW (by simp) (by simp [stepAt, ha, Except.isOk, Except.toBool])
  case parkB2 r => exact en .unlockB (by simp) (by simp [stepAt, Except.isOk, Except.toBool])
  case unpB1 r =>
    cases ha : s.armed
    · exact en .unlockB (by simp) (by simp [stepAt, ha, Except.isOk, Except.toBool])
    · exact en .waitW (by simp) (by simp [stepAt, ha, Except.isOk, Except.toBool])
  case armB => exact en .unlockB (by simp) (by simp [stepAt, Except.isOk, Except.toBool])
  case wuB1 r =>
    by_cases hlt' : s.stopped < r
    · exact en .waitN (by simp) (by simp [stepAt, hlt', Except.isOk, Except.toBool])
    · exact en .unlockB (by simp) (by simp [stepAt, hlt', Except.isOk, Except.toBool])
  case disB1 => exact en (.naW (s.thr.countP isWaitW)) (by simp) (by simp [stepAt, Except.isOk, Except.toBool])
  case disB2 => exact en .unlockB (by simp) (by simp [stepAt, Except.isOk, Except.toBool])

/-- a live thread that is not asleep, does not hold the barrier mutex (which is free) and does not need the list
lock (or the list lock is free) can take a step -/
theorem enabled_of {s : State} (h : Inv s) (h2 : Inv2 s) (hB : s.lockB = none) {w : Nat} {x : Thr}
    (hx : s.thr[w]? = some x) (hlive : live x.pc = true) (hns : sleeping x.pc = false) (hnb : holdsB x.pc = false)
    (hL : needsL x.pc = true → s.lockL = none)
    (hslot : x.pc = .addA → ∃ (u : Nat) (y : Thr), s.thr[u]? = some y ∧ y.pc = .unborn) :
    ∃ (e : Event) (s' : State), e.act ≠ .spur ∧ accept s e = .ok s' := by
  obtain ⟨l1, l2, l3, l4, l5, l6, l7⟩ := h.loc w x hx
  have hctx := h2.ctx w x.pc
  have hpw := pcOf_eq hx
  obtain ⟨pc, st, idx⟩ := x
  have en := en_of hx
  simp only at en hlive hns hnb hL hslot l3 l4 l7 hctx hpw
  cases pc <;> simp [live, sleeping, holdsB, needsL] at hlive hns hnb hL
  case «mut» => exact en .touch (by simp) (by simp [stepAt, Except.isOk, Except.toBool])
  case poll0 => exact en (.loadS w st) (by simp) (by simp [stepAt, Except.isOk, Except.toBool])
  case pollSlow =>
    exact en (.swapS w st 4) (by simp) (by by_cases h2' : st = 2 <;> simp [stepAt, h2', Except.isOk, Except.toBool])
  case spB0 =>
    exact en .lockB (by simp) (by cases ha : s.armed <;> simp [stepAt, hB, ha, Except.isOk, Except.toBool])
  case spWoken => exact en .relockB (by simp) (by simp [stepAt, hB, Except.isOk, Except.toBool])
  case ps0 c => exact en (.loadS w st) (by simp) (by simp [stepAt, Except.isOk, Except.toBool])
  case psEnd c => exact en (.loadS w st) (by simp) (by simp [stepAt, Except.isOk, Except.toBool])
  case park0 r =>
    by_cases h0 : st = 0
    · exact en (.casS w st (some 1)) (by simp) (by simp [stepAt, h0, Except.isOk, Except.toBool])
    · exact en (.casS w st none) (by simp) (by simp [stepAt, h0, Except.isOk, Except.toBool])
  case parkS r =>
    by_cases h0 : st = 2
    · exact en (.casS w st (some 3)) (by simp) (by simp [stepAt, h0, Except.isOk, Except.toBool])
    · exact en (.casS w st none) (by simp) (by simp [stepAt, h0, Except.isOk, Except.toBool])
  case parkB0 r =>
    exact en .lockB (by simp) (by cases ha : s.armed <;> simp [stepAt, hB, ha, Except.isOk, Except.toBool])
  case natIn => exact en .yield (by simp) (by simp [stepAt, Except.isOk, Except.toBool])
  case unp0 r =>
    by_cases h0 : st = 1
    · exact en (.casS w st (some 0)) (by simp) (by simp [stepAt, h0, Except.isOk, Except.toBool])
    · exact en (.casS w st none) (by simp) (by simp [stepAt, h0, Except.isOk, Except.toBool])
  case unpS r =>
    by_cases h0 : st = 1
    · exact en (.casS w st (some 0)) (by simp) (by simp [stepAt, h0, Except.isOk, Except.toBool])
    · exact en (.casS w st none) (by simp) (by simp [stepAt, h0, Except.isOk, Except.toBool])
  case unpB0 r => exact en .lockB (by simp) (by simp [stepAt, hB, Except.isOk, Except.toBool])
  case unpWoken r => exact en .relockB (by simp) (by simp [stepAt, hB, Except.isOk, Except.toBool])
  case spawnNew => exact en .fetchX (by simp) (by simp [stepAt, Except.isOk, Except.toBool])
  case addA =>
    obtain ⟨u, y, hu, hy⟩ := hslot rfl
    exact en (.loadS u y.st) (by simp) (by
      by_cases hp : isParkedSt y.st = true <;> simp [stepAt, hu, hy, hp, Except.isOk, Except.toBool])
  case addL0 u => exact en .lockL (by simp) (by simp [stepAt, hL, Except.isOk, Except.toBool])
  case addL1 u =>
    have := hctx u false hpw rfl
    exact en (.storeI u s.list.length) (by simp) (by simp [stepAt, this, slotPc, Except.isOk, Except.toBool])
  case addL2 u => exact en .unlockL (by simp) (by simp [stepAt, Except.isOk, Except.toBool])
  case spawnGo u =>
    have := hctx u true hpw rfl
    exact en (.spawn u) (by simp) (by simp [stepAt, this, slotPc, Except.isOk, Except.toBool])
  case stwL0 => exact en .lockL (by simp) (by simp [stepAt, hL, Except.isOk, Except.toBool])
  case stwL1 =>
    by_cases h1 : s.list.length = 1
    · exact en (.swapRT s.rt 1) (by simp) (by
        by_cases hc : s.list[0]? = some w ∧ s.rt = 0 <;> simp [stepAt, h1, hc, Except.isOk, Except.toBool])
    · exact en .lockB (by simp) (by
        by_cases hc : s.armed = false ∧ w ∈ s.list <;> simp [stepAt, h1, hB, hc, Except.isOk, Except.toBool])
  case opS => exact en .opTouch (by simp) (by simp [stepAt, Except.isOk, Except.toBool])
  case op => exact en .opTouch (by simp) (by simp [stepAt, Except.isOk, Except.toBool])
  case rtS1 =>
    exact en (.swapRT s.rt 1) (by simp) (by by_cases h0 : s.rt = 0 <;> simp [stepAt, h0, Except.isOk, Except.toBool])
  case wuWoken r => exact en .relockB (by simp) (by simp [stepAt, hB, Except.isOk, Except.toBool])
  case stwUL => exact en .unlockL (by simp) (by simp [stepAt, Except.isOk, Except.toBool])
  case rmL0 => exact en .lockL (by simp) (by simp [stepAt, hL, Except.isOk, Except.toBool])
  case rmL1 => exact en (.loadI w idx) (by simp) (by simp [stepAt, Except.isOk, Except.toBool])
  case rmL2 => exact en (.naJ 0) (by simp) (by simp [stepAt, Except.isOk, Except.toBool])
  case rmL3 => exact en .unlockL (by simp) (by simp [stepAt, Except.isOk, Except.toBool])
  case rmL1a r =>
    simp [PhOk] at l7
    have hlt := lt_of_get (l4 rfl)
    by_cases h1 : r + 1 = s.list.length
    · exact en (.naJ 0) (by simp) (by simp [stepAt, h1, Except.isOk, Except.toBool])
    · have hne : s.list ≠ [] := by intro e; rw [e] at hlt; simp at hlt
      obtain ⟨last, hlast⟩ : ∃ last, s.list.getLast? = some last := by
        cases hq : s.list.getLast? with
        | none => rw [List.getLast?_eq_none_iff] at hq; exact absurd hq hne
        | some v => exact ⟨v, rfl⟩
      exact en (.storeI last r) (by simp) (by simp [stepAt, hlast, h1, Except.isOk, Except.toBool])
  case fo k r =>
    simp [PhOk] at l7
    by_cases hk : k = s.list.length
    · exact en .lockB (by simp) (by
        cases ha : s.armed <;> simp [stepAt, hk, hB, ha, Except.isOk, Except.toBool])
    · have hklt : k < s.list.length := by omega
      have hku : s.list[k]? = some s.list[k] := by simp [hklt]
      obtain ⟨y, hy, -, -⟩ := h.mem k _ hku
      exact en (.forS s.list[k] y.st (y.st ||| 2)) (by simp) (by
        by_cases a0 : y.st = 0 <;> by_cases a1 : y.st = 1 <;>
          simp [stepAt, hklt, hy, a0, a1, Except.isOk, Except.toBool])
  case rs k =>
    simp [PhOk] at l7
    by_cases hk : k = s.list.length
    · exact en .lockB (by simp) (by
        cases ha : s.armed <;> simp [stepAt, hk, hB, ha, Except.isOk, Except.toBool])
    · have hklt : k < s.list.length := by omega
      have hku : s.list[k]? = some s.list[k] := by simp [hklt]
      obtain ⟨y, hy, -, -⟩ := h.mem k _ hku
      exact en (.swapS s.list[k] y.st 1) (by simp) (by
        by_cases a0 : (y.st = 4 ∨ y.st = 3) <;> simp [stepAt, hklt, hy, a0, Except.isOk, Except.toBool])


/-- the owner recorded for the list lock is a thread slot -/
theorem Reach.lockL_valid {N : Nat} {s : State} (hr : Reach N s) : ∀ b, s.lockL = some b → s.thr[b]? ≠ none := by
  induction hr with
  | init => intro b hb; simp [Dora.Stw.init] at hb
  | step hr' ha ih =>
    rename_i s0 s1 e
    intro b hb1
    obtain ⟨pc, st, idx, ht, hs⟩ := accept_step ha
    have hlen : s1.thr.length = s0.thr.length := by
      cases hs <;> simp [State.setPc, State.setSt, State.setIdx]
    have hval : ∀ u : Nat, s0.thr[u]? ≠ none → s1.thr[u]? ≠ none := by
      intro u hu
      have : u < s0.thr.length := by
        rcases Nat.lt_or_ge u s0.thr.length with h1 | h1
        · exact h1
        · exact absurd (List.getElem?_eq_none h1) hu
      rw [← hlen] at this
      simp [List.getElem?_eq_getElem this]
    by_cases hb0 : s0.lockL = some b
    · exact hval b (ih b hb0)
    · have hbe : b = e.tid := by
        cases hs <;> simp_all [State.setPc, State.setSt, State.setIdx]
      subst hbe
      exact hval _ (by rw [ht]; simp)

theorem runC_free {pc : PC} (h : runC pc = true) :
    live pc = true ∧ sleeping pc = false ∧ holdsB pc = false ∧ needsL pc = false ∧ holdsL pc = false := by
  cases pc <;> simp_all [runC, live, sleeping, holdsB, needsL, holdsL]

theorem stOk_two {pc : PC} (h : StOk pc 2) : runC pc = true := by
  cases pc <;> simp_all [StOk, runC]

theorem pendPc_free {pc : PC} (h : isPendPc pc = true) :
    live pc = true ∧ sleeping pc = false ∧ holdsB pc = false ∧ needsL pc = false := by
  cases pc <;> simp_all [isPendPc, live, sleeping, holdsB, needsL]

theorem holdsL_free {pc : PC} (h : holdsL pc = true) : live pc = true ∧ needsL pc = false := by
  cases pc <;> simp_all [holdsL, live, needsL]

/-- Progress: some thread can take a step that is not a spurious wake-up. -/
theorem progress {N : Nat} {s : State} (hr : Reach N s)
    (hslots : ∀ (t : Nat) (x : Thr), s.thr[t]? = some x → x.pc = .addA →
      ∃ (u : Nat) (y : Thr), s.thr[u]? = some y ∧ y.pc = .unborn)
    (hlive : ∃ (w : Nat) (x : Thr), s.thr[w]? = some x ∧ live x.pc = true) :
    ∃ (e : Event) (s' : State), e.act ≠ .spur ∧ accept s e = .ok s' := by
  have h := hr.inv
  have h2 := hr.inv2
  cases hB : s.lockB with
  | some b =>
    cases hx : s.thr[b]? with
    | none => exact absurd hx (hr.lockB_valid b hB)
    | some x => exact holderB_enabled h hx ((h.loc b x hx).2.1.mpr hB)
  | none =>
    have nobodyB : ∀ (w : Nat) (x : Thr), s.thr[w]? = some x → holdsB x.pc = false := by
      intro w x hx
      cases hh : holdsB x.pc
      · rfl
      · have := (h.loc w x hx).2.1.mp hh; rw [hB] at this; cases this
    cases hL : s.lockL with
    | some l =>
      cases hx : s.thr[l]? with
      | none => exact absurd hx (hr.lockL_valid l hL)
      | some x =>
        have hhl : holdsL x.pc = true := (h.loc l x hx).1.mpr hL
        obtain ⟨hlv, hnl⟩ := holdsL_free hhl
        cases hsl : sleeping x.pc
        · exact enabled_of h h2 hB hx hlv hsl (nobodyB l x hx) (by rw [hnl]; intro e; cases e)
            (hslots l x hx)
        · -- the initiator sleeps in `cv_notify.wait`: somebody still has to report, and can
          obtain ⟨pc, st, idx⟩ := x
          cases pc <;> simp [sleeping, holdsL] at hsl hhl
          rename_i r
          rcases h2.waitN l r (pcOf_eq hx) with hlt | ⟨b, q, hb, -, -⟩
          · have hC := h.cnt
            have hph := (h.loc l _ hx).2.2.2.2.2.2
            simp [PhOk] at hph
            rw [cntOk_iff, hph.1] at hC
            simp only [CntTarget] at hC
            have hpos : 0 < s.thr.countP isPend := by omega
            rw [List.countP_pos_iff] at hpos
            obtain ⟨y, hy, hyp⟩ := hpos
            obtain ⟨u, hu⟩ := List.getElem?_of_mem hy
            simp [isPend] at hyp
            rcases hyp with h2st | hpp
            · have hrc := stOk_two (by have := (h.loc u y hu).2.2.1; rwa [h2st] at this)
              obtain ⟨a1, a2, a3, a4, -⟩ := runC_free hrc
              exact enabled_of h h2 hB hu a1 a2 a3 (by rw [a4]; intro e; cases e) (hslots u y hu)
            · obtain ⟨a1, a2, a3, a4⟩ := pendPc_free hpp
              exact enabled_of h h2 hB hu a1 a2 a3 (by rw [a4]; intro e; cases e) (hslots u y hu)
          · rw [hB] at hb; cases hb
    | none =>
      obtain ⟨w, x, hx, hlv⟩ := hlive
      obtain ⟨hid, hrt⟩ := h.nolock hL
      have hna : s.armed = false := by
        cases ha : s.armed
        · rfl
        · exact absurd hid (h.armedIff.mp ha)
      have hns : sleeping x.pc = false := by
        cases hsl : sleeping x.pc
        · rfl
        · exfalso
          obtain ⟨pc, st, idx⟩ := x
          cases pc <;> simp [sleeping] at hsl
          · rcases h2.waitW w _ (pcOf_eq hx) rfl with h1 | ⟨b, hb, -⟩
            · rw [hna] at h1; cases h1
            · rw [hB] at hb; cases hb
          · rcases h2.waitW w _ (pcOf_eq hx) rfl with h1 | ⟨b, hb, -⟩
            · rw [hna] at h1; cases h1
            · rw [hB] at hb; cases hb
          · have := (h.loc w _ hx).1.mp rfl; rw [hL] at this; cases this
      exact enabled_of h h2 hB hx hlv hns (nobodyB w x hx) (fun _ => hL) (hslots w x hx)

/-- `disarm`: after its `notify_all` nobody is left in the wait set of `cv_wakeup`, the barrier is unarmed, and
no state byte carries a request bit. -/
theorem all_resume_notify {N : Nat} {s : State} (hr : Reach N s) {i k : Nat} {s' : State} (ha : accept s ⟨i, .naW k⟩ = .ok s') :
    s'.thr.countP isWaitW = 0 ∧ s'.armed = false ∧ ∀ (u : Nat) (y : Thr), s'.thr[u]? = some y → y.st = 0 ∨ y.st = 1 := by
  have hr' : Reach N s' := Reach.step hr ha
  have h' := hr'.inv
  obtain ⟨pc, st, idx, ht, hs⟩ := accept_step ha
  have hpc : pc = .disB1 := by
    unfold accept at ha; simp only at ha; rw [ht] at ha; simp only at ha
    cases pc <;> simp [stepAt] at ha
    rfl
  subst hpc
  have hs' : s' = { s with thr := s.thr.map wakeW }.setPc i .disB2 := by
    unfold accept at ha; simp only at ha; rw [ht] at ha; simp only [stepAt] at ha
    split at ha <;> simp at ha
    exact ha.symm
  have hid : s'.phase = .idle := by
    have := (hr.inv.loc i _ ht).2.2.2.2.2.2
    simp [PhOk] at this
    rw [hs']; exact this.1
  refine ⟨?_, ?_, ?_⟩
  · rw [hs']
    simp only [State.setPc]
    rw [List.countP_eq_zero]
    intro y hy
    obtain ⟨u, hu⟩ := List.getElem?_of_mem hy
    rw [List.getElem?_modify, List.getElem?_map] at hu
    cases hx : s.thr[u]? with
    | none => rw [hx] at hu; simp at hu
    | some x =>
      rw [hx] at hu; simp at hu; subst hu
      obtain ⟨pcx, stx, idxx⟩ := x
      by_cases hiu : i = u <;> cases pcx <;> simp [hiu, wakeW, isWaitW]
  · cases ha' : s'.armed
    · rfl
    · exact absurd hid (h'.armedIff.mp ha')
  · intro u y hy
    have := (h'.loc u y hy).2.2.2.2.1
    rw [hid, reqBit_iff] at this
    simp [PhC] at this
    omega

end Dora.Stw
