import DoraModel.Stw.InvStep6
/-! # C04 — small facts used by the property theorems -/
namespace Dora.Stw

theorem runC_st {pc : PC} {st : Nat} (hr : runC pc = true) (h : StOk pc st) : st = 0 ∨ st = 2 := by
  cases pc <;> simp_all [runC, StOk]

/-- the owner recorded for the barrier mutex is a thread slot -/
theorem Reach.lockB_valid {N : Nat} {s : State} (hr : Reach N s) : ∀ b, s.lockB = some b → s.thr[b]? ≠ none := by
  induction hr with
  | init => intro b hb; simp [Dora.Stw.init] at hb
  | step hr' ha ih =>
    rename_i s0 s1 e
    intro b hb1
    obtain ⟨pc, st, idx, ht, hs⟩ := accept_step ha
    have hlen : s1.thr.length = s0.thr.length := by
      cases hs <;> simp [State.setPc, State.setSt, State.setIdx]
    have hval : ∀ u : Nat, s0.thr[u]? ≠ none → s1.thr[u]? ≠ none := by
      intro u hu
      have : u < s0.thr.length := by
        rcases Nat.lt_or_ge u s0.thr.length with h1 | h1
        · exact h1
        · exact absurd (List.getElem?_eq_none h1) hu
      rw [← hlen] at this
      simp [List.getElem?_eq_getElem this]
    by_cases hb0 : s0.lockB = some b
    · exact hval b (ih b hb0)
    · have hbe : b = e.tid := by
        cases hs <;> simp_all [State.setPc, State.setSt, State.setIdx]
      subst hbe
      exact hval _ (by rw [ht]; simp)

end Dora.Stw
