/-!
# C04 — model of the stop-the-world protocol
(`dora-runtime/src/safepoint.rs`: `stop_the_world`, `invoke_safepoint_operation`, `stop_threads`,
`resume_threads`, `safepoint_slow`; `dora-runtime/src/threads.rs`: `DoraThread::{park, park_slow, unpark,
unpark_slow}`, `parked_scope`, `Barrier::{arm, disarm, notify_park, wait_in_safepoint, wait_in_unpark,
wait_until_threads_stopped}`, `Threads::{add_thread, remove_current_thread}`; the spawning sequence of
`stdlib.rs: spawn_thread / thread_main`; `Runtime::set_state`)

Transition system for `N` thread slots, ONE shim operation per step (DESIGN Appendix A.2): every atomic
operation on a state byte / the runtime state / `index_in_thread_list` / `next_thread_id`, taking and dropping
the thread-list lock `L` and the barrier lock `B`, `wait` / `notify_one` / `notify_all` on the barrier's
`cv_wakeup` (`W`) and `cv_notify` (`N`), `notify_all` on `cv_join` (`J`).  Data protected by a mutex
(`BarrierData {armed, stopped}`, the thread vector) changes together with the shim operation that follows the
Rust statement (the owner of the mutex is the only one who can see it).

A thread in its mutator region (`mut`) may: touch the heap, poll (load its state byte; ≠ Running →
`safepoint_slow`), call native code inside `parked_scope`, request a stop-the-world operation, spawn a thread
(`DoraThread::new(Parked)`, `add_thread`, OS spawn; the child's first action is `unpark`), or exit
(`remove_current_thread`).  Which of these it starts is announced by a `beg` annotation of the harness.

`phase` is a ghost variable: the progress of the (unique, it holds `L`) initiator between `arm` and `disarm`.
It is written only by the initiator's own steps and never read by a guard.

A failing `assert!` / `assert_eq!` / `debug_assert!` / `expect` / `unreachable!` of the Rust code is the pc
`panicked` (never a default value); `Props/C04.lean` proves it unreachable.

Executable: `accept : State → Event → Except String State`.  Imports nothing outside core Lean.
-/
namespace Dora.Stw

/-- which `parked_scope` callback -/
inductive Ctx where
  /-- a native call (`stdlib/io.rs`, trampolines) -/
  | nat
  /-- `stop_the_world` -/
  | stw
  /-- `Threads::add_thread(u)` -/
  | add (u : Nat)
  deriving DecidableEq, Repr, Hashable, Inhabited

/-- where `park` / `unpark` return to -/
inductive Ret where
  | scope (c : Ctx)
  /-- `remove_current_thread` (park only) -/
  | exit
  /-- `safepoint_slow` (unpark only) -/
  | slow
  /-- `thread_main` of a new thread (unpark only) -/
  | start
  deriving DecidableEq, Repr, Hashable, Inhabited

/-- Program counter of one thread.  `[L]` holds `Threads::threads`, `[B]` holds `Barrier::data`. -/
inductive PC where
  /-- slot not used yet -/
  | unborn
  /-- `DoraThread::new(rt, Parked)` done by the parent, not yet running -/
  | embryo
  /-- registered (`add_thread` pushed it), OS thread not spawned yet -/
  | ready
  /-- mutator region -/
  | mut
  /-- poll: before the load of the own state byte -/
  | poll0
  /-- `safepoint_slow`: before `state.swap(Safepoint)` -/
  | pollSlow
  /-- `wait_in_safepoint`: before `data.lock()` -/
  | spB0
  /-- [B] armed asserted, `stopped += 1` done; before `cv_notify.notify_one()` -/
  | spB1
  /-- [B] loop head `while data.is_armed()` -/
  | spB2
  /-- in `cv_wakeup.wait` -/
  | spWait
  /-- signalled, has to re-acquire `B` -/
  | spWoken
  /-- `parked_scope`: before `assert!(thread.is_running())` (a load) -/
  | ps0 (c : Ctx)
  /-- `park`: before `compare_exchange(Running, Parked)` -/
  | park0 (r : Ret)
  /-- `park_slow`: before `compare_exchange(SafepointRequested, ParkedSafepointRequested)` -/
  | parkS (r : Ret)
  /-- `notify_park`: before `data.lock()` -/
  | parkB0 (r : Ret)
  /-- [B] armed asserted, `stopped += 1` done; before `notify_one` -/
  | parkB1 (r : Ret)
  /-- [B] before the guard is dropped -/
  | parkB2 (r : Ret)
  /-- inside the native call (parked) -/
  | natIn
  /-- `unpark`: before `compare_exchange(Parked, Running)` -/
  | unp0 (r : Ret)
  /-- `unpark_slow`: loop head, before `compare_exchange(Parked, Running)` -/
  | unpS (r : Ret)
  /-- `wait_in_unpark`: before `data.lock()` -/
  | unpB0 (r : Ret)
  /-- [B] loop head `while data.is_armed()` -/
  | unpB1 (r : Ret)
  | unpWait (r : Ret)
  | unpWoken (r : Ret)
  /-- `parked_scope`: before the final `assert!(thread.is_running())` -/
  | psEnd (c : Ctx)
  /-- spawn: before `next_thread_id.fetch_add` (`DoraThread::new`) -/
  | spawnNew
  /-- `add_thread`: before `assert!(thread.is_parked())` (a load of the NEW thread's state) -/
  | addA
  /-- `add_thread` callback: before `threads.lock()` -/
  | addL0 (u : Nat)
  /-- [L] before `set_index_in_thread_list` (a store) + `push` -/
  | addL1 (u : Nat)
  /-- [L] before the guard is dropped -/
  | addL2 (u : Nat)
  /-- before the OS spawn of the child (whose first action is `thread.unpark(rt)`: pc `unp0 .start`) -/
  | spawnGo (u : Nat)
  /-- `stop_the_world` callback: before `rt.threads.threads.lock()` -/
  | stwL0
  /-- [L] before the `len == 1` decision -/
  | stwL1
  /-- [L] single-thread shortcut: inside the operation -/
  | opS
  /-- [L][B] `arm` done, before its guard is dropped -/
  | armB
  /-- [L] `stop_threads` loop: `k` threads done, `r` = `running` -/
  | fo (k r : Nat)
  /-- [L][B] `wait_until_threads_stopped(r)`: loop head -/
  | wuB1 (r : Nat)
  /-- [L] in `cv_notify.wait` -/
  | wuWait (r : Nat)
  | wuWoken (r : Nat)
  /-- [L] before `rt.set_state(Safepoint)` -/
  | rtS1
  /-- [L] inside the operation -/
  | op
  /-- [L] `resume_threads` loop: `k` threads done -/
  | rs (k : Nat)
  /-- [L][B] `disarm` done, before `cv_wakeup.notify_all()` -/
  | disB1
  /-- [L][B] before the guard is dropped -/
  | disB2
  /-- [L] before the list guard is dropped (end of `stop_the_world`'s callback) -/
  | stwUL
  /-- `remove_current_thread`: before `threads.lock()` -/
  | rmL0
  /-- [L] before `index_in_thread_list.load` -/
  | rmL1
  /-- [L] index `r` loaded and `threads[r]` asserted to be this thread -/
  | rmL1a (r : Nat)
  /-- [L] removed; before `cv_join.notify_all()` -/
  | rmL2
  /-- [L] before the guard is dropped -/
  | rmL3
  /-- thread has left -/
  | dead
  /-- an assertion of the Rust code failed -/
  | panicked
  deriving DecidableEq, Repr, Hashable, Inhabited

/-- ghost: progress of the initiator between `arm` and `disarm` -/
inductive Phase where
  | idle
  /-- armed; request bit set in `list[0..k)`, `r` of them were Running -/
  | req (k r : Nat)
  /-- `wait_until_threads_stopped` returned; until `set_state(Running)` -/
  | oper
  /-- `resume_threads`: `list[0..k)` are back to Parked -/
  | res (k : Nat)
  deriving DecidableEq, Repr, Hashable, Inhabited

structure Thr where
  pc : PC
  /-- `ThreadLocalData::state`: 0 Running, 1 Parked, 2 SafepointRequested, 3 ParkedSafepointRequested, 4 Safepoint -/
  st : Nat
  /-- `index_in_thread_list` -/
  idx : Nat
  deriving DecidableEq, Repr, Hashable, Inhabited

inductive Act where
  /-- harness annotation: the mutator starts 0 = poll, 1 = native call, 2 = stop-the-world, 3 = spawn, 4 = exit -/
  | beg (k : Nat)
  /-- heap access of a mutator -/
  | touch
  /-- heap access of the operation -/
  | opTouch
  | yield
  | loadS (u rd : Nat)
  /-- `compare_exchange` on `u`'s state: value read, value written (`none` = failed) -/
  | casS (u rd : Nat) (wr : Option Nat)
  | swapS (u rd wr : Nat)
  /-- `fetch_or` -/
  | forS (u rd wr : Nat)
  /-- `Runtime::set_state` (a swap) -/
  | swapRT (rd wr : Nat)
  /-- `next_thread_id.fetch_add(1)` -/
  | fetchX
  | loadI (u rd : Nat)
  | storeI (u wr : Nat)
  | lockL | unlockL | lockB | unlockB | relockB
  | waitW | waitN
  /-- spurious wake-up of the acting thread -/
  | spur
  | n1N (woken : Option Nat)
  | naW (k : Nat)
  | naJ (k : Nat)
  /-- OS spawn of thread `u` -/
  | spawn (u : Nat)
  deriving DecidableEq, Repr, Hashable, Inhabited

structure Event where
  tid : Nat
  act : Act
  deriving DecidableEq, Repr, Hashable

structure State where
  thr : List Thr
  /-- `Threads::threads` (indices of the registered threads, in vector order) -/
  list : List Nat
  /-- `BarrierData` -/
  armed : Bool
  stopped : Nat
  /-- owner of `Barrier::data` -/
  lockB : Option Nat
  /-- owner of `Threads::threads` -/
  lockL : Option Nat
  /-- `Runtime::state`: 0 Running, 1 Safepoint -/
  rt : Nat
  /-- ghost -/
  phase : Phase
  /-- ghost: completed operations -/
  ops : Nat
  deriving DecidableEq, Repr, Hashable

/-- `execute_on_main`: thread 0 is registered and Running (`add_main_thread`), all other slots unused;
a `DoraThread` is created Parked. -/
def init (N : Nat) : State :=
  { thr := ⟨.mut, 0, 0⟩ :: List.replicate (N - 1) ⟨.unborn, 1, 0⟩
    list := [0], armed := false, stopped := 0, lockB := none, lockL := none, rt := 0, phase := .idle, ops := 0 }

def State.setPc (s : State) (t : Nat) (pc : PC) : State :=
  { s with thr := s.thr.modify t (fun x => { x with pc := pc }) }

def State.setSt (s : State) (u : Nat) (v : Nat) : State :=
  { s with thr := s.thr.modify u (fun x => { x with st := v }) }

def State.setIdx (s : State) (u : Nat) (v : Nat) : State :=
  { s with thr := s.thr.modify u (fun x => { x with idx := v }) }

def State.stOf (s : State) (u : Nat) : Option Nat := (s.thr[u]?).map (·.st)
def State.pcOf (s : State) (u : Nat) : Option PC := (s.thr[u]?).map (·.pc)
def State.idxOf (s : State) (u : Nat) : Option Nat := (s.thr[u]?).map (·.idx)

/-- effect of `cv_wakeup.notify_all()` on one thread -/
def wakeW : Thr → Thr
  | ⟨.spWait, st, i⟩ => ⟨.spWoken, st, i⟩
  | ⟨.unpWait r, st, i⟩ => ⟨.unpWoken r, st, i⟩
  | x => x

def isWaitW : Thr → Bool
  | ⟨.spWait, _, _⟩ => true
  | ⟨.unpWait _, _, _⟩ => true
  | _ => false

def isWaitN : Thr → Bool
  | ⟨.wuWait _, _, _⟩ => true
  | _ => false

/-- where `park` continues once the thread is parked -/
def afterPark : Ret → PC
  | .scope .nat => .natIn
  | .scope .stw => .stwL0
  | .scope (.add u) => .addL0 u
  | .exit => .rmL0
  | _ => .panicked

/-- where `unpark` continues once the thread is running -/
def afterUnpark : Ret → PC
  | .scope c => .psEnd c
  | .slow => .mut
  | .start => .mut
  | .exit => .panicked

/-- what follows `parked_scope` -/
def afterScope : Ctx → PC
  | .nat => .mut
  | .stw => .mut
  | .add u => .spawnGo u

/-- `ThreadState::is_running` / `is_parked` on the byte -/
def isRunningSt (v : Nat) : Bool := v == 0 || v == 2
def isParkedSt (v : Nat) : Bool := v == 1 || v == 3

/-- One step of thread `t` (record `x`, `x.pc` = its pc). `.error` = the model does not allow this event here. -/
def stepAt (s : State) (t : Nat) (x : Thr) : PC → Act → Except String State
  -- ───────── mutator region
  | .mut, .touch => .ok s
  | .mut, .beg k =>
      match k with
      | 0 => .ok (s.setPc t .poll0)
      | 1 => .ok (s.setPc t (.ps0 .nat))
      | 2 => .ok (s.setPc t (.ps0 .stw))
      | 3 => .ok (s.setPc t .spawnNew)
      | 4 => .ok (s.setPc t (.park0 .exit))
      | _ => .error "mut/beg: unknown operation"
  -- poll: `cmp byte [tld+state], 0; jne slow`
  | .poll0, .loadS u rd =>
      if u = t ∧ rd = x.st then .ok (s.setPc t (if rd = 0 then .mut else .pollSlow))
      else .error "poll0/loadS: not the own state byte, or value differs"
  -- `safepoint_slow`: swap(Safepoint); assert_eq!(state, SafepointRequested)
  | .pollSlow, .swapS u rd wr =>
      if u = t ∧ rd = x.st ∧ wr = 4 then
        .ok (if rd = 2 then (s.setSt t 4).setPc t .spB0 else s.setPc t .panicked)
      else .error "pollSlow/swapS: not swap(own state, Safepoint), or value differs"
  -- `wait_in_safepoint`
  | .spB0, .lockB =>
      if s.lockB = none then
        (if s.armed then .ok ({ s with lockB := some t, stopped := s.stopped + 1 }.setPc t .spB1)
         else .ok (s.setPc t .panicked))
      else .error "spB0/lockB: B is held"
  | .spB1, .n1N w =>
      match w with
      | some i =>
        (match s.pcOf i with
         | some (.wuWait r) => .ok ((s.setPc i (.wuWoken r)).setPc t .spB2)
         | _ => .error "spB1/n1N: the thread named as woken is not waiting on cv_notify")
      | none =>
        if s.thr.countP isWaitN = 0 then .ok (s.setPc t .spB2)
        else .error "spB1/n1N: nobody woken although a thread waits on cv_notify (lost notification)"
  | .spB2, .waitW =>
      if s.armed then .ok ({ s with lockB := none }.setPc t .spWait)
      else .error "spB2/waitW: barrier is not armed, the code leaves the loop"
  | .spB2, .unlockB =>
      if ¬ s.armed then .ok ({ s with lockB := none }.setPc t (.unp0 .slow))
      else .error "spB2/unlockB: barrier is armed, the code waits"
  | .spWait, .spur => .ok (s.setPc t .spWoken)
  | .spWoken, .relockB =>
      if s.lockB = none then .ok ({ s with lockB := some t }.setPc t .spB2) else .error "spWoken/relockB: B is held"
  -- ───────── parked_scope
  | .ps0 c, .loadS u rd =>
      if u = t ∧ rd = x.st then .ok (s.setPc t (if isRunningSt rd then .park0 (.scope c) else .panicked))
      else .error "ps0/loadS: not the own state byte, or value differs"
  | .psEnd c, .loadS u rd =>
      if u = t ∧ rd = x.st then .ok (s.setPc t (if isRunningSt rd then afterScope c else .panicked))
      else .error "psEnd/loadS: not the own state byte, or value differs"
  -- ───────── park / park_slow / notify_park
  | .park0 r, .casS u rd wr =>
      if u = t ∧ rd = x.st then
        (if rd = 0 then
          (if wr = some 1 then .ok ((s.setSt t 1).setPc t (afterPark r)) else .error "park0/casS: should have succeeded writing Parked")
         else
          (if wr = none then .ok (s.setPc t (.parkS r)) else .error "park0/casS: should have failed"))
      else .error "park0/casS: not the own state byte, or value differs"
  | .parkS r, .casS u rd wr =>
      if u = t ∧ rd = x.st then
        (if rd = 2 then
          (if wr = some 3 then .ok ((s.setSt t 3).setPc t (.parkB0 r)) else .error "parkS/casS: should have succeeded writing PSR")
         else
          (if wr = none then .ok (s.setPc t .panicked) else .error "parkS/casS: should have failed"))
      else .error "parkS/casS: not the own state byte, or value differs"
  | .parkB0 r, .lockB =>
      if s.lockB = none then
        (if s.armed then .ok ({ s with lockB := some t, stopped := s.stopped + 1 }.setPc t (.parkB1 r))
         else .ok (s.setPc t .panicked))
      else .error "parkB0/lockB: B is held"
  | .parkB1 r, .n1N w =>
      match w with
      | some i =>
        (match s.pcOf i with
         | some (.wuWait q) => .ok ((s.setPc i (.wuWoken q)).setPc t (.parkB2 r))
         | _ => .error "parkB1/n1N: the thread named as woken is not waiting on cv_notify")
      | none =>
        if s.thr.countP isWaitN = 0 then .ok (s.setPc t (.parkB2 r))
        else .error "parkB1/n1N: nobody woken although a thread waits on cv_notify (lost notification)"
  | .parkB2 r, .unlockB => .ok ({ s with lockB := none }.setPc t (afterPark r))
  -- ───────── native call body
  | .natIn, .yield => .ok (s.setPc t (.unp0 (.scope .nat)))
  -- ───────── unpark / unpark_slow / wait_in_unpark
  | .unp0 r, .casS u rd wr =>
      if u = t ∧ rd = x.st then
        (if rd = 1 then
          (if wr = some 0 then .ok ((s.setSt t 0).setPc t (afterUnpark r)) else .error "unp0/casS: should have succeeded")
         else
          (if wr = none then .ok (s.setPc t (.unpS r)) else .error "unp0/casS: should have failed"))
      else .error "unp0/casS: not the own state byte, or value differs"
  | .unpS r, .casS u rd wr =>
      if u = t ∧ rd = x.st then
        (if rd = 1 then
          (if wr = some 0 then .ok ((s.setSt t 0).setPc t (afterUnpark r)) else .error "unpS/casS: should have succeeded")
         else
          (if wr = none then .ok (s.setPc t (if rd = 3 then .unpB0 r else .panicked)) else .error "unpS/casS: should have failed"))
      else .error "unpS/casS: not the own state byte, or value differs"
  | .unpB0 r, .lockB =>
      if s.lockB = none then .ok ({ s with lockB := some t }.setPc t (.unpB1 r)) else .error "unpB0/lockB: B is held"
  | .unpB1 r, .waitW =>
      if s.armed then .ok ({ s with lockB := none }.setPc t (.unpWait r))
      else .error "unpB1/waitW: barrier is not armed, the code leaves the loop"
  | .unpB1 r, .unlockB =>
      if ¬ s.armed then .ok ({ s with lockB := none }.setPc t (.unpS r))
      else .error "unpB1/unlockB: barrier is armed, the code waits"
  | .unpWait r, .spur => .ok (s.setPc t (.unpWoken r))
  | .unpWoken r, .relockB =>
      if s.lockB = none then .ok ({ s with lockB := some t }.setPc t (.unpB1 r)) else .error "unpWoken/relockB: B is held"
  -- ───────── spawn: DoraThread::new(Parked), add_thread, OS spawn
  | .spawnNew, .fetchX => .ok (s.setPc t .addA)
  | .addA, .loadS u rd =>
      match s.thr[u]? with
      | some y =>
        if y.pc = .unborn ∧ rd = y.st then
          .ok (if isParkedSt rd then (s.setPc u .embryo).setPc t (.ps0 (.add u)) else s.setPc t .panicked)
        else .error "addA/loadS: the new thread's slot is in use, or value differs"
      | none => .error "addA/loadS: no such slot"
  | .addL0 u, .lockL =>
      if s.lockL = none then .ok ({ s with lockL := some t }.setPc t (.addL1 u)) else .error "addL0/lockL: L is held"
  | .addL1 u, .storeI v wr =>
      -- (`s.pcOf u = embryo` is a guard of the model, not an assertion of the code: `add_thread` is handed a
      -- thread that is not registered yet)
      if v = u ∧ wr = s.list.length ∧ s.pcOf u = some .embryo then
        .ok ((({ s with list := s.list ++ [u] }.setIdx u wr).setPc u .ready).setPc t (.addL2 u))
      else .error "addL1/storeI: not set_index_in_thread_list(len) of the new thread"
  | .addL2 u, .unlockL => .ok ({ s with lockL := none }.setPc t (.unp0 (.scope (.add u))))
  | .spawnGo u, .spawn v =>
      if v = u ∧ s.pcOf u = some .ready then .ok ((s.setPc u (.unp0 .start)).setPc t .mut)
      else .error "spawnGo/spawn: not the thread that was added"
  -- ───────── stop_the_world
  | .stwL0, .lockL =>
      if s.lockL = none then .ok ({ s with lockL := some t }.setPc t .stwL1) else .error "stwL0/lockL: L is held"
  -- single-thread shortcut: assert_eq!(current_thread(), threads.first()); set_state(Safepoint)
  | .stwL1, .swapRT rd wr =>
      if s.list.length = 1 ∧ rd = s.rt ∧ wr = 1 then
        .ok (if s.list[0]? = some t ∧ rd = 0 then { s with rt := 1 }.setPc t .opS else s.setPc t .panicked)
      else .error "stwL1/swapRT: more than one thread registered, or value differs"
  | .opS, .opTouch => .ok s
  | .opS, .swapRT rd wr =>
      if rd = s.rt ∧ wr = 0 then .ok (if rd = 1 then { s with rt := 0, ops := s.ops + 1 }.setPc t .stwUL else s.setPc t .panicked)
      else .error "opS/swapRT: value differs"
  -- `stop_threads`: `barrier.arm()`
  | .stwL1, .lockB =>
      if s.list.length ≠ 1 ∧ s.lockB = none then
        (if ¬ s.armed ∧ t ∈ s.list then
          .ok ({ s with lockB := some t, armed := true, stopped := 0, phase := .req 0 0 }.setPc t .armB)
         else .ok (s.setPc t .panicked))
      else .error "stwL1/lockB: exactly one thread registered, or B is held"
  | .armB, .unlockB => .ok ({ s with lockB := none }.setPc t (.fo 0 0))
  | .fo k r, .forS u rd wr =>
      match s.list[k]?, s.thr[u]? with
      | some v, some y =>
        if v = u ∧ rd = y.st ∧ wr = rd ||| 2 then
          (if rd = 0 then .ok ({ s with phase := .req (k + 1) (r + 1) }.setSt u wr |>.setPc t (.fo (k + 1) (r + 1)))
           else if rd = 1 then .ok ({ s with phase := .req (k + 1) r }.setSt u wr |>.setPc t (.fo (k + 1) r))
           else .ok (s.setPc t .panicked))
        else .error "fo/forS: not fetch_or(state of list[k], 2), or value differs"
      | _, _ => .error "fo/forS: the loop is over, or no such thread"
  -- `wait_until_threads_stopped(r)`
  | .fo k r, .lockB =>
      if k = s.list.length ∧ s.lockB = none then
        .ok (if s.armed then { s with lockB := some t }.setPc t (.wuB1 r) else s.setPc t .panicked)
      else .error "fo/lockB: the loop is not over, or B is held"
  | .wuB1 r, .waitN =>
      if s.stopped < r then .ok ({ s with lockB := none }.setPc t (.wuWait r))
      else .error "wuB1/waitN: stopped >= running, the code leaves the loop"
  | .wuB1 r, .unlockB =>
      if ¬ s.stopped < r then
        .ok (if s.stopped = r then { s with lockB := none, phase := .oper }.setPc t .rtS1 else s.setPc t .panicked)
      else .error "wuB1/unlockB: stopped < running, the code waits"
  | .wuWait r, .spur => .ok (s.setPc t (.wuWoken r))
  | .wuWoken r, .relockB =>
      if s.lockB = none then .ok ({ s with lockB := some t }.setPc t (.wuB1 r)) else .error "wuWoken/relockB: B is held"
  -- `invoke_safepoint_operation`
  | .rtS1, .swapRT rd wr =>
      if rd = s.rt ∧ wr = 1 then .ok (if rd = 0 then { s with rt := 1 }.setPc t .op else s.setPc t .panicked)
      else .error "rtS1/swapRT: value differs"
  | .op, .opTouch => .ok s
  | .op, .swapRT rd wr =>
      if rd = s.rt ∧ wr = 0 then
        .ok (if rd = 1 then { s with rt := 0, ops := s.ops + 1, phase := .res 0 }.setPc t (.rs 0) else s.setPc t .panicked)
      else .error "op/swapRT: value differs"
  -- `resume_threads`
  | .rs k, .swapS u rd wr =>
      match s.list[k]?, s.thr[u]? with
      | some v, some y =>
        if v = u ∧ rd = y.st ∧ wr = 1 then
          (if rd = 4 ∨ rd = 3 then .ok ({ s with phase := .res (k + 1) }.setSt u 1 |>.setPc t (.rs (k + 1)))
           else .ok (s.setPc t .panicked))
        else .error "rs/swapS: not swap(state of list[k], Parked), or value differs"
      | _, _ => .error "rs/swapS: the loop is over, or no such thread"
  -- `disarm`
  | .rs k, .lockB =>
      if k = s.list.length ∧ s.lockB = none then
        (if s.armed then .ok ({ s with lockB := some t, armed := false, phase := .idle }.setPc t .disB1)
         else .ok (s.setPc t .panicked))
      else .error "rs/lockB: the loop is not over, or B is held"
  | .disB1, .naW k =>
      if k = s.thr.countP isWaitW then .ok ({ s with thr := s.thr.map wakeW }.setPc t .disB2)
      else .error "disB1/naW: number of woken waiters differs"
  | .disB2, .unlockB => .ok ({ s with lockB := none }.setPc t .stwUL)
  | .stwUL, .unlockL => .ok ({ s with lockL := none }.setPc t (.unp0 (.scope .stw)))
  -- ───────── remove_current_thread
  | .rmL0, .lockL =>
      if s.lockL = none then .ok ({ s with lockL := some t }.setPc t .rmL1) else .error "rmL0/lockL: L is held"
  | .rmL1, .loadI u rd =>
      if u = t ∧ rd = x.idx then .ok (s.setPc t (if s.list[rd]? = some t then .rmL1a rd else .panicked))
      else .error "rmL1/loadI: not the own index, or value differs"
  -- `last = threads.pop()`; `if idx != threads.len() { last.set_index(idx); threads[idx] = last }`
  | .rmL1a r, .storeI v wr =>
      match s.list.getLast? with
      | some last =>
        if r + 1 ≠ s.list.length ∧ v = last ∧ wr = r then
          .ok (({ s with list := s.list.dropLast.set r last }.setIdx last r).setPc t .rmL2)
        else .error "rmL1a/storeI: idx is the last index (no store), or not set_index(last, idx)"
      | none => .error "rmL1a/storeI: list is empty"
  | .rmL1a r, .naJ k =>
      if r + 1 = s.list.length ∧ k = 0 then .ok ({ s with list := s.list.dropLast }.setPc t .rmL3)
      else .error "rmL1a/naJ: idx is not the last index (a store comes first), or somebody waits on cv_join"
  | .rmL2, .naJ k =>
      if k = 0 then .ok (s.setPc t .rmL3) else .error "rmL2/naJ: nobody waits on cv_join in this model"
  | .rmL3, .unlockL => .ok ({ s with lockL := none }.setPc t .dead)
  | _, _ => .error "operation not possible at this pc"

/-- Trace acceptor: one event of the real execution against the model. -/
def accept (s : State) (e : Event) : Except String State :=
  match s.thr[e.tid]? with
  | none => .error "no such thread"
  | some x => stepAt s e.tid x x.pc e.act

/-- fold over a trace -/
def runTrace (s : State) : List Event → Option State
  | [] => some s
  | e :: rest =>
    match accept s e with
    | .ok s' => runTrace s' rest
    | .error _ => none

end Dora.Stw
