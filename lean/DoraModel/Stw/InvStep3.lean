import DoraModel.Stw.InvStep2
/-! # C04 — preservation of the invariant: steps that also change another thread's pc (notify, spawn) -/
namespace Dora.Stw

/-- a pc change inside the same classes, in any state -/
theorem Inv.setPc_same {s : State} {t st idx : Nat} {pc0 : PC} (h : Inv s) (ht : s.thr[t]? = some ⟨pc0, st, idx⟩)
    (pc' : PC) (hL : holdsL pc' = holdsL pc0) (hB : holdsB pc' = holdsB pc0) (hin : inList pc' = inList pc0)
    (hst : StOk pc' st) (hp : isPendPc pc' = isPendPc pc0)
    (hpho : PhOk s.phase s.rt s.list.length idx pc') : Inv (s.setPc t pc') := by
  have hl := h.loc t _ ht
  refine Inv.pcStep (pc' := pc') (st' := st) h ht ?_ ?_ rfl rfl rfl rfl rfl ?_ ?_ hin hst ?_ (Iff.rfl) ?_ hpho ?_
  · simp [setPc_thr, ht]
  · intro u hu; simp [setPc_thr, Ne.symm hu]
  · exact Or.inl ⟨hL, rfl⟩
  · exact Or.inl ⟨hB, rfl⟩
  · exact hl.2.2.2.2.2.1
  · simp [isPend, hp]
  · intro hn; exact h.nolock hn

theorem pcOf_some {s : State} {i : Nat} {pc : PC} (h : s.pcOf i = some pc) :
    ∃ st idx, s.thr[i]? = some ⟨pc, st, idx⟩ := by
  unfold State.pcOf at h
  cases hx : s.thr[i]? with
  | none => rw [hx] at h; simp at h
  | some x =>
    rw [hx] at h; simp at h
    obtain ⟨pc0, st, idx⟩ := x
    simp at h; subst h
    exact ⟨st, idx, rfl⟩

theorem thr_setPc_ne {s : State} {i t : Nat} (pc' : PC) (hne : i ≠ t) : (s.setPc i pc').thr[t]? = s.thr[t]? := by
  simp [setPc_thr, hne]

theorem Inv.step_spN1some {s : State} {t st idx i r : Nat} (h : Inv s) (ht : s.thr[t]? = some ⟨.spB1, st, idx⟩)
    (hi : s.pcOf i = some (.wuWait r)) : Inv ((s.setPc i (.wuWoken r)).setPc t .spB2) := by
  obtain ⟨sti, idxi, hi'⟩ := pcOf_some hi
  have hne : i ≠ t := by intro e; subst e; rw [ht] at hi'; cases hi'
  have hli := h.loc i _ hi'
  have h1 := h.setPc_same hi' (.wuWoken r) rfl rfl rfl (by simpa [Loc, StOk] using hli.2.2.1) rfl
    (by simpa [Loc, PhOk] using hli.2.2.2.2.2.2)
  have ht1 : (s.setPc i (.wuWoken r)).thr[t]? = some ⟨.spB1, st, idx⟩ := by rw [thr_setPc_ne _ hne]; exact ht
  have hlt := h1.loc t _ ht1
  exact h1.setPc_same ht1 .spB2 rfl rfl rfl (by simpa [Loc, StOk] using hlt.2.2.1) rfl (by simp [PhOk])

theorem Inv.step_parkN1some {s : State} {t st idx i q : Nat} {r : Ret} (h : Inv s)
    (ht : s.thr[t]? = some ⟨.parkB1 r, st, idx⟩)
    (hi : s.pcOf i = some (.wuWait q)) : Inv ((s.setPc i (.wuWoken q)).setPc t (.parkB2 r)) := by
  obtain ⟨sti, idxi, hi'⟩ := pcOf_some hi
  have hne : i ≠ t := by intro e; subst e; rw [ht] at hi'; cases hi'
  have hli := h.loc i _ hi'
  have h1 := h.setPc_same hi' (.wuWoken q) rfl rfl rfl (by simpa [Loc, StOk] using hli.2.2.1) rfl
    (by simpa [Loc, PhOk] using hli.2.2.2.2.2.2)
  have ht1 : (s.setPc i (.wuWoken q)).thr[t]? = some ⟨.parkB1 r, st, idx⟩ := by rw [thr_setPc_ne _ hne]; exact ht
  have hlt := h1.loc t _ ht1
  exact h1.setPc_same ht1 (.parkB2 r) rfl rfl rfl (by simpa [Loc, StOk] using hlt.2.2.1) rfl (by simp [PhOk])

theorem Inv.step_spawnGo {s : State} {t st idx u : Nat} (h : Inv s) (ht : s.thr[t]? = some ⟨.spawnGo u, st, idx⟩)
    (hi : s.pcOf u = some .ready) : Inv ((s.setPc u (.unp0 .start)).setPc t .mut) := by
  obtain ⟨sti, idxi, hi'⟩ := pcOf_some hi
  have hne : u ≠ t := by intro e; subst e; rw [ht] at hi'; cases hi'
  have hli := h.loc u _ hi'
  have h1 := h.setPc_same hi' (.unp0 .start) rfl rfl rfl (by simpa [Loc, StOk, unpRet] using hli.2.2.1) rfl
    (by simp [PhOk])
  have ht1 : (s.setPc u (.unp0 .start)).thr[t]? = some ⟨.spawnGo u, st, idx⟩ := by rw [thr_setPc_ne _ hne]; exact ht
  have hlt := h1.loc t _ ht1
  exact h1.setPc_same ht1 .mut rfl rfl rfl (by simpa [Loc, StOk] using hlt.2.2.1) rfl (by simp [PhOk])

theorem Inv.step_addReserve {s : State} {t st idx u : Nat} {y : Thr} (h : Inv s) (ht : s.thr[t]? = some ⟨.addA, st, idx⟩)
    (hu : s.thr[u]? = some y) (hy : y.pc = .unborn) : Inv ((s.setPc u .embryo).setPc t (.ps0 (.add u))) := by
  obtain ⟨pcy, sty, idxy⟩ := y
  simp at hy; subst hy
  have hne : u ≠ t := by intro e; subst e; rw [ht] at hu; cases hu
  have hli := h.loc u _ hu
  have h1 := h.setPc_same hu .embryo rfl rfl rfl (by simpa [Loc, StOk] using hli.2.2.1) rfl (by simp [PhOk])
  have ht1 : (s.setPc u .embryo).thr[t]? = some ⟨.addA, st, idx⟩ := by rw [thr_setPc_ne _ hne]; exact ht
  have hlt := h1.loc t _ ht1
  exact h1.setPc_same ht1 (.ps0 (.add u)) rfl rfl rfl (by simpa [Loc, StOk] using hlt.2.2.1) rfl (by simp [PhOk])


theorem wakeW_props (y : Thr) :
    holdsL (wakeW y).pc = holdsL y.pc ∧ holdsB (wakeW y).pc = holdsB y.pc ∧ inList (wakeW y).pc = inList y.pc ∧
    (wakeW y).st = y.st ∧ (wakeW y).idx = y.idx ∧ isPend (wakeW y) = isPend y ∧ (StOk y.pc y.st → StOk (wakeW y).pc y.st) ∧
    (∀ ph rt len, PhOk ph rt len y.idx y.pc → PhOk ph rt len y.idx (wakeW y).pc) := by
  obtain ⟨pc, st, idx⟩ := y
  cases pc <;> simp [wakeW, holdsL, holdsB, inList, isPend, isPendPc, StOk, PhOk]

theorem Inv.wakeAll {s : State} (h : Inv s) : Inv { s with thr := s.thr.map wakeW } := by
  refine ⟨?_, ?_, h.nolock, h.armedIff, ?_⟩
  · intro u x hx
    simp only [List.getElem?_map] at hx
    cases hy : s.thr[u]? with
    | none => rw [hy] at hx; simp at hx
    | some y =>
      rw [hy] at hx; simp at hx; subst hx
      obtain ⟨l1, l2, l3, l4, l5, l6, l7⟩ := h.loc u y hy
      obtain ⟨w1, w2, w3, w4, w5, w6, w7, w8⟩ := wakeW_props y
      refine ⟨by rw [w1]; exact l1, by rw [w2]; exact l2, by rw [w4]; exact w7 l3, by rw [w3, w5]; exact l4, ?_,
        by rw [w4]; exact l6, by rw [w5]; exact w8 _ _ _ l7⟩
      rw [w4, l5, reqBit_iff, reqBit_iff, w3, w5]
  · intro j u hj
    obtain ⟨y, hy, hyin, hyidx⟩ := h.mem j u hj
    obtain ⟨w1, w2, w3, w4, w5, w6, w7, w8⟩ := wakeW_props y
    exact ⟨wakeW y, by simp [List.getElem?_map, hy], by rw [w3]; exact hyin, by rw [w5]; exact hyidx⟩
  · have hc : (s.thr.map wakeW).countP isPend = s.thr.countP isPend := by
      rw [List.countP_map]
      congr 1
      funext y
      exact (wakeW_props y).2.2.2.2.2.1
    exact cntOk_congr (s := s) rfl rfl hc h.cnt

theorem Inv.step_disNotify {s : State} {t st idx : Nat} (h : Inv s) (ht : s.thr[t]? = some ⟨.disB1, st, idx⟩) :
    Inv ({ s with thr := s.thr.map wakeW }.setPc t .disB2) := by
  have h1 := h.wakeAll
  have ht1 : ({ s with thr := s.thr.map wakeW } : State).thr[t]? = some ⟨.disB1, st, idx⟩ := by
    simp [List.getElem?_map, ht, wakeW]
  have hlt := h1.loc t _ ht1
  exact h1.setPc_same ht1 .disB2 rfl rfl rfl (by simpa [Loc, StOk] using hlt.2.2.1) rfl
    (by simpa [Loc, PhOk] using hlt.2.2.2.2.2.2)

end Dora.Stw
