import DoraModel.Stw.LiveStep
/-! # C04 — preservation of the wake-up invariants: the steps that wait, notify, arm, disarm, and create threads -/
namespace Dora.Stw

/-- while a thread that is not in `cv_notify.wait` holds the list lock, nobody waits on `cv_notify` -/
theorem noWaitN_of_holder {s : State} (h : Inv s) {t : Nat} {x : Thr} (ht : s.thr[t]? = some x)
    (hL : holdsL x.pc = true) (hne : ∀ r, x.pc ≠ .wuWait r) : ∀ (i r : Nat), s.pcOf i ≠ some (.wuWait r) := by
  intro i r hi
  obtain ⟨y, hy, hyp⟩ := pcOf_get hi
  have a := (h.loc i y hy).1.mp (by rw [hyp]; rfl)
  have b := (h.loc t x ht).1.mp hL
  rw [a] at b; simp at b; subst b
  rw [ht] at hy; cases hy
  exact hne r hyp

theorem noWaitN_of_count {s : State} (hc : s.thr.countP isWaitN = 0) : ∀ (i r : Nat), s.pcOf i ≠ some (.wuWait r) := by
  intro i r hi
  obtain ⟨y, hy, hyp⟩ := pcOf_get hi
  rw [List.countP_eq_zero] at hc
  have := hc y (List.mem_of_getElem? hy)
  obtain ⟨pc, st, idx⟩ := y
  simp at hyp; subst hyp
  simp [isWaitN] at this

def quiet (p : PC) : Prop := (∀ r, p ≠ .wuWait r) ∧ isNotifier p = false ∧ p ≠ .disB1 ∧ isWaitWpc p = false

/-- two threads change their pcs, none of the pcs involved has to do with waiting or notifying: the two wait
invariants are kept; the thread-creation part is the caller's. -/
theorem Inv2.twoStep {s s' : State} {t u : Nat} {pc pc' q q' : PC} (h2 : Inv2 s)
    (hpt : s.pcOf t = some pc) (hpu : s.pcOf u = some q)
    (hoth : ∀ w, w ≠ t → w ≠ u → s'.pcOf w = s.pcOf w)
    (hselfT : s'.pcOf t = some pc') (hselfU : s'.pcOf u = some q')
    (e1 : s'.stopped = s.stopped) (e2 : s'.armed = s.armed) (e3 : s'.lockB = s.lockB)
    (k1 : quiet pc) (k2 : quiet pc') (k3 : quiet q) (k4 : quiet q')
    (hctx : ∀ (w : Nat) (p : PC) (v : Nat) (b : Bool), s'.pcOf w = some p → ctxOf p = some (v, b) →
      s'.pcOf v = some (slotPc b))
    (huniq : ∀ (t1 t2 : Nat) (q1 q2 : PC) (v : Nat) (p1 p2 : Bool), s'.pcOf t1 = some q1 → s'.pcOf t2 = some q2 →
      ctxOf q1 = some (v, p1) → ctxOf q2 = some (v, p2) → t1 = t2) : Inv2 s' := by
  have old : ∀ (w : Nat) (p : PC), s'.pcOf w = some p → ¬ quiet p → w ≠ t ∧ w ≠ u ∧ s.pcOf w = some p := by
    intro w p hp hq
    have h1 : w ≠ t := by intro e; subst e; rw [hselfT] at hp; cases hp; exact hq k2
    have h2' : w ≠ u := by intro e; subst e; rw [hselfU] at hp; cases hp; exact hq k4
    exact ⟨h1, h2', by rw [← hoth w h1 h2']; exact hp⟩
  have new : ∀ (w : Nat) (p : PC), s.pcOf w = some p → ¬ quiet p → s'.pcOf w = some p := by
    intro w p hp hq
    have h1 : w ≠ t := by intro e; subst e; rw [hpt] at hp; cases hp; exact hq k1
    have h2' : w ≠ u := by intro e; subst e; rw [hpu] at hp; cases hp; exact hq k3
    rw [hoth w h1 h2']; exact hp
  refine ⟨?_, ?_, hctx, huniq⟩
  · intro i r hi
    obtain ⟨-, -, hi0⟩ := old i _ hi (fun hq => hq.1 r rfl)
    rcases h2.waitN i r hi0 with h1 | ⟨b, p, hb, hp, hn⟩
    · left; rw [e1]; exact h1
    · right; exact ⟨b, p, by rw [e3]; exact hb, new b p hp (fun hq => by rw [hq.2.1] at hn; cases hn), hn⟩
  · intro i p hi hp
    obtain ⟨-, -, hi0⟩ := old i _ hi (fun hq => by rw [hq.2.2.2] at hp; cases hp)
    rcases h2.waitW i p hi0 hp with h1 | ⟨b, hb, hd⟩
    · left; rw [e2]; exact h1
    · right; exact ⟨b, by rw [e3]; exact hb, new b _ hd (fun hq => hq.2.2.1 rfl)⟩


set_option hygiene false in
macro "self2" : tactic => `(tactic| (
  simp only [pcOf_setPc, pcOf_setSt, pcOf_setIdx]; simp [State.pcOf, ht, afterScope, afterPark, afterUnpark]))

set_option hygiene false in
macro "oth2" : tactic => `(tactic| (
  intro u hu; simp only [pcOf_setPc, pcOf_setSt, pcOf_setIdx]; simp [State.pcOf, Ne.symm hu]))

set_option hygiene false in
macro "lockB2" : tactic => `(tactic| (
  have hl := h.loc t _ ht
  simp [Loc, holdsL, holdsB] at hl; simp [holdsB, State.setPc, *]))

variable {s : State} {t st idx : Nat}

theorem Inv2.step_spLock (h2 : Inv2 s) (h : Inv s) (ht : s.thr[t]? = some ⟨.spB0, st, idx⟩) (hb : s.lockB = none) :
    Inv2 ({ s with lockB := some t, stopped := s.stopped + 1 }.setPc t .spB1) :=
  Inv2.pcStep (pc' := .spB1) h2 h ht (by self2) (by oth2) (Or.inr (Or.inr hb)) (KeepN.notifier rfl rfl)
    (KeepW.frame rfl (by simp)) (Or.inl (by intro r; simp)) (Or.inl rfl) rfl (by simp)

theorem Inv2.step_parkLock {r : Ret} (h2 : Inv2 s) (h : Inv s) (ht : s.thr[t]? = some ⟨.parkB0 r, st, idx⟩)
    (hb : s.lockB = none) :
    Inv2 ({ s with lockB := some t, stopped := s.stopped + 1 }.setPc t (.parkB1 r)) :=
  Inv2.pcStep (pc' := .parkB1 r) h2 h ht (by self2) (by oth2) (Or.inr (Or.inr hb)) (KeepN.notifier rfl rfl)
    (KeepW.frame rfl (by simp)) (Or.inl (by intro r; simp)) (Or.inl rfl) (by simp [ctxOf]) (by simp)

theorem noWaitN_setPc {pc' : PC} (hc : s.thr.countP isWaitN = 0) (hne : ∀ r, pc' ≠ .wuWait r) :
    ∀ (i r : Nat), (s.setPc t pc').pcOf i ≠ some (.wuWait r) := by
  intro i r hi
  rw [pcOf_setPc] at hi
  by_cases hti : t = i
  · simp [hti] at hi
    exact hne r hi.2
  · simp [hti] at hi; exact noWaitN_of_count hc i r hi

theorem Inv2.step_spN1none (h2 : Inv2 s) (h : Inv s) (ht : s.thr[t]? = some ⟨.spB1, st, idx⟩)
    (hc : s.thr.countP isWaitN = 0) : Inv2 (s.setPc t .spB2) :=
  Inv2.pcStep (pc' := .spB2) h2 h ht (by self2) (by oth2) (Or.inl rfl)
    (KeepN.nobody (noWaitN_setPc hc (by intro r; simp)))
    (KeepW.frame rfl (by simp)) (Or.inl (by intro r; simp)) (Or.inl rfl) rfl (by simp)

theorem Inv2.step_parkN1none {r : Ret} (h2 : Inv2 s) (h : Inv s) (ht : s.thr[t]? = some ⟨.parkB1 r, st, idx⟩)
    (hc : s.thr.countP isWaitN = 0) : Inv2 (s.setPc t (.parkB2 r)) :=
  Inv2.pcStep (pc' := .parkB2 r) h2 h ht (by self2) (by oth2) (Or.inl rfl)
    (KeepN.nobody (noWaitN_setPc hc (by intro r; simp)))
    (KeepW.frame rfl (by simp)) (Or.inl (by intro r; simp)) (Or.inl rfl) (by simp [ctxOf]) (by simp)

theorem Inv2.step_spWaitGo (h2 : Inv2 s) (h : Inv s) (ht : s.thr[t]? = some ⟨.spB2, st, idx⟩) (ha : s.armed = true) :
    Inv2 ({ s with lockB := none }.setPc t .spWait) :=
  Inv2.pcStep (pc' := .spWait) h2 h ht (by self2) (by oth2) (Or.inr (Or.inl rfl)) (KeepN.frame rfl rfl)
    (KeepW.frame rfl (by simp)) (Or.inl (by intro r; simp)) (Or.inr ha) rfl (by simp)

theorem Inv2.step_unpWaitGo {r : Ret} (h2 : Inv2 s) (h : Inv s) (ht : s.thr[t]? = some ⟨.unpB1 r, st, idx⟩)
    (ha : s.armed = true) : Inv2 ({ s with lockB := none }.setPc t (.unpWait r)) :=
  Inv2.pcStep (pc' := .unpWait r) h2 h ht (by self2) (by oth2) (Or.inr (Or.inl rfl)) (KeepN.frame rfl rfl)
    (KeepW.frame rfl (by simp)) (Or.inl (by intro r; simp)) (Or.inr ha) (by simp [ctxOf]) (by simp)

theorem Inv2.step_wuWaitGo {r : Nat} (h2 : Inv2 s) (h : Inv s) (ht : s.thr[t]? = some ⟨.wuB1 r, st, idx⟩)
    (hlt : s.stopped < r) : Inv2 ({ s with lockB := none }.setPc t (.wuWait r)) :=
  Inv2.pcStep (pc' := .wuWait r) h2 h ht (by self2) (by oth2) (Or.inr (Or.inl rfl)) (KeepN.frame rfl rfl)
    (KeepW.frame rfl (by simp)) (Or.inr ⟨r, rfl, hlt⟩) (Or.inl rfl) rfl (by simp)

theorem Inv2.step_arm (h2 : Inv2 s) (h : Inv s) (ht : s.thr[t]? = some ⟨.stwL1, st, idx⟩) (hb : s.lockB = none)
    (h' : Inv ({ s with lockB := some t, armed := true, stopped := 0, phase := .req 0 0 }.setPc t .armB)) :
    Inv2 ({ s with lockB := some t, armed := true, stopped := 0, phase := .req 0 0 }.setPc t .armB) := by
  have ht' : ({ s with lockB := some t, armed := true, stopped := 0, phase := .req 0 0 }.setPc t .armB).thr[t]?
      = some ⟨.armB, st, idx⟩ := by simp [setPc_thr, ht]
  exact Inv2.pcStep (pc' := .armB) h2 h ht (by self2) (by oth2) (Or.inr (Or.inr hb))
    (KeepN.nobody (noWaitN_of_holder h' ht' rfl (by intro r; simp)))
    (KeepW.armed rfl) (Or.inl (by intro r; simp)) (Or.inl rfl) rfl (by simp)

theorem Inv2.step_disarm {k : Nat} (h2 : Inv2 s) (h : Inv s) (ht : s.thr[t]? = some ⟨.rs k, st, idx⟩)
    (hb : s.lockB = none) : Inv2 ({ s with lockB := some t, armed := false, phase := .idle }.setPc t .disB1) :=
  Inv2.pcStep (pc' := .disB1) h2 h ht (by self2) (by oth2) (Or.inr (Or.inr hb)) (KeepN.frame rfl rfl)
    (KeepW.disarming rfl rfl) (Or.inl (by intro r; simp)) (Or.inl rfl) rfl (by simp)

end Dora.Stw
