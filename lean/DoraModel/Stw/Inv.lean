import DoraModel.Stw.Lemmas
/-! # C04 — the inductive invariant of the stop-the-world model and its frame rule -/
namespace Dora.Stw

/-- per-thread part of the invariant -/
def Loc (s : State) (u : Nat) (x : Thr) : Prop :=
  (holdsL x.pc = true ↔ s.lockL = some u) ∧ (holdsB x.pc = true ↔ s.lockB = some u) ∧
  StOk x.pc x.st ∧ (inList x.pc = true → s.list[x.idx]? = some u) ∧
  (2 ≤ x.st ↔ ReqBit s.phase x) ∧ x.st ≤ 4 ∧ PhOk s.phase s.rt s.list.length x.idx x.pc

/-- `stopped` + threads that still have to report = `running` of the initiator -/
def CntOk (s : State) : Prop :=
  match s.phase with
  | .req _ r => s.stopped + s.thr.countP isPend = r
  | _ => s.thr.countP isPend = 0

structure Inv (s : State) : Prop where
  loc : ∀ (u : Nat) (x : Thr), s.thr[u]? = some x → Loc s u x
  /-- every element of the thread list is a registered thread that knows its index -/
  mem : ∀ (j u : Nat), s.list[j]? = some u → ∃ x, s.thr[u]? = some x ∧ inList x.pc = true ∧ x.idx = j
  nolock : s.lockL = none → s.phase = .idle ∧ s.rt = 0
  armedIff : s.armed = true ↔ s.phase ≠ .idle
  cnt : CntOk s

/-- how a lock may change in a step of thread `t` whose pc goes from class `a` to class `a'` -/
def LockTr (a a' : Bool) (l l' : Option Nat) (t : Nat) : Prop :=
  (a' = a ∧ l' = l) ∨ (a = false ∧ a' = true ∧ l = none ∧ l' = some t) ∨ (a = true ∧ a' = false ∧ l' = none)

theorem lockTr_self {a a' : Bool} {l l' : Option Nat} {t : Nat} (h : LockTr a a' l l' t)
    (hold : a = true ↔ l = some t) : (a' = true ↔ l' = some t) := by
  rcases h with ⟨h1, h2⟩ | ⟨h1, h2, h3, h4⟩ | ⟨h1, h2, h3⟩
  · rw [h1, h2]; exact hold
  · simp [h2, h4]
  · simp [h2, h3]

theorem lockTr_other {a a' b : Bool} {l l' : Option Nat} {t u : Nat} (h : LockTr a a' l l' t) (hne : u ≠ t)
    (hold : a = true ↔ l = some t) (holdu : b = true ↔ l = some u) : (b = true ↔ l' = some u) := by
  rcases h with ⟨h1, h2⟩ | ⟨h1, h2, h3, h4⟩ | ⟨h1, h2, h3⟩
  · rw [h2]; exact holdu
  · rw [h4, holdu, h3]; simp; omega
  · have := hold.mp h1
    rw [h3, holdu, this]; simp; omega

theorem phOk_of_not_holdsL {ph : Phase} {rt len idx : Nat} {pc : PC} (h : holdsL pc = false) :
    PhOk ph rt len idx pc := by
  cases pc <;> simp_all [holdsL, PhOk]

/-- the position-dependent part of `ReqBit` -/
def PhC : Phase → Nat → Prop
  | .idle, _ => False
  | .req k _, i => i < k
  | .oper, _ => True
  | .res k, i => k ≤ i

theorem reqBit_iff (ph : Phase) (x : Thr) : ReqBit ph x ↔ (inList x.pc = true ∧ PhC ph x.idx) := by
  cases ph <;> simp [ReqBit, PhC]

theorem thr_eq_set {s s' : State} {t : Nat} {x x' : Thr} (ht : s.thr[t]? = some x)
    (hself : s'.thr[t]? = some x') (hoth : ∀ u, u ≠ t → s'.thr[u]? = s.thr[u]?) : s'.thr = s.thr.set t x' := by
  apply List.ext_getElem?
  intro u
  by_cases hu : u = t
  · subst hu; rw [hself, List.getElem?_set_self (lt_of_get ht)]
  · rw [hoth u hu, List.getElem?_set_ne (by omega)]

theorem countP_set_get {α} (p : α → Bool) {l : List α} {t : Nat} {x : α} (y : α) (h : l[t]? = some x) :
    (l.set t y).countP p + (p x).toNat = l.countP p + (p y).toNat := by
  induction l generalizing t with
  | nil => simp at h
  | cons a l ih =>
    cases t with
    | zero =>
      simp at h; subst h
      simp [List.countP_cons]
      cases p a <;> cases p y <;> simp <;> omega
    | succ t =>
      simp at h
      have := ih h
      simp [List.countP_cons]
      omega

/-- only thread `t` changes its record (`x ↦ x'`), the list stays: the pending count moves by `x`'s and `x'`'s share -/
theorem cnt_one {s s' : State} {t : Nat} {x x' : Thr} (ht : s.thr[t]? = some x)
    (hself : s'.thr[t]? = some x') (hoth : ∀ u, u ≠ t → s'.thr[u]? = s.thr[u]?) :
    s'.thr.countP isPend + (isPend x).toNat = s.thr.countP isPend + (isPend x').toNat := by
  rw [thr_eq_set ht hself hoth]
  exact countP_set_get isPend x' ht

/-- Frame rule: a step in which only thread `t`'s own record changes and the list stays. -/
theorem Inv.frame {s s' : State} {t : Nat} {x x' : Thr} (h : Inv s) (ht : s.thr[t]? = some x)
    (hself : s'.thr[t]? = some x') (hoth : ∀ u, u ≠ t → s'.thr[u]? = s.thr[u]?)
    (hlist : s'.list = s.list) (hidx : x'.idx = x.idx) (hin : inList x'.pc = inList x.pc)
    (hL : LockTr (holdsL x.pc) (holdsL x'.pc) s.lockL s'.lockL t)
    (hB : LockTr (holdsB x.pc) (holdsB x'.pc) s.lockB s'.lockB t)
    (hst : StOk x'.pc x'.st) (hst4 : x'.st ≤ 4) (hreq : 2 ≤ x'.st ↔ 2 ≤ x.st)
    (hphc : ∀ i, i < s.list.length → (PhC s'.phase i ↔ PhC s.phase i))
    (hglob : (s'.phase = s.phase ∧ s'.rt = s.rt) ∨ holdsL x.pc = true)
    (hpho : PhOk s'.phase s'.rt s.list.length x.idx x'.pc)
    (hnl : s'.lockL = none → s'.phase = .idle ∧ s'.rt = 0)
    (harm : s'.armed = true ↔ s'.phase ≠ .idle)
    (hcnt : CntOk s') : Inv s' := by
  have hLt := h.loc t x ht
  refine ⟨?_, ?_, hnl, harm, hcnt⟩
  · intro u y hy
    by_cases hu : u = t
    · subst hu
      rw [hself] at hy; cases hy
      obtain ⟨l1, l2, l3, l4, l5, l6, l7⟩ := hLt
      refine ⟨lockTr_self hL l1, lockTr_self hB l2, hst, ?_, ?_, hst4, ?_⟩
      · rw [hin, hidx, hlist]; exact l4
      · rw [hreq, l5, reqBit_iff, reqBit_iff, hin, hidx]
        constructor
        · rintro ⟨a, b⟩; exact ⟨a, (hphc _ (lt_of_get (l4 a))).mpr b⟩
        · rintro ⟨a, b⟩; exact ⟨a, (hphc _ (lt_of_get (l4 a))).mp b⟩
      · rw [hlist, hidx]; exact hpho
    · rw [hoth u hu] at hy
      obtain ⟨l1, l2, l3, l4, l5, l6, l7⟩ := h.loc u y hy
      refine ⟨lockTr_other hL hu hLt.1 l1, lockTr_other hB hu hLt.2.1 l2, l3, ?_, ?_, l6, ?_⟩
      · rw [hlist]; exact l4
      · rw [l5, reqBit_iff, reqBit_iff]
        constructor
        · rintro ⟨a, b⟩; exact ⟨a, (hphc _ (lt_of_get (l4 a))).mpr b⟩
        · rintro ⟨a, b⟩; exact ⟨a, (hphc _ (lt_of_get (l4 a))).mp b⟩
      · rw [hlist]
        rcases hglob with ⟨g1, g2⟩ | g
        · rw [g1, g2]; exact l7
        · apply phOk_of_not_holdsL
          cases hy' : holdsL y.pc
          · rfl
          · have a := l1.mp hy'
            have b := hLt.1.mp g
            rw [a] at b; simp at b; omega
  · intro j u hj
    rw [hlist] at hj
    obtain ⟨y, hy, hyin, hyidx⟩ := h.mem j u hj
    by_cases hu : u = t
    · subst hu
      rw [ht] at hy; cases hy
      exact ⟨x', hself, by rw [hin]; exact hyin, by rw [hidx]; exact hyidx⟩
    · exact ⟨y, by rw [hoth u hu]; exact hy, hyin, hyidx⟩

end Dora.Stw
