import DoraModel.Stw.InvStep4
/-! # C04 — preservation of the invariant: steps that change the thread list (`add_thread`, `remove_current_thread`) -/
namespace Dora.Stw

/-- bookkeeping for a step taken while the phase is idle that changes the list and some records, but no
state byte, lock, or class of a pc (except registered ↔ not registered, which `hl4` / `hmem` account for) -/
theorem Inv.listStep {s s' : State} (h : Inv s) (hidle : s.phase = .idle)
    (e1 : s'.lockL = s.lockL) (e2 : s'.lockB = s.lockB) (e4 : s'.phase = s.phase) (e5 : s'.rt = s.rt)
    (e6 : s'.armed = s.armed) (e7 : s'.stopped = s.stopped)
    (hrec : ∀ (w : Nat) (x' : Thr), s'.thr[w]? = some x' → ∃ x : Thr, s.thr[w]? = some x ∧ x'.st = x.st ∧ holdsL x'.pc = holdsL x.pc ∧
      holdsB x'.pc = holdsB x.pc ∧ StOk x'.pc x.st ∧ PhOk .idle s.rt s'.list.length x'.idx x'.pc)
    (hl4 : ∀ (w : Nat) (x' : Thr), s'.thr[w]? = some x' → inList x'.pc = true → s'.list[x'.idx]? = some w)
    (hmem : ∀ (j w : Nat), s'.list[j]? = some w → ∃ x' : Thr, s'.thr[w]? = some x' ∧ inList x'.pc = true ∧ x'.idx = j)
    (hc : s'.thr.countP isPend = s.thr.countP isPend) : Inv s' := by
  refine ⟨?_, hmem, by rw [e1, e4, e5]; exact h.nolock, by rw [e6, e4]; exact h.armedIff, cntOk_congr e4 e7 hc h.cnt⟩
  intro w x' hx'
  obtain ⟨x, hx, r1, r2, r3, r4, r5⟩ := hrec w x' hx'
  obtain ⟨l1, l2, l3, l4, l5, l6, l7⟩ := h.loc w x hx
  refine ⟨by rw [r2, e1]; exact l1, by rw [r3, e2]; exact l2, by rw [r1]; exact r4, hl4 w x' hx', ?_, by rw [r1]; exact l6, ?_⟩
  · rw [r1, l5, e4, hidle, reqBit_iff, reqBit_iff]; simp [PhC]
  · rw [e4, e5, hidle]; exact r5

theorem Inv.step_rmLast {s s' : State} {t st idx r : Nat} (h : Inv s) (ht : s.thr[t]? = some ⟨.rmL1a r, st, idx⟩)
    (hr : r + 1 = s.list.length) (hs' : s' = { s with list := s.list.dropLast }.setPc t .rmL3) : Inv s' := by
  have hl := h.loc t _ ht
  obtain ⟨l1, l2, l3, l4, l5, l6, l7⟩ := hl
  simp [PhOk] at l7
  obtain ⟨hidle, hrt, hri⟩ := l7
  subst hri
  have hlt : s.list[r]? = some t := l4 rfl
  have hst1 : st = 1 := by
    simp [hidle, reqBit_iff, PhC] at l5
    simp [StOk] at l3; omega
  have hthr : ∀ w, s'.thr[w]? = (fun x => if t = w then { x with pc := PC.rmL3 } else x) <$> s.thr[w]? := by
    intro w; rw [hs']; exact setPc_thr _ t w _
  have hlist : s'.list = s.list.dropLast := by rw [hs']; rfl
  refine Inv.listStep h hidle (by rw [hs']; rfl) (by rw [hs']; rfl) (by rw [hs']; rfl) (by rw [hs']; rfl)
    (by rw [hs']; rfl) (by rw [hs']; rfl) ?_ ?_ ?_ ?_
  · intro w x' hx'
    rw [hthr w] at hx'
    cases hx : s.thr[w]? with
    | none => rw [hx] at hx'; simp at hx'
    | some x =>
      rw [hx] at hx'; simp at hx'
      refine ⟨x, rfl, ?_⟩
      by_cases h1 : t = w
      · subst h1; rw [ht] at hx; cases hx
        simp at hx'; subst hx'
        simp [holdsL, holdsB, StOk, PhOk, hst1, hrt]
      · simp [h1] at hx'; subst hx'
        have hw := (h.loc w x hx)
        refine ⟨rfl, rfl, rfl, hw.2.2.1, ?_⟩
        apply phOk_of_not_holdsL
        cases hh : holdsL x.pc
        · rfl
        · have a := hw.1.mp hh
          have b := l1.mp rfl
          rw [a] at b; simp at b; exact absurd b.symm h1
  · intro w x' hx' hin
    rw [hthr w] at hx'
    cases hx : s.thr[w]? with
    | none => rw [hx] at hx'; simp at hx'
    | some x =>
      rw [hx] at hx'; simp at hx'
      by_cases h1 : t = w
      · subst h1; rw [ht] at hx; cases hx
        simp at hx'; subst hx'; simp [inList] at hin
      · simp [h1] at hx'; subst hx'
        have hw := (h.loc w x hx).2.2.2.1 hin
        rw [hlist, List.getElem?_dropLast]
        have hlt' := lt_of_get hw
        have hne : x.idx ≠ r := by intro e; rw [e, hlt] at hw; simp at hw; exact h1 hw
        rw [if_pos (by omega)]; exact hw
  · intro j w hj
    rw [hlist, List.getElem?_dropLast] at hj
    split at hj
    · rename_i hjl
      obtain ⟨x, hx, hxin, hxidx⟩ := h.mem j w hj
      have h1 : t ≠ w := by
        intro e; subst e; rw [ht] at hx; cases hx; simp at hxidx; omega
      exact ⟨x, by rw [hthr w, hx]; simp [h1], hxin, hxidx⟩
    · simp at hj
  · have hself : s'.thr[t]? = some ⟨.rmL3, st, r⟩ := by rw [hthr t, ht]; simp
    have hoth : ∀ u, u ≠ t → s'.thr[u]? = s.thr[u]? := by
      intro u hu; rw [hthr u]; simp [Ne.symm hu]
    have := cnt_one ht hself hoth
    simp [isPend, isPendPc] at this
    omega


theorem Inv.step_rmSwap {s s' : State} {t st idx r last : Nat} (h : Inv s) (ht : s.thr[t]? = some ⟨.rmL1a r, st, idx⟩)
    (hlast : s.list.getLast? = some last) (hr : r + 1 ≠ s.list.length)
    (hs' : s' = ({ s with list := s.list.dropLast.set r last }.setIdx last r).setPc t .rmL2) : Inv s' := by
  have hl := h.loc t _ ht
  obtain ⟨l1, l2, l3, l4, l5, l6, l7⟩ := hl
  simp [PhOk] at l7
  obtain ⟨hidle, hrt, hri⟩ := l7
  subst hri
  have hlt : s.list[r]? = some t := l4 rfl
  have hrl := lt_of_get hlt
  rw [List.getLast?_eq_getElem?] at hlast
  obtain ⟨xl, hxl, hxlin, hxlidx⟩ := h.mem _ last hlast
  have hlne : last ≠ t := by
    intro e; subst e; rw [ht] at hxl; cases hxl; simp at hxlidx; omega
  have hst1 : st = 1 := by
    simp [hidle, reqBit_iff, PhC] at l5
    simp [StOk] at l3; omega
  have hthr : ∀ w, s'.thr[w]? = (fun x => if t = w then { x with pc := PC.rmL2 } else x) <$>
      ((fun x => if last = w then { x with idx := r } else x) <$> s.thr[w]?) := by
    intro w; rw [hs', setPc_thr, setIdx_thr]
  have hlist : s'.list = s.list.dropLast.set r last := by rw [hs']; rfl
  have hlen : s'.list.length = s.list.length - 1 := by rw [hlist]; simp
  refine Inv.listStep h hidle (by rw [hs']; rfl) (by rw [hs']; rfl) (by rw [hs']; rfl) (by rw [hs']; rfl)
    (by rw [hs']; rfl) (by rw [hs']; rfl) ?_ ?_ ?_ ?_
  · intro w x' hx'
    rw [hthr w] at hx'
    cases hx : s.thr[w]? with
    | none => rw [hx] at hx'; simp at hx'
    | some x =>
      rw [hx] at hx'; simp at hx'
      refine ⟨x, ?_⟩
      by_cases h1 : t = w
      · subst h1; rw [ht] at hx; cases hx
        simp [hlne] at hx'; subst hx'
        simp [holdsL, holdsB, StOk, PhOk, hst1, hrt]
      · have hw := (h.loc w x hx)
        have hnh : holdsL x.pc = false := by
          cases hh : holdsL x.pc
          · rfl
          · have a := hw.1.mp hh
            have b := l1.mp rfl
            rw [a] at b; simp at b; exact absurd b.symm h1
        by_cases h2 : last = w
        · simp [h1, h2] at hx'; subst hx'
          exact ⟨rfl, rfl, rfl, rfl, hw.2.2.1, phOk_of_not_holdsL hnh⟩
        · simp [h1, h2] at hx'; subst hx'
          exact ⟨rfl, rfl, rfl, rfl, hw.2.2.1, phOk_of_not_holdsL hnh⟩
  · intro w x' hx' hin
    rw [hthr w] at hx'
    cases hx : s.thr[w]? with
    | none => rw [hx] at hx'; simp at hx'
    | some x =>
      rw [hx] at hx'; simp at hx'
      by_cases h1 : t = w
      · subst h1; rw [ht] at hx; cases hx
        simp [hlne] at hx'; subst hx'; simp [inList] at hin
      · by_cases h2 : last = w
        · simp [h1, h2] at hx'; subst hx'
          subst h2
          show s'.list[r]? = some last
          rw [hlist, List.getElem?_set_self (by simp; omega)]
        · simp [h1, h2] at hx'; subst hx'
          have hw := (h.loc w x hx).2.2.2.1 hin
          have hlt' := lt_of_get hw
          have hne : x.idx ≠ r := by intro e; rw [e, hlt] at hw; simp at hw; exact h1 hw
          have hne2 : x.idx ≠ s.list.length - 1 := by intro e; rw [e, hlast] at hw; simp at hw; exact h2 hw
          rw [hlist, List.getElem?_set_ne (by omega), List.getElem?_dropLast, if_pos (by omega)]; exact hw
  · intro j w hj
    have hjl : j < s.list.length - 1 := by have := lt_of_get hj; rw [hlen] at this; exact this
    by_cases hjr : j = r
    · subst hjr
      rw [hlist, List.getElem?_set_self (by simp; omega)] at hj
      simp at hj; subst hj
      exact ⟨{ xl with idx := j }, by rw [hthr last, hxl]; simp [hlne.symm], hxlin, rfl⟩
    · rw [hlist, List.getElem?_set_ne (by omega), List.getElem?_dropLast, if_pos hjl] at hj
      obtain ⟨x, hx, hxin, hxidx⟩ := h.mem j w hj
      have h1 : t ≠ w := by
        intro e; subst e; rw [ht] at hx; cases hx; simp at hxidx; omega
      have h2 : last ≠ w := by
        intro e; subst e; rw [hxl] at hx; cases hx; omega
      exact ⟨x, by rw [hthr w, hx]; simp [h1, h2], hxin, hxidx⟩
  · -- count: `last`'s idx and `t`'s pc do not matter
    have c1 := countP_modify isPend (fun x => { x with idx := r }) hxl
    have hz : (s.thr.modify last (fun x => { x with idx := r }))[t]? = some ⟨.rmL1a r, st, r⟩ := by
      rw [getElem?_modify_ne _ hlne]; exact ht
    have c2 := countP_modify isPend (fun x => { x with pc := PC.rmL2 }) hz
    have : s'.thr = (s.thr.modify last (fun x => { x with idx := r })).modify t (fun x => { x with pc := PC.rmL2 }) := by
      rw [hs']; rfl
    rw [this]
    simp [isPend, isPendPc] at c1 c2
    omega

theorem Inv.step_addPush {s s' : State} {t st idx u : Nat} (h : Inv s) (ht : s.thr[t]? = some ⟨.addL1 u, st, idx⟩)
    (hu : s.pcOf u = some .embryo)
    (hs' : s' = (({ s with list := s.list ++ [u] }.setIdx u s.list.length).setPc u .ready).setPc t (.addL2 u)) : Inv s' := by
  have hl := h.loc t _ ht
  obtain ⟨l1, l2, l3, l4, l5, l6, l7⟩ := hl
  simp [PhOk] at l7
  obtain ⟨hidle, hrt⟩ := l7
  obtain ⟨stu, idxu, hu'⟩ := pcOf_some hu
  have hune : u ≠ t := by intro e; subst e; rw [ht] at hu'; cases hu'
  have hlu := h.loc u _ hu'
  have hstu : stu = 1 := by have := hlu.2.2.1; simpa [StOk] using this
  have hthr : ∀ w, s'.thr[w]? = (fun x => if t = w then { x with pc := PC.addL2 u } else x) <$>
      ((fun x => if u = w then { x with pc := PC.ready } else x) <$>
      ((fun x => if u = w then { x with idx := s.list.length } else x) <$> s.thr[w]?)) := by
    intro w; rw [hs', setPc_thr, setPc_thr, setIdx_thr]
  have hlist : s'.list = s.list ++ [u] := by rw [hs']; rfl
  refine Inv.listStep h hidle (by rw [hs']; rfl) (by rw [hs']; rfl) (by rw [hs']; rfl) (by rw [hs']; rfl)
    (by rw [hs']; rfl) (by rw [hs']; rfl) ?_ ?_ ?_ ?_
  · intro w x' hx'
    rw [hthr w] at hx'
    cases hx : s.thr[w]? with
    | none => rw [hx] at hx'; simp at hx'
    | some x =>
      rw [hx] at hx'; simp at hx'
      refine ⟨x, ?_⟩
      by_cases h1 : t = w
      · subst h1; rw [ht] at hx; cases hx
        simp [hune] at hx'; subst hx'
        simp [holdsL, holdsB, PhOk, hrt]
        simpa [StOk] using l3
      · have hw := (h.loc w x hx)
        have hnh : holdsL x.pc = false := by
          cases hh : holdsL x.pc
          · rfl
          · have a := hw.1.mp hh
            have b := l1.mp rfl
            rw [a] at b; simp at b; exact absurd b.symm h1
        by_cases h2 : u = w
        · subst h2; rw [hu'] at hx; cases hx
          simp [h1] at hx'; subst hx'
          simp [holdsL, holdsB, StOk, PhOk, hstu]
        · simp [h1, h2] at hx'; subst hx'
          exact ⟨rfl, rfl, rfl, rfl, hw.2.2.1, phOk_of_not_holdsL hnh⟩
  · intro w x' hx' hin
    rw [hthr w] at hx'
    cases hx : s.thr[w]? with
    | none => rw [hx] at hx'; simp at hx'
    | some x =>
      rw [hx] at hx'; simp at hx'
      by_cases h2 : u = w
      · subst h2; rw [hu'] at hx; cases hx
        simp [hune.symm] at hx'; subst hx'
        rw [hlist]; simp
      · have hpcin : inList x.pc = true := by
          by_cases h1 : t = w
          · subst h1; rw [ht] at hx; cases hx; rfl
          · simp [h1, h2] at hx'; subst hx'; exact hin
        have hidx : x'.idx = x.idx := by
          by_cases h1 : t = w
          · simp [h1, h2] at hx'; subst hx'; rfl
          · simp [h1, h2] at hx'; subst hx'; rfl
        have hw := (h.loc w x hx).2.2.2.1 hpcin
        rw [hidx, hlist, List.getElem?_append_left (lt_of_get hw)]; exact hw
  · intro j w hj
    rw [hlist, List.getElem?_append] at hj
    split at hj
    · obtain ⟨x, hx, hxin, hxidx⟩ := h.mem j w hj
      have h2 : u ≠ w := by
        intro e; subst e; rw [hu'] at hx; cases hx; simp [inList] at hxin
      by_cases h1 : t = w
      · subst h1; rw [ht] at hx; cases hx
        exact ⟨⟨.addL2 u, st, idx⟩, by rw [hthr t, ht]; simp [hune], rfl, hxidx⟩
      · exact ⟨x, by rw [hthr w, hx]; simp [h1, h2], hxin, hxidx⟩
    · rename_i hjl
      have hj0 : j - s.list.length = 0 := by
        cases hq : j - s.list.length with
        | zero => rfl
        | succ q => rw [hq] at hj; simp at hj
      rw [hj0] at hj; simp at hj; subst hj
      have : j = s.list.length := by omega
      exact ⟨⟨.ready, stu, s.list.length⟩, by rw [hthr u, hu']; simp [hune.symm], rfl, this.symm⟩
  · have c1 := countP_modify isPend (fun x => { x with idx := s.list.length }) hu'
    have hz1 : (s.thr.modify u (fun x => { x with idx := s.list.length }))[u]? = some ⟨.embryo, stu, s.list.length⟩ :=
      getElem?_modify_self _ hu'
    have c2 := countP_modify isPend (fun x => { x with pc := PC.ready }) hz1
    have hz2 : ((s.thr.modify u (fun x => { x with idx := s.list.length })).modify u (fun x => { x with pc := PC.ready }))[t]?
        = some ⟨.addL1 u, st, idx⟩ := by
      rw [getElem?_modify_ne _ hune, getElem?_modify_ne _ hune]; exact ht
    have c3 := countP_modify isPend (fun x => { x with pc := PC.addL2 u }) hz2
    have : s'.thr = ((s.thr.modify u (fun x => { x with idx := s.list.length })).modify u
        (fun x => { x with pc := PC.ready })).modify t (fun x => { x with pc := PC.addL2 u }) := by
      rw [hs']; rfl
    rw [this]
    simp [isPend, isPendPc] at c1 c2 c3
    omega

end Dora.Stw
