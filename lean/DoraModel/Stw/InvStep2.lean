import DoraModel.Stw.InvStep
/-! # C04 — preservation of the invariant: steps that change global data (one thread's record only) -/
namespace Dora.Stw

set_option hygiene false in
/-- apply `Inv.frame` for a step of `t` to record `⟨pc1, st, idx⟩`; leaves the phase / count side conditions -/
macro "framed " pc1:term:max : tactic => `(tactic| (
  have hl := h.loc t _ ht
  have hnl0 := h.nolock
  have harm0 := h.armedIff
  have hself : s'.thr[t]? = some ⟨$pc1, st, idx⟩ := by simp [hs', setPc_thr, ht]
  have hoth : ∀ u, u ≠ t → s'.thr[u]? = s.thr[u]? := by intro u hu; simp [hs', setPc_thr, Ne.symm hu]
  have hc := cnt_one ht hself hoth
  have hC := h.cnt
  simp [Loc, holdsL, holdsB, StOk, PhOk, reqBit_iff] at hl
  refine Inv.frame h ht hself hoth (by rw [hs']; rfl) rfl (by simp [inList]) ?_ ?_ ?_ (by show st ≤ 4; omega) (by rfl) ?_ ?_ ?_ ?_ ?_ ?_
  · simp [hs', LockTr, holdsL, holdsB, State.setPc, *]
  · simp [hs', LockTr, holdsL, holdsB, State.setPc, *]
  · simp [StOk, *] <;> omega))

theorem Inv.step_spLock {s s' : State} {t st idx : Nat} (h : Inv s) (ht : s.thr[t]? = some ⟨.spB0, st, idx⟩)
    (hb : s.lockB = none) (ha : s.armed = true)
    (hs' : s' = { s with lockB := some t, stopped := s.stopped + 1 }.setPc t .spB1) : Inv s' := by
  framed .spB1
  · intro i hi; simp [hs', State.setPc]
  · exact Or.inl ⟨by rw [hs']; rfl, by rw [hs']; rfl⟩
  · simp [PhOk]
  · simpa [hs', State.setPc] using hnl0
  · simpa [hs', State.setPc] using harm0
  · simp [isPend, isPendPc] at hc
    have hne : (st == 2) = false := by simp; omega
    simp [hne] at hc
    unfold CntOk at hC ⊢
    simp only [hs', State.setPc] at hc ⊢
    cases hp : s.phase <;> simp only [hp] at hC ⊢ <;> omega


theorem Inv.step_parkLock {s s' : State} {t st idx : Nat} {r : Ret} (h : Inv s) (ht : s.thr[t]? = some ⟨.parkB0 r, st, idx⟩)
    (hb : s.lockB = none) (ha : s.armed = true)
    (hs' : s' = { s with lockB := some t, stopped := s.stopped + 1 }.setPc t (.parkB1 r)) : Inv s' := by
  framed (.parkB1 r)
  · intro i hi; simp [hs', State.setPc]
  · exact Or.inl ⟨by rw [hs']; rfl, by rw [hs']; rfl⟩
  · simp [PhOk]
  · simpa [hs', State.setPc] using hnl0
  · simpa [hs', State.setPc] using harm0
  · simp [isPend, isPendPc] at hc
    have hne : (st == 2) = false := by simp; omega
    simp [hne] at hc
    unfold CntOk at hC ⊢
    simp only [hs', State.setPc] at hc ⊢
    cases hp : s.phase <;> simp only [hp] at hC ⊢ <;> omega

set_option hygiene false in
/-- the remaining side conditions when `t` holds `L` and the pending count does not change -/
macro "glob_tail" : tactic => `(tactic| (
  · intro i hi; simp [hs', State.setPc, PhC, *] <;> omega
  · exact Or.inr rfl
  · simp [hs', State.setPc, PhOk, *]
  · simp [hs', State.setPc, *]
  · simp [hs', State.setPc, *]
  · simp [isPend, isPendPc] at hc
    unfold CntOk at hC ⊢
    simp only [hs', State.setPc] at hc ⊢
    simp [*] at hC ⊢
    omega))

theorem Inv.step_stwSingle {s s' : State} {t st idx : Nat} (h : Inv s) (ht : s.thr[t]? = some ⟨.stwL1, st, idx⟩)
    (h1 : s.list.length = 1)
    (hs' : s' = { s with rt := 1 }.setPc t .opS) : Inv s' := by
  framed .opS
  glob_tail

theorem Inv.step_opSEnd {s s' : State} {t st idx : Nat} (h : Inv s) (ht : s.thr[t]? = some ⟨.opS, st, idx⟩)
    (hs' : s' = { s with rt := 0, ops := s.ops + 1 }.setPc t .stwUL) : Inv s' := by
  framed .stwUL
  glob_tail

theorem Inv.step_arm {s s' : State} {t st idx : Nat} (h : Inv s) (ht : s.thr[t]? = some ⟨.stwL1, st, idx⟩)
    (hb : s.lockB = none)
    (hs' : s' = { s with lockB := some t, armed := true, stopped := 0, phase := .req 0 0 }.setPc t .armB) : Inv s' := by
  framed .armB
  glob_tail

theorem Inv.step_wuLeave {s s' : State} {t st idx r : Nat} (h : Inv s) (ht : s.thr[t]? = some ⟨.wuB1 r, st, idx⟩)
    (hr : s.stopped = r)
    (hs' : s' = { s with lockB := none, phase := .oper }.setPc t .rtS1) : Inv s' := by
  framed .rtS1
  glob_tail

theorem Inv.step_rtEnter {s s' : State} {t st idx : Nat} (h : Inv s) (ht : s.thr[t]? = some ⟨.rtS1, st, idx⟩)
    (hs' : s' = { s with rt := 1 }.setPc t .op) : Inv s' := by
  framed .op
  glob_tail

theorem Inv.step_opEnd {s s' : State} {t st idx : Nat} (h : Inv s) (ht : s.thr[t]? = some ⟨.op, st, idx⟩)
    (hs' : s' = { s with rt := 0, ops := s.ops + 1, phase := .res 0 }.setPc t (.rs 0)) : Inv s' := by
  framed (.rs 0)
  glob_tail

theorem Inv.step_disarm {s s' : State} {t st idx k : Nat} (h : Inv s) (ht : s.thr[t]? = some ⟨.rs k, st, idx⟩)
    (hk : k = s.list.length) (hb : s.lockB = none)
    (hs' : s' = { s with lockB := some t, armed := false, phase := .idle }.setPc t .disB1) : Inv s' := by
  framed .disB1
  glob_tail

end Dora.Stw
