/-
C10 — stack maps at every suspension point: artifact model, consumer model, validator.

An *artifact* is what `tools/artifact_extract.py` reads out of an emitted `.s` file. The *consumer* is the
runtime: `CodeMap::get` (dora-runtime/src/runtime/code.rs), `GcPointTable::get` / `LocationTable`
(dora-compiler/src/lib.rs) and the case split of `iterate_roots_from_stack_frame`
(dora-runtime/src/gc/root.rs). `wfArtifact` is the executable validator; `Props/C10.lean` proves that an
accepted artifact makes the consumer find exactly one function and a well-formed stack map at every return
address where a frame can be suspended during a collection.
-/
namespace Dora.Artifact

/-- `AOT_CODE_KIND_*` (dora-compiler/src/aot.rs) -/
inductive Kind
  | optimized | runtimeEntry | doraEntry | allocFailure | trap | safepoint | unreachable | fatalError | stackOverflow
  deriving DecidableEq, Repr

/-- class of a call target, from its relocation symbol -/
inductive CallClass
  | managed | runtimeEntry | indirect | safepoint | alloc | unreachable | fatalError   -- frame may be walked by a collection
  | trap | stackOverflow                                                                -- handler reports and exits
  | writeBarrier | native                                                               -- plain native code: no park, no allocation
  deriving DecidableEq, Repr

/-- a collection can run while the frame is suspended at the return address of such a call -/
def CallClass.needsMap : CallClass → Bool
  | .managed | .runtimeEntry | .indirect | .safepoint | .alloc | .unreachable | .fatalError => true
  | _ => false

structure GcPoint where
  pc : Nat
  offsets : List Int
  interior : List Int
  deriving Repr

structure Call where
  ret : Nat
  cls : CallClass
  extra : Nat          -- bytes pushed below the static frame inside the current block at this call
  deriving Repr

structure Loc where
  pc : Nat
  inl : Nat
  line : Nat
  col : Nat
  deriving Repr

structure Fn where
  kind : Kind
  start : Nat
  stop : Nat
  frame : Nat
  calls : List Call
  gcps : List GcPoint
  locs : List Loc
  bad : Bool           -- the extractor could not read this function's tables
  deriving Repr

structure Artifact where
  fns : List Fn
  bad : Bool
  deriving Repr

/-! ### consumer model -/

/-- `CodeMap::get`: the BTreeMap keyed by spans (intersecting spans compare equal) returns an entry whose
span contains `pc`. Modelled as the first such entry; `wf_sound` shows it is the only one. -/
def codeMapGet (a : Artifact) (pc : Nat) : Option Fn :=
  a.fns.find? (fun f => decide (f.start ≤ pc) && decide (pc < f.stop))

/-- `GcPointTable::get` = `binary_search_by_key` on the offset; on a strictly increasing table that is
"the entry with this offset, if any" (std contract), modelled as `find?`. -/
def gcpointFor (f : Fn) (off : Nat) : Option GcPoint :=
  f.gcps.find? (fun g => g.pc == off)

inductive Walk
  | roots (g : GcPoint)     -- visit the slots of this map
  | noRoots                  -- frame has no roots (allocation / safepoint trampolines)
  | stop                     -- dora entry trampoline: end of the managed stack
  | panic (why : String)     -- `expect("no gcpoint")`, `unreachable!()`, `panic!("invalid stack frame")`
  deriving Repr

/-- `iterate_roots_from_stack_frame` for a frame whose return address is `pc` -/
def frameWalk (a : Artifact) (pc : Nat) : Walk :=
  match codeMapGet a pc with
  | none => .panic "invalid stack frame"
  | some f =>
    match f.kind with
    | .optimized =>
      match gcpointFor f (pc - f.start) with
      | some g => .roots g
      | none => .panic "no gcpoint"
    | .runtimeEntry | .unreachable | .stackOverflow | .fatalError =>
      match gcpointFor f 0 with
      | some g => .roots g
      | none => .panic "no gcpoint"
    | .allocFailure | .safepoint => .noRoots
    | .doraEntry => .stop
    | .trap => .panic "unreachable"

/-! ### validator -/

def strictlyIncreasing : List Nat → Bool
  | [] => true
  | [_] => true
  | a :: b :: r => decide (a < b) && strictlyIncreasing (b :: r)

def nonDecreasing : List Nat → Bool
  | [] => true
  | [_] => true
  | a :: b :: r => decide (a ≤ b) && nonDecreasing (b :: r)

/-- ranges non-empty, ordered and disjoint (list order = address order) -/
def rangesOK : List Fn → Bool
  | [] => true
  | [f] => decide (f.start < f.stop)
  | f :: g :: r => decide (f.start < f.stop) && decide (f.stop ≤ g.start) && rangesOK (g :: r)

/-- a regular slot: negative, word aligned, inside the frame extended by `extra` -/
def slotOK (frame extra : Nat) (o : Int) : Bool :=
  decide (o < 0) && decide (o % 8 = 0) && decide (-o ≤ (frame + extra : Nat))

/-- an interior pointer occupies the word at `o` and the following word (object base) -/
def interiorOK (frame extra : Nat) (o : Int) : Bool :=
  slotOK frame extra o && decide (o + 8 < 0)

/-- extra stack at the call that returns to `pc` (0 if `pc` is not a call's return offset) -/
def extraAt (f : Fn) (pc : Nat) : Nat :=
  match f.calls.find? (fun c => c.ret == pc) with
  | some c => c.extra
  | none => 0

/-- no offset listed twice -/
def distinctOffsets : List Int → Bool
  | [] => true
  | a :: r => !r.contains a && distinctOffsets r

/-- the two words of every interior entry (pointer at `o`, object base at `o + 8`) are words of no ordinary reference slot
and of no other interior entry: a map that names one stack word twice, or an interior pair on top of a live reference,
makes a moving collection rewrite that word twice / with a bogus base -/
def interiorDisjoint (offs interior : List Int) : Bool :=
  interior.all (fun o => !offs.contains o && !offs.contains (o + 8)) &&
  distinctOffsets interior &&
  interior.all (fun o => !interior.contains (o + 8))

def gcpointOK (f : Fn) (g : GcPoint) : Bool :=
  decide (g.pc ≤ f.stop - f.start) &&
  g.offsets.all (slotOK f.frame (extraAt f g.pc)) &&
  g.interior.all (interiorOK f.frame (extraAt f g.pc)) &&
  distinctOffsets g.offsets &&
  interiorDisjoint g.offsets g.interior

/-- the runtime looks the return address of such a call up in the code map: a collection walking the suspended frame
(`needsMap`) or the trap / stack-overflow handler naming the failing function -/
def CallClass.lookedUp (c : CallClass) : Bool :=
  c.needsMap || (match c with | .trap | .stackOverflow => true | _ => false)

/-- A return address that is looked up must lie STRICTLY inside its function: a call that is the very last instruction
of a function whose code fills its aligned slot exactly returns to the first byte of the NEXT function, and the code
map would attribute the frame to that neighbour (the baseline generator emits a filler after its out-of-line trap calls
for this reason). -/
def callOK (f : Fn) (c : Call) : Bool :=
  (if f.kind = .optimized && c.cls.lookedUp then decide (c.ret < f.stop - f.start) else true) &&
  (if f.kind = .optimized && c.cls.needsMap then (gcpointFor f c.ret).isSome else true)

def kindWalksAtZero : Kind → Bool
  | .runtimeEntry | .unreachable | .stackOverflow | .fatalError => true
  | _ => false

def fnOK (f : Fn) : Bool :=
  !f.bad &&
  strictlyIncreasing (f.gcps.map (·.pc)) &&
  f.gcps.all (gcpointOK f) &&
  f.calls.all (callOK f) &&
  (if kindWalksAtZero f.kind then (gcpointFor f 0).isSome else true) &&
  nonDecreasing (f.locs.map (·.pc)) &&
  f.locs.all (fun l => decide (l.pc ≤ f.stop - f.start))

def wfArtifact (a : Artifact) : Bool :=
  !a.bad && rangesOK a.fns && a.fns.all fnOK

/-- first violated rule, for the report -/
def explain (a : Artifact) : String :=
  if a.bad then "extractor: tables unreadable"
  else if !rangesOK a.fns then "code ranges empty, unordered or overlapping"
  else
    match a.fns.zipIdx.find? (fun p => !fnOK p.1) with
    | none => "ok"
    | some (f, i) =>
      let why :=
        if f.bad then "tables unreadable"
        else if !strictlyIncreasing (f.gcps.map (·.pc)) then "gcpoint table not strictly increasing"
        else if !f.gcps.all (gcpointOK f) then
          match f.gcps.find? (fun g => !gcpointOK f g) with
          | some g =>
            if !distinctOffsets g.offsets || !interiorDisjoint g.offsets g.interior then
              s!"gcpoint at {g.pc}: a stack word is named twice (offsets {g.offsets}, interior pairs {g.interior})"
            else
              s!"gcpoint at {g.pc}: slot outside frame/unaligned/non-negative or pc outside function (frame {f.frame}, extra {extraAt f g.pc}, offsets {g.offsets}, interior {g.interior})"
          | none => "gcpoint"
        else if !f.calls.all (callOK f) then
          match f.calls.find? (fun c => !callOK f c) with
          | some c =>
            if c.ret < f.stop - f.start then s!"call returning to offset {c.ret} ({repr c.cls}) has no stack map"
            else s!"call ({repr c.cls}) returns to offset {c.ret} = end of the function: the code map attributes that address to the next function"
          | none => "call"
        else if kindWalksAtZero f.kind && !(gcpointFor f 0).isSome then "trampoline without stack map at offset 0"
        else if !nonDecreasing (f.locs.map (·.pc)) then "location table not ordered"
        else "location outside function"
      s!"fn {i} [{f.start},{f.stop}) {repr f.kind}: {why}"

end Dora.Artifact
