import DoraModel.Artifact.Model
namespace Dora.Artifact

theorem strictlyIncreasing_tail (a : Nat) (l : List Nat) (h : strictlyIncreasing (a :: l) = true) :
    strictlyIncreasing l = true := by
  cases l with
  | nil => rfl
  | cons b r => simp [strictlyIncreasing] at h; exact h.2

/-- in an ordered, disjoint range list every later function starts at or after the end of the first -/
theorem rangesOK_later (f : Fn) (l : List Fn) (h : rangesOK (f :: l) = true) :
    f.start < f.stop ∧ rangesOK l = true ∧ ∀ g ∈ l, f.stop ≤ g.start := by
  induction l generalizing f with
  | nil => simp [rangesOK] at h; exact ⟨h, rfl, by simp⟩
  | cons g r ih =>
    simp only [rangesOK, Bool.and_eq_true, decide_eq_true_eq] at h
    obtain ⟨⟨h1, h2⟩, h3⟩ := h
    obtain ⟨g1, _, g3⟩ := ih g h3
    refine ⟨h1, h3, ?_⟩
    intro x hx
    rcases List.mem_cons.mp hx with e | e
    · subst e; exact h2
    · exact Nat.le_trans (Nat.le_trans h2 (Nat.le_of_lt g1)) (g3 x e)

theorem rangesOK_nonempty (l : List Fn) (h : rangesOK l = true) : ∀ f ∈ l, f.start < f.stop := by
  induction l with
  | nil => simp
  | cons f r ih =>
    obtain ⟨h1, h2, _⟩ := rangesOK_later f r h
    intro x hx
    rcases List.mem_cons.mp hx with e | e
    · subst e; exact h1
    · exact ih h2 x e

/-- `find?` by containment returns exactly the function whose range holds `pc` -/
theorem find_in_ranges (l : List Fn) (h : rangesOK l = true) (f : Fn) (hf : f ∈ l) (pc : Nat)
    (h1 : f.start ≤ pc) (h2 : pc < f.stop) :
    l.find? (fun g => decide (g.start ≤ pc) && decide (pc < g.stop)) = some f := by
  induction l with
  | nil => simp at hf
  | cons g r ih =>
    obtain ⟨_, hr, hlater⟩ := rangesOK_later g r h
    rcases List.mem_cons.mp hf with e | e
    · subst e; simp [List.find?, h1, h2]
    · have := hlater f e
      have hng : ¬ (pc < g.stop) := by omega
      simp only [List.find?, hng, decide_false, Bool.and_false]
      exact ih hr e

/-- two functions of an accepted artifact whose ranges share an address are the same list entry -/
theorem ranges_unique (l : List Fn) (h : rangesOK l = true) (f g : Fn) (hf : f ∈ l) (hg : g ∈ l) (pc : Nat)
    (f1 : f.start ≤ pc) (f2 : pc < f.stop) (g1 : g.start ≤ pc) (g2 : pc < g.stop) : f = g := by
  have a := find_in_ranges l h f hf pc f1 f2
  have b := find_in_ranges l h g hg pc g1 g2
  rw [a] at b; exact Option.some.inj b

theorem find_some_mem_pc (gs : List GcPoint) (off : Nat) (g : GcPoint)
    (h : gs.find? (fun g => g.pc == off) = some g) : g ∈ gs ∧ g.pc = off := by
  have := List.find?_some h
  exact ⟨List.mem_of_find?_eq_some h, by simpa using this⟩

end Dora.Artifact
