import DoraModel.Typing.Check
import DoraModel.Mini.Eval
/-!
# C05 soundness, part 1: value typing, store typing, a Hoare-style triple for the interpreter monad
-/
namespace Dora.Typing
open Dora.Mini

/-! ## value typing (first-order values) -/

mutual
def vt : Val → Ty → Prop
  | .unit, .unit => True
  | .bool _, .bool => True
  | .int .w32 _, .i32 => True
  | .int .w64 _, .i64 => True
  | .tuple vs, .tuple ts => vts vs ts
  | _, _ => False
def vts : List Val → List Ty → Prop
  | [], [] => True
  | v :: vs, t :: ts => vt v t ∧ vts vs ts
  | _, _ => False
end

mutual
theorem tyEq_eq : (a b : Ty) → tyEq a b = true → a = b
  | .unit, b, h => by cases b <;> simp [tyEq] at h <;> rfl
  | .bool, b, h => by cases b <;> simp [tyEq] at h <;> rfl
  | .i32, b, h => by cases b <;> simp [tyEq] at h <;> rfl
  | .i64, b, h => by cases b <;> simp [tyEq] at h <;> rfl
  | .u8, b, h => by cases b <;> simp [tyEq] at h <;> rfl
  | .char, b, h => by cases b <;> simp [tyEq] at h <;> rfl
  | .str, b, h => by cases b <;> simp [tyEq] at h <;> rfl
  | .tuple as, b, h => by
    cases b <;> simp [tyEq] at h
    rw [tysEq_eq _ _ h]
  | .named n as, b, h => by
    cases b <;> simp [tyEq] at h
    rw [h.1, tysEq_eq _ _ h.2]
  | .fn ps r, b, h => by
    cases b <;> simp [tyEq] at h
    rw [tysEq_eq _ _ h.1, tyEq_eq _ _ h.2]
  | .tparam n, b, h => by
    cases b <;> simp [tyEq] at h
    rw [h]
theorem tysEq_eq : (as bs : List Ty) → tysEq as bs = true → as = bs
  | [], bs, h => by cases bs <;> simp [tysEq] at h <;> rfl
  | a :: as, bs, h => by
    cases bs <;> simp [tysEq] at h
    rw [tyEq_eq _ _ h.1, tysEq_eq _ _ h.2]
end

theorem vt_never (v : Val) (t : Ty) (h : isNever t = true) : ¬ vt v t := by
  unfold isNever at h
  split at h
  · cases v with
    | int w n => cases w <;> simp [vt]
    | _ => simp [vt]
  · cases h

theorem vt_compat {v : Val} {t a : Ty} (hc : compat t a = true) (hv : vt v a) : vt v t := by
  unfold compat at hc
  cases h : tyEq t a with
  | true => rw [tyEq_eq _ _ h]; exact hv
  | false =>
    rw [h] at hc
    simp at hc
    exact absurd hv (vt_never v a hc)

/-! ## the monad -/

/-- partial-correctness triple: if the computation finishes from `s` (does not run out of fuel), a value
    satisfies `P`, an abrupt end satisfies `Q` -/
def Sat {α} (x : M α) (s : St) (P : α → St → Prop) (Q : Stop → St → Prop) : Prop :=
  ∀ r s', x.run s = some (r, s') → match r with
    | .ok a => P a s'
    | .error e => Q e s'

theorem run_pure {α} (a : α) (s : St) : (pure a : M α).run s = some (.ok a, s) := rfl
theorem run_throw {α} (e : Stop) (s : St) : (throw e : M α).run s = some (.error e, s) := rfl

theorem run_bind {α β} (x : M α) (f : α → M β) (s : St) :
    (x >>= f).run s = match x.run s with
      | none => none
      | some (.ok a, s₁) => (f a).run s₁
      | some (.error e, s₁) => some (.error e, s₁) := by
  simp only [bind, ExceptT.bind, ExceptT.mk, ExceptT.run, StateT.bind, ExceptT.bindCont]
  cases h : x s with
  | none => rfl
  | some r =>
    obtain ⟨r, s₁⟩ := r
    cases r <;> rfl

theorem sat_pure {α} {a : α} {s : St} {P : α → St → Prop} {Q} (h : P a s) : Sat (pure a : M α) s P Q := by
  intro r s' hr
  rw [run_pure] at hr
  cases hr
  exact h

theorem sat_throw {α} {e : Stop} {s : St} {P : α → St → Prop} {Q : Stop → St → Prop} (h : Q e s) :
    Sat (throw e : M α) s P Q := by
  intro r s' hr
  rw [run_throw] at hr
  cases hr
  exact h

theorem sat_bind {α β} {x : M α} {f : α → M β} {s : St} {P₁ : α → St → Prop} {P₂ : β → St → Prop} {Q}
    (hx : Sat x s P₁ Q) (hf : ∀ a s₁, P₁ a s₁ → Sat (f a) s₁ P₂ Q) : Sat (x >>= f) s P₂ Q := by
  intro r s' hr
  rw [run_bind] at hr
  cases hxr : x.run s with
  | none => rw [hxr] at hr; cases hr
  | some r₁ =>
    obtain ⟨r₁, s₁⟩ := r₁
    rw [hxr] at hr
    have h1 := hx r₁ s₁ hxr
    cases r₁ with
    | ok a => exact hf a s₁ h1 r s' hr
    | error e =>
      cases hr
      exact h1

theorem sat_mono {α} {x : M α} {s : St} {P P' : α → St → Prop} {Q Q' : Stop → St → Prop}
    (h : Sat x s P Q) (hp : ∀ a s', P a s' → P' a s') (hq : ∀ e s', Q e s' → Q' e s') : Sat x s P' Q' := by
  intro r s' hr
  have := h r s' hr
  cases r with
  | ok a => exact hp a s' this
  | error e => exact hq e s' this

theorem sat_stuck_elim {α} (msg : String) (s : St) (P : α → St → Prop) (Q : Stop → St → Prop) (h : False) :
    Sat (stuck msg : M α) s P Q := h.elim

theorem sat_getSt {s : St} {P : St → St → Prop} {Q} (h : P s s) : Sat getSt s P Q := by
  intro r s' hr
  cases hr
  exact h

theorem sat_modSt {f : St → St} {s : St} {P : Unit → St → Prop} {Q} (h : P () (f s)) : Sat (modSt f) s P Q := by
  intro r s' hr
  cases hr
  exact h

theorem sat_liftE {α} {r : Except Trap α} {s : St} {P : α → St → Prop} {Q : Stop → St → Prop}
    (hok : ∀ a, r = .ok a → P a s) (herr : ∀ t, r = .error t → Q (.trap t) s) : Sat (liftE r) s P Q := by
  cases r with
  | ok a => exact sat_pure (hok a rfl)
  | error t => exact sat_throw (herr t rfl)

end Dora.Typing
