import DoraModel.Mini.Syntax
/-!
# C05: the TYPED twin of a MiniDora program

`gen/c05_mutants.py` prints every program (and every mutant) a second time as a typed S-expression: the
format of `gen/progs.py` (read by `Mini.readProg`) plus everything a type checker needs and the reference
interpreter does not: annotated types and mutability of `let`s, parameter / result types of lambdas, type
parameters with their bounds, explicit type arguments of calls, the signatures of required trait methods,
module membership and visibility of functions.  The grammar is documented at the top of
`gen/c05_mutants.py`.

`erase` forgets the annotations and yields the `Mini.Prog` that `Mini.runProg` executes, so that statements
of the form "a program accepted by the checker does not get stuck" are about the reference interpreter of
C01/C02 itself.

This file imports only `Mini.Syntax` (no Mathlib): the driver links natively.
-/
namespace Dora.Typing
open Dora.Mini

inductive TPat where
  | wild
  | var (x : String) (isMut : Bool)
  | lit (l : Lit)
  | tuple (ps : List TPat)
  | variant (en vr : String) (ps : List TPat)
  deriving Inhabited

inductive TExpr where
  | lit (l : Lit)
  | var (x : String)
  | un (op : UnOp) (e : TExpr)
  | bin (op : BinOp) (a b : TExpr)
  | andalso (a b : TExpr)
  | orelse (a b : TExpr)
  | call (f : String) (targs : List Ty) (args : List TExpr)
  | mcall (m f : String) (args : List TExpr)                -- `m::f(args)`
  | scall (ty : Ty) (f : String) (args : List TExpr)
  | meth (m : String) (recv : TExpr) (args : List TExpr)
  | callv (f : TExpr) (args : List TExpr)
  | lambda (ps : List (String × Ty)) (ret : Ty) (body : TExpr)
  | tuple (es : List TExpr)
  | tget (e : TExpr) (i : Nat)
  | new (n : String) (args : List TExpr)
  | field (e : TExpr) (f : String)
  | variant (en vr : String) (targs : List Ty) (args : List TExpr)
  | matchE (e : TExpr) (arms : List (TPat × TExpr))
  | ite (c t : TExpr) (e : Option TExpr)
  | block (ss : List TExpr)
  | letE (p : TPat) (ty : Option Ty) (e : TExpr)
  | assign (lhs e : TExpr)
  | while (c b : TExpr)
  | forRange (x : String) (lo hi b : TExpr)
  | forEach (x : String) (coll b : TExpr)                   -- `for x in coll` over an Array / Vec
  | brk | cont
  | ret (e : Option TExpr)
  | index (a i : TExpr)
  | template (parts : List TExpr)
  | asTrait (tr : String) (e : TExpr)
  | at (line : Nat) (e : TExpr)
  | assert (e : TExpr)
  deriving Inhabited

/-- type parameter with its trait bounds -/
abbrev TParam := String × List String

structure TFn where
  name : String
  tparams : List TParam := []
  params : List (String × Ty) := []
  ret : Ty := .unit
  body : TExpr := .block []
  selfKind : SelfKind := .none
  /-- `static fn` inside an impl -/
  isStatic : Bool := false
  line : Nat := 0
  /-- `some m`: declared inside `mod m { }` -/
  modName : Option String := none
  isPub : Bool := true
  deriving Inhabited

structure TSig where
  name : String
  params : List Ty
  ret : Ty
  deriving Inhabited

structure TTrait where
  name : String
  sigs : List TSig := []        -- required methods
  defaults : List TFn := []     -- methods with a body
  deriving Inhabited

structure TImpl where
  ty : String
  trait : Option String
  methods : List TFn
  deriving Inhabited

structure TGlobal where
  name : String
  ty : Ty
  isMut : Bool
  init : TExpr
  deriving Inhabited

structure TProg where
  name : String := ""
  fns : List TFn := []
  structs : List (String × List (String × Ty)) := []
  classes : List (String × List (String × Ty)) := []
  enums : List (String × List (String × List Ty)) := []
  traits : List TTrait := []
  impls : List TImpl := []
  globals : List TGlobal := []
  deriving Inhabited

/-! ## erasure to the untyped program the reference interpreter runs -/

def erasePat : TPat → Pat
  | .wild => .wild
  | .var x _ => .var x
  | .lit l => .lit l
  | .tuple ps => .tuple (erasePats ps)
  | .variant en vr ps => .variant en vr (erasePats ps)
where erasePats : List TPat → List Pat
  | [] => []
  | p :: ps => erasePat p :: erasePats ps

/-- name of a module function in the erased program -/
def modFnName (m f : String) : String := m ++ "::" ++ f

mutual
def erase : TExpr → Expr
  | .lit l => .lit l
  | .var x => .var x
  | .un op e => .un op (erase e)
  | .bin op a b => .bin op (erase a) (erase b)
  | .andalso a b => .andalso (erase a) (erase b)
  | .orelse a b => .orelse (erase a) (erase b)
  | .call f _ args => .call f (eraseList args)
  | .mcall m f args => .call (modFnName m f) (eraseList args)
  | .scall ty f args => .scall ty f (eraseList args)
  | .meth m recv args => .meth m (erase recv) (eraseList args)
  | .callv f args => .callv (erase f) (eraseList args)
  | .lambda ps _ body => .lambda (ps.map (·.1)) (erase body)
  | .tuple es => .tuple (eraseList es)
  | .tget e i => .tget (erase e) i
  | .new n args => .new n (eraseList args)
  | .field e f => .field (erase e) f
  | .variant en vr _ args => .variant en vr (eraseList args)
  | .matchE e arms => .matchE (erase e) (eraseArms arms)
  | .ite c t e => .ite (erase c) (erase t) (eraseOpt e)
  | .block ss => .block (eraseList ss)
  | .letE p _ e => .letE (erasePat p) (erase e)
  | .assign l e => .assign (erase l) (erase e)
  | .while c b => .while (erase c) (erase b)
  | .forRange x lo hi b => .forRange x (erase lo) (erase hi) (erase b)
  | .forEach x c b => .forEach x (erase c) (erase b)
  | .brk => .brk
  | .cont => .cont
  | .ret e => .ret (eraseOpt e)
  | .index a i => .index (erase a) (erase i)
  | .template ps => .template (eraseList ps)
  | .asTrait tr e => .asTrait tr (erase e)
  | .at l e => .at l (erase e)
  | .assert e => .assert (erase e)
def eraseList : List TExpr → List Expr
  | [] => []
  | e :: es => erase e :: eraseList es
def eraseArms : List (TPat × TExpr) → List (Pat × Expr)
  | [] => []
  | (p, b) :: rest => (erasePat p, erase b) :: eraseArms rest
def eraseOpt : Option TExpr → Option Expr
  | none => none
  | some e => some (erase e)
end

def eraseFn (f : TFn) : FnDecl :=
  { name := (match f.modName with | some m => modFnName m f.name | none => f.name),
    params := f.params, ret := f.ret, body := erase f.body, selfKind := f.selfKind, line := f.line }

/-- the `Mini.Prog` of a typed program (same tables as `Mini.readProg` builds from the untyped twin) -/
def eraseProg (p : TProg) : Prog :=
  let implMethods := p.impls.flatMap fun i =>
    (i.methods.filter (fun m => !m.isStatic)).map fun m => ((i.ty, m.name), eraseFn m)
  let implStatics := p.impls.flatMap fun i =>
    (i.methods.filter (fun m => m.isStatic)).map fun m => ((i.ty, m.name), eraseFn m)
  { name := p.name,
    fns := p.fns.map eraseFn,
    structs := p.structs, classes := p.classes, enums := p.enums,
    methods := implMethods, statics := implStatics,
    defaults := p.traits.flatMap fun t => t.defaults.map fun m => ((t.name, m.name), eraseFn m),
    implements := p.impls.filterMap fun i => i.trait.map fun t => (i.ty, t),
    globals := p.globals.map fun g => (g.name, erase g.init) }

/-! ## reader -/

open Sexp in
partial def readTPat : Sexp → Except String TPat
  | list [atom "pwild"] => .ok .wild
  | list [atom "pvar", atom x] => .ok (.var x false)
  | list [atom "pmut", atom x] => .ok (.var x true)
  | list [atom "plit", l] => match readLit l with
    | some l => .ok (.lit l) | none => .error "bad literal pattern"
  | list (atom "ptuple" :: ps) => do .ok (.tuple (← ps.mapM readTPat))
  | list (atom "pvariant" :: atom en :: atom vr :: ps) => do .ok (.variant en vr (← ps.mapM readTPat))
  | s => .error ("bad pattern " ++ s.toStr)

open Sexp in
partial def readTExpr (s : Sexp) : Except String TExpr :=
  match readLit s with
  | some l => .ok (.lit l)
  | none =>
  match s with
  | list [atom "var", atom x] => .ok (.var x)
  | list [atom "un", atom "neg", e] => do .ok (.un .neg (← readTExpr e))
  | list [atom "un", atom "not", e] => do .ok (.un .not (← readTExpr e))
  | list [atom "bin", atom op, a, b] =>
    match readBinOp op with
    | some o => do .ok (.bin o (← readTExpr a) (← readTExpr b))
    | none => .error ("bad binop " ++ op)
  | list [atom "andalso", a, b] => do .ok (.andalso (← readTExpr a) (← readTExpr b))
  | list [atom "orelse", a, b] => do .ok (.orelse (← readTExpr a) (← readTExpr b))
  | list (atom "call" :: atom f :: list (atom "targs" :: ts) :: args) => do
    .ok (.call f (← ts.mapM readTy) (← args.mapM readTExpr))
  | list (atom "mcall" :: atom m :: atom f :: args) => do .ok (.mcall m f (← args.mapM readTExpr))
  | list (atom "scall" :: ty :: atom f :: args) => do .ok (.scall (← readTy ty) f (← args.mapM readTExpr))
  | list (atom "meth" :: atom m :: recv :: args) => do .ok (.meth m (← readTExpr recv) (← args.mapM readTExpr))
  | list (atom "callv" :: f :: args) => do .ok (.callv (← readTExpr f) (← args.mapM readTExpr))
  | list [atom "lambda", list ps, ret, body] => do
    .ok (.lambda (← readParams ps) (← readTy ret) (← readTExpr body))
  | list (atom "tuple" :: es) => do .ok (.tuple (← es.mapM readTExpr))
  | list [atom "tget", e, atom i] => do
    match i.toNat? with
    | some n => .ok (.tget (← readTExpr e) n)
    | none => .error "bad tuple index"
  | list (atom "new" :: atom n :: args) => do .ok (.new n (← args.mapM readTExpr))
  | list [atom "field", e, atom f] => do .ok (.field (← readTExpr e) f)
  | list (atom "variant" :: atom en :: atom vr :: list (atom "targs" :: ts) :: args) => do
    .ok (.variant en vr (← ts.mapM readTy) (← args.mapM readTExpr))
  | list (atom "match" :: e :: arms) => do
    let arms ← arms.mapM fun a => match a with
      | list [atom "arm", p, b] => do Except.ok ((← readTPat p), (← readTExpr b))
      | _ => .error "bad match arm"
    .ok (.matchE (← readTExpr e) arms)
  | list [atom "if", c, t] => do .ok (.ite (← readTExpr c) (← readTExpr t) none)
  | list [atom "if", c, t, e] => do .ok (.ite (← readTExpr c) (← readTExpr t) (some (← readTExpr e)))
  | list (atom "block" :: ss) => do .ok (.block (← ss.mapM readTExpr))
  | list [atom "let", p, ty, atom _mut, e] => do
    let t ← match ty with
      | atom "_" => pure none
      | t => do pure (some (← readTy t))
    .ok (.letE (← readTPat p) t (← readTExpr e))
  | list [atom "assign", l, e] => do .ok (.assign (← readTExpr l) (← readTExpr e))
  | list [atom "while", c, b] => do .ok (.while (← readTExpr c) (← readTExpr b))
  | list [atom "for", atom x, lo, hi, b] => do
    .ok (.forRange x (← readTExpr lo) (← readTExpr hi) (← readTExpr b))
  | list [atom "foreach", atom x, c, b] => do .ok (.forEach x (← readTExpr c) (← readTExpr b))
  | list [atom "break"] => .ok .brk
  | list [atom "continue"] => .ok .cont
  | list [atom "return"] => .ok (.ret none)
  | list [atom "return", e] => do .ok (.ret (some (← readTExpr e)))
  | list [atom "index", a, i] => do .ok (.index (← readTExpr a) (← readTExpr i))
  | list (atom "template" :: ps) => do .ok (.template (← ps.mapM readTExpr))
  | list [atom "as", atom tr, e] => do .ok (.asTrait tr (← readTExpr e))
  | list [atom "at", atom n, e] => do
    match n.toNat? with
    | some n => .ok (.at n (← readTExpr e))
    | none => .error "bad line"
  | list [atom "assert", e] => do .ok (.assert (← readTExpr e))
  | s => .error ("bad expression " ++ (s.toStr.take 80).toString)

open Sexp in
def readTParams (tps : List Sexp) : Except String (List TParam) :=
  tps.mapM fun tp => match tp with
    | list (atom n :: bs) => do
      let bs ← bs.mapM fun b => match b with
        | atom b => Except.ok b
        | _ => .error "bad bound"
      Except.ok (n, bs)
    | _ => .error "bad type parameter"

open Sexp in
/-- `name line (tparams) (params) ret body` -/
def readTFn : List Sexp → Except String TFn
  | [atom name, atom line, list tps, list ps, ret, body] => do
    .ok { name := name, tparams := (← readTParams tps), params := (← readParams ps), ret := (← readTy ret),
          body := (← readTExpr body), line := line.toNat?.getD 0 }
  | _ => .error "bad function declaration"

open Sexp in
def readTDecl (p : TProg) : Sexp → Except String TProg
  | list (atom "fn" :: rest) => do
    let f ← readTFn rest
    .ok { p with fns := p.fns ++ [f] }
  | list (atom "modfn" :: atom m :: atom vis :: rest) => do
    let f ← readTFn rest
    .ok { p with fns := p.fns ++ [{ f with modName := some m, isPub := vis == "pub" }] }
  | list (atom "struct" :: atom n :: fs) => do .ok { p with structs := p.structs ++ [(n, (← readFields fs))] }
  | list (atom "class" :: atom n :: fs) => do .ok { p with classes := p.classes ++ [(n, (← readFields fs))] }
  | list (atom "enum" :: atom n :: vs) => do
    let vs ← vs.mapM fun v => match v with
      | list (atom vn :: ts) => do Except.ok (vn, (← ts.mapM readTy))
      | _ => .error "bad enum variant"
    .ok { p with enums := p.enums ++ [(n, vs)] }
  | list (atom "impl" :: atom ty :: atom tr :: ms) => do
    let ms ← ms.mapM fun m => match m with
      | list (atom "method" :: atom "self" :: rest) => do
        Except.ok { (← readTFn rest) with selfKind := .self }
      | list (atom "method" :: atom "mutating" :: rest) => do
        Except.ok { (← readTFn rest) with selfKind := .mutating }
      | list (atom "method" :: atom "static" :: rest) => do
        Except.ok { (← readTFn rest) with isStatic := true }
      | _ => .error "bad impl member"
    .ok { p with impls := p.impls ++ [{ ty := ty, trait := if tr = "-" then none else some tr, methods := ms }] }
  | list (atom "trait" :: atom tr :: ms) => do
    let mut t : TTrait := { name := tr }
    for m in ms do
      match m with
      | list (atom "method" :: atom "self" :: rest) =>
        let f ← readTFn rest
        t := { t with defaults := t.defaults ++ [{ f with selfKind := .self }] }
      | list [atom "sig", atom n, list ps, ret] =>
        let ps ← readParams ps
        t := { t with sigs := t.sigs ++ [{ name := n, params := ps.map (·.2), ret := (← readTy ret) }] }
      | _ => throw "bad trait member"
    .ok { p with traits := p.traits ++ [t] }
  | list [atom "global", atom n, ty, atom mt, e] => do
    .ok { p with globals := p.globals ++ [{ name := n, ty := (← readTy ty), isMut := mt == "mut", init := (← readTExpr e) }] }
  | s => .error ("bad declaration " ++ (s.toStr.take 60).toString)

open Sexp in
/-- `(program name decl ...)` -/
def readTProg : Sexp → Except String TProg
  | list (atom "program" :: atom name :: ds) => ds.foldlM readTDecl { name := name }
  | _ => .error "expected (program name ...)"

end Dora.Typing
