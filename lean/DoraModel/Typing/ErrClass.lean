import DoraModel.Typing.Check
/-!
# C05: the verdict word of a checker result, and the rewriting lemmas used to evaluate the checker's rules
-/
namespace Dora.Typing

/-- the verdict word of a result: `"ok"` or the class (constructor name) of the error -/
def errClass {α} : TC α → String
  | .ok _ => "ok"
  | .error e => e.className

theorem ok_bind {α β} (a : α) (f : α → TC β) : (Except.ok a >>= f) = f a := rfl
theorem err_bind {α β} (e : TypeError) (f : α → TC β) : (Except.error e >>= f) = Except.error e := rfl
theorem errClass_throw {α} (e : TypeError) : errClass (throw e : TC α) = e.className := rfl
theorem errClass_error {α} (e : TypeError) : errClass (Except.error e : TC α) = e.className := rfl
theorem throw_eq {α} (e : TypeError) : (throw e : TC α) = Except.error e := rfl
theorem map_error {α β} (f : α → β) (e : TypeError) : (f <$> (Except.error e : TC α)) = Except.error e := rfl

end Dora.Typing
