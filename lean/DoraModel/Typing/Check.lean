import DoraModel.Typing.Syntax
import DoraModel.Match.Model
/-!
# C05: a decidable type checker for MiniDora (typed twin)

`check : TProg → Except TypeError Unit` is a total function (structural recursion over the typed syntax; no
fuel; no `for` loops: `allM`): bottom-up type synthesis with explicit annotations (every binding, parameter, lambda and type argument
is annotated in the twin, `let` with a pattern takes the type of its initialiser).

Every failure is a constructor of `TypeError`.  The first nine are the classes of the property text:

| constructor          | class of the property text            |
|----------------------|---------------------------------------|
| `typeMismatch`       | type mismatch                         |
| `wrongArgCount`      | wrong argument count                  |
| `unknownName`        | unknown or inaccessible name          |
| `immutableAssign`    | assignment to an immutable binding    |
| `missingReturn`      | missing return value                  |
| `unsatisfiedBound`   | unsatisfied trait bound               |
| `wrongTypeArgCount`  | wrong type-argument count             |
| `nonExhaustiveMatch` | non-exhaustive match (delegates to the C11 model `Dora.Match.checkExhaustive`) |
| `missingTraitMethod` | missing trait method                  |

`malformed` is everything else that is not a program of the modelled language (`break` outside a loop, a
construct the twin cannot contain).  The rules are those of dora-frontend restricted to what the typed
generator of C01 can produce; they were calibrated against the real front end (checks/c05.py reports every
disagreement).  The type `Never` (`return`, `break`, `continue`, `unreachable()`, `fatal_error`) is
compatible with every expected type.
-/
namespace Dora.Typing
open Dora.Mini

inductive TypeError where
  | typeMismatch (what : String)
  | wrongArgCount (what : String)
  | unknownName (what : String)
  | immutableAssign (what : String)
  | missingReturn (what : String)
  | unsatisfiedBound (what : String)
  | wrongTypeArgCount (what : String)
  | nonExhaustiveMatch (what : String)
  | missingTraitMethod (what : String)
  | malformed (what : String)
  deriving Inhabited, DecidableEq, Repr

def TypeError.className : TypeError → String
  | .typeMismatch _ => "typeMismatch"
  | .wrongArgCount _ => "wrongArgCount"
  | .unknownName _ => "unknownName"
  | .immutableAssign _ => "immutableAssign"
  | .missingReturn _ => "missingReturn"
  | .unsatisfiedBound _ => "unsatisfiedBound"
  | .wrongTypeArgCount _ => "wrongTypeArgCount"
  | .nonExhaustiveMatch _ => "nonExhaustiveMatch"
  | .missingTraitMethod _ => "missingTraitMethod"
  | .malformed _ => "malformed"

def TypeError.detail : TypeError → String
  | .typeMismatch w | .wrongArgCount w | .unknownName w | .immutableAssign w | .missingReturn w
  | .unsatisfiedBound w | .wrongTypeArgCount w | .nonExhaustiveMatch w | .missingTraitMethod w
  | .malformed w => w

abbrev TC := Except TypeError

/-! ## types -/

mutual
def tyEq : Ty → Ty → Bool
  | .unit, .unit | .bool, .bool | .i32, .i32 | .i64, .i64 | .u8, .u8 | .char, .char | .str, .str => true
  | .tuple a, .tuple b => tysEq a b
  | .named n a, .named m b => n == m && tysEq a b
  | .fn p r, .fn q s => tysEq p q && tyEq r s
  | .tparam n, .tparam m => n == m
  | _, _ => false
def tysEq : List Ty → List Ty → Bool
  | [], [] => true
  | a :: as, b :: bs => tyEq a b && tysEq as bs
  | _, _ => false
end

def tNever : Ty := .named "Never" []
def isNever : Ty → Bool
  | .named "Never" [] => true
  | _ => false

/-- `actual` may stand where `expected` is wanted -/
def compat (expected actual : Ty) : Bool := tyEq expected actual || isNever actual

mutual
def tyStr : Ty → String
  | .unit => "()" | .bool => "Bool" | .i32 => "Int32" | .i64 => "Int64" | .u8 => "UInt8" | .char => "Char"
  | .str => "String"
  | .tuple ts => "(" ++ tysStr ts ++ ")"
  | .named n [] => n
  | .named n ts => n ++ "[" ++ tysStr ts ++ "]"
  | .fn ps r => "(" ++ tysStr ps ++ "): " ++ tyStr r
  | .tparam n => n
def tysStr : List Ty → String
  | [] => ""
  | [t] => tyStr t
  | t :: ts => tyStr t ++ ", " ++ tysStr ts
end

mutual
/-- substitution of type parameters -/
def substTy (σ : List (String × Ty)) : Ty → Ty
  | .tuple ts => .tuple (substTys σ ts)
  | .named n ts => .named n (substTys σ ts)
  | .fn ps r => .fn (substTys σ ps) (substTy σ r)
  | .tparam n => match σ.find? (·.1 == n) with
    | some (_, t) => t
    | none => .tparam n
  | t => t
def substTys (σ : List (String × Ty)) : List Ty → List Ty
  | [] => []
  | t :: ts => substTy σ t :: substTys σ ts
end

def isInt : Ty → Bool
  | .i32 | .i64 => true
  | _ => false

def isPrintable : Ty → Bool
  | .bool | .i32 | .i64 | .u8 | .char | .str => true
  | _ => false

/-! ## context -/

structure Binding where
  name : String
  ty : Ty
  isMut : Bool
  deriving Inhabited

structure Ctx where
  vars : List Binding := []
  /-- result type of the enclosing function / lambda -/
  ret : Ty := .unit
  inLoop : Bool := false
  tparams : List TParam := []
  deriving Inhabited

def Ctx.lookup (Γ : Ctx) (x : String) : Option Binding := Γ.vars.find? (·.name == x)
def Ctx.bind (Γ : Ctx) (bs : List Binding) : Ctx := { Γ with vars := bs.reverse ++ Γ.vars }

/-! ## program tables -/

def TProg.structFields (p : TProg) (n : String) : Option (List (String × Ty)) :=
  (p.structs.find? (·.1 == n)).map (·.2)
def TProg.classFields (p : TProg) (n : String) : Option (List (String × Ty)) :=
  (p.classes.find? (·.1 == n)).map (·.2)
def TProg.enumVariants (p : TProg) (n : String) : Option (List (String × List Ty)) :=
  (p.enums.find? (·.1 == n)).map (·.2)
def TProg.findTrait (p : TProg) (n : String) : Option TTrait := p.traits.find? (·.name == n)
def TProg.findFn (p : TProg) (n : String) : Option TFn := p.fns.find? (fun f => f.modName.isNone && f.name == n)
def TProg.findModFn (p : TProg) (m n : String) : Option TFn :=
  p.fns.find? (fun f => f.modName == some m && f.name == n)
def TProg.isUserType (p : TProg) (n : String) : Bool :=
  (p.structFields n).isSome || (p.classFields n).isSome || (p.enumVariants n).isSome

/-- does `named n []` (a struct / class / enum) have an `impl tr for n`? -/
def TProg.hasImpl (p : TProg) (n tr : String) : Bool := p.impls.any (fun i => i.ty == n && i.trait == some tr)

/-- `t` implements trait `tr` (user type with an impl, or a type parameter bounded by it) -/
def implementsTrait (p : TProg) (Γ : Ctx) (t : Ty) (tr : String) : Bool :=
  match t with
  | .named n [] => p.hasImpl n tr
  | .tparam x => match Γ.tparams.find? (·.1 == x) with
    | some (_, bs) => bs.contains tr
    | none => false
  | _ => false

/-- well-formed type: names exist, the number of type arguments is right -/
def wfTy (p : TProg) (Γ : Ctx) : Ty → TC Unit
  | .unit | .bool | .i32 | .i64 | .u8 | .char | .str => pure ()
  | .tuple ts => wfTys p Γ ts
  | .fn ps r => do wfTys p Γ ps; wfTy p Γ r
  | .tparam n => if Γ.tparams.any (·.1 == n) then pure () else throw (.unknownName ("type parameter " ++ n))
  | .named n args =>
    if n == "Array" || n == "Vec" || n == "Option" then
      if args.length == 1 then wfTys p Γ args
      else throw (.wrongTypeArgCount (n ++ " takes 1 type argument, " ++ toString args.length ++ " given"))
    else if p.isUserType n || (p.findTrait n).isSome then
      if args.isEmpty then pure ()
      else throw (.wrongTypeArgCount (n ++ " takes no type arguments, " ++ toString args.length ++ " given"))
    else throw (.unknownName ("type " ++ n))
where wfTys (p : TProg) (Γ : Ctx) : List Ty → TC Unit
  | [] => pure ()
  | t :: ts => do wfTy p Γ t; wfTys p Γ ts

/-! ## signatures -/

structure Sig where
  tparams : List TParam := []
  params : List Ty
  ret : Ty
  deriving Inhabited

def TFn.sig (f : TFn) : Sig := { tparams := f.tparams, params := f.params.map (·.2), ret := f.ret }

/-- methods of built-in types: receiver type, name ↦ parameter types and result -/
def builtinMeth (recv : Ty) (m : String) : Option (List Ty × Ty) :=
  match recv, m with
  | t, "to_string" => if isPrintable t then some ([], .str) else none
  | .i32, "to_int64" | .u8, "to_int64" | .char, "to_int64" | .bool, "to_int64" => some ([], .i64)
  | .i64, "to_int32" | .u8, "to_int32" | .char, "to_int32" | .bool, "to_int32" => some ([], .i32)
  | .i32, "to_uint8" | .i64, "to_uint8" => some ([], .u8)
  | .u8, "to_char" => some ([], .char)
  | .i32, "to_char" | .i64, "to_char" => some ([], .named "Option" [.char])
  | .i32, "wrapping_add" | .i32, "wrapping_sub" | .i32, "wrapping_mul" => some ([.i32], .i32)
  | .i64, "wrapping_add" | .i64, "wrapping_sub" | .i64, "wrapping_mul" => some ([.i64], .i64)
  | .i32, "wrapping_neg" => some ([], .i32)
  | .i64, "wrapping_neg" => some ([], .i64)
  | .named "Option" [_], "is_some" | .named "Option" [_], "is_none" => some ([], .bool)
  | .named "Option" [t], "get_or_panic" => some ([], t)
  | .named "Option" [t], "unwrap_or" => some ([t], t)
  | .str, "size" => some ([], .i64)
  | .str, "is_empty" => some ([], .bool)
  | .named "Array" [_], "size" | .named "Vec" [_], "size" => some ([], .i64)
  | .named "Array" [_], "is_empty" | .named "Vec" [_], "is_empty" => some ([], .bool)
  | .named "Vec" [t], "push" => some ([t], .unit)
  | .named "Vec" [t], "pop" => some ([], .named "Option" [t])
  | .named "Vec" [t], "first" | .named "Vec" [t], "last" => some ([], .named "Option" [t])
  | .named "Vec" [_], "clear" => some ([], .unit)
  | .named "Array" [t], "get" | .named "Vec" [t], "get" => some ([.i64], t)
  | .named "Array" [t], "set" | .named "Vec" [t], "set" => some ([.i64, t], .unit)
  | .named "Array" [t], "clone" => some ([], .named "Array" [t])
  | .named "Vec" [t], "clone" => some ([], .named "Vec" [t])
  | .named "Vec" [t], "to_array" => some ([], .named "Array" [t])
  | .i32, "overflowing_add" | .i32, "overflowing_sub" | .i32, "overflowing_mul" => some ([.i32], .tuple [.i32, .bool])
  | .i64, "overflowing_add" | .i64, "overflowing_sub" | .i64, "overflowing_mul" => some ([.i64], .tuple [.i64, .bool])
  | .i32, "overflowing_neg" => some ([], .tuple [.i32, .bool])
  | .i64, "overflowing_neg" => some ([], .tuple [.i64, .bool])
  | .i32, "to_char_unchecked" | .i64, "to_char_unchecked" => some ([], .char)
  | .char, "len_utf8" => some ([], .i32)
  | .i32, "to_string_hex" | .i64, "to_string_hex" | .u8, "to_string_hex" => some ([], .str)
  | .i32, "to_string_binary" | .i64, "to_string_binary" | .u8, "to_string_binary" => some ([], .str)
  | _, _ => none

/-- methods a trait offers: required signatures and default methods -/
def TTrait.methodSig (t : TTrait) (m : String) : Option Sig :=
  match t.sigs.find? (·.name == m) with
  | some s => some { params := s.params, ret := s.ret }
  | none => (t.defaults.find? (·.name == m)).map TFn.sig

/-- first `some` of `f` over a list -/
def firstSome {α β} (f : α → Option β) : List α → Option β
  | [] => none
  | a :: as => match f a with
    | some b => some b
    | none => firstSome f as

/-- `recv.m(...)`: the signature of `m` for a receiver of type `recv` -/
def lookupMethod (p : TProg) (Γ : Ctx) (recv : Ty) (m : String) : Option Sig :=
  match recv with
  | .named n [] =>
    match p.findTrait n with
    | some t => t.methodSig m                     -- trait object
    | none =>
      -- a method of an impl block of the type, else a method of an implemented trait
      match firstSome (fun (i : TImpl) => if i.ty == n then (i.methods.find? (fun f => !f.isStatic && f.name == m)).map TFn.sig else none) p.impls with
      | some s => some s
      | none =>
        firstSome (fun (i : TImpl) =>
          if i.ty == n then
            match i.trait with
            | some tr => (p.findTrait tr).bind (·.methodSig m)
            | none => none
          else none) p.impls
  | .tparam x =>
    match Γ.tparams.find? (·.1 == x) with
    | some (_, bs) => firstSome (fun tr => (p.findTrait tr).bind (·.methodSig m)) bs
    | none => none
  | t => (builtinMeth t m).map fun (ps, r) => { params := ps, ret := r }

/-- element type of `Array[T]` / `Vec[T]` -/
def elemTy : Ty → Option Ty
  | .named "Array" [t] | .named "Vec" [t] => some t
  | _ => none

def isZeroable : Ty → Bool
  | .bool | .i32 | .i64 | .u8 | .char => true
  | _ => false

/-! ## operators -/

def litTy : Lit → Ty
  | .unit => .unit | .bool _ => .bool | .i32 _ => .i32 | .i64 _ => .i64 | .u8 _ => .u8 | .char _ => .char
  | .str _ => .str

def unTy (op : UnOp) (t : Ty) : TC Ty :=
  match op, t with
  | .neg, .i32 => pure .i32
  | .neg, .i64 => pure .i64
  | .not, .bool => pure .bool
  | .not, .i32 => pure .i32
  | .not, .i64 => pure .i64
  | _, t => if isNever t then pure tNever else throw (.typeMismatch ("unary operator on " ++ tyStr t))

def isClassTy (p : TProg) : Ty → Bool
  | .named n [] => (p.classFields n).isSome
  | _ => false

def binTy (p : TProg) (op : BinOp) (a b : Ty) : TC Ty :=
  let bad : TC Ty := throw (.typeMismatch ("binary operator on " ++ tyStr a ++ " and " ++ tyStr b))
  match op with
  | .add => if isInt a && tyEq a b then pure a else if tyEq a .str && tyEq b .str then pure .str else bad
  | .sub | .mul | .div | .mod | .band | .bor | .bxor => if isInt a && tyEq a b then pure a else bad
  | .shl | .shr | .sar => if isInt a && tyEq b .i32 then pure a else bad
  | .cmp .eq | .cmp .ne => if isPrintable a && tyEq a b then pure .bool else bad
  | .cmp _ => if (isInt a || tyEq a .u8 || tyEq a .char) && tyEq a b then pure .bool else bad
  | .is | .isnot => if isClassTy p a && tyEq a b then pure .bool else bad

/-- least upper bound of two branch types (`Never` is below everything) -/
def joinTy (a b : Ty) : TC Ty :=
  if isNever a then pure b else if isNever b then pure a
  else if tyEq a b then pure a else throw (.typeMismatch ("branches have types " ++ tyStr a ++ " and " ++ tyStr b))

/-! ## patterns -/

/-- bindings of a pattern matched against a value of type `t` -/
def patBinds (p : TProg) : TPat → Ty → TC (List Binding)
  | .wild, _ => pure []
  | .var x m, t => pure [⟨x, t, m⟩]
  | .lit l, t => if tyEq (litTy l) t then pure [] else throw (.typeMismatch ("literal pattern of type " ++ tyStr (litTy l) ++ " against " ++ tyStr t))
  | .tuple ps, .tuple ts => patsBinds p ps ts
  | .tuple _, t => throw (.typeMismatch ("tuple pattern against " ++ tyStr t))
  | .variant en vr ps, t =>
    match t with
    | .named "Option" [a] =>
      if en != "Option" then throw (.typeMismatch ("pattern of enum " ++ en ++ " against " ++ tyStr t)) else
      if vr == "Some" then patsBinds p ps [a]
      else if vr == "None" then patsBinds p ps []
      else throw (.unknownName ("variant Option::" ++ vr))
    | .named n [] =>
      if en != n then throw (.typeMismatch ("pattern of enum " ++ en ++ " against " ++ tyStr t)) else
      match p.enumVariants n with
      | none => throw (.typeMismatch ("variant pattern against " ++ tyStr t))
      | some vs => match vs.find? (·.1 == vr) with
        | none => throw (.unknownName ("variant " ++ en ++ "::" ++ vr))
        | some (_, ts) => patsBinds p ps ts
    | t => throw (.typeMismatch ("variant pattern against " ++ tyStr t))
where patsBinds (p : TProg) : List TPat → List Ty → TC (List Binding)
  | [], [] => pure []
  | q :: qs, t :: ts => do
    let a ← patBinds p q t
    let b ← patsBinds p qs ts
    pure (a ++ b)
  | _, _ => throw (.wrongArgCount "number of sub-patterns")

/-! ## exhaustiveness: delegated to the C11 model -/

/-- declaration table under construction: the type each `adt i` stands for and its declaration -/
abbrev DeclTab := List (Ty × Match.Decl)

def DeclTab.setDecl (tab : DeclTab) (i : Nat) (d : Match.Decl) : DeclTab :=
  tab.mapIdx fun j e => if j == i then (e.1, d) else e

mutual
/-- the C11 type of a MiniDora type; enums, `Option[T]` and tuples get an entry in the declaration table -/
def toMatchTy (p : TProg) : Nat → Ty → DeclTab → Match.Ty × DeclTab
  | 0, _, tab => (.adt tab.length, tab ++ [(.unit, Match.unitDecl)])
  | fuel + 1, t, tab =>
    match t with
    | .bool => (.bool, tab)
    | .i32 | .i64 | .u8 => (.int, tab)
    | .char => (.char, tab)
    | .str => (.str, tab)
    | t =>
      match tab.findIdx? (fun e => tyEq e.1 t) with
      | some i => (.adt i, tab)
      | none =>
        let i := tab.length
        let tab := tab ++ [(t, Match.unitDecl)]
        match t with
        | .tuple ts =>
          let (ms, tab) := toMatchTys p fuel ts tab
          (.adt i, tab.setDecl i ⟨.tuple, [ms]⟩)
        | .named "Option" [a] =>
          let (ms, tab) := toMatchTys p fuel [a] tab
          -- variant order of the standard library: `enum Option[T] { Some(T), None }`
          (.adt i, tab.setDecl i ⟨.enum, [ms, []]⟩)
        | .named n [] =>
          match p.enumVariants n with
          | some vs =>
            let (vss, tab) := toMatchVariants p fuel (vs.map (·.2)) tab
            (.adt i, tab.setDecl i ⟨.enum, vss⟩)
          | none => (.adt i, tab)                 -- class / struct / trait object: opaque
        | _ => (.adt i, tab)
def toMatchTys (p : TProg) : Nat → List Ty → DeclTab → List Match.Ty × DeclTab
  | _, [], tab => ([], tab)
  | fuel, t :: ts, tab =>
    let (m, tab) := toMatchTy p fuel t tab
    let (ms, tab) := toMatchTys p fuel ts tab
    (m :: ms, tab)
def toMatchVariants (p : TProg) : Nat → List (List Ty) → DeclTab → List (List Match.Ty) × DeclTab
  | _, [], tab => ([], tab)
  | fuel, v :: vs, tab =>
    let (m, tab) := toMatchTys p fuel v tab
    let (ms, tab) := toMatchVariants p fuel vs tab
    (m :: ms, tab)
end

def matchLit : Lit → Option Match.Lit
  | .bool b => some (.bool b)
  | .i32 n | .i64 n => some (.int n)
  | .u8 n => some (.int n)
  | .char n => some (.char n)
  | .str s => some (.str (s.toList.map Char.toNat))
  | .unit => none

/-- index of the declaration that stands for type `t` -/
def DeclTab.idxOf (tab : DeclTab) (t : Ty) : Nat := (tab.findIdx? (fun e => tyEq e.1 t)).getD tab.length

/-- a (type-correct) pattern as a C11 pattern; `sp` is its path in the match -/
def toMatchPat (p : TProg) (tab : DeclTab) (sp : Match.Span) : TPat → Ty → Match.Pat
  | .wild, _ => .any (some sp)
  | .var _ _, _ => .any (some sp)
  | .lit l, _ => match matchLit l with
    | some ml => .lit sp ml
    | none => .any (some sp)
  | .tuple ps, t =>
    let ts := match t with | .tuple ts => ts | _ => []
    .ctor sp .tuple (go p tab sp 0 ps ts)
  | .variant _ vr ps, t =>
    let (vidx, ts) : Nat × List Ty := match t with
      | .named "Option" [a] => if vr == "Some" then (0, [a]) else (1, [])
      | .named n [] => match p.enumVariants n with
        | some vs => ((vs.findIdx? (·.1 == vr)).getD 0, ((vs.find? (·.1 == vr)).map (·.2)).getD [])
        | none => (0, [])
      | _ => (0, [])
    .ctor sp (.enum (tab.idxOf t) vidx) (go p tab sp 0 ps ts)
where go (p : TProg) (tab : DeclTab) (sp : Match.Span) : Nat → List TPat → List Ty → List Match.Pat
  | _, [], _ => []
  | i, q :: qs, ts => toMatchPat p tab (sp ++ [i]) q (ts.headD .unit) :: go p tab sp (i + 1) qs ts.tail

def matchRows (p : TProg) (tab : DeclTab) (t : Ty) : Nat → List TPat → List (List Match.Pat)
  | _, [] => []
  | i, q :: qs => [toMatchPat p tab [i] q t] :: matchRows p tab t (i + 1) qs

/-- the arms (patterns already checked against `t`) cover every value of type `t`:
    `Dora.Match.checkExhaustive` on the one-column matrix of the converted patterns returns no witness -/
def exhaustive (p : TProg) (t : Ty) (pats : List TPat) : Bool :=
  let (_, tab) := toMatchTy p 16 t []
  let env := Match.envOf (tab.map (·.2))
  match Match.checkExhaustive env 64 (matchRows p tab t 0 pats) 1 with
  | .ok [] => true
  | _ => false

/-! ## expressions -/

/-- arguments against parameter types -/
def checkArgs (what : String) (params args : List Ty) : TC Unit :=
  if params.length != args.length then
    throw (.wrongArgCount (what ++ ": " ++ toString params.length ++ " expected, " ++ toString args.length ++ " given"))
  else go params args
where go : List Ty → List Ty → TC Unit
  | p :: ps, a :: as => if compat p a then go ps as else throw (.typeMismatch (what ++ ": argument of type " ++ tyStr a ++ " for parameter of type " ++ tyStr p))
  | _, _ => pure ()

/-- every element is compatible with `t` -/
def allCompat (what : String) (t : Ty) : List Ty → TC Unit
  | [] => pure ()
  | a :: as => if compat t a then allCompat what t as else throw (.typeMismatch (what ++ ": " ++ tyStr a ++ " where " ++ tyStr t ++ " is expected"))

/-- every bound of one type parameter is satisfied by its argument -/
def boundsOk (p : TProg) (Γ : Ctx) (what : String) (t : Ty) : List String → TC Unit
  | [] => pure ()
  | b :: bs =>
    if implementsTrait p Γ t b then boundsOk p Γ what t bs
    else throw (.unsatisfiedBound (what ++ ": " ++ tyStr t ++ " does not implement " ++ b))

def allBoundsOk (p : TProg) (Γ : Ctx) (what : String) : List TParam → List Ty → TC Unit
  | tp :: tps, t :: ts => do boundsOk p Γ what t tp.2; allBoundsOk p Γ what tps ts
  | _, _ => pure ()

/-- instantiate a signature: number of type arguments, their well-formedness, the bounds
    (a signature without type parameters used without type arguments is taken as it is) -/
def instantiate (p : TProg) (Γ : Ctx) (what : String) (s : Sig) (targs : List Ty) : TC (List Ty × Ty) :=
  if s.tparams.isEmpty && targs.isEmpty then pure (s.params, s.ret) else
  if s.tparams.length != targs.length then
    throw (.wrongTypeArgCount (what ++ ": " ++ toString s.tparams.length ++ " type arguments expected, " ++ toString targs.length ++ " given"))
  else do
    wfTy.wfTys p Γ targs
    allBoundsOk p Γ what s.tparams targs
    let σ := (s.tparams.map (·.1)).zip targs
    pure (substTys σ s.params, substTy σ s.ret)

def builtinFn (f : String) : Option (List Ty × Ty) :=
  match f with
  | "print" | "println" => some ([.str], .unit)
  | "exit" => some ([.i32], .unit)
  | "unreachable" => some ([], tNever)
  | "fatal_error" => some ([.str], tNever)
  | _ => none

/-- `let pat: ty = e` where `e` has type `te`: the bindings it adds -/
def letBinds (p : TProg) (Γ : Ctx) (pat : TPat) (ty : Option Ty) (te : Ty) : TC (List Binding) :=
  match ty with
  | some t => do
    wfTy p Γ t
    if compat t te then patBinds p pat t
    else throw (.typeMismatch ("initialiser of type " ++ tyStr te ++ ", " ++ tyStr t ++ " declared"))
  | none => patBinds p pat te

mutual
/-- type synthesis -/
def synth (p : TProg) (Γ : Ctx) : TExpr → TC Ty
  | .lit l => pure (litTy l)
  | .var x => match Γ.lookup x with
    | some b => pure b.ty
    | none => throw (.unknownName ("variable " ++ x))
  | .un op e => do unTy op (← synth p Γ e)
  | .bin op a b => do
    let ta ← synth p Γ a
    let tb ← synth p Γ b
    if isNever ta || isNever tb then pure tNever else binTy p op ta tb
  | .andalso a b => do
    let ta ← synth p Γ a
    let tb ← synth p Γ b
    if compat .bool ta && compat .bool tb then pure .bool
    else throw (.typeMismatch ("logical operator on " ++ tyStr ta ++ " and " ++ tyStr tb))
  | .orelse a b => do
    let ta ← synth p Γ a
    let tb ← synth p Γ b
    if compat .bool ta && compat .bool tb then pure .bool
    else throw (.typeMismatch ("logical operator on " ++ tyStr ta ++ " and " ++ tyStr tb))
  | .call f targs args => do
    match p.findFn f with
    | some d =>
      let (ps, r) ← instantiate p Γ ("call of " ++ f) d.sig targs
      let ts ← synthList p Γ args
      checkArgs ("call of " ++ f) ps ts
      pure r
    | none =>
      match builtinFn f with
      | some (ps, r) =>
        if !targs.isEmpty then throw (.wrongTypeArgCount ("call of " ++ f)) else
        let ts ← synthList p Γ args
        checkArgs ("call of " ++ f) ps ts
        pure r
      | none => throw (.unknownName ("function " ++ f))
  | .mcall m f args => do
    match p.findModFn m f with
    | none => throw (.unknownName ("function " ++ m ++ "::" ++ f))
    | some d =>
      if !d.isPub then throw (.unknownName ("function " ++ m ++ "::" ++ f ++ " is not accessible")) else
      let (ps, r) ← instantiate p Γ ("call of " ++ f) d.sig []
      let ts ← synthList p Γ args
      checkArgs ("call of " ++ m ++ "::" ++ f) ps ts
      pure r
  | .scall ty f args => do
    wfTy p Γ ty
    let ts ← synthList p Γ args
    match ty, f with
    | .named "Array" [t], "new" => do allCompat "Array::new" t ts; pure ty
    | .named "Vec" [t], "new" => do allCompat "Vec::new" t ts; pure ty
    | .named "Array" [t], "zero" =>
      if !isZeroable t then throw (.unsatisfiedBound ("Array::zero for " ++ tyStr t)) else do
      checkArgs "Array::zero" [.i64] ts; pure ty
    | .named "Array" [t], "fill" => do checkArgs "Array::fill" [.i64, t] ts; pure ty
    | .named "Array" [t], "fill_with" => do checkArgs "Array::fill_with" [.i64, .fn [.i64] t] ts; pure ty
    | .i32, "max_value" | .i32, "min_value" => do checkArgs "Int32::max_value" [] ts; pure .i32
    | .i64, "max_value" | .i64, "min_value" => do checkArgs "Int64::max_value" [] ts; pure .i64
    | .named n [], f =>
      match firstSome (fun (i : TImpl) => if i.ty == n then i.methods.find? (fun m => m.isStatic && m.name == f) else none) p.impls with
      | some d => do
        let (ps, r) ← instantiate p Γ ("call of " ++ n ++ "::" ++ f) d.sig []
        checkArgs ("call of " ++ n ++ "::" ++ f) ps ts
        pure r
      | none => throw (.unknownName ("static function " ++ n ++ "::" ++ f))
    | t, f => throw (.unknownName ("static function " ++ tyStr t ++ "::" ++ f))
  | .meth m recv args => do
    let tr ← synth p Γ recv
    let ts ← synthList p Γ args
    match lookupMethod p Γ tr m with
    | some s => do
      let (ps, r) ← instantiate p Γ ("call of method " ++ m) s []
      checkArgs ("call of method " ++ m) ps ts
      pure r
    | none => throw (.unknownName ("method " ++ m ++ " of " ++ tyStr tr))
  | .callv f args => do
    let tf ← synth p Γ f
    let ts ← synthList p Γ args
    match tf with
    | .fn ps r => do checkArgs "call of a lambda" ps ts; pure r
    | t => throw (.typeMismatch ("call of a value of type " ++ tyStr t))
  | .lambda ps ret body => do
    wfTy.wfTys p Γ (ps.map (·.2))
    wfTy p Γ ret
    let Γ' := { (Γ.bind (ps.map fun (x, t) => ⟨x, t, false⟩)) with ret := ret, inLoop := false }
    let tb ← synth p Γ' body
    if compat ret tb then pure (.fn (ps.map (·.2)) ret)
    else if tyEq tb .unit then throw (.missingReturn "lambda")
    else throw (.typeMismatch ("lambda body of type " ++ tyStr tb ++ ", " ++ tyStr ret ++ " declared"))
  | .tuple es => do pure (.tuple (← synthList p Γ es))
  | .tget e i => do
    match ← synth p Γ e with
    | .tuple ts => match ts[i]? with
      | some t => pure t
      | none => throw (.unknownName ("tuple element " ++ toString i))
    | t => throw (.typeMismatch ("tuple projection of " ++ tyStr t))
  | .new n args => do
    let ts ← synthList p Γ args
    match p.structFields n with
    | some fs => do checkArgs ("construction of " ++ n) (fs.map (·.2)) ts; pure (.named n [])
    | none => match p.classFields n with
      | some fs => do checkArgs ("construction of " ++ n) (fs.map (·.2)) ts; pure (.named n [])
      | none => throw (.unknownName ("type " ++ n))
  | .field e f => do
    let t ← synth p Γ e
    let fs : Option (List (String × Ty)) := match t with
      | .named n [] => match p.structFields n with
        | some fs => some fs
        | none => p.classFields n
      | _ => none
    match fs with
    | some fs => match fs.find? (·.1 == f) with
      | some (_, ft) => pure ft
      | none => throw (.unknownName ("field " ++ f ++ " of " ++ tyStr t))
    | none => throw (.unknownName ("field " ++ f ++ " of " ++ tyStr t))
  | .variant en vr targs args => do
    let ts ← synthList p Γ args
    if en == "Option" then
      match targs with
      | [a] => do
        wfTy p Γ a
        if vr == "Some" then do checkArgs "Some" [a] ts; pure (.named "Option" [a])
        else if vr == "None" then do checkArgs "None" [] ts; pure (.named "Option" [a])
        else throw (.unknownName ("variant Option::" ++ vr))
      | _ => throw (.wrongTypeArgCount ("Option::" ++ vr ++ " takes 1 type argument, " ++ toString targs.length ++ " given"))
    else
      match p.enumVariants en with
      | none => throw (.unknownName ("enum " ++ en))
      | some vs =>
        if !targs.isEmpty then throw (.wrongTypeArgCount ("enum " ++ en ++ " takes no type arguments")) else
        match vs.find? (·.1 == vr) with
        | none => throw (.unknownName ("variant " ++ en ++ "::" ++ vr))
        | some (_, ps) => do checkArgs ("variant " ++ en ++ "::" ++ vr) ps ts; pure (.named en [])
  | .matchE e arms => do
    let t ← synth p Γ e
    let r ← synthArms p Γ t arms
    match r with
    | none => throw (.nonExhaustiveMatch "match without arms")
    | some rt =>
      if exhaustive p t (arms.map (·.1)) then pure rt
      else throw (.nonExhaustiveMatch ("match on " ++ tyStr t))
  | .ite c t e => do
    let tc ← synth p Γ c
    if !compat .bool tc then throw (.typeMismatch ("condition of type " ++ tyStr tc)) else
    let tt ← synth p Γ t
    match ← synthOpt p Γ e with
    | none =>
      -- without `else` the value of the `if` is unit, so the block must not produce anything else
      -- (dora-frontend does not check this; see corpus/C05/if-without-else-value.dora)
      if compat .unit tt then pure .unit
      else throw (.typeMismatch ("if without else: block of type " ++ tyStr tt))
    | some te => joinTy tt te
  | .block ss => synthBlock p Γ ss
  | .letE pat ty e => do
    -- a `let` that is not a statement of a block binds nothing visible
    let _ ← letBinds p Γ pat ty (← synth p Γ e)
    pure .unit
  | .assign lhs e => do
    let tl ← synth p Γ lhs
    let te ← synth p Γ e
    placeOk p Γ lhs
    if compat tl te then pure .unit
    else throw (.typeMismatch ("assignment of " ++ tyStr te ++ " to a place of type " ++ tyStr tl))
  | .while c b => do
    let tc ← synth p Γ c
    if !compat .bool tc then throw (.typeMismatch ("condition of type " ++ tyStr tc)) else
    let _ ← synth p { Γ with inLoop := true } b
    pure .unit
  | .forRange x lo hi b => do
    let tl ← synth p Γ lo
    let th ← synth p Γ hi
    if !(compat .i64 tl && compat .i64 th) then throw (.typeMismatch "range bounds") else
    let _ ← synth p { (Γ.bind [⟨x, .i64, false⟩]) with inLoop := true } b
    pure .unit
  | .forEach x c b => do
    let tc ← synth p Γ c
    match elemTy tc with
    | some t => do
      let _ ← synth p { (Γ.bind [⟨x, t, false⟩]) with inLoop := true } b
      pure .unit
    | none => throw (.typeMismatch ("for over a value of type " ++ tyStr tc))
  | .brk => if Γ.inLoop then pure tNever else throw (.malformed "break outside a loop")
  | .cont => if Γ.inLoop then pure tNever else throw (.malformed "continue outside a loop")
  | .ret e => do
    match ← synthOpt p Γ e with
    | none =>
      if tyEq Γ.ret .unit then pure tNever
      else throw (.missingReturn ("return without a value, " ++ tyStr Γ.ret ++ " declared"))
    | some t =>
      if compat Γ.ret t then pure tNever
      else throw (.typeMismatch ("return of " ++ tyStr t ++ ", " ++ tyStr Γ.ret ++ " declared"))
  | .index a i => do
    let ta ← synth p Γ a
    let ti ← synth p Γ i
    match elemTy ta with
    | some t => if compat .i64 ti then pure t else throw (.typeMismatch ("index of type " ++ tyStr ti))
    | none => throw (.typeMismatch ("indexing a value of type " ++ tyStr ta))
  | .template parts => do
    let ts ← synthList p Γ parts
    if ts.all (fun t => isPrintable t || isNever t) then pure .str
    else throw (.typeMismatch "template hole is not printable")
  | .asTrait tr e => do
    let t ← synth p Γ e
    match p.findTrait tr with
    | none => throw (.unknownName ("trait " ++ tr))
    | some _ =>
      if implementsTrait p Γ t tr then pure (.named tr [])
      else throw (.unsatisfiedBound (tyStr t ++ " does not implement " ++ tr))
  | .at _ e => synth p Γ e
  | .assert e => do
    let t ← synth p Γ e
    if compat .bool t then pure .unit else throw (.typeMismatch ("assert on " ++ tyStr t))

def synthOpt (p : TProg) (Γ : Ctx) : Option TExpr → TC (Option Ty)
  | none => pure none
  | some e => do pure (some (← synth p Γ e))

def synthList (p : TProg) (Γ : Ctx) : List TExpr → TC (List Ty)
  | [] => pure []
  | e :: es => do
    let t ← synth p Γ e
    let ts ← synthList p Γ es
    pure (t :: ts)

/-- join of the arm types (`none` = no arm) -/
def synthArms (p : TProg) (Γ : Ctx) (t : Ty) : List (TPat × TExpr) → TC (Option Ty)
  | [] => pure none
  | (pat, body) :: rest => do
    let bs ← patBinds p pat t
    let tb ← synth p (Γ.bind bs) body
    match ← synthArms p Γ t rest with
    | none => pure (some tb)
    | some tr => do pure (some (← joinTy tb tr))

/-- statements of a block: a `let` extends the context of the following statements; the type of the block
    is the type of its last statement -/
def synthBlock (p : TProg) (Γ : Ctx) : List TExpr → TC Ty
  | [] => pure .unit
  | .at _ (.letE pat ty e) :: rest => do
    let bs ← letBinds p Γ pat ty (← synth p Γ e)
    if rest.isEmpty then pure .unit else synthBlock p (Γ.bind bs) rest
  | .letE pat ty e :: rest => do
    let bs ← letBinds p Γ pat ty (← synth p Γ e)
    if rest.isEmpty then pure .unit else synthBlock p (Γ.bind bs) rest
  | e :: rest => do
    let t ← synth p Γ e
    if rest.isEmpty then pure t else synthBlock p Γ rest

/-- the left-hand side of an assignment denotes a place that may be written -/
def placeOk (p : TProg) (Γ : Ctx) : TExpr → TC Unit
  | .var x => match Γ.lookup x with
    | some b => if b.isMut then pure () else throw (.immutableAssign x)
    | none => throw (.unknownName ("variable " ++ x))
  | .field a _ => do
    let ta ← synth p Γ a
    if isClassTy p ta then pure () else placeOk p Γ a
  | .tget a _ => placeOk p Γ a
  | .index _ _ => pure ()
  | _ => throw (.malformed "assignment to something that is not a place")
end

/-! ## declarations -/

/-- body of a function-like declaration against its declared result type -/
def checkBody (p : TProg) (Γ : Ctx) (what : String) (ret : Ty) (body : TExpr) : TC Unit := do
  let tb ← synth p { Γ with ret := ret, inLoop := false } body
  if compat ret tb then pure ()
  else if tyEq tb .unit then throw (.missingReturn (what ++ " must return " ++ tyStr ret))
  else throw (.typeMismatch (what ++ ": body of type " ++ tyStr tb ++ ", " ++ tyStr ret ++ " declared"))

def globalBindings (p : TProg) : List Binding := (p.globals.map fun g => ⟨g.name, g.ty, g.isMut⟩).reverse

/-- `f` succeeds on every element, in order -/
def allM {α} (f : α → TC Unit) : List α → TC Unit
  | [] => pure ()
  | a :: as => do f a; allM f as

def checkFn (p : TProg) (self : Option Ty) (outerTps : List TParam) (f : TFn) : TC Unit := do
  let Γ0 : Ctx := { vars := globalBindings p, tparams := outerTps ++ f.tparams }
  allM (fun (tp : TParam) => allM (fun b => if (p.findTrait b).isNone then throw (.unknownName ("trait " ++ b)) else pure ()) tp.2) f.tparams
  wfTy.wfTys p Γ0 (f.params.map (·.2))
  wfTy p Γ0 f.ret
  let selfB : List Binding := match self with
    | some t => if f.isStatic then [] else [⟨"self", t, f.selfKind == .mutating⟩]
    | none => []
  let Γ := Γ0.bind (selfB ++ f.params.map fun (x, t) => ⟨x, t, false⟩)
  checkBody p Γ ("function " ++ f.name) f.ret f.body

/-- an impl of a trait provides every required method, with the trait's signature -/
def checkImplComplete (p : TProg) (i : TImpl) : TC Unit :=
  match i.trait with
  | none => pure ()
  | some tr =>
    match p.findTrait tr with
    | none => throw (.unknownName ("trait " ++ tr))
    | some t => do
      allM (fun (s : TSig) =>
        match i.methods.find? (·.name == s.name) with
        | none => throw (.missingTraitMethod ("impl " ++ tr ++ " for " ++ i.ty ++ " lacks " ++ s.name))
        | some m =>
          if !(tysEq (m.params.map (·.2)) s.params && tyEq m.ret s.ret) then
            throw (.typeMismatch ("signature of " ++ s.name ++ " in impl " ++ tr ++ " for " ++ i.ty))
          else pure ()) t.sigs
      allM (fun (m : TFn) =>
        if (t.methodSig m.name).isNone then throw (.unknownName ("method " ++ m.name ++ " is not a member of trait " ++ tr))
        else pure ()) i.methods

def checkGlobals (p : TProg) : List TGlobal → List Binding → TC Unit
  | [], _ => pure ()
  | g :: rest, seen => do
    let Γ : Ctx := { vars := seen }
    wfTy p Γ g.ty
    let t ← synth p Γ g.init
    if !compat g.ty t then throw (.typeMismatch ("initialiser of global " ++ g.name)) else
    checkGlobals p rest (⟨g.name, g.ty, g.isMut⟩ :: seen)

/-- declarations: field / variant types, impl completeness -/
def checkDecls (p : TProg) : TC Unit := do
  allM (fun (s : String × List (String × Ty)) => wfTy.wfTys p {} (s.2.map (·.2))) (p.structs ++ p.classes)
  allM (fun (e : String × List (String × List Ty)) => allM (fun (v : String × List Ty) => wfTy.wfTys p {} v.2) e.2) p.enums
  allM (fun (i : TImpl) => do
    if !p.isUserType i.ty then throw (.unknownName ("type " ++ i.ty)) else
    checkImplComplete p i) p.impls

def checkMain (p : TProg) : TC Unit :=
  match p.findFn "main" with
  | some m => if m.params.isEmpty then pure () else throw (.malformed "main takes parameters")
  | none => throw (.malformed "no main")

/-- the whole program -/
def check (p : TProg) : TC Unit := do
  checkDecls p
  checkGlobals p p.globals []
  allM (fun (t : TTrait) => allM (checkFn p (some (.tparam "Self")) [("Self", [t.name])]) t.defaults) p.traits
  allM (fun (i : TImpl) => allM (checkFn p (some (.named i.ty [])) []) i.methods) p.impls
  allM (checkFn p none []) p.fns
  checkMain p

/-- the verdict word of the line protocol -/
def verdict (p : TProg) : String :=
  match check p with
  | .ok _ => "ok"
  | .error e => "error " ++ e.className

end Dora.Typing
