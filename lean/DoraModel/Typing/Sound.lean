import DoraModel.Typing.SoundBase
/-!
# C05 soundness, part 2: the first-order core

Fragment (`frag`): literals of type (), Bool, Int32, Int64; variables; unary and binary operators (except
reference identity); `&&` `||`; calls of top-level functions without type parameters; tuples and tuple
projection; `if`; blocks with `let x: T = e` / `let mut x: T = e`; assignment to a variable; `while`;
`break` / `continue` / `return`; `assert`; line markers.
-/
namespace Dora.Typing
open Dora.Mini

mutual
def frag (p : TProg) : TExpr → Bool
  | .lit l => match l with
    | .unit | .bool _ | .i32 _ | .i64 _ => true
    | _ => false
  | .var _ => true
  | .un _ e => frag p e
  | .bin op a b => (op != .is && op != .isnot) && frag p a && frag p b
  | .andalso a b => frag p a && frag p b
  | .orelse a b => frag p a && frag p b
  | .call f targs args => targs.isEmpty && (p.findFn f).isSome && fragList p args
  | .tuple es => fragList p es
  | .tget e _ => frag p e
  | .ite c t e => frag p c && frag p t && fragOpt p e
  | .block ss => fragList p ss
  | .letE (.var _ _) (some _) e => frag p e
  | .assign (.var _) e => frag p e
  | .while c b => frag p c && frag p b
  | .brk => true
  | .cont => true
  | .ret e => fragOpt p e
  | .at _ e => frag p e
  | .assert e => frag p e
  | _ => false
def fragList (p : TProg) : List TExpr → Bool
  | [] => true
  | e :: es => frag p e && fragList p es
def fragOpt (p : TProg) : Option TExpr → Bool
  | none => true
  | some e => frag p e
end

/-- a program of the fragment: no globals, no module functions, no generic functions, every body in `frag` -/
def fragProg (p : TProg) : Bool :=
  p.globals.isEmpty && p.fns.all fun f => f.modName.isNone && f.tparams.isEmpty && frag p f.body

/-! ## store and environment typing -/

abbrev STy := List Ty

structure StOK (S : STy) (s : St) : Prop where
  size : s.cells.size = S.length
  typed : ∀ (i : Nat) (t : Ty), S[i]? = some t → ∃ v, s.cells[i]? = some v ∧ vt v t
  genv : s.genv = []

def EnvOK (vars : List Binding) (env : Env) (S : STy) : Prop :=
  ∀ x b, vars.find? (·.name == x) = some b → ∃ c, lookupEnv env x = some c ∧ S[c]? = some b.ty

def Ext (S S' : STy) : Prop := ∃ Δ, S' = S ++ Δ

theorem Ext.refl (S : STy) : Ext S S := ⟨[], by simp⟩
theorem Ext.trans {a b c : STy} (h1 : Ext a b) (h2 : Ext b c) : Ext a c := by
  obtain ⟨d1, rfl⟩ := h1
  obtain ⟨d2, rfl⟩ := h2
  exact ⟨d1 ++ d2, by simp⟩

theorem Ext.get {S S' : STy} (h : Ext S S') {i : Nat} {t : Ty} (hi : S[i]? = some t) : S'[i]? = some t := by
  obtain ⟨d, rfl⟩ := h
  rw [List.getElem?_append_left]
  · exact hi
  · exact (List.getElem?_eq_some_iff.mp hi).1

theorem EnvOK.ext {vars env} {S S' : STy} (h : EnvOK vars env S) (he : Ext S S') : EnvOK vars env S' := by
  intro x b hb
  obtain ⟨c, hc, ht⟩ := h x b hb
  exact ⟨c, hc, he.get ht⟩

/-- what an abrupt end may be: never `stuck`; `break`/`continue` only inside a loop; `return v` with a value
    of the declared result type -/
def StopOK (Γ : Ctx) : Stop → Prop
  | .brk => Γ.inLoop = true
  | .cont => Γ.inLoop = true
  | .ret v => vt v Γ.ret
  | .trap _ => True
  | .exit _ => True
  | .fatal _ => True
  | .stuck _ => False

def PostV (S : STy) (τ : Ty) (v : Val) (s' : St) : Prop := ∃ S', Ext S S' ∧ StOK S' s' ∧ vt v τ
def PostE (S : STy) (Γ : Ctx) (e : Stop) (s' : St) : Prop := ∃ S', Ext S S' ∧ StOK S' s' ∧ StopOK Γ e

theorem tc_bind_ok {α β} {x : TC α} {f : α → TC β} {b : β} (h : (x >>= f) = .ok b) :
    ∃ a, x = .ok a ∧ f a = .ok b := by
  cases x with
  | error e => simp [bind, Except.bind] at h
  | ok a => exact ⟨a, rfl, h⟩

/-! ## primitive state operations -/

theorem sat_readCell {S : STy} {s : St} {c : Nat} {t : Ty} (hs : StOK S s) (hc : S[c]? = some t)
    {Q : Stop → St → Prop} : Sat (readCell c) s (fun v s' => s' = s ∧ vt v t) Q := by
  obtain ⟨v, hv, hvt⟩ := hs.typed c t hc
  intro r s' hr
  simp only [readCell, getSt] at hr
  rw [run_bind] at hr
  have : (get : M St).run s = some (.ok s, s) := rfl
  rw [this] at hr
  simp only [hv] at hr
  rw [run_pure] at hr
  cases hr
  exact ⟨rfl, hvt⟩

end Dora.Typing

namespace Dora.Typing
open Dora.Mini

theorem StOK.of_eq {S : STy} {s s' : St} (h : StOK S s) (hc : s'.cells = s.cells) (hg : s'.genv = s.genv) :
    StOK S s' :=
  ⟨by rw [hc]; exact h.size, by intro i t hi; rw [hc]; exact h.typed i t hi, by rw [hg]; exact h.genv⟩

theorem run_newCell (v : Val) (s : St) :
    (newCell v).run s = some (.ok s.cells.size, { s with cells := s.cells.push v }) := rfl

theorem StOK.push {S : STy} {s : St} {v : Val} {t : Ty} (h : StOK S s) (hv : vt v t) :
    StOK (S ++ [t]) { s with cells := s.cells.push v } := by
  refine ⟨by simp [h.size], ?_, h.genv⟩
  intro i t' hi
  by_cases hlt : i < S.length
  · rw [List.getElem?_append_left hlt] at hi
    obtain ⟨w, hw, hwt⟩ := h.typed i t' hi
    refine ⟨w, ?_, hwt⟩
    show (s.cells.push v)[i]? = some w
    rw [Array.getElem?_push]
    have : i ≠ s.cells.size := by rw [h.size]; omega
    simp [this, hw]
  · have hle : S.length ≤ i := by omega
    rw [List.getElem?_append_right hle] at hi
    have hi0 : i - S.length = 0 := by
      cases hd : i - S.length with
      | zero => rfl
      | succ k => rw [hd] at hi; simp at hi
    rw [hi0] at hi
    simp at hi
    subst hi
    have : i = s.cells.size := by rw [h.size]; omega
    refine ⟨v, ?_, hv⟩
    show (s.cells.push v)[i]? = some v
    rw [Array.getElem?_push]
    simp [this]

theorem run_writeCell (c : Nat) (v : Val) (s : St) :
    (writeCell c v).run s = some (.ok (), { s with cells := s.cells.setIfInBounds c v }) := rfl

theorem StOK.set {S : STy} {s : St} {c : Nat} {v : Val} {t : Ty} (h : StOK S s) (hc : S[c]? = some t) (hv : vt v t) :
    StOK S { s with cells := s.cells.setIfInBounds c v } := by
  refine ⟨by simp [h.size], ?_, h.genv⟩
  intro i t' hi
  show ∃ w, (s.cells.setIfInBounds c v)[i]? = some w ∧ vt w t'
  rw [Array.getElem?_setIfInBounds]
  by_cases hci : c = i
  · subst hci
    rw [hc] at hi
    cases hi
    have hlt : c < s.cells.size := by rw [h.size]; exact (List.getElem?_eq_some_iff.mp hc).1
    simp [hlt]
    exact hv
  · simp [hci]
    exact h.typed i t' hi

theorem lookupEnv_cons (y : String) (c : Nat) (env : Env) (x : String) :
    lookupEnv ((y, c) :: env) x = if y == x then some c else lookupEnv env x := by
  simp only [lookupEnv, List.find?]
  cases y == x <;> rfl

theorem PostE.ext {S S' : STy} {Γ : Ctx} {e : Stop} {s : St} (he : Ext S S') (h : PostE S' Γ e s) : PostE S Γ e s := by
  obtain ⟨S'', h1, h2, h3⟩ := h
  exact ⟨S'', he.trans h1, h2, h3⟩

theorem PostV.ext {S S' : STy} {τ : Ty} {v : Val} {s : St} (he : Ext S S') (h : PostV S' τ v s) : PostV S τ v s := by
  obtain ⟨S'', h1, h2, h3⟩ := h
  exact ⟨S'', he.trans h1, h2, h3⟩

/-- binding values to fresh cells extends store typing and environment consistently -/
theorem sat_bindAll (Q : Stop → St → Prop) : ∀ (bl : List Binding) (vs : List Val) (vars : List Binding) (env : Env) (S : STy) (s : St),
    vts vs (bl.map (·.ty)) → EnvOK vars env S → StOK S s →
    Sat (bindAll env ((bl.map (·.name)).zip vs)) s
      (fun env' s' => ∃ S', Ext S S' ∧ StOK S' s' ∧ EnvOK (bl.reverse ++ vars) env' S') Q
  | [], vs, vars, env, S, s, _, he, hs => by
    simp only [List.map_nil, List.zip_nil_left, bindAll]
    exact sat_pure ⟨S, Ext.refl S, hs, by simpa using he⟩
  | b :: bl, [], vars, env, S, s, hv, _, _ => by simp [vts] at hv
  | b :: bl, v :: vs, vars, env, S, s, hv, he, hs => by
    simp only [List.map_cons, List.zip_cons_cons, bindAll]
    simp only [List.map_cons, vts] at hv
    apply sat_bind (P₁ := fun c s₁ => c = S.length ∧ s₁ = { s with cells := s.cells.push v })
    · intro r s' hr
      rw [run_newCell] at hr
      cases hr
      exact ⟨hs.size, rfl⟩
    · rintro c s₁ ⟨rfl, rfl⟩
      have hs1 : StOK (S ++ [b.ty]) { s with cells := s.cells.push v } := hs.push hv.1
      have hext : Ext S (S ++ [b.ty]) := ⟨[b.ty], rfl⟩
      have he1 : EnvOK (b :: vars) ((b.name, S.length) :: env) (S ++ [b.ty]) := by
        intro x b' hb'
        rw [lookupEnv_cons]
        simp only [List.find?] at hb'
        cases hbx : b.name == x with
        | true =>
          rw [hbx] at hb'
          cases hb'
          exact ⟨S.length, rfl, by simp⟩
        | false =>
          rw [hbx] at hb'
          obtain ⟨c, hc, ht⟩ := he x b' hb'
          exact ⟨c, by simpa using hc, hext.get ht⟩
      have ih := sat_bindAll Q bl vs (b :: vars) ((b.name, S.length) :: env) (S ++ [b.ty]) _ hv.2 he1 hs1
      apply sat_mono ih
      · rintro env' s' ⟨S', h1, h2, h3⟩
        refine ⟨S', hext.trans h1, h2, ?_⟩
        simpa using h3
      · intro e s' h; exact h

theorem sat_catchRet {x : M Val} {s : St} {P : Val → St → Prop} {Q : Stop → St → Prop}
    (h : Sat x s P (fun e s' => match e with
      | .ret v => P v s'
      | .brk => False
      | .cont => False
      | e => Q e s')) : Sat (catchRet x) s P Q := by
  intro r s' hr
  simp only [catchRet, ExceptT.run, ExceptT.mk] at hr
  cases hx : x.run s with
  | none => simp only [ExceptT.run] at hx; rw [hx] at hr; cases hr
  | some r₁ =>
    obtain ⟨r₁, s₁⟩ := r₁
    have h1 := h r₁ s₁ hx
    simp only [ExceptT.run] at hx
    rw [hx] at hr
    cases r₁ with
    | ok v => cases hr; exact h1
    | error e =>
      cases e <;> simp at hr <;> obtain ⟨rfl, rfl⟩ := hr <;> first | exact h1 | exact h1.elim

theorem sat_catchLoop {x : M Val} {s : St} {P : Val → St → Prop} {Qin Q : Stop → St → Prop} {R : Loop → St → Prop}
    (h : Sat x s P Qin) (hv : ∀ v s', P v s' → R .next s')
    (hc : ∀ s', Qin .cont s' → R .next s') (hb : ∀ s', Qin .brk s' → R .broke s')
    (ho : ∀ e s', Qin e s' → (match e with | .brk => True | .cont => True | e => Q e s')) :
    Sat (catchLoop x) s R Q := by
  intro r s' hr
  simp only [catchLoop, ExceptT.run, ExceptT.mk] at hr
  cases hx : x.run s with
  | none => simp only [ExceptT.run] at hx; rw [hx] at hr; cases hr
  | some r₁ =>
    obtain ⟨r₁, s₁⟩ := r₁
    have h1 := h r₁ s₁ hx
    simp only [ExceptT.run] at hx
    rw [hx] at hr
    cases r₁ with
    | ok v => cases hr; exact hv v _ h1
    | error e =>
      have h2 := ho e s₁ h1
      cases e <;> simp at hr <;> obtain ⟨rfl, rfl⟩ := hr
      · exact hb _ h1
      · exact hc _ h1
      all_goals exact h2

end Dora.Typing

namespace Dora.Typing
open Dora.Mini

theorem vt_i32 {v : Val} (h : vt v .i32) : ∃ n, v = .int .w32 n := by
  cases v with
  | int w n => cases w <;> simp [vt] at h; exact ⟨n, rfl⟩
  | _ => simp [vt] at h
theorem vt_i64 {v : Val} (h : vt v .i64) : ∃ n, v = .int .w64 n := by
  cases v with
  | int w n => cases w <;> simp [vt] at h; exact ⟨n, rfl⟩
  | _ => simp [vt] at h
theorem vt_bool {v : Val} (h : vt v .bool) : ∃ b, v = .bool b := by
  cases v with
  | bool b => exact ⟨b, rfl⟩
  | int w n => cases w <;> simp [vt] at h
  | _ => simp [vt] at h
theorem vt_tuple {v : Val} {ts : List Ty} (h : vt v (.tuple ts)) : ∃ vs, v = .tuple vs ∧ vts vs ts := by
  cases v with
  | tuple vs => exact ⟨vs, rfl, by simpa [vt] using h⟩
  | int w n => cases w <;> simp [vt] at h
  | _ => simp [vt] at h
theorem vt_int_cases {v : Val} {t : Ty} (hi : isInt t = true) (h : vt v t) :
    (t = .i32 ∧ ∃ n, v = .int .w32 n) ∨ (t = .i64 ∧ ∃ n, v = .int .w64 n) := by
  cases t <;> simp [isInt] at hi
  · exact Or.inl ⟨rfl, vt_i32 h⟩
  · exact Or.inr ⟨rfl, vt_i64 h⟩

theorem vt_int32 (n : Int) : vt (.int .w32 n) .i32 := by simp [vt]
theorem vt_int64 (n : Int) : vt (.int .w64 n) .i64 := by simp [vt]
theorem vt_boolv (b : Bool) : vt (.bool b) .bool := by simp [vt]

/-- only first-order types have values -/
theorem vt_fo {v : Val} {t : Ty} (h : vt v t) :
    t = .unit ∨ t = .bool ∨ t = .i32 ∨ t = .i64 ∨ ∃ ts, t = .tuple ts := by
  cases v with
  | int w n => cases w <;> cases t <;> simp [vt] at h ⊢
  | unit => cases t <;> simp [vt] at h ⊢
  | bool b => cases t <;> simp [vt] at h ⊢
  | tuple vs => cases t <;> simp [vt] at h ⊢
  | _ => simp [vt] at h

/-- result of a primitive: state unchanged, value of the right type or a documented trap -/
def PrimPost (s : St) (τ : Ty) : Val → St → Prop := fun v s' => s' = s ∧ vt v τ
def PrimErr (s : St) : Stop → St → Prop := fun e s' => s' = s ∧ ∃ t, e = .trap t

theorem sat_intResult {w : IW} {τ : Ty} {s : St} (r : Except Trap Int) (hτ : ∀ n, vt (.int w n) τ) :
    Sat (do pure (.int w (← liftE r)) : M Val) s (PrimPost s τ) (PrimErr s) := by
  cases r with
  | ok a => exact sat_pure ⟨rfl, hτ a⟩
  | error t => exact sat_throw ⟨rfl, t, rfl⟩

theorem unPrim_sound {op : UnOp} {t τ : Ty} {v : Val} {s : St} (h : unTy op t = .ok τ) (hv : vt v t) :
    Sat (unPrim op v) s (PrimPost s τ) (PrimErr s) := by
  by_cases hn : isNever t = true
  · exact absurd hv (vt_never v t hn)
  · cases op <;> cases t <;> simp [unTy, hn] at h <;> try (first | cases h)
    · obtain ⟨n, rfl⟩ := vt_i32 hv; exact sat_intResult _ vt_int32
    · obtain ⟨n, rfl⟩ := vt_i64 hv; exact sat_intResult _ vt_int64
    · obtain ⟨b, rfl⟩ := vt_bool hv; exact sat_pure ⟨rfl, vt_boolv _⟩
    · obtain ⟨n, rfl⟩ := vt_i32 hv; exact sat_pure ⟨rfl, vt_int32 _⟩
    · obtain ⟨n, rfl⟩ := vt_i64 hv; exact sat_pure ⟨rfl, vt_int64 _⟩

end Dora.Typing

namespace Dora.Typing
open Dora.Mini

theorem and_true_split {a b : Bool} (h : (a && b) = true) : a = true ∧ b = true := by
  cases a <;> cases b <;> simp at h <;> exact ⟨rfl, rfl⟩

/-- two operands of the same Int32/Int64 type -/
theorem same_int {a b : Ty} {x y : Val} (hi : isInt a = true) (he : tyEq a b = true) (hx : vt x a) (hy : vt y b) :
    (a = .i32 ∧ ∃ n m, x = .int .w32 n ∧ y = .int .w32 m) ∨ (a = .i64 ∧ ∃ n m, x = .int .w64 n ∧ y = .int .w64 m) := by
  have hab := tyEq_eq _ _ he
  subst hab
  rcases vt_int_cases hi hx with ⟨rfl, n, rfl⟩ | ⟨rfl, n, rfl⟩
  · obtain ⟨m, rfl⟩ := vt_i32 hy; exact Or.inl ⟨rfl, n, m, rfl, rfl⟩
  · obtain ⟨m, rfl⟩ := vt_i64 hy; exact Or.inr ⟨rfl, n, m, rfl, rfl⟩

theorem arith_sound {op : BinOp} {a b : Ty} {x y : Val} {s : St}
    (hop : op = .add ∨ op = .sub ∨ op = .mul ∨ op = .div ∨ op = .mod ∨ op = .band ∨ op = .bor ∨ op = .bxor)
    (hi : isInt a = true) (he : tyEq a b = true) (hx : vt x a) (hy : vt y b) :
    Sat (binPrim op x y) s (PrimPost s a) (PrimErr s) := by
  rcases same_int hi he hx hy with ⟨rfl, n, m, rfl, rfl⟩ | ⟨rfl, n, m, rfl, rfl⟩
  · rcases hop with rfl | rfl | rfl | rfl | rfl | rfl | rfl | rfl
    · exact sat_intResult (addC .w32 n m) vt_int32
    · exact sat_intResult (subC .w32 n m) vt_int32
    · exact sat_intResult (mulC .w32 n m) vt_int32
    · exact sat_intResult (divC .w32 n m) vt_int32
    · exact sat_intResult (modC .w32 n m) vt_int32
    · exact sat_pure ⟨rfl, vt_int32 _⟩
    · exact sat_pure ⟨rfl, vt_int32 _⟩
    · exact sat_pure ⟨rfl, vt_int32 _⟩
  · rcases hop with rfl | rfl | rfl | rfl | rfl | rfl | rfl | rfl
    · exact sat_intResult (addC .w64 n m) vt_int64
    · exact sat_intResult (subC .w64 n m) vt_int64
    · exact sat_intResult (mulC .w64 n m) vt_int64
    · exact sat_intResult (divC .w64 n m) vt_int64
    · exact sat_intResult (modC .w64 n m) vt_int64
    · exact sat_pure ⟨rfl, vt_int64 _⟩
    · exact sat_pure ⟨rfl, vt_int64 _⟩
    · exact sat_pure ⟨rfl, vt_int64 _⟩

theorem shift_sound {op : BinOp} {a b : Ty} {x y : Val} {s : St}
    (hop : op = .shl ∨ op = .shr ∨ op = .sar)
    (hi : isInt a = true) (he : tyEq b .i32 = true) (hx : vt x a) (hy : vt y b) :
    Sat (binPrim op x y) s (PrimPost s a) (PrimErr s) := by
  have hb := tyEq_eq _ _ he
  subst hb
  obtain ⟨m, rfl⟩ := vt_i32 hy
  rcases vt_int_cases hi hx with ⟨rfl, n, rfl⟩ | ⟨rfl, n, rfl⟩
  · rcases hop with rfl | rfl | rfl
    · exact sat_intResult (shlC .w32 n m) vt_int32
    · exact sat_intResult (shrC .w32 n m) vt_int32
    · exact sat_intResult (sarC .w32 n m) vt_int32
  · rcases hop with rfl | rfl | rfl
    · exact sat_intResult (shlC .w64 n m) vt_int64
    · exact sat_intResult (shrC .w64 n m) vt_int64
    · exact sat_intResult (sarC .w64 n m) vt_int64

theorem cmp_sound {c : CmpOp} {a b : Ty} {x y : Val} {s : St}
    (hab : tyEq a b = true) (hx : vt x a) (hy : vt y b)
    (hty : a = .i32 ∨ a = .i64 ∨ (a = .bool ∧ (c = .eq ∨ c = .ne))) :
    Sat (binPrim (.cmp c) x y) s (PrimPost s .bool) (PrimErr s) := by
  have h := tyEq_eq _ _ hab
  subst h
  rcases hty with rfl | rfl | ⟨rfl, hc⟩
  · obtain ⟨n, rfl⟩ := vt_i32 hx
    obtain ⟨m, rfl⟩ := vt_i32 hy
    cases c <;> exact sat_pure ⟨rfl, vt_boolv _⟩
  · obtain ⟨n, rfl⟩ := vt_i64 hx
    obtain ⟨m, rfl⟩ := vt_i64 hy
    cases c <;> exact sat_pure ⟨rfl, vt_boolv _⟩
  · obtain ⟨n, rfl⟩ := vt_bool hx
    obtain ⟨m, rfl⟩ := vt_bool hy
    rcases hc with rfl | rfl <;> exact sat_pure ⟨rfl, vt_boolv _⟩

theorem binPrim_sound {p : TProg} {op : BinOp} {a b τ : Ty} {x y : Val} {s : St}
    (hop : (op != .is && op != .isnot) = true) (h : binTy p op a b = .ok τ) (hx : vt x a) (hy : vt y b) :
    Sat (binPrim op x y) s (PrimPost s τ) (PrimErr s) := by
  cases op with
  | is => simp at hop
  | isnot => simp at hop
  | add =>
    simp only [binTy] at h
    split at h
    · next hc => cases h; exact arith_sound (Or.inl rfl) (and_true_split hc).1 (and_true_split hc).2 hx hy
    · split at h
      · next hc =>
        have := tyEq_eq _ _ (and_true_split hc).1
        subst this
        rcases vt_fo hx with h' | h' | h' | h' | ⟨ts, h'⟩ <;> cases h'
      · cases h
  | sub | mul | div | mod | band | bor | bxor =>
    simp only [binTy] at h
    split at h
    · next hc =>
      cases h
      exact arith_sound (by simp) (and_true_split hc).1 (and_true_split hc).2 hx hy
    · cases h
  | shl | shr | sar =>
    simp only [binTy] at h
    split at h
    · next hc =>
      cases h
      exact shift_sound (by simp) (and_true_split hc).1 (and_true_split hc).2 hx hy
    · cases h
  | cmp c =>
    have hfo := vt_fo hx
    have hcond : tyEq a b = true ∧ (isInt a = true ∨ (a = .bool ∧ (c = .eq ∨ c = .ne))) ∧ τ = .bool := by
      cases c <;> simp only [binTy] at h <;> split at h <;> first | (cases h; done) | skip
      all_goals
        next hc =>
        cases h
        refine ⟨(and_true_split hc).2, ?_, rfl⟩
        have h1 := (and_true_split hc).1
        rcases hfo with rfl | rfl | rfl | rfl | ⟨ts, rfl⟩ <;> simp [isPrintable, isInt, tyEq] at h1 ⊢
    obtain ⟨hab, hk, rfl⟩ := hcond
    apply cmp_sound hab hx hy
    rcases hk with hk | hk
    · cases a <;> simp [isInt] at hk
      · exact Or.inl rfl
      · exact Or.inr (Or.inl rfl)
    · exact Or.inr (Or.inr hk)

end Dora.Typing

namespace Dora.Typing
open Dora.Mini

def RecOK (p : TProg) (rec : Rec) : Prop :=
  ∀ (e : TExpr) (Γ : Ctx) (env : Env) (S : STy) (s : St) (τ : Ty), frag p e = true → synth p Γ e = .ok τ →
    EnvOK Γ.vars env S → StOK S s → Sat (rec (erase e) env) s (PostV S τ) (PostE S Γ)

structure ProgOK (p : TProg) : Prop where
  frag : fragProg p = true
  fns : ∀ f ∈ p.fns, checkFn p none [] f = .ok ()

theorem tc_pure_ok {α} {a b : α} (h : (pure a : TC α) = .ok b) : a = b := by
  cases h; rfl

theorem evalList_ok {p : TProg} {rec : Rec} (hr : RecOK p rec) :
    ∀ (es : List TExpr) (Γ : Ctx) (env : Env) (S : STy) (s : St) (ts : List Ty),
      fragList p es = true → synthList p Γ es = .ok ts → EnvOK Γ.vars env S → StOK S s →
      Sat (evalList rec (eraseList es) env) s (fun vs s' => ∃ S', Ext S S' ∧ StOK S' s' ∧ vts vs ts) (PostE S Γ)
  | [], Γ, env, S, s, ts, _, h, _, hs => by
    simp only [synthList] at h
    have := tc_pure_ok h
    subst this
    simp only [eraseList, evalList]
    exact sat_pure ⟨S, Ext.refl S, hs, by simp [vts]⟩
  | e :: es, Γ, env, S, s, ts, hf, h, he, hs => by
    simp only [synthList] at h
    obtain ⟨t, ht, h2⟩ := tc_bind_ok h
    obtain ⟨ts', hts, h3⟩ := tc_bind_ok h2
    have := tc_pure_ok h3
    subst this
    simp only [fragList] at hf
    have hf1 := (and_true_split hf).1
    have hf2 := (and_true_split hf).2
    simp only [eraseList, evalList]
    apply sat_bind (hr e Γ env S s t hf1 ht he hs)
    rintro v s1 ⟨S1, hx1, hs1, hv⟩
    apply sat_bind (sat_mono (evalList_ok hr es Γ env S1 s1 ts' hf2 hts (he.ext hx1) hs1)
      (fun vs s' h => h) (fun e s' h => PostE.ext hx1 h))
    rintro vs s2 ⟨S2, hx2, hs2, hvs⟩
    exact sat_pure ⟨S2, hx1.trans hx2, hs2, by simp [vts]; exact ⟨hv, hvs⟩⟩

theorem vts_get : ∀ {vs : List Val} {ts : List Ty} {i : Nat} {t : Ty}, vts vs ts → ts[i]? = some t →
    ∃ v, vs[i]? = some v ∧ vt v t
  | [], [], i, t, _, h => by simp at h
  | [], _ :: _, i, t, hv, _ => by simp [vts] at hv
  | _ :: _, [], i, t, hv, _ => by simp [vts] at hv
  | v :: vs, t' :: ts, 0, t, hv, h => by
    simp at h; subst h
    simp only [vts] at hv
    exact ⟨v, by simp, hv.1⟩
  | v :: vs, t' :: ts, i + 1, t, hv, h => by
    simp only [vts] at hv
    simp at h
    obtain ⟨w, hw, hwt⟩ := vts_get hv.2 h
    exact ⟨w, by simpa using hw, hwt⟩

theorem joinTy_vt {a b τ : Ty} (h : joinTy a b = .ok τ) : (∀ v, vt v a → vt v τ) ∧ (∀ v, vt v b → vt v τ) := by
  unfold joinTy at h
  split at h
  · next hn =>
    have := tc_pure_ok h; subst this
    exact ⟨fun v hv => absurd hv (vt_never v a hn), fun v hv => hv⟩
  · split at h
    · next hn =>
      have := tc_pure_ok h; subst this
      exact ⟨fun v hv => hv, fun v hv => absurd hv (vt_never v b hn)⟩
    · split at h
      · next he =>
        have := tc_pure_ok h; subst this
        have := tyEq_eq _ _ he; subst this
        exact ⟨fun v hv => hv, fun v hv => hv⟩
      · cases h

/-- primitive result (state unchanged) as an expression result -/
theorem sat_prim {S : STy} {Γ : Ctx} {s : St} {τ : Ty} {x : M Val} (hs : StOK S s)
    (h : Sat x s (PrimPost s τ) (PrimErr s)) : Sat x s (PostV S τ) (PostE S Γ) := by
  apply sat_mono h
  · rintro v s' ⟨rfl, hv⟩; exact ⟨S, Ext.refl S, hs, hv⟩
  · rintro e s' ⟨rfl, t, rfl⟩; exact ⟨S, Ext.refl S, hs, trivial⟩

theorem eraseList_isEmpty (es : List TExpr) : (eraseList es).isEmpty = es.isEmpty := by
  cases es <;> rfl

abbrev BlockIH (p : TProg) (rec : Rec) (rest : List TExpr) : Prop :=
  ∀ (Γ : Ctx) (env : Env) (S : STy) (s : St) (τ : Ty), fragList p rest = true → synthBlock p Γ rest = .ok τ →
    EnvOK Γ.vars env S → StOK S s → Sat (evalBlock rec (eraseList rest) env) s (PostV S τ) (PostE S Γ)

/-- a statement that is not a `let` -/
theorem block_plain {p : TProg} {rec : Rec} (hr : RecOK p rec) (e : TExpr) (rest : List TExpr) (ih : BlockIH p rec rest)
    (Γ : Ctx) (env : Env) (S : STy) (s : St) (τ : Ty)
    (h1 : synthBlock p Γ (e :: rest) = (do let t ← synth p Γ e; if rest.isEmpty then pure t else synthBlock p Γ rest))
    (h2 : evalStmt rec (erase e) env = (do let v ← rec (erase e) env; pure (v, env)))
    (hf : fragList p (e :: rest) = true) (hτ : synthBlock p Γ (e :: rest) = .ok τ)
    (he : EnvOK Γ.vars env S) (hs : StOK S s) :
    Sat (evalBlock rec (eraseList (e :: rest)) env) s (PostV S τ) (PostE S Γ) := by
  rw [h1] at hτ
  obtain ⟨t, ht, h3⟩ := tc_bind_ok hτ
  simp only [fragList] at hf
  simp only [eraseList, evalBlock]
  rw [h2]
  apply sat_bind (P₁ := fun (r : Val × Env) s1 => r.2 = env ∧ PostV S t r.1 s1)
  · apply sat_bind (hr e Γ env S s t (and_true_split hf).1 ht he hs)
    intro v s1 hv
    exact sat_pure ⟨rfl, hv⟩
  · rintro ⟨v, env'⟩ s1 ⟨rfl, S1, hx1, hs1, hv⟩
    simp only [eraseList_isEmpty]
    cases hre : rest.isEmpty with
    | true =>
      rw [hre] at h3
      have := tc_pure_ok h3; subst this
      exact sat_pure ⟨S1, hx1, hs1, hv⟩
    | false =>
      rw [hre] at h3
      simp only [Bool.false_eq_true, if_false]
      apply sat_mono (ih Γ env' S1 s1 τ (and_true_split hf).2 h3 (he.ext hx1) hs1)
      · intro v s' h; exact PostV.ext hx1 h
      · intro e s' h; exact PostE.ext hx1 h

def LetPost (x : String) (m : Bool) (t : Ty) (Γ : Ctx) (S : STy) : (Val × Env) → St → Prop :=
  fun r s1 => r.1 = .unit ∧ ∃ S1, Ext S S1 ∧ StOK S1 s1 ∧ EnvOK (⟨x, t, m⟩ :: Γ.vars) r.2 S1

/-- evaluate the initialiser, bind the variable to a fresh cell -/
theorem let_core {p : TProg} {rec : Rec} (hr : RecOK p rec) (x : String) (m : Bool) (t ta : Ty) (a : TExpr)
    (Γ : Ctx) (env : Env) (S : STy) (s : St)
    (hfa : frag p a = true) (hta : synth p Γ a = .ok ta) (hc : compat t ta = true)
    (he : EnvOK Γ.vars env S) (hs : StOK S s) :
    Sat (do
      let v ← rec (erase a) env
      match matchPat (.var x) v with
      | some bs => do pure (.unit, ← bindAll env bs)
      | none => stuck "let pattern does not match" : M (Val × Env)) s (LetPost x m t Γ S) (PostE S Γ) := by
  apply sat_bind (hr a Γ env S s ta hfa hta he hs)
  rintro v s1 ⟨S1, hx1, hs1, hv⟩
  simp only [matchPat]
  have hb := sat_bindAll (PostE S Γ) [⟨x, t, m⟩] [v] Γ.vars env S1 s1 (by simp [vts]; exact vt_compat hc hv) (he.ext hx1) hs1
  simp only [List.map_cons, List.map_nil, List.zip_cons_cons, List.zip_nil_right] at hb
  apply sat_bind hb
  rintro env' s2 ⟨S2, hx2, hs2, he2⟩
  exact sat_pure ⟨rfl, S2, hx1.trans hx2, hs2, by simpa using he2⟩

theorem block_let {p : TProg} {rec : Rec} (e : TExpr) (x : String) (m : Bool) (t : Ty) (a : TExpr)
    (rest : List TExpr) (ih : BlockIH p rec rest)
    (Γ : Ctx) (env : Env) (S : STy) (s : St) (τ : Ty)
    (h1 : synthBlock p Γ (e :: rest) = (do
      let bs ← letBinds p Γ (.var x m) (some t) (← synth p Γ a)
      if rest.isEmpty then pure .unit else synthBlock p (Γ.bind bs) rest))
    (h2 : ∀ ta, synth p Γ a = .ok ta → compat t ta = true →
      Sat (evalStmt rec (erase e) env) s (LetPost x m t Γ S) (PostE S Γ))
    (hfr : fragList p rest = true) (hτ : synthBlock p Γ (e :: rest) = .ok τ) :
    Sat (evalBlock rec (eraseList (e :: rest)) env) s (PostV S τ) (PostE S Γ) := by
  rw [h1] at hτ
  obtain ⟨ta, hta, h3⟩ := tc_bind_ok hτ
  obtain ⟨bs, hbs, h4⟩ := tc_bind_ok h3
  simp only [letBinds] at hbs
  obtain ⟨u, hwf, h5⟩ := tc_bind_ok hbs
  split at h5
  · next hc =>
    simp only [patBinds] at h5
    have := tc_pure_ok h5; subst this
    simp only [eraseList, evalBlock]
    apply sat_bind (h2 ta hta hc)
    rintro ⟨v, env'⟩ s1 ⟨hvu, S1, hx1, hs1, he1⟩
    simp only at hvu
    subst hvu
    simp only [eraseList_isEmpty]
    cases hre : rest.isEmpty with
    | true =>
      rw [hre] at h4
      have := tc_pure_ok h4; subst this
      exact sat_pure ⟨S1, hx1, hs1, by simp [vt]⟩
    | false =>
      rw [hre] at h4
      simp only [Bool.false_eq_true, if_false] at h4 ⊢
      have he1' : EnvOK (Γ.bind [⟨x, t, m⟩]).vars env' S1 := by simpa [Ctx.bind] using he1
      apply sat_mono (ih (Γ.bind [⟨x, t, m⟩]) env' S1 s1 τ hfr h4 he1' hs1)
      · intro v s' h; exact PostV.ext hx1 h
      · rintro e s' ⟨S2, hx2, hs2, hst⟩
        exact ⟨S2, hx1.trans hx2, hs2, hst⟩
  · cases h5

theorem evalBlock_ok {p : TProg} {rec : Rec} (hr : RecOK p rec) : ∀ (ss : List TExpr), BlockIH p rec ss
  | [] => by
    intro Γ env S s τ _ hτ _ hs
    simp only [synthBlock] at hτ
    have := tc_pure_ok hτ; subst this
    simp only [eraseList, evalBlock]
    exact sat_pure ⟨S, Ext.refl S, hs, by simp [vt]⟩
  | e :: rest => by
    have ih := evalBlock_ok hr rest
    intro Γ env S s τ hf hτ he hs
    have hf' := hf
    simp only [fragList] at hf'
    have hfe := (and_true_split hf').1
    have hfr := (and_true_split hf').2
    cases e with
    | letE pat ty a =>
      cases pat with
      | var x m =>
        cases ty with
        | none => simp [frag] at hfe
        | some t =>
          simp only [frag] at hfe
          refine block_let _ x m t a rest ih Γ env S s τ (by simp only [synthBlock]) ?_ hfr hτ
          intro ta hta hc
          simp only [erase, erasePat, evalStmt]
          exact let_core hr x m t ta a Γ env S s hfe hta hc he hs
      | _ => simp [frag] at hfe
    | «at» l e' =>
      cases e' with
      | letE pat ty a =>
        cases pat with
        | var x m =>
          cases ty with
          | none => simp [frag] at hfe
          | some t =>
            simp only [frag] at hfe
            refine block_let _ x m t a rest ih Γ env S s τ (by simp only [synthBlock]) ?_ hfr hτ
            intro ta hta hc
            simp only [erase, erasePat, evalStmt]
            apply sat_bind (P₁ := fun _ s1 => StOK S s1) (sat_modSt (hs.of_eq rfl rfl))
            intro _ s1 hs1
            exact let_core hr x m t ta a Γ env S s1 hfe hta hc he hs1
        | _ => simp [frag] at hfe
      | _ =>
        exact block_plain hr _ rest ih Γ env S s τ (by simp only [synthBlock]) (by simp only [erase, evalStmt]) hf hτ he hs
    | _ =>
      first
      | exact block_plain hr _ rest ih Γ env S s τ (by simp only [synthBlock]) (by simp only [erase, evalStmt]) hf hτ he hs
      | (simp [frag] at hfe)

theorem vts_length : ∀ {vs : List Val} {ts : List Ty}, vts vs ts → vs.length = ts.length
  | [], [], _ => rfl
  | [], _ :: _, h => by simp [vts] at h
  | _ :: _, [], h => by simp [vts] at h
  | v :: vs, t :: ts, h => by
    simp only [vts] at h
    simp [vts_length h.2]

theorem go_vts : ∀ {what : String} {ps ts : List Ty} {vs : List Val}, ps.length = ts.length →
    checkArgs.go what ps ts = .ok () → vts vs ts → vts vs ps
  | _, [], [], vs, _, _, hv => hv
  | _, [], _ :: _, _, hl, _, _ => by simp at hl
  | _, _ :: _, [], _, hl, _, _ => by simp at hl
  | what, p :: ps, t :: ts, [], _, _, hv => by simp [vts] at hv
  | what, p :: ps, t :: ts, v :: vs, hl, hg, hv => by
    simp only [checkArgs.go] at hg
    simp only [vts] at hv ⊢
    split at hg
    · next hc => exact ⟨vt_compat hc hv.1, go_vts (by simpa using hl) hg hv.2⟩
    · cases hg

theorem checkArgs_vts {what : String} {ps ts : List Ty} {vs : List Val} (h : checkArgs what ps ts = .ok ())
    (hv : vts vs ts) : vts vs ps ∧ ps.length = vs.length := by
  unfold checkArgs at h
  split at h
  · cases h
  · next hl =>
    simp at hl
    exact ⟨go_vts hl h hv, by rw [hl, vts_length hv]⟩

theorem find_erase (f : String) (d : TFn) : ∀ (l : List TFn), (∀ g ∈ l, g.modName = none) →
    l.find? (fun g => g.modName.isNone && g.name == f) = some d →
    (l.map eraseFn).find? (fun g => g.name == f) = some (eraseFn d)
  | [], _, h => by simp at h
  | g :: l, hall, h => by
    have hg : g.modName = none := hall g (by simp)
    have hn : (eraseFn g).name = g.name := by simp [eraseFn, hg]
    simp only [List.map_cons, List.find?_cons] at h ⊢
    rw [hn]
    simp only [hg, Option.isNone_none, Bool.true_and] at h
    cases hgn : g.name == f with
    | true => rw [hgn] at h; simp at h; rw [h]
    | false =>
      rw [hgn] at h
      simp only at h ⊢
      exact find_erase f d l (fun g' hg' => hall g' (by simp [hg'])) h

theorem checkBody_ok {p : TProg} {Γ : Ctx} {what : String} {ret : Ty} {body : TExpr}
    (h : checkBody p Γ what ret body = .ok ()) :
    ∃ tb, synth p { Γ with ret := ret, inLoop := false } body = .ok tb ∧ compat ret tb = true := by
  unfold checkBody at h
  obtain ⟨tb, htb, h2⟩ := tc_bind_ok h
  refine ⟨tb, htb, ?_⟩
  split at h2
  · next hc => exact hc
  · split at h2 <;> cases h2

theorem step_ok {p : TProg} (hp : ProgOK p) {rec : Rec} (hr : RecOK p rec) : RecOK p (step (eraseProg p) rec) := by
  intro e Γ env S s τ hf hτ he hs
  cases e with
  | lit l =>
    simp only [synth] at hτ
    have := tc_pure_ok hτ
    subst this
    simp only [erase, step]
    apply sat_pure
    refine ⟨S, Ext.refl S, hs, ?_⟩
    cases l <;> simp [frag] at hf <;> simp [litVal, litTy, vt]
  | var x =>
    simp only [synth] at hτ
    simp only [erase, step]
    cases hb : Γ.lookup x with
    | none => rw [hb] at hτ; cases hτ
    | some b =>
      rw [hb] at hτ
      have := tc_pure_ok hτ
      subst this
      obtain ⟨c, hc, hct⟩ := he x b hb
      rw [hc]
      apply sat_mono (sat_readCell hs hct (Q := PostE S Γ))
      · rintro v s' ⟨rfl, hv⟩; exact ⟨S, Ext.refl S, hs, hv⟩
      · intro e s' h; exact h
  | un op a =>
    simp only [synth] at hτ
    obtain ⟨t, ht, h2⟩ := tc_bind_ok hτ
    simp only [frag] at hf
    simp only [erase, step]
    apply sat_bind (hr a Γ env S s t hf ht he hs)
    rintro v s1 ⟨S1, hx1, hs1, hv⟩
    exact sat_mono (sat_prim (Γ := Γ) hs1 (unPrim_sound h2 hv)) (fun v s' h => PostV.ext hx1 h) (fun e s' h => PostE.ext hx1 h)
  | «at» l a =>
    simp only [synth] at hτ
    simp only [frag] at hf
    simp only [erase, step]
    apply sat_bind (P₁ := fun _ s1 => StOK S s1)
    · exact sat_modSt (hs.of_eq rfl rfl)
    · intro _ s1 hs1
      exact hr a Γ env S s1 τ hf hτ he hs1
  | bin op a b =>
    simp only [synth] at hτ
    obtain ⟨ta, hta, h2⟩ := tc_bind_ok hτ
    obtain ⟨tb, htb, h3⟩ := tc_bind_ok h2
    simp only [frag] at hf
    have hfa := (and_true_split (and_true_split hf).1).2
    have hop := (and_true_split (and_true_split hf).1).1
    have hfb := (and_true_split hf).2
    simp only [erase, step]
    apply sat_bind (hr a Γ env S s ta hfa hta he hs)
    rintro x s1 ⟨S1, hx1, hs1, hvx⟩
    apply sat_bind (sat_mono (hr b Γ env S1 s1 tb hfb htb (he.ext hx1) hs1) (fun v s' h => h) (fun e s' h => PostE.ext hx1 h))
    rintro y s2 ⟨S2, hx2, hs2, hvy⟩
    split at h3
    · next hn =>
      exfalso
      cases hna : isNever ta with
      | true => exact vt_never x ta hna hvx
      | false =>
        rw [hna] at hn
        simp at hn
        exact vt_never y tb hn hvy
    · exact sat_mono (sat_prim (Γ := Γ) hs2 (binPrim_sound hop h3 hvx hvy))
        (fun v s' h => PostV.ext (hx1.trans hx2) h) (fun e s' h => PostE.ext (hx1.trans hx2) h)
  | andalso a b =>
    simp only [synth] at hτ
    obtain ⟨ta, hta, h2⟩ := tc_bind_ok hτ
    obtain ⟨tb, htb, h3⟩ := tc_bind_ok h2
    simp only [frag] at hf
    split at h3
    · next hc =>
      have := tc_pure_ok h3
      subst this
      simp only [erase, step]
      apply sat_bind (hr a Γ env S s ta (and_true_split hf).1 hta he hs)
      rintro x s1 ⟨S1, hx1, hs1, hvx⟩
      obtain ⟨bv, rfl⟩ := vt_bool (vt_compat (and_true_split hc).1 hvx)
      cases bv with
      | true =>
        apply sat_mono (hr b Γ env S1 s1 tb (and_true_split hf).2 htb (he.ext hx1) hs1)
        · rintro v s' ⟨S2, hx2, hs2, hv⟩
          exact ⟨S2, hx1.trans hx2, hs2, vt_compat (and_true_split hc).2 hv⟩
        · intro e s' h; exact PostE.ext hx1 h
      | false => exact sat_pure ⟨S1, hx1, hs1, vt_boolv _⟩
    · cases h3
  | orelse a b =>
    simp only [synth] at hτ
    obtain ⟨ta, hta, h2⟩ := tc_bind_ok hτ
    obtain ⟨tb, htb, h3⟩ := tc_bind_ok h2
    simp only [frag] at hf
    split at h3
    · next hc =>
      have := tc_pure_ok h3
      subst this
      simp only [erase, step]
      apply sat_bind (hr a Γ env S s ta (and_true_split hf).1 hta he hs)
      rintro x s1 ⟨S1, hx1, hs1, hvx⟩
      obtain ⟨bv, rfl⟩ := vt_bool (vt_compat (and_true_split hc).1 hvx)
      cases bv with
      | false =>
        apply sat_mono (hr b Γ env S1 s1 tb (and_true_split hf).2 htb (he.ext hx1) hs1)
        · rintro v s' ⟨S2, hx2, hs2, hv⟩
          exact ⟨S2, hx1.trans hx2, hs2, vt_compat (and_true_split hc).2 hv⟩
        · intro e s' h; exact PostE.ext hx1 h
      | true => exact sat_pure ⟨S1, hx1, hs1, vt_boolv _⟩
    · cases h3
  | tuple es =>
    simp only [synth] at hτ
    obtain ⟨ts, hts, h2⟩ := tc_bind_ok hτ
    have := tc_pure_ok h2
    subst this
    simp only [frag] at hf
    simp only [erase, step]
    apply sat_bind (evalList_ok hr es Γ env S s ts hf hts he hs)
    rintro vs s1 ⟨S1, hx1, hs1, hvs⟩
    exact sat_pure ⟨S1, hx1, hs1, by simpa [vt] using hvs⟩
  | assert a =>
    simp only [synth] at hτ
    obtain ⟨ta, hta, h2⟩ := tc_bind_ok hτ
    simp only [frag] at hf
    split at h2
    · next hc =>
      have := tc_pure_ok h2
      subst this
      simp only [erase, step]
      apply sat_bind (hr a Γ env S s ta hf hta he hs)
      rintro x s1 ⟨S1, hx1, hs1, hvx⟩
      obtain ⟨bv, rfl⟩ := vt_bool (vt_compat hc hvx)
      cases bv with
      | true => exact sat_pure ⟨S1, hx1, hs1, by simp [vt]⟩
      | false => exact sat_throw ⟨S1, hx1, hs1, trivial⟩
    · cases h2
  | brk =>
    simp only [synth] at hτ
    simp only [erase, step]
    split at hτ
    · next hl => exact sat_throw ⟨S, Ext.refl S, hs, hl⟩
    · cases hτ
  | cont =>
    simp only [synth] at hτ
    simp only [erase, step]
    split at hτ
    · next hl => exact sat_throw ⟨S, Ext.refl S, hs, hl⟩
    · cases hτ
  | tget a i =>
    simp only [synth] at hτ
    obtain ⟨ta, hta, h2⟩ := tc_bind_ok hτ
    simp only [frag] at hf
    simp only [erase, step]
    apply sat_bind (hr a Γ env S s ta hf hta he hs)
    rintro x s1 ⟨S1, hx1, hs1, hvx⟩
    split at h2
    · next ts =>
      obtain ⟨vs, rfl, hvs⟩ := vt_tuple hvx
      split at h2
      · next t hti =>
        have := tc_pure_ok h2; subst this
        obtain ⟨w, hw, hwt⟩ := vts_get hvs hti
        simp only [hw]
        exact sat_pure ⟨S1, hx1, hs1, hwt⟩
      · cases h2
    · cases h2
  | ite c t e =>
    simp only [synth] at hτ
    obtain ⟨tc, htc, h2⟩ := tc_bind_ok hτ
    simp only [frag] at hf
    have hfc := (and_true_split (and_true_split hf).1).1
    have hft := (and_true_split (and_true_split hf).1).2
    have hfe := (and_true_split hf).2
    split at h2
    · cases h2
    · next hc =>
      simp at hc
      obtain ⟨tt, htt, h3⟩ := tc_bind_ok h2
      obtain ⟨oe, hoe, h4⟩ := tc_bind_ok h3
      simp only [erase, step]
      apply sat_bind (hr c Γ env S s tc hfc htc he hs)
      rintro x s1 ⟨S1, hx1, hs1, hvx⟩
      obtain ⟨bv, rfl⟩ := vt_bool (vt_compat hc hvx)
      cases e with
      | none =>
        simp only [synthOpt] at hoe
        have := tc_pure_ok hoe; subst this
        simp only at h4
        split at h4
        · next hu =>
          have := tc_pure_ok h4; subst this
          cases bv with
          | true =>
            apply sat_mono (hr t Γ env S1 s1 tt hft htt (he.ext hx1) hs1)
            · rintro v s' ⟨S2, hx2, hs2, hv⟩
              exact ⟨S2, hx1.trans hx2, hs2, vt_compat hu hv⟩
            · intro e s' h; exact PostE.ext hx1 h
          | false =>
            simp only [eraseOpt]
            exact sat_pure ⟨S1, hx1, hs1, by simp [vt]⟩
        · cases h4
      | some e' =>
        simp only [synthOpt] at hoe
        obtain ⟨te, hte, h5⟩ := tc_bind_ok hoe
        have := tc_pure_ok h5; subst this
        simp only at h4
        have hj := joinTy_vt h4
        simp only [fragOpt] at hfe
        cases bv with
        | true =>
          apply sat_mono (hr t Γ env S1 s1 tt hft htt (he.ext hx1) hs1)
          · rintro v s' ⟨S2, hx2, hs2, hv⟩
            exact ⟨S2, hx1.trans hx2, hs2, hj.1 v hv⟩
          · intro e s' h; exact PostE.ext hx1 h
        | false =>
          simp only [eraseOpt]
          apply sat_mono (hr e' Γ env S1 s1 te hfe hte (he.ext hx1) hs1)
          · rintro v s' ⟨S2, hx2, hs2, hv⟩
            exact ⟨S2, hx1.trans hx2, hs2, hj.2 v hv⟩
          · intro e s' h; exact PostE.ext hx1 h
  | ret e =>
    simp only [synth] at hτ
    obtain ⟨oe, hoe, h2⟩ := tc_bind_ok hτ
    simp only [frag] at hf
    cases e with
    | none =>
      simp only [synthOpt] at hoe
      have := tc_pure_ok hoe; subst this
      simp only at h2
      simp only [erase, eraseOpt, step]
      split at h2
      · next hu =>
        have := tyEq_eq _ _ hu
        exact sat_throw ⟨S, Ext.refl S, hs, by show vt Val.unit Γ.ret; rw [this]; simp [vt]⟩
      · cases h2
    | some e' =>
      simp only [synthOpt] at hoe
      obtain ⟨te, hte, h5⟩ := tc_bind_ok hoe
      have := tc_pure_ok h5; subst this
      simp only at h2
      simp only [fragOpt] at hf
      simp only [erase, eraseOpt, step]
      split at h2
      · next hc =>
        apply sat_bind (hr e' Γ env S s te hf hte he hs)
        rintro v s1 ⟨S1, hx1, hs1, hv⟩
        exact sat_throw ⟨S1, hx1, hs1, vt_compat hc hv⟩
      · cases h2
  | letE pat ty a =>
    cases pat with
    | var x m =>
      cases ty with
      | none => simp [frag] at hf
      | some t =>
        simp only [frag] at hf
        simp only [synth] at hτ
        obtain ⟨ta, hta, h2⟩ := tc_bind_ok hτ
        obtain ⟨u, hu, h3⟩ := tc_bind_ok h2
        have := tc_pure_ok h3; subst this
        simp only [erase, step]
        apply sat_bind (hr a Γ env S s ta hf hta he hs)
        rintro v s1 ⟨S1, hx1, hs1, hv⟩
        exact sat_pure ⟨S1, hx1, hs1, by simp [vt]⟩
    | _ => simp [frag] at hf
  | assign lhs a =>
    cases lhs with
    | var x =>
      simp only [frag] at hf
      simp only [synth] at hτ
      obtain ⟨tl, htl, h2⟩ := tc_bind_ok hτ
      obtain ⟨ta, hta, h3⟩ := tc_bind_ok h2
      obtain ⟨u, hpl, h4⟩ := tc_bind_ok h3
      cases hb : Γ.lookup x with
      | none => rw [hb] at htl; cases htl
      | some b =>
        rw [hb] at htl
        have := tc_pure_ok htl; subst this
        obtain ⟨c, hc, hct⟩ := he x b hb
        split at h4
        · next hcomp =>
          have := tc_pure_ok h4; subst this
          simp only [erase, step, lvSplit, evalBase, hc]
          apply sat_bind (P₁ := fun (bs : Base) s1 => s1 = s ∧ bs = .cell c) (sat_pure ⟨rfl, rfl⟩)
          rintro bs s0 ⟨rfl, rfl⟩
          apply sat_bind (hr a Γ env S s0 ta hf hta he hs)
          rintro v s1 ⟨S1, hx1, hs1, hv⟩
          apply sat_bind (P₁ := fun _ s2 => StOK S1 s2)
          · intro r s' hr'
            simp only [storeAt, baseSet] at hr'
            rw [run_writeCell] at hr'
            cases hr'
            exact hs1.set (hx1.get hct) (vt_compat hcomp hv)
          · intro _ s2 hs2
            exact sat_pure ⟨S1, hx1, hs2, by simp [vt]⟩
        · cases h4
    | _ => simp [frag] at hf
  | «while» c b =>
    have hτ0 := hτ
    have hf0 := hf
    simp only [synth] at hτ
    obtain ⟨tc, htc, h2⟩ := tc_bind_ok hτ
    simp only [frag] at hf
    split at h2
    · cases h2
    · next hc =>
      simp at hc
      obtain ⟨tb, htb, h3⟩ := tc_bind_ok h2
      have := tc_pure_ok h3; subst this
      simp only [erase, step]
      apply sat_bind (hr c Γ env S s tc (and_true_split hf).1 htc he hs)
      rintro x s1 ⟨S1, hx1, hs1, hvx⟩
      obtain ⟨bv, rfl⟩ := vt_bool (vt_compat hc hvx)
      cases bv with
      | false => exact sat_pure ⟨S1, hx1, hs1, by simp [vt]⟩
      | true =>
        have hbody := hr b { Γ with inLoop := true } env S1 s1 tb (and_true_split hf).2 htb (he.ext hx1) hs1
        apply sat_bind (P₁ := fun (_ : Loop) s2 => ∃ S2, Ext S1 S2 ∧ StOK S2 s2)
          (sat_catchLoop (Q := PostE S Γ) hbody ?_ ?_ ?_ ?_)
        · rintro l s2 ⟨S2, hx2, hs2⟩
          cases l with
          | next =>
            apply sat_mono (hr (.while c b) Γ env S2 s2 .unit hf0 hτ0 (he.ext (hx1.trans hx2)) hs2)
            · intro v s' h; exact PostV.ext (hx1.trans hx2) h
            · intro e s' h; exact PostE.ext (hx1.trans hx2) h
          | broke => exact sat_pure ⟨S2, hx1.trans hx2, hs2, by simp [vt]⟩
        · rintro v s' ⟨S2, hx2, hs2, _⟩; exact ⟨S2, hx2, hs2⟩
        · rintro s' ⟨S2, hx2, hs2, _⟩; exact ⟨S2, hx2, hs2⟩
        · rintro s' ⟨S2, hx2, hs2, _⟩; exact ⟨S2, hx2, hs2⟩
        · rintro e s' ⟨S2, hx2, hs2, hst⟩
          cases e with
          | brk => trivial
          | cont => trivial
          | ret v => exact ⟨S2, hx1.trans hx2, hs2, hst⟩
          | trap t => exact ⟨S2, hx1.trans hx2, hs2, trivial⟩
          | exit c => exact ⟨S2, hx1.trans hx2, hs2, trivial⟩
          | fatal m => exact ⟨S2, hx1.trans hx2, hs2, trivial⟩
          | stuck m => exact hst.elim
  | block ss =>
    simp only [synth] at hτ
    simp only [frag] at hf
    simp only [erase, step]
    exact evalBlock_ok hr ss Γ env S s τ hf hτ he hs
  | call f targs args =>
    simp only [frag] at hf
    have htg := (and_true_split (and_true_split hf).1).1
    have hfn := (and_true_split (and_true_split hf).1).2
    have hfa := (and_true_split hf).2
    cases targs with
    | cons t0 tr => simp at htg
    | nil =>
    cases hd : p.findFn f with
    | none => rw [hd] at hfn; simp at hfn
    | some d =>
    -- facts about the callee from the program hypotheses
    have hdm : d ∈ p.fns := List.mem_of_find?_eq_some hd
    have hfp := hp.frag
    unfold fragProg at hfp
    have hgl : p.globals = [] := by
      have := (and_true_split hfp).1
      cases hg : p.globals with
      | nil => rfl
      | cons a b => rw [hg] at this; simp at this
    have hall := List.all_eq_true.mp (and_true_split hfp).2
    have hd3 := hall d hdm
    have hdmod : d.modName = none := by
      have := (and_true_split (and_true_split hd3).1).1
      cases hmn : d.modName with
      | none => rfl
      | some m => rw [hmn] at this; simp at this
    have hdtp : d.tparams = [] := by
      have := (and_true_split (and_true_split hd3).1).2
      cases htp : d.tparams with
      | nil => rfl
      | cons a b => rw [htp] at this; simp at this
    have hdbody : frag p d.body = true := (and_true_split hd3).2
    have hallmod : ∀ g ∈ p.fns, g.modName = none := by
      intro g hg
      have := (and_true_split (and_true_split (hall g hg)).1).1
      cases hmn : g.modName with
      | none => rfl
      | some m => rw [hmn] at this; simp at this
    have herase : (eraseProg p).findFn f = some (eraseFn d) := by
      unfold TProg.findFn at hd
      simp only [Prog.findFn, eraseProg]
      exact find_erase f d p.fns hallmod hd
    -- the callee's body is well typed
    have hck := hp.fns d hdm
    unfold checkFn at hck
    simp only [hdtp, allM, List.append_nil] at hck
    obtain ⟨_, _, hck⟩ := tc_bind_ok hck
    obtain ⟨_, _, hck⟩ := tc_bind_ok hck
    obtain ⟨_, _, hck⟩ := tc_bind_ok hck
    obtain ⟨tb, htb, hcompat⟩ := checkBody_ok hck
    -- the call site
    simp only [synth, hd] at hτ
    obtain ⟨psr, hinst, h2⟩ := tc_bind_ok hτ
    simp only [instantiate, TFn.sig, hdtp, List.isEmpty_nil, Bool.and_self, if_true] at hinst
    have := tc_pure_ok hinst; subst this
    simp only at h2
    obtain ⟨ts, hts, h3⟩ := tc_bind_ok h2
    obtain ⟨_, hargs, h4⟩ := tc_bind_ok h3
    have := tc_pure_ok h4; subst this
    simp only [erase, step]
    apply sat_bind (evalList_ok hr args Γ env S s ts hfa hts he hs)
    rintro vs s1 ⟨S1, hx1, hs1, hvs⟩
    obtain ⟨hvps, hlen⟩ := checkArgs_vts hargs hvs
    rw [herase]
    simp only [callDecl]
    have hlen' : ¬ ((eraseFn d).params.length ≠ vs.length) := by
      intro hne
      apply hne
      simpa [eraseFn] using hlen
    rw [if_neg hlen']
    apply sat_bind (P₁ := fun st s' => st = s1 ∧ s' = s1) (sat_getSt ⟨rfl, rfl⟩)
    rintro st s' ⟨hst1, hst2⟩
    rw [hst1, hst2]
    apply sat_bind (P₁ := fun (env0 : Env) s'' => env0 = [] ∧ s'' = s1) (sat_pure ⟨hs1.genv, rfl⟩)
    rintro env0 s'' ⟨henv0, hst3⟩
    rw [henv0, hst3]
    -- parameters
    let bl : List Binding := d.params.map fun (xt : String × Ty) => ⟨xt.1, xt.2, false⟩
    have hbl1 : bl.map (·.name) = (eraseFn d).params.map (·.1) := by simp [bl, eraseFn, List.map_map, Function.comp_def]
    have hbl2 : bl.map (·.ty) = d.params.map (·.2) := by simp [bl, List.map_map, Function.comp_def]
    have hb := sat_bindAll (PostE S Γ) bl vs [] [] S1 s1 (by rw [hbl2]; exact hvps) (by intro x b hb; simp at hb) hs1
    rw [hbl1] at hb
    apply sat_bind hb
    rintro env' s2 ⟨S2, hx2, hs2, he2⟩
    apply sat_bind (P₁ := fun _ s3 => StOK S2 s3) (sat_modSt (hs2.of_eq rfl rfl))
    intro _ s3 hs3
    -- the body
    let Γf : Ctx := { ({ vars := globalBindings p, tparams := [] } : Ctx).bind ([] ++ d.params.map fun (x, t) => ⟨x, t, false⟩) with ret := d.ret, inLoop := false }
    have hΓf : Γf.vars = bl.reverse ++ [] := by
      simp [Γf, Ctx.bind, globalBindings, hgl, bl]
    have hbody := hr d.body Γf env' S2 s3 tb hdbody htb (by rw [hΓf]; exact he2) hs3
    apply sat_bind (P₁ := fun r s4 => ∃ S3, Ext S2 S3 ∧ StOK S3 s4 ∧ vt r d.ret)
    · apply sat_catchRet
      apply sat_mono hbody
      · rintro v s4 ⟨S3, hx3, hs4, hv⟩
        exact ⟨S3, hx3, hs4, vt_compat hcompat hv⟩
      · rintro e s4 ⟨S3, hx3, hs4, hst⟩
        cases e with
        | ret v => exact ⟨S3, hx3, hs4, hst⟩
        | brk => simp [StopOK, Γf] at hst
        | cont => simp [StopOK, Γf] at hst
        | trap t => exact ⟨S3, (hx1.trans hx2).trans hx3, hs4, trivial⟩
        | exit c => exact ⟨S3, (hx1.trans hx2).trans hx3, hs4, trivial⟩
        | fatal m => exact ⟨S3, (hx1.trans hx2).trans hx3, hs4, trivial⟩
        | stuck m => exact hst.elim
    · rintro r s4 ⟨S3, hx3, hs4, hv⟩
      apply sat_bind (P₁ := fun _ s5 => StOK S3 s5) (sat_modSt (hs4.of_eq rfl rfl))
      intro _ s5 hs5
      exact sat_pure ⟨S3, (hx1.trans hx2).trans hx3, hs5, hv⟩
  | _ => simp [frag] at hf

end Dora.Typing

namespace Dora.Typing
open Dora.Mini

theorem eval_ok {p : TProg} (hp : ProgOK p) : ∀ n, RecOK p (eval (eraseProg p) n)
  | 0 => by
    intro e Γ env S s τ _ _ _ _ r s' hr
    cases hr
  | n + 1 => step_ok hp (eval_ok hp n)

theorem allM_ok {α} {f : α → TC Unit} : ∀ {l : List α}, allM f l = .ok () → ∀ a ∈ l, f a = .ok ()
  | [], _, a, ha => by simp at ha
  | b :: l, h, a, ha => by
    simp only [allM] at h
    obtain ⟨u, hb, h2⟩ := tc_bind_ok h
    cases u
    rcases List.mem_cons.mp ha with rfl | ha'
    · exact hb
    · exact allM_ok h2 a ha'

/-- what `check` establishes for the soundness argument -/
theorem check_facts {p : TProg} (h : check p = .ok ()) :
    (∀ f ∈ p.fns, checkFn p none [] f = .ok ()) ∧ ∃ m, p.findFn "main" = some m ∧ m.params = [] := by
  unfold check at h
  obtain ⟨_, _, h⟩ := tc_bind_ok h
  obtain ⟨_, _, h⟩ := tc_bind_ok h
  obtain ⟨_, _, h⟩ := tc_bind_ok h
  obtain ⟨_, _, h⟩ := tc_bind_ok h
  obtain ⟨u, hfns, hmain⟩ := tc_bind_ok h
  cases u
  refine ⟨allM_ok hfns, ?_⟩
  unfold checkMain at hmain
  split at hmain
  · next m hm =>
    split at hmain
    · next hpe =>
      refine ⟨m, hm, ?_⟩
      cases hps : m.params with
      | nil => rfl
      | cons a b => rw [hps] at hpe; simp at hpe
    · cases hmain
  · cases hmain

/-- the run of the erased program is one `step` of the interpreter on the expression `main()` -/
theorem runMain_eq_call {p : TProg} (hgl : p.globals = []) (d : FnDecl) (hmain : (eraseProg p).findFn "main" = some d)
    (fuel : Nat) :
    runMain (eraseProg p) fuel = step (eraseProg p) (eval (eraseProg p) fuel) (erase (.call "main" [] [])) [] := by
  have hg : (eraseProg p).globals = [] := by simp [eraseProg, hgl]
  simp only [runMain, hg, runMain.initGlobals, erase, eraseList, step, evalList, hmain, pure_bind]

end Dora.Typing

namespace Dora.Typing
open Dora.Mini

theorem fragProg_globals {p : TProg} (h : fragProg p = true) : p.globals = [] := by
  unfold fragProg at h
  have := (and_true_split h).1
  cases hg : p.globals with
  | nil => rfl
  | cons a b => rw [hg] at this; simp at this

theorem fragProg_fn {p : TProg} (h : fragProg p = true) {d : TFn} (hd : d ∈ p.fns) :
    d.modName = none ∧ d.tparams = [] ∧ frag p d.body = true := by
  unfold fragProg at h
  have hd3 := List.all_eq_true.mp (and_true_split h).2 d hd
  refine ⟨?_, ?_, (and_true_split hd3).2⟩
  · have := (and_true_split (and_true_split hd3).1).1
    cases hmn : d.modName with
    | none => rfl
    | some m => rw [hmn] at this; simp at this
  · have := (and_true_split (and_true_split hd3).1).2
    cases htp : d.tparams with
    | nil => rfl
    | cons a b => rw [htp] at this; simp at this

theorem findFn_erase {p : TProg} (h : fragProg p = true) {f : String} {d : TFn} (hd : p.findFn f = some d) :
    (eraseProg p).findFn f = some (eraseFn d) := by
  unfold TProg.findFn at hd
  simp only [Prog.findFn, eraseProg]
  exact find_erase f d p.fns (fun g hg => (fragProg_fn h hg).1) hd

/-- the whole-program statement behind `soundness_core` -/
theorem run_not_stuck {p : TProg} (hfrag : fragProg p = true) (hck : check p = .ok ()) (fuel : Nat) (msg : String) :
    (runProg (eraseProg p) fuel).2.1 ≠ .stuck msg := by
  obtain ⟨hfns, m, hm, hmp⟩ := check_facts hck
  have hp : ProgOK p := ⟨hfrag, hfns⟩
  have hgl := fragProg_globals hfrag
  have hmm : m ∈ p.fns := List.mem_of_find?_eq_some hm
  obtain ⟨_, hmtp, _⟩ := fragProg_fn hfrag hmm
  have herase := findFn_erase hfrag hm
  have hsynth : synth p { ret := tNever } (.call "main" [] []) = .ok m.ret := by
    simp only [synth, hm, instantiate, TFn.sig, hmtp, hmp, List.isEmpty_nil, Bool.and_self, if_true, synthList,
      List.map_nil]
    rfl
  have hfrag' : frag p (.call "main" [] []) = true := by
    simp [frag, fragList, hm]
  have hst : StOK [] ({} : St) := ⟨rfl, by intro i t h; simp at h, rfl⟩
  have hsat := step_ok hp (eval_ok hp fuel) (.call "main" [] []) { ret := tNever } [] [] {} m.ret hfrag' hsynth
    (by intro x b hb; simp at hb) hst
  unfold runProg
  rw [runMain_eq_call hgl _ herase]
  cases hrun : (step (eraseProg p) (eval (eraseProg p) fuel) (erase (.call "main" [] [])) []).run {} with
  | none => simp
  | some rs =>
    obtain ⟨r, s'⟩ := rs
    have h1 := hsat r s' hrun
    cases r with
    | ok v => cases v <;> simp
    | error e =>
      obtain ⟨S', _, _, hstop⟩ := h1
      cases e with
      | brk => simp [StopOK] at hstop
      | cont => simp [StopOK] at hstop
      | ret v => exact absurd hstop (vt_never v tNever rfl)
      | stuck m => exact hstop.elim
      | trap t => simp
      | exit c => simp
      | fatal m => simp

end Dora.Typing
