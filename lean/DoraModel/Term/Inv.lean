import DoraModel.Term.Lemmas
/-! # C12 — the inductive invariant and its preservation -/
namespace Dora.Term

/-- per-thread part: lock ownership is what the pc says, registers of lock holders are current,
no thread has failed an assertion, and with one worker nobody enters the protocol -/
def LocOk (s : State) (u : Nat) (pc : PC) : Prop :=
  (holds pc = true ↔ s.lock = some u) ∧ RegOk s pc ∧ (s.n = 1 → pc = .work ∨ pc = .done)

structure Inv (s : State) : Prop where
  npos : 0 < s.n
  len : s.pcs.length = s.n
  olen : s.own.length = s.n
  loc : ∀ (u : Nat) (pc : PC), s.pcs[u]? = some pc → LocOk s u pc
  lockLt : ∀ t, s.lock = some t → t < s.n
  /-- `working` = number of workers outside the decremented region -/
  cntW : 1 < s.n → s.working = s.pcs.countP isW
  /-- every `awakening` token belongs to a signalled thread, or to the `notify_one` about to happen -/
  cntA : s.awakening ≤ s.pcs.countP isK + min (s.pcs.countP isWu6) (s.pcs.countP isWaiting)
  /-- only active workers own work -/
  ownA : ∀ (u k : Nat), s.own[u]? = some k → 0 < k → ∃ pc, s.pcs[u]? = some pc ∧ isActive pc = true
  /-- work in the shared pool implies an active worker -/
  shA : 0 < s.shared → 0 < s.pcs.countP isActive
  /-- after the end was announced both counters are 0 and everybody is on the straight path to `done` -/
  fin : 0 < s.pcs.countP isEnd → (s.n = 1 ∨ (s.working = 0 ∧ s.awakening = 0)) ∧ s.pcs.countP isPostEnd = s.n
  /-- both counters 0 is either the announced end or a transient state under the lock -/
  zero : 1 < s.n → s.working = 0 → s.awakening = 0 → 0 < s.pcs.countP isEnd ∨ 0 < s.pcs.countP isExc

theorem regOk_nonholder {s s' : State} {x : PC} (hx : holds x = false) (h : RegOk s x) : RegOk s' x := by
  cases x <;> simp_all [holds, RegOk]

theorem regOk_same {s s' : State} {x : PC} (hw : s'.working = s.working) (ha : s'.awakening = s.awakening)
    (h : RegOk s x) : RegOk s' x := by
  cases x <;> simp_all [RegOk] <;> omega

/-- a class of lock-holder pcs has no member among the other threads -/
theorem Inv.others_zero {s : State} (h : Inv s) {t : Nat} {pc : PC} (hpc : s.pcs[t]? = some pc)
    (hh : holds pc = true ∨ s.lock = none) (p : PC → Bool) (hp : ∀ x, p x = true → holds x = true)
    (y : PC) (hy : p y = false) : (s.pcs.set t y).countP p = 0 := by
  apply countP_zero_of
  intro u x hux
  rw [List.getElem?_set] at hux
  split at hux
  · split at hux
    · simp at hux; subst hux; exact hy
    · simp at hux
  · cases hpx : p x
    · rfl
    · exfalso
      have hu := (h.loc u x hux).1.mp (hp x hpx)
      rcases hh with hh | hh
      · have ht := (h.loc t pc hpc).1.mp hh
        rw [hu] at ht; simp at ht; omega
      · rw [hh] at hu; simp at hu

theorem Inv.noPanic {s : State} (h : Inv s) : s.pcs.countP isPanicked = 0 := by
  apply countP_zero_of
  intro u x hux
  have := (h.loc u x hux).2.1
  cases x <;> simp_all [RegOk, isPanicked]

/-- frame rule for the per-thread part under `pcs.set t pc'` -/
theorem loc_set {s s' : State} {t : Nat} {pc pc' : PC} (h : Inv s) (hpc : s.pcs[t]? = some pc)
    (hpcs : s'.pcs = s.pcs.set t pc') (hn : s'.n = s.n)
    (hnew : LocOk s' t pc')
    (hframe : (s'.lock = s.lock ∧ s'.working = s.working ∧ s'.awakening = s.awakening) ∨
              (holds pc = true ∧ (s'.lock = s.lock ∨ s'.lock = none)) ∨
              (s.lock = none ∧ s'.lock = some t ∧ s'.working = s.working ∧ s'.awakening = s.awakening)) :
    ∀ (u : Nat) (x : PC), s'.pcs[u]? = some x → LocOk s' u x := by
  intro u x hux
  rw [hpcs, List.getElem?_set] at hux
  split at hux
  · split at hux
    · simp at hux; subst hux; subst_vars; exact hnew
    · simp at hux
  · rename_i hne
    have hold := h.loc u x hux
    unfold LocOk at hold ⊢
    rcases hframe with ⟨hl, hw, ha⟩ | ⟨hh, hl⟩ | ⟨hl, hl', hw, ha⟩
    · exact ⟨by rw [hl]; exact hold.1, regOk_same hw ha hold.2.1, by rw [hn]; exact hold.2.2⟩
    · have ht := (h.loc t pc hpc).1.mp hh
      have hx : holds x = false := by
        cases hxx : holds x
        · rfl
        · have := hold.1.mp hxx; rw [ht] at this; simp at this; omega
      refine ⟨?_, regOk_nonholder hx hold.2.1, by rw [hn]; exact hold.2.2⟩
      rw [hx]
      rcases hl with hl | hl
      · rw [hl, ht]; simp; omega
      · rw [hl]; simp
    · have hx : holds x = false := by
        cases hxx : holds x
        · rfl
        · have := hold.1.mp hxx; rw [hl] at this; simp at this
      refine ⟨?_, regOk_same hw ha hold.2.1, by rw [hn]; exact hold.2.2⟩
      rw [hx, hl']; simp; omega

theorem lt_of_get {α} {l : List α} {t : Nat} {x : α} (h : l[t]? = some x) : t < l.length := by
  rcases Nat.lt_or_ge t l.length with hl | hl
  · exact hl
  · rw [List.getElem?_eq_none hl] at h; simp at h

theorem holds_sub_Wu6 : ∀ x, isWu6 x = true → holds x = true := by intro x; cases x <;> simp [isWu6, holds]
theorem holds_sub_Exc : ∀ x, isExc x = true → holds x = true := by intro x; cases x <;> simp [isExc, holds]

/-- the lock holder is the only thread that can be in a class of lock-holder pcs -/
theorem Inv.holder_counts {s : State} (h : Inv s) {t : Nat} {pc : PC} (hpc : s.pcs[t]? = some pc)
    (hh : holds pc = true) :
    s.pcs.countP isWu6 = (isWu6 pc).toNat ∧ s.pcs.countP isExc = (isExc pc).toNat := by
  have h1 := h.others_zero hpc (Or.inl hh) isWu6 holds_sub_Wu6 .work rfl
  have h2 := h.others_zero hpc (Or.inl hh) isExc holds_sub_Exc .work rfl
  have e1 := countP_set_get isWu6 PC.work hpc
  have e2 := countP_set_get isExc PC.work hpc
  have z1 : (isWu6 PC.work).toNat = 0 := rfl
  have z2 : (isExc PC.work).toNat = 0 := rfl
  omega

theorem Inv.nolock_counts {s : State} (h : Inv s) (hl : s.lock = none) :
    s.pcs.countP isWu6 = 0 ∧ s.pcs.countP isExc = 0 := by
  constructor <;> apply countP_zero_of <;> intro u x hux
  · cases hx : isWu6 x
    · rfl
    · have := (h.loc u x hux).1.mp (holds_sub_Wu6 x hx); rw [hl] at this; simp at this
  · cases hx : isExc x
    · rfl
    · have := (h.loc u x hux).1.mp (holds_sub_Exc x hx); rw [hl] at this; simp at this

/-- under the lock (and not between `awakening.store` and `notify_one`) the code's
`debug_assert!(working + awakening <= self.total)` and `assert!(working > 0)` hold -/
theorem Inv.holder_sum {s : State} (h : Inv s) {t : Nat} {pc : PC} (hpc : s.pcs[t]? = some pc)
    (hh : holds pc = true) (h6 : isWu6 pc = false) :
    s.working + s.awakening ≤ s.n ∧ (isW pc = true → 0 < s.working) := by
  have hu := (h.holder_counts hpc hh).1
  have hp := counts_partition s.pcs
  have hlen := h.len
  have hA := h.cntA
  have hW := h.cntW
  have hnpos := h.npos
  have hn1 : s.n ≠ 1 := by
    intro h1
    have := (h.loc t pc hpc).2.2 h1
    rcases this with rfl | rfl <;> simp [holds] at hh
  rw [h6] at hu
  refine ⟨by simp at hu; omega, fun hw => ?_⟩
  have := countP_pos_get isW hpc hw
  omega

end Dora.Term
