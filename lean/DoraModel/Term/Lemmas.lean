import DoraModel.Term.Model
/-!
# C12 — invariants of the termination protocol model

`Step` is the relational reading of `stepAt` (one constructor per row of DESIGN A.1, proved to cover
everything `accept` allows: `accept_step`).  `Inv` is the inductive invariant; all its global parts are
*counting* facts (`List.countP` over the pc list), so that one `List.set` changes each count by
`-[old pc in class] + [new pc in class]` and every step case is closed by `omega`.
-/
namespace Dora.Term

/-- relational form of `stepAt`: thread `t` at `pc` moves the system from `s` to the given state -/
inductive Step (s : State) (t : Nat) : PC → State → Prop
  | stutterW : Step s t .work s
  | stutterO : Step s t .obsEmpty s
  | takeOwnW (u k : Nat) : s.own[u]? = some k → 0 < k → Step s t .work { s with own := s.own.set u (k - 1) }
  | takeOwnO (u k : Nat) : s.own[u]? = some k → 0 < k →
      Step s t .obsEmpty { s with own := s.own.set u (k - 1), pcs := s.pcs.set t .work }
  | takeShW : 0 < s.shared → Step s t .work { s with shared := s.shared - 1 }
  | takeShO : 0 < s.shared → Step s t .obsEmpty { s with shared := s.shared - 1, pcs := s.pcs.set t .work }
  | obsEmpty1 : s.shared = 0 → s.own[t]? = some 0 → s.n = 1 → Step s t .work (s.setPc t .done)
  | obsEmptyN : s.shared = 0 → s.own[t]? = some 0 → s.n ≠ 1 → Step s t .work (s.setPc t .obsEmpty)
  | pushOwn (rd k : Nat) : s.own[t]? = some rd → Step s t .work { s with own := s.own.set t (rd + k) }
  | pushSh (k : Nat) : Step s t .work { s with shared := s.shared + k }
  | wakeUpCall : 1 < s.n → Step s t .work (s.setPc t (.wu1 s.working))
  | ttLock : 1 < s.n → s.lock = none → Step s t .obsEmpty { s with lock := some t, pcs := s.pcs.set t .tt1 }
  | tt1Panic : s.working = 0 → Step s t .tt1 (s.setPc t .panicked)
  | tt1Ok : s.working ≠ 0 → Step s t .tt1 (s.setPc t (.tt2 s.working))
  | tt2 (w : Nat) : Step s t (.tt2 w) { s with working := w - 1, pcs := s.pcs.set t (.tt3 (w - 1)) }
  | tt3Ok (w : Nat) : w + s.awakening ≤ s.n → Step s t (.tt3 w) (s.setPc t (.tt4 w s.awakening))
  | tt3Panic (w : Nat) : ¬ w + s.awakening ≤ s.n → Step s t (.tt3 w) (s.setPc t .panicked)
  | tt4All : Step s t (.tt4 0 0) { s with pcs := (s.pcs.map wake).set t .tt5 }
  | tt4Wait (w a : Nat) : ¬ (w = 0 ∧ a = 0) → Step s t (.tt4 w a) { s with lock := none, pcs := s.pcs.set t .waiting }
  | tt5 : Step s t .tt5 { s with lock := none, pcs := s.pcs.set t .done }
  | spur : Step s t .waiting (s.setPc t .woken)
  | relock : s.lock = none → Step s t .woken { s with lock := some t, pcs := s.pcs.set t .tw1 }
  | tw1 : Step s t .tw1 (s.setPc t (.tw2 s.working))
  | tw2Ok (w : Nat) : w + s.awakening ≤ s.n → Step s t (.tw2 w) (s.setPc t (.tw3 w s.awakening))
  | tw2Panic (w : Nat) : ¬ w + s.awakening ≤ s.n → Step s t (.tw2 w) (s.setPc t .panicked)
  | tw3Done : Step s t (.tw3 0 0) { s with lock := none, pcs := s.pcs.set t .done }
  | tw3Resume (w a : Nat) : 0 < a → Step s t (.tw3 w a) { s with awakening := a - 1, pcs := s.pcs.set t (.tw4 w) }
  | tw3Wait (w : Nat) : w ≠ 0 → Step s t (.tw3 w 0) { s with lock := none, pcs := s.pcs.set t .waiting }
  | tw4 (w : Nat) : Step s t (.tw4 w) { s with working := w + 1, pcs := s.pcs.set t .tw5 }
  | tw5 : Step s t .tw5 { s with lock := none, pcs := s.pcs.set t .work }
  | wu1Panic (r1 : Nat) : r1 = 0 → Step s t (.wu1 r1) (s.setPc t .panicked)
  | wu1Fast (r1 : Nat) : r1 ≠ 0 → r1 + s.awakening = s.n → Step s t (.wu1 r1) (s.setPc t .work)
  | wu1Slow (r1 : Nat) : r1 ≠ 0 → r1 + s.awakening ≠ s.n → Step s t (.wu1 r1) (s.setPc t .wu2)
  | wu2 : s.lock = none → Step s t .wu2 { s with lock := some t, pcs := s.pcs.set t .wu3 }
  | wu3 : Step s t .wu3 (s.setPc t (.wu4 s.working))
  | wu4Panic (w : Nat) : w = 0 ∨ ¬ (w + s.awakening ≤ s.n) → Step s t (.wu4 w) (s.setPc t .panicked)
  | wu4Ok (w : Nat) : 0 < w → w + s.awakening ≤ s.n → Step s t (.wu4 w) (s.setPc t (.wu5 w s.awakening))
  | wu5Store (w a : Nat) : w + a ≠ s.n → Step s t (.wu5 w a) { s with awakening := a + 1, pcs := s.pcs.set t .wu6 }
  | wu5Ret (w a : Nat) : w + a = s.n → Step s t (.wu5 w a) { s with lock := none, pcs := s.pcs.set t .work }
  | wu6Some (u : Nat) : s.pcs[u]? = some .waiting → Step s t .wu6 { s with pcs := (s.pcs.set u .woken).set t .wu7 }
  | wu6None : s.pcs.countP isWaiting = 0 → Step s t .wu6 (s.setPc t .wu7)
  | wu7 : Step s t .wu7 { s with lock := none, pcs := s.pcs.set t .work }

theorem stepAt_step {s s' : State} {t : Nat} {pc : PC} {a : Act} (h : stepAt s t pc a = .ok s') :
    Step s t pc s' := by
  cases pc <;> cases a <;> simp only [stepAt] at h <;> (try (simp at h; done))
  case wu6.notifyOne w => 
    cases w <;> simp only at h <;> split at h <;> simp at h <;> subst h
    · exact Step.wu6None (by assumption)
    · exact Step.wu6Some _ (by assumption)
  all_goals (repeat' split at h)
  all_goals (try (simp at h; done))
  all_goals (simp only [Except.ok.injEq] at h; subst h)
  all_goals (try subst_vars)
  all_goals (try simp_all only [])
  all_goals (first
    | exact Step.stutterW
    | exact Step.stutterO
    | (constructor <;> first | assumption | omega | simp_all))

theorem accept_step {s s' : State} {e : Event} (h : accept s e = .ok s') :
    ∃ pc, s.pcs[e.tid]? = some pc ∧ Step s e.tid pc s' := by
  unfold accept at h
  split at h
  · simp at h
  · exact ⟨_, by assumption, stepAt_step h⟩

/-! ## classes of program counters -/

/-- holds `Terminator::lock` -/
def holds : PC → Bool
  | .tt1 | .tt2 _ | .tt3 _ | .tt4 _ _ | .tt5 | .tw1 | .tw2 _ | .tw3 _ _ | .tw4 _ | .tw5
  | .wu3 | .wu4 _ | .wu5 _ _ | .wu6 | .wu7 => true
  | _ => false

/-- counted in `working`: outside the region where `try_terminate` has decremented the counter -/
def isW : PC → Bool
  | .work | .obsEmpty | .tt1 | .tt2 _ | .tw5 | .wu1 _ | .wu2 | .wu3 | .wu4 _ | .wu5 _ _ | .wu6 | .wu7 => true
  | _ => false

/-- may hold work items or publish new ones (worker loop and `wake_up`) -/
def isActive : PC → Bool
  | .work | .wu1 _ | .wu2 | .wu3 | .wu4 _ | .wu5 _ _ | .wu6 | .wu7 => true
  | _ => false

/-- signalled but has not yet consumed an `awakening` token -/
def isK : PC → Bool
  | .woken | .tw1 | .tw2 _ | .tw3 _ _ => true
  | _ => false

def isWu6 : PC → Bool
  | .wu6 => true
  | _ => false

/-- lock holders between a counter store and the matching second store / decision -/
def isExc : PC → Bool
  | .tt3 _ | .tt4 _ _ | .tw4 _ => true
  | _ => false

/-- has seen (or announced) the end: `notify_all` done or `true` returned -/
def isEnd : PC → Bool
  | .tt5 | .done => true
  | _ => false

def isPanicked : PC → Bool
  | .panicked => true
  | _ => false

/-- the straight path to `done` of a worker that slept through the end -/
def isPostEnd : PC → Bool
  | .woken | .tw1 | .tw2 _ | .tw3 _ _ | .tt5 | .done => true
  | _ => false

/-- registers of lock holders equal the counters; `panicked` is impossible -/
def RegOk (s : State) : PC → Prop
  | .tt2 w => w = s.working ∧ 0 < w
  | .tt3 w => w = s.working
  | .tt4 w a => w = s.working ∧ a = s.awakening
  | .tw2 w => w = s.working
  | .tw3 w a => w = s.working ∧ a = s.awakening
  | .tw4 w => w = s.working
  | .wu4 w => w = s.working
  | .wu5 w a => w = s.working ∧ a = s.awakening
  | .wu1 r => 0 < r
  | .panicked => False
  | _ => True

/-! ## counting lemmas -/

theorem countP_set_get {α} (p : α → Bool) {l : List α} {t : Nat} {x : α} (y : α) (h : l[t]? = some x) :
    (l.set t y).countP p + (p x).toNat = l.countP p + (p y).toNat := by
  induction l generalizing t with
  | nil => simp at h
  | cons a l ih =>
    cases t with
    | zero =>
      simp at h; subst h
      simp [List.countP_cons]
      cases p a <;> cases p y <;> simp <;> omega
    | succ t =>
      simp at h
      have := ih h
      simp [List.countP_cons]
      omega

/-- all class counts after `l.set t y`, in additive form (so `omega` also learns `0 < count` of the old class) -/
theorem counts_set {l : List PC} {t : Nat} {x : PC} (y : PC) (h : l[t]? = some x) :
    (l.set t y).countP isW + (isW x).toNat = l.countP isW + (isW y).toNat ∧
    (l.set t y).countP isK + (isK x).toNat = l.countP isK + (isK y).toNat ∧
    (l.set t y).countP isWaiting + (isWaiting x).toNat = l.countP isWaiting + (isWaiting y).toNat ∧
    (l.set t y).countP isWu6 + (isWu6 x).toNat = l.countP isWu6 + (isWu6 y).toNat ∧
    (l.set t y).countP isActive + (isActive x).toNat = l.countP isActive + (isActive y).toNat ∧
    (l.set t y).countP isExc + (isExc x).toNat = l.countP isExc + (isExc y).toNat ∧
    (l.set t y).countP isEnd + (isEnd x).toNat = l.countP isEnd + (isEnd y).toNat ∧
    (l.set t y).countP isPanicked + (isPanicked x).toNat = l.countP isPanicked + (isPanicked y).toNat :=
  ⟨countP_set_get _ y h, countP_set_get _ y h, countP_set_get _ y h, countP_set_get _ y h,
   countP_set_get _ y h, countP_set_get _ y h, countP_set_get _ y h, countP_set_get _ y h⟩

/-- the classes partition the pcs -/
theorem counts_partition (l : List PC) :
    l.countP isW + l.countP isK + l.countP isWaiting + l.countP isExc + l.countP isEnd + l.countP isPanicked
      = l.length ∧
    l.countP isPostEnd = l.countP isK + l.countP isEnd ∧
    l.countP isActive ≤ l.countP isW ∧
    l.countP isWu6 ≤ l.countP isActive := by
  induction l with
  | nil => simp
  | cons x l ih =>
    simp only [List.countP_cons, List.length_cons]
    cases x <;> simp [isW, isK, isWaiting, isExc, isEnd, isPanicked, isPostEnd, isActive, isWu6] <;> omega

/-- `notify_all` -/
theorem counts_wake (l : List PC) :
    (l.map wake).countP isW = l.countP isW ∧
    (l.map wake).countP isK = l.countP isK + l.countP isWaiting ∧
    (l.map wake).countP isWaiting = 0 ∧
    (l.map wake).countP isWu6 = l.countP isWu6 ∧
    (l.map wake).countP isActive = l.countP isActive ∧
    (l.map wake).countP isExc = l.countP isExc ∧
    (l.map wake).countP isEnd = l.countP isEnd ∧
    (l.map wake).countP isPanicked = l.countP isPanicked := by
  induction l with
  | nil => simp
  | cons x l ih =>
    simp only [List.map_cons, List.countP_cons]
    cases x <;> simp [-List.countP_map, -List.countP_eq_zero, wake, isW, isK, isWaiting, isExc, isEnd, isPanicked, isActive, isWu6] <;> omega

theorem countP_pos_get {α} (p : α → Bool) {l : List α} {t : Nat} {x : α} (h : l[t]? = some x) (hp : p x = true) :
    0 < l.countP p := by
  have := countP_set_get p x h
  rw [List.countP_pos_iff]
  exact ⟨x, List.mem_of_getElem? h, hp⟩

theorem countP_zero_of {α} (p : α → Bool) {l : List α} (h : ∀ (t : Nat) (x : α), l[t]? = some x → p x = false) :
    l.countP p = 0 := by
  rw [List.countP_eq_zero]
  intro x hx
  obtain ⟨t, ht⟩ := List.getElem?_of_mem hx
  simp [h t x ht]

end Dora.Term
