import DoraModel.Term.MarkLemmas
/-!
# C12 — every step of the marking model preserves `Inv`; `Reach`; what follows at quiescence
-/
namespace Dora.Mark

variable {h : Heap} {s s' : State} {w : Nat} {me : WState}

@[simp] theorem held_won (x : Obj) (r : List Obj) (y : Obj) : held (.won x r y) = [y] := rfl
@[simp] theorem held_idle : held .idle = [] := rfl
@[simp] theorem held_scan (x : Obj) (r : List Obj) : held (.scan x r) = [] := rfl
@[simp] theorem held_share (x : Obj) (r : List Obj) (t : Nat) : held (.share x r t) = [] := rfl

theorem count_cons' (z x : Obj) (l : List Obj) : (x :: l).count z = l.count z + ind (z = x) := by
  rw [List.count_cons]
  by_cases hx : z = x
  · subst hx; simp [ind_true]
  · have : (x == z) = false := by simpa using fun a => hx a.symm
    simp [this, ind_false hx]

theorem ind_mem_cons (z y : Obj) (l : List Obj) (hy : y ∉ l) : ind (z ∈ y :: l) = ind (z ∈ l) + ind (z = y) := by
  by_cases hz : z = y
  · subst hz; simp [ind_true, ind_false hy]
  · by_cases hl : z ∈ l
    · simp [ind_true, hl, ind_false hz]
    · simp [ind_false, hl, hz]

theorem count_erase' (z x : Obj) (l : List Obj) (hx : x ∈ l) : (l.erase x).count z + ind (z = x) = l.count z := by
  rw [List.count_erase]
  have hc : 0 < l.count x := List.count_pos_iff.mpr hx
  by_cases hz : z = x
  · subst hz; simp [ind_true]; omega
  · have : (x == z) = false := by simpa using fun a => hz a.symm
    simp [this, ind_false hz]

/-- effect of a step that only moves the worker's hand along the same object's fields -/
theorem eff_hand {me' : WState} (hl : me'.loc = me.loc) (hd : me'.deq = me.deq)
    (hh : held me'.hand = held me.hand)
    (hs : ∀ x r, scanning me'.hand = some (x, r) → ∃ r0, scanning me.hand = some (x, r0) ∧ ∀ y ∈ r, y ∈ r0)
    (hk : ∀ x r y, scanning me.hand = some (x, r) → y ∈ r →
            y ∈ s.marked ∨ ∃ r', scanning me'.hand = some (x, r') ∧ y ∈ r') :
    LocalEff h s me me' s.inj s.marked s.log where
  bal z := by simp [wcount, hl, hd, hh]
  mono _ hz := hz
  fresh _ hz := Or.inl hz
  logMono _ hz := hz
  logNew _ hz := Or.inl hz
  scan' x r hx := Or.inl (hs x r hx)
  pendKeep := hk

/-- effect of a pop: `x` leaves the pools (the balance `hb` says from where) and is logged -/
theorem eff_pop {me' : WState} {inj' : List Obj} {x : Obj} (hi : me.hand = .idle)
    (hh : me'.hand = startScan h x)
    (hb : ∀ z, s.inj.count z + me.loc.count z + me.deq.count z
              = inj'.count z + me'.loc.count z + me'.deq.count z + ind (z = x)) :
    LocalEff h s me me' inj' s.marked (x :: s.log) where
  bal z := by
    have := hb z
    simp [wcount, hi, hh, held, startScan, count_cons']; omega
  mono _ hz := hz
  fresh _ hz := Or.inl hz
  logMono _ hz := by simp [hz]
  logNew z hz := by
    simp at hz
    rcases hz with rfl | hz
    · exact Or.inr (by simp [hh, startScan, scanning])
    · exact Or.inl hz
  scan' y r hy := by
    simp [hh, startScan, scanning] at hy
    obtain ⟨rfl, rfl⟩ := hy
    exact Or.inr ⟨by simp, rfl⟩
  pendKeep y r z hy := by simp [hi, scanning] at hy

theorem Inv.stepW (i : Inv h s) (hw : s.ws[w]? = some me) {a : Act} (hs : stepW h s w me a = .ok s') :
    Inv h s' := by
  cases a with
  | popLocal =>
    simp only [Dora.Mark.stepW] at hs
    split at hs
    · rename_i x l hi hl
      injection hs with hs; subst hs
      exact i.local hw (eff_pop (x := x) hi rfl (by intro z; simp [hl, count_cons']; omega))
    · simp at hs
  | popDeque x =>
    simp only [Dora.Mark.stepW] at hs
    split at hs
    · rename_i hi
      split at hs
      · rename_i hc
        injection hs with hs; subst hs
        exact i.local hw (eff_pop (x := x) hi rfl (by
          intro z; have := count_erase' z x me.deq hc.2; simp; omega))
      · simp at hs
    · simp at hs
  | stealInj x batch =>
    simp only [Dora.Mark.stepW] at hs
    split at hs
    · rename_i hi
      split at hs
      · split at hs
        · rename_i inj' ht
          injection hs with hs; subst hs
          exact i.local hw (eff_pop (x := x) hi rfl (by
            intro z; have := takeAll?_count ht z; simp [count_cons', List.count_append] at this ⊢; omega))
        · simp at hs
      · simp at hs
    · simp at hs
  | steal v x batch =>
    simp only [Dora.Mark.stepW] at hs
    split at hs
    · rename_i hi
      split at hs
      · rename_i hc
        split at hs
        · rename_i vic hv
          split at hs
          · rename_i d' ht
            injection hs with hs; subst hs
            -- stage 1: the victim hands `x :: batch` over (parked in the injector for the proof only)
            have e1 : LocalEff h s vic { vic with deq := d' } ((x :: batch) ++ s.inj) s.marked s.log :=
              { bal := by
                  intro z; have := takeAll?_count ht z
                  simp [wcount, List.count_append, count_cons'] at this ⊢; omega
                mono := fun _ hz => hz
                fresh := fun _ hz => Or.inl hz
                logMono := fun _ hz => hz
                logNew := fun _ hz => Or.inl hz
                scan' := fun y r hy => Or.inl ⟨r, hy, fun _ hq => hq⟩
                pendKeep := fun y r z hy hz => Or.inr ⟨r, hy, hz⟩ }
            have i1 := i.local hv e1
            have hw1 : (s.upd v { vic with deq := d' } ((x :: batch) ++ s.inj) s.marked s.log).ws[w]? = some me := by
              simp only [State.upd]; rw [List.getElem?_set_ne hc.1]; exact hw
            -- stage 2: the thief takes them from there
            have e2 := eff_pop (h := h) (s := s.upd v { vic with deq := d' } ((x :: batch) ++ s.inj) s.marked s.log)
              (me := me) (me' := { me with deq := me.deq ++ batch, hand := startScan h x }) (inj' := s.inj) (x := x)
              hi rfl (by intro z; simp [State.upd, count_cons', List.count_append]; omega)
            have i2 := i1.local hw1 e2
            simpa [State.upd] using i2
          · simp at hs
        · simp at hs
      · simp at hs
    · simp at hs
  | trace won =>
    simp only [Dora.Mark.stepW] at hs
    split at hs
    · rename_i x y rest hh
      split at hs
      · rename_i hwon
        split at hs
        · rename_i hw1
          subst hw1
          have hy : y ∉ s.marked := by simpa using hwon.symm
          injection hs with hs; subst hs
          exact i.local hw (me' := { me with hand := .won x rest y }) (inj' := s.inj) (log' := s.log)
            { bal := by
                intro z; have := ind_mem_cons z y s.marked hy
                simp [wcount, hh, held, count_cons'] at this ⊢; omega
              mono := fun z hz => by simp [hz]
              fresh := fun z hz => by
                simp at hz
                rcases hz with rfl | hz
                · exact Or.inr ⟨x, z :: rest, by simp [hh, scanning], by simp⟩
                · exact Or.inl hz
              logMono := fun _ hz => hz
              logNew := fun _ hz => Or.inl hz
              scan' := fun x' r hx' => by
                simp [scanning] at hx'
                obtain ⟨rfl, rfl⟩ := hx'
                exact Or.inl ⟨y :: rest, by simp [hh, scanning], fun q hq => by simp [hq]⟩
              pendKeep := fun x' r z hx' hz => by
                simp [hh, scanning] at hx'
                obtain ⟨rfl, rfl⟩ := hx'
                simp at hz
                rcases hz with rfl | hz
                · exact Or.inl (by simp)
                · exact Or.inr ⟨rest, by simp [scanning], hz⟩ }
        · rename_i hw1
          have hw2 : won = false := by simpa using hw1
          subst hw2
          have hy : y ∈ s.marked := by simpa using hwon.symm
          injection hs with hs; subst hs
          exact i.local hw (eff_hand (me' := { me with hand := .scan x rest }) rfl rfl (by simp [hh, held])
            (fun x' r hx' => by
              simp [scanning] at hx'
              obtain ⟨rfl, rfl⟩ := hx'
              exact ⟨y :: rest, by simp [hh, scanning], fun q hq => by simp [hq]⟩)
            (fun x' r z hx' hz => by
              simp [hh, scanning] at hx'
              obtain ⟨rfl, rfl⟩ := hx'
              simp at hz
              rcases hz with rfl | hz
              · exact Or.inl hy
              · exact Or.inr ⟨rest, by simp [scanning], hz⟩))
      · simp at hs
    · simp at hs
  | pushLocal =>
    simp only [Dora.Mark.stepW] at hs
    split at hs
    · rename_i x rest y hh
      -- in all three outcomes `y` moves from the hand onto the local segment
      have key : ∀ (hand' : Hand) (since' : Nat), held hand' = [] → scanning hand' = some (x, rest) →
          Inv h (s.upd w { me with loc := y :: me.loc, since := since', hand := hand' } s.inj s.marked s.log) := by
        intro hand' since' hh1 hh2
        exact i.local hw
          { bal := by intro z; simp [wcount, hh, hh1, count_cons']; omega
            mono := fun _ hz => hz
            fresh := fun _ hz => Or.inl hz
            logMono := fun _ hz => hz
            logNew := fun _ hz => Or.inl hz
            scan' := fun x' r hx' => by
              simp [hh2] at hx'
              obtain ⟨rfl, rfl⟩ := hx'
              exact Or.inl ⟨rest, by simp [hh, scanning], fun _ hq => hq⟩
            pendKeep := fun x' r z hx' hz => by
              simp [hh, scanning] at hx'
              obtain ⟨rfl, rfl⟩ := hx'
              exact Or.inr ⟨rest, hh2, hz⟩ }
      split at hs
      · split at hs
        · split at hs
          · injection hs with hs; subst hs
            exact key _ _ (by simp [held]) (by simp [scanning])
          · injection hs with hs; subst hs
            exact key _ _ (by simp [held]) (by simp [scanning])
        · injection hs with hs; subst hs
          exact key _ _ (by simp [held]) (by simp [scanning])
      · simp at hs
    · simp at hs
  | pushDeque =>
    simp only [Dora.Mark.stepW] at hs
    split at hs
    · rename_i x rest y hh
      split at hs
      · injection hs with hs; subst hs
        exact i.local hw (me' := { me with deq := y :: me.deq, hand := .scan x rest }) (inj' := s.inj) (log' := s.log)
          { bal := by intro z; simp [wcount, hh, held, count_cons']; omega
            mono := fun _ hz => hz
            fresh := fun _ hz => Or.inl hz
            logMono := fun _ hz => hz
            logNew := fun _ hz => Or.inl hz
            scan' := fun x' r hx' => by
              simp [scanning] at hx'
              obtain ⟨rfl, rfl⟩ := hx'
              exact Or.inl ⟨rest, by simp [hh, scanning], fun _ hq => hq⟩
            pendKeep := fun x' r z hx' hz => by
              simp [hh, scanning] at hx'
              obtain ⟨rfl, rfl⟩ := hx'
              exact Or.inr ⟨rest, by simp [scanning], hz⟩ }
      · simp at hs
    · simp at hs
  | shareOne =>
    simp only [Dora.Mark.stepW] at hs
    split at hs
    · rename_i x rest t v l hh hl
      split at hs
      · injection hs with hs; subst hs
        exact i.local hw (me' := { me with loc := l }) (inj' := v :: s.inj) (log' := s.log)
          { bal := by intro z; simp [wcount, hl, count_cons']; omega
            mono := fun _ hz => hz
            fresh := fun _ hz => Or.inl hz
            logMono := fun _ hz => hz
            logNew := fun _ hz => Or.inl hz
            scan' := fun x' r hx' => Or.inl ⟨r, hx', fun _ hq => hq⟩
            pendKeep := fun x' r z hx' hz => Or.inr ⟨r, hx', hz⟩ }
      · simp at hs
    · simp at hs
  | shareEnd =>
    simp only [Dora.Mark.stepW] at hs
    split at hs
    · rename_i x rest t hh
      split at hs
      · injection hs with hs; subst hs
        exact i.local hw (eff_hand (me' := { me with hand := .scan x rest }) rfl rfl (by simp [hh, held])
          (fun x' r hx' => by
            simp [scanning] at hx'
            obtain ⟨rfl, rfl⟩ := hx'
            exact ⟨rest, by simp [hh, scanning], fun _ hq => hq⟩)
          (fun x' r z hx' hz => by
            simp [hh, scanning] at hx'
            obtain ⟨rfl, rfl⟩ := hx'
            exact Or.inr ⟨rest, by simp [scanning], hz⟩))
      · simp at hs
    · simp at hs
  | scanEnd =>
    simp only [Dora.Mark.stepW] at hs
    split at hs
    · rename_i x hh
      injection hs with hs; subst hs
      exact i.local hw (eff_hand (me' := { me with hand := .idle }) rfl rfl (by simp [hh, held])
        (fun x' r hx' => by simp [scanning] at hx')
        (fun x' r z hx' hz => by
          simp [hh, scanning] at hx'
          obtain ⟨rfl, rfl⟩ := hx'
          simp at hz))
    · simp at hs

theorem Inv.accept (i : Inv h s) {e : Event} (hs : accept h s e = .ok s') : Inv h s' := by
  cases e with
  | worker w a =>
    simp only [Dora.Mark.accept] at hs
    split at hs
    · rename_i me hw; exact i.stepW hw hs
    · simp at hs
  | root won =>
    simp only [Dora.Mark.accept] at hs
    split at hs
    · rename_i r rs hr
      have hrr : r ∈ h.roots := i.rootsSub r (by simp [hr])
      split at hs
      · rename_i hwon
        split at hs
        · rename_i hw1
          subst hw1
          have hy : r ∉ s.marked := by simpa using hwon.symm
          injection hs with hs; subst hs
          exact
            { place := by
                intro z
                have h1 := i.place z
                have := ind_mem_cons z r s.marked hy
                simp only [poolCount, count_cons'] at h1 ⊢
                omega
              reach := by
                intro z hz
                simp at hz
                rcases hz with rfl | hz
                · by_cases hp : z ∈ h.pre
                  · exact Or.inl hp
                  · exact Or.inr (Reachable.root hrr hp)
                · exact i.reach z hz
              rootsSub := fun q hq => i.rootsSub q (by simp [hr, hq])
              scanOk := i.scanOk
              rootsDone := by
                intro q hq
                rcases i.rootsDone q hq with h1 | h1
                · exact Or.inl (by simp [h1])
                · rw [hr] at h1; simp at h1
                  rcases h1 with rfl | h1
                  · exact Or.inl (by simp)
                  · exact Or.inr h1
              closed := by
                intro x hx y hy'
                rcases i.closed x hx y hy' with h1 | h1
                · exact Or.inl (by simp [h1])
                · exact Or.inr h1 }
        · rename_i hw1
          have hw2 : won = false := by simpa using hw1
          subst hw2
          have hy : r ∈ s.marked := by simpa using hwon.symm
          injection hs with hs; subst hs
          exact
            { place := i.place
              reach := i.reach
              rootsSub := fun q hq => i.rootsSub q (by simp [hr, hq])
              scanOk := i.scanOk
              rootsDone := by
                intro q hq
                rcases i.rootsDone q hq with h1 | h1
                · exact Or.inl h1
                · rw [hr] at h1; simp at h1
                  rcases h1 with rfl | h1
                  · exact Or.inl hy
                  · exact Or.inr h1
              closed := i.closed }
      · simp at hs
    · simp at hs

/-- states reachable from the start of `marking::run` with `n` workers through accepted events -/
inductive Reach (h : Heap) (n : Nat) : State → Prop
  | init : Reach h n (Dora.Mark.init h n)
  | step {s s' : State} {e : Event} : Reach h n s → accept h s e = .ok s' → Reach h n s'

theorem Reach.inv {n : Nat} (hr : Reach h n s) : Inv h s := by
  induction hr with
  | init => exact Inv.init h n
  | step _ ha ih => exact ih.accept ha

theorem Reach.run {n : Nat} (hr : Reach h n s) : ∀ (es : List Event) (s' : State),
    runTrace h s es = some s' → Reach h n s' := by
  intro es
  induction es generalizing s with
  | nil => intro s' hs; simp [runTrace] at hs; exact hs ▸ hr
  | cons e es ih =>
    intro s' hs
    simp only [runTrace] at hs
    split at hs
    · exact ih (Reach.step hr (by assumption)) s' hs
    · simp at hs

/-- at quiescence nothing is pending and the pools hold nothing -/
theorem quiescent_pool {s : State} (q : quiescent s) (z : Obj) : poolCount s z = 0 := by
  obtain ⟨_, hi, hws⟩ := q
  have : wsCount s.ws z = 0 := wsCount_zero_of (fun m hm => by
    obtain ⟨a, b, c⟩ := hws m hm; simp [wcount, a, b, c, held])
  simp [poolCount, hi, this]

theorem quiescent_noPend {s : State} (q : quiescent s) (x y : Obj) : ¬ Pend s.ws x y := by
  rintro ⟨m, hm, r, hs, _⟩
  obtain ⟨_, _, c⟩ := q.2.2 m hm
  simp [c, scanning] at hs

/-- at quiescence every reachable object has been processed -/
theorem Inv.complete (i : Inv h s) (q : quiescent s) {x : Obj} (hx : Reachable h x) : x ∈ s.log := by
  have mark_log : ∀ z, z ∈ s.marked → z ∉ h.pre → z ∈ s.log := by
    intro z hz hp
    have h1 := i.place z
    rw [quiescent_pool q z, ind_true hz, ind_false hp] at h1
    exact List.count_pos_iff.mp (by omega)
  induction hx with
  | root hr hp =>
    rcases i.rootsDone _ hr with h1 | h1
    · exact mark_log _ h1 hp
    · rw [q.1] at h1; simp at h1
  | succ _ hy hp ih =>
    rcases i.closed _ ih _ hy with h1 | h1
    · exact mark_log _ h1 hp
    · exact absurd h1 (quiescent_noPend q _ _)

end Dora.Mark
