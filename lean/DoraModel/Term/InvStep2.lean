import DoraModel.Term.InvStep
/-! # C12 — preservation of the per-thread parts; `Inv` is inductive -/
namespace Dora.Term

theorem locOk_congr {s s' : State} {u : Nat} {x : PC} (hl : s'.lock = s.lock) (hw : s'.working = s.working)
    (ha : s'.awakening = s.awakening) (hn : s'.n = s.n) (h : LocOk s u x) : LocOk s' u x := by
  unfold LocOk at h ⊢
  exact ⟨by rw [hl]; exact h.1, regOk_same hw ha h.2.1, by rw [hn]; exact h.2.2⟩

set_option hygiene false in
macro "loc_case" : tactic => `(tactic| (
  refine loc_set h hpc rfl rfl ?_ ?_
  · have hold := h.loc t _ hpc
    have hnpos := h.npos
    simp [LocOk, holds, RegOk, State.setPc] at hold ⊢
    first | done | omega | (simp_all; done) | (simp_all; omega)
  · first
    | exact Or.inl ⟨rfl, rfl, rfl⟩
    | exact Or.inr (Or.inl ⟨rfl, Or.inl rfl⟩)
    | exact Or.inr (Or.inl ⟨rfl, Or.inr rfl⟩)
    | exact Or.inr (Or.inr ⟨hl, rfl, rfl, rfl⟩)))

set_option hygiene false in
macro "loc_same" : tactic => `(tactic| (
  intro u x hux
  exact locOk_congr rfl rfl rfl rfl (h.loc u x hux)))

theorem locOk_wake {s : State} {u : Nat} {x : PC} (h : LocOk s u x) : LocOk s u (wake x) := by
  cases x <;> simp_all [wake, LocOk, holds, RegOk] <;> omega

theorem Inv.step_loc {s s' : State} {t : Nat} {pc : PC} (h : Inv s) (hpc : s.pcs[t]? = some pc)
    (hs : Step s t pc s') : ∀ (u : Nat) (x : PC), s'.pcs[u]? = some x → LocOk s' u x := by
  cases hs
  case stutterW => exact h.loc
  case stutterO => exact h.loc
  case takeOwnW u k h1 h2 => loc_same
  case takeOwnO u k h1 h2 => loc_case
  case takeShW hsh => loc_same
  case takeShO hsh => loc_case
  case obsEmpty1 h1 h2 h3 => loc_case
  case obsEmptyN h1 h2 h3 => loc_case
  case pushOwn rd k h1 => loc_same
  case pushSh k => loc_same
  case wakeUpCall h1 =>
    have hpos := countP_pos_get isW hpc rfl
    have hW := h.cntW h1
    loc_case
  case ttLock h1 hl => loc_case
  case tt1Panic hw => panic_case
  case tt1Ok hw => loc_case
  case tt2 w => loc_case
  case tt3Ok w hle => loc_case
  case tt3Panic w hle => panic_case
  case tt4All =>
    have hold := h.loc t _ hpc
    intro u x hux
    simp only [] at hux
    rw [List.getElem?_set] at hux
    split at hux
    · split at hux
      · simp at hux; subst hux; subst_vars
        simp [LocOk, holds, RegOk] at hold ⊢
        exact ⟨hold.1, hold.2.2⟩
      · simp at hux
    · rw [List.getElem?_map] at hux
      cases hx0 : s.pcs[u]? with
      | none => simp [hx0] at hux
      | some x0 =>
        simp [hx0] at hux; subst hux
        exact locOk_congr rfl rfl rfl rfl (locOk_wake (h.loc u x0 hx0))
  case tt4Wait w a hne => loc_case
  case tt5 => loc_case
  case spur => loc_case
  case relock hl => loc_case
  case tw1 => loc_case
  case tw2Ok w hle => loc_case
  case tw2Panic w hle => panic_case
  case tw3Done => loc_case
  case tw3Resume w a ha => loc_case
  case tw3Wait w hw => loc_case
  case tw4 w => loc_case
  case tw5 => loc_case
  case wu1Panic r1 hr => panic_case
  case wu1Fast r1 hr he => loc_case
  case wu1Slow r1 hr he => loc_case
  case wu2 hl => loc_case
  case wu3 => loc_case
  case wu4Panic w hw => panic_case
  case wu4Ok w hw hle => loc_case
  case wu5Store w a hne => loc_case
  case wu5Ret w a he => loc_case
  case wu6Some u hu6 =>
    have hold := h.loc t _ hpc
    have holdu := h.loc u _ hu6
    have hut : u ≠ t := by intro e; subst e; rw [hpc] at hu6; simp at hu6
    intro v x hvx
    simp only [] at hvx
    rw [List.getElem?_set] at hvx
    split at hvx
    · split at hvx
      · simp at hvx; subst hvx; subst_vars
        simp [LocOk, holds, RegOk] at hold ⊢
        exact ⟨hold.1, hold.2⟩
      · simp at hvx
    · rw [List.getElem?_set] at hvx
      split at hvx
      · split at hvx
        · simp at hvx; subst hvx; subst_vars
          simp [LocOk, holds, RegOk] at hold holdu ⊢
          exact ⟨holdu.1, hold.2⟩
        · simp at hvx
      · exact locOk_congr rfl rfl rfl rfl (h.loc v x hvx)
  case wu6None hnone => loc_case
  case wu7 => loc_case

theorem Inv.step_basic {s s' : State} {t : Nat} {pc : PC} (hs : Step s t pc s') :
    s'.n = s.n ∧ s'.pcs.length = s.pcs.length ∧ s'.own.length = s.own.length := by
  cases hs <;> simp [State.setPc]

theorem Inv.step_lockLt {s s' : State} {t : Nat} {pc : PC} (h : Inv s) (hpc : s.pcs[t]? = some pc)
    (hs : Step s t pc s') : ∀ x, s'.lock = some x → x < s'.n := by
  have ht : t < s.n := by have := lt_of_get hpc; have := h.len; omega
  have hl := h.lockLt
  cases hs <;> (try simp [State.setPc]) <;> first | exact hl | omega

/-- own pools: only `pcs.set t y` with an active → active (or inactive → anything) move -/
theorem ownA_set {s : State} (h : Inv s) {t : Nat} {pc y : PC} (hpc : s.pcs[t]? = some pc)
    (hy : isActive pc = true → isActive y = true) :
    ∀ (u k : Nat), s.own[u]? = some k → 0 < k → ∃ x, (s.pcs.set t y)[u]? = some x ∧ isActive x = true := by
  intro u k huk hk
  obtain ⟨x, hx, hax⟩ := h.ownA u k huk hk
  by_cases hut : t = u
  · subst hut
    rw [hpc] at hx; simp at hx; subst hx
    exact ⟨y, by simp [lt_of_get hpc], hy hax⟩
  · exact ⟨x, by rw [List.getElem?_set_ne hut]; exact hx, hax⟩

theorem active_set {l : List PC} {t u : Nat} {pc y x : PC} (hpc : l[t]? = some pc) (hx : l[u]? = some x)
    (hax : isActive x = true) (hy : isActive pc = true → isActive y = true) :
    ∃ x', (l.set t y)[u]? = some x' ∧ isActive x' = true := by
  by_cases hut : t = u
  · subst hut
    rw [hpc] at hx; simp at hx; subst hx
    exact ⟨y, by simp [lt_of_get hpc], hy hax⟩
  · exact ⟨x, by rw [List.getElem?_set_ne hut]; exact hx, hax⟩

theorem Inv.step_ownA {s s' : State} {t : Nat} {pc : PC} (h : Inv s) (hpc : s.pcs[t]? = some pc)
    (hs : Step s t pc s') :
    ∀ (u k : Nat), s'.own[u]? = some k → 0 < k → ∃ x, s'.pcs[u]? = some x ∧ isActive x = true := by
  cases hs
  case takeOwnW u0 k0 h1 h2 =>
    intro u k huk hk
    simp only [] at huk ⊢
    rw [List.getElem?_set] at huk
    split at huk
    · split at huk
      · simp at huk; subst_vars; exact h.ownA _ k0 h1 h2
      · simp at huk
    · exact h.ownA u k huk hk
  case takeOwnO u0 k0 h1 h2 =>
    intro u k huk hk
    simp only [] at huk ⊢
    have hex : ∃ x, s.pcs[u]? = some x ∧ isActive x = true := by
      rw [List.getElem?_set] at huk
      split at huk
      · split at huk
        · simp at huk; subst_vars; exact h.ownA _ k0 h1 h2
        · simp at huk
      · exact h.ownA u k huk hk
    obtain ⟨x, hx, hax⟩ := hex
    exact active_set hpc hx hax (by simp [isActive])
  case pushOwn rd k0 h1 =>
    intro u k huk hk
    simp only [] at huk ⊢
    by_cases hut : t = u
    · subst hut; exact ⟨_, hpc, rfl⟩
    · rw [List.getElem?_set_ne hut] at huk; exact h.ownA u k huk hk
  case obsEmpty1 h1 h2 h3 =>
    intro u k huk hk
    obtain ⟨x, hx, hax⟩ := h.ownA u k huk hk
    by_cases hut : t = u
    · subst hut; simp only [State.setPc] at huk; rw [h2] at huk; simp at huk; omega
    · exact ⟨x, by simp only [State.setPc]; rw [List.getElem?_set_ne hut]; exact hx, hax⟩
  case obsEmptyN h1 h2 h3 =>
    intro u k huk hk
    obtain ⟨x, hx, hax⟩ := h.ownA u k huk hk
    by_cases hut : t = u
    · subst hut; simp only [State.setPc] at huk; rw [h2] at huk; simp at huk; omega
    · exact ⟨x, by simp only [State.setPc]; rw [List.getElem?_set_ne hut]; exact hx, hax⟩
  case tt1Panic hw => panic_case
  case tt3Panic w hle => panic_case
  case tw2Panic w hle => panic_case
  case wu1Panic r1 hr => panic_case
  case wu4Panic w hw => panic_case
  case tt4All =>
    intro u k huk hk
    obtain ⟨x, hx, hax⟩ := h.ownA u k huk hk
    have hut : t ≠ u := by intro e; subst e; rw [hpc] at hx; simp at hx; subst hx; simp [isActive] at hax
    refine ⟨wake x, ?_, by cases x <;> simp_all [wake, isActive]⟩
    simp only []
    rw [List.getElem?_set_ne hut, List.getElem?_map, hx]; rfl
  case wu6Some u0 hu6 =>
    intro u k huk hk
    obtain ⟨x, hx, hax⟩ := h.ownA u k huk hk
    have h0 : u0 ≠ u := by intro e; subst e; rw [hu6] at hx; simp at hx; subst hx; simp [isActive] at hax
    have hx1 : (s.pcs.set u0 PC.woken)[u]? = some x := by rw [List.getElem?_set_ne h0]; exact hx
    have hut : u0 ≠ t := by intro e; subst e; rw [hpc] at hu6; simp at hu6
    have ht1 : (s.pcs.set u0 PC.woken)[t]? = some PC.wu6 := by rw [List.getElem?_set_ne hut]; exact hpc
    exact active_set ht1 hx1 hax (by simp [isActive])
  all_goals first
    | exact h.ownA
    | exact ownA_set h hpc (by simp [isActive])

/-- the invariant is inductive -/
theorem Inv.step {s s' : State} {t : Nat} {pc : PC} (h : Inv s) (hpc : s.pcs[t]? = some pc)
    (hs : Step s t pc s') : Inv s' := by
  obtain ⟨hn, hl, hol⟩ := Inv.step_basic hs
  exact {
    npos := by rw [hn]; exact h.npos
    len := by rw [hl, hn]; exact h.len
    olen := by rw [hol, hn]; exact h.olen
    loc := h.step_loc hpc hs
    lockLt := h.step_lockLt hpc hs
    cntW := h.step_cntW hpc hs
    cntA := h.step_cntA hpc hs
    ownA := h.step_ownA hpc hs
    shA := h.step_shA hpc hs
    fin := h.step_fin hpc hs
    zero := h.step_zero hpc hs }

theorem Inv.accept {s s' : State} {e : Event} (h : Inv s) (ha : accept s e = .ok s') : Inv s' := by
  obtain ⟨pc, hpc, hs⟩ := accept_step ha
  exact h.step hpc hs

theorem Inv.init {n shared : Nat} {own : List Nat} (hn : 0 < n) (hown : own.length = n) :
    Inv (init n shared own) := by
  have hcW : (List.replicate n PC.work).countP isW = n := by simp [List.countP_replicate, isW]
  have hcA : (List.replicate n PC.work).countP isActive = n := by simp [List.countP_replicate, isActive]
  have hcE : (List.replicate n PC.work).countP isEnd = 0 := by simp [List.countP_replicate, isEnd]
  exact {
    npos := hn
    len := by simp [Dora.Term.init]
    olen := by simp [Dora.Term.init, hown]
    loc := by
      intro u pc hu
      simp [Dora.Term.init, List.getElem?_replicate] at hu
      obtain ⟨_, rfl⟩ := hu
      simp [LocOk, holds, RegOk, Dora.Term.init]
    lockLt := by simp [Dora.Term.init]
    cntW := by intro _; simp [Dora.Term.init, hcW]
    cntA := by simp [Dora.Term.init]
    ownA := by
      intro u k hu _
      have : u < n := by have := lt_of_get hu; simp [Dora.Term.init] at this; omega
      exact ⟨.work, by simp [Dora.Term.init, this], rfl⟩
    shA := by intro _; simp only [Dora.Term.init, hcA]; exact hn
    fin := by simp only [Dora.Term.init, hcE]; omega
    zero := by simp only [Dora.Term.init]; omega }

/-- states reachable from `Terminator::new(n)` with an initial distribution of work, by events `accept` allows -/
inductive Reach (n shared : Nat) (own : List Nat) : State → Prop
  | init : Reach n shared own (Dora.Term.init n shared own)
  | step {s s' : State} {e : Event} : Reach n shared own s → accept s e = .ok s' → Reach n shared own s'

theorem Reach.inv {n shared : Nat} {own : List Nat} {s : State} (hn : 0 < n) (ho : own.length = n)
    (hr : Reach n shared own s) : Inv s := by
  induction hr with
  | init => exact Inv.init hn ho
  | step _ ha ih => exact ih.accept ha

theorem ok_of_isOk {x : Except String State} (h : x.isOk = true) : ∃ s', x = .ok s' := by
  cases x <;> simp_all [Except.isOk, Except.toBool]

/-- plain fold of `accept` (used for the non-vacuity examples) -/
def runTrace (s : State) : List Event → Option State
  | [] => some s
  | e :: es =>
    match accept s e with
    | .ok s' => runTrace s' es
    | .error _ => none

theorem Reach.run {n shared : Nat} {own : List Nat} {s : State} (h : Reach n shared own s) :
    ∀ (es : List Event) (s' : State), runTrace s es = some s' → Reach n shared own s' := by
  intro es
  induction es generalizing s with
  | nil => intro s' hs; simp [runTrace] at hs; exact hs ▸ h
  | cons e es ih =>
    intro s' hs
    simp only [runTrace] at hs
    split at hs
    · exact ih (Reach.step h (by assumption)) s' hs
    · simp at hs

end Dora.Term
