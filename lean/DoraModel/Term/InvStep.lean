import DoraModel.Term.Inv
/-! # C12 — preservation of the counting parts of the invariant (generated case lists, one theorem per part) -/
namespace Dora.Term

set_option hygiene false in
macro "cW_case " y:term : tactic => `(tactic| (
  have hc := countP_set_get isW $y hpc
  have hold := h.loc t _ hpc
  have hW := h.cntW
  have hnpos := h.npos
  simp [-List.countP_eq_zero, LocOk, holds, RegOk, isW] at hc hold
  simp only [State.setPc]
  omega))

set_option hygiene false in
macro "cA_case " y:term : tactic => `(tactic| (
  have hc1 := countP_set_get isK $y hpc
  have hc2 := countP_set_get isWu6 $y hpc
  have hc3 := countP_set_get isWaiting $y hpc
  have hold := h.loc t _ hpc
  have hA := h.cntA
  have hu : holds _ = true → _ := fun hh => (h.holder_counts hpc hh).1
  simp [-List.countP_eq_zero, LocOk, holds, RegOk, isK, isWu6, isWaiting] at hc1 hc2 hc3 hold hu
  simp only [State.setPc]
  omega))

set_option hygiene false in
macro "cS_case " y:term : tactic => `(tactic| (
  have hc := countP_set_get isActive $y hpc
  have hS := h.shA
  simp [isActive] at hc
  simp only [State.setPc]
  omega))

set_option hygiene false in
macro "cZ_case " y:term : tactic => `(tactic| (
  have hc1 := countP_set_get isEnd $y hpc
  have hc2 := countP_set_get isExc $y hpc
  have hold := h.loc t _ hpc
  have hZ := h.zero
  simp [-List.countP_eq_zero, LocOk, holds, RegOk, isEnd, isExc] at hc1 hc2 hold
  simp only [State.setPc]
  omega))

set_option hygiene false in
macro "cF_case " y:term : tactic => `(tactic| (
  have hc := counts_set $y hpc
  have hp := counts_partition s.pcs
  have hp' := counts_partition (s.pcs.set t $y)
  have hl' : (s.pcs.set t $y).length = s.pcs.length := List.length_set
  have hlen := h.len
  have hnpos := h.npos
  have hnp := h.noPanic
  have hold := h.loc t _ hpc
  have hF := h.fin
  have hW := h.cntW
  have hu : holds _ = true → _ := fun hh => (h.holder_counts hpc hh).2
  simp [-List.countP_eq_zero, LocOk, holds, RegOk, isW, isK, isWaiting, isWu6, isActive, isExc, isEnd, isPanicked] at hc hold hu
  simp only [State.setPc]
  omega))

set_option hygiene false in
/-- a step into `panicked` contradicts the invariant -/
macro "panic_case" : tactic => `(tactic| (
  exfalso
  have hold := h.loc t _ hpc
  first
  | (have hsum := h.holder_sum hpc rfl rfl
     simp [-List.countP_eq_zero, LocOk, holds, RegOk, isW] at hold hsum
     omega)
  | (simp [-List.countP_eq_zero, LocOk, holds, RegOk] at hold
     omega)))

set_option hygiene false in
/-- `notify_all`: pcs := (pcs.map wake).set t tt5 -/
macro "wake_case" : tactic => `(tactic| (
  have hm : (s.pcs.map wake)[t]? = some (PC.tt4 0 0) := by rw [List.getElem?_map, hpc]; rfl
  have hcw := counts_wake s.pcs
  have hc := counts_set PC.tt5 hm
  have hp := counts_partition s.pcs
  have hp' := counts_partition ((s.pcs.map wake).set t PC.tt5)
  have hl' : ((s.pcs.map wake).set t PC.tt5).length = s.pcs.length := by simp
  have hlen := h.len
  have hnpos := h.npos
  have hnp := h.noPanic
  have hold := h.loc t _ hpc
  have hW := h.cntW
  have hA := h.cntA
  have hS := h.shA
  have hu := h.holder_counts hpc rfl
  simp [-List.countP_map, -List.countP_eq_zero, LocOk, holds, RegOk, isW, isK, isWaiting, isWu6, isActive, isExc, isEnd, isPanicked] at hc hold hu
  dsimp only
  omega))

set_option hygiene false in
/-- `notify_one` waking `u`: pcs := (pcs.set u woken).set t wu7 -/
macro "n1_case" : tactic => `(tactic| (
  have hut : u ≠ t := by intro e; subst e; rw [hpc] at hu6; simp at hu6
  have ht' : (s.pcs.set u PC.woken)[t]? = some PC.wu6 := by rw [List.getElem?_set_ne hut]; exact hpc
  have hc1 := counts_set PC.woken hu6
  have hc := counts_set PC.wu7 ht'
  have hp := counts_partition s.pcs
  have hp' := counts_partition ((s.pcs.set u PC.woken).set t PC.wu7)
  have hl' : ((s.pcs.set u PC.woken).set t PC.wu7).length = s.pcs.length := by simp
  have hlen := h.len
  have hnpos := h.npos
  have hnp := h.noPanic
  have hold := h.loc t _ hpc
  have hW := h.cntW
  have hA := h.cntA
  have hS := h.shA
  have hF := h.fin
  have hZ := h.zero
  have hu := h.holder_counts hpc rfl
  simp [-List.countP_eq_zero, LocOk, holds, RegOk, isW, isK, isWaiting, isWu6, isActive, isExc, isEnd, isPanicked] at hc hc1 hold hu
  dsimp only
  omega))

theorem Inv.step_cntW {s s' : State} {t : Nat} {pc : PC} (h : Inv s) (hpc : s.pcs[t]? = some pc)
    (hs : Step s t pc s') : 1 < s'.n → s'.working = s'.pcs.countP isW := by
  cases hs
  case stutterW => exact h.cntW
  case stutterO => exact h.cntW
  case takeOwnW u k h1 h2 => exact h.cntW
  case takeOwnO u k h1 h2 => cW_case .work
  case takeShW hsh => exact h.cntW
  case takeShO hsh => cW_case .work
  case obsEmpty1 h1 h2 h3 => cW_case .done
  case obsEmptyN h1 h2 h3 => cW_case .obsEmpty
  case pushOwn rd k h1 => exact h.cntW
  case pushSh k => exact h.cntW
  case wakeUpCall h1 => cW_case (.wu1 s.working)
  case ttLock h1 hl => cW_case .tt1
  case tt1Panic hw => panic_case
  case tt1Ok hw => cW_case (.tt2 s.working)
  case tt2 w => cW_case (.tt3 (w - 1))
  case tt3Ok w hle => cW_case (.tt4 w s.awakening)
  case tt3Panic w hle => panic_case
  case tt4All => wake_case
  case tt4Wait w a hne => cW_case .waiting
  case tt5 => cW_case .done
  case spur => cW_case .woken
  case relock hl => cW_case .tw1
  case tw1 => cW_case (.tw2 s.working)
  case tw2Ok w hle => cW_case (.tw3 w s.awakening)
  case tw2Panic w hle => panic_case
  case tw3Done => cW_case .done
  case tw3Resume w a ha => cW_case (.tw4 w)
  case tw3Wait w hw => cW_case .waiting
  case tw4 w => cW_case .tw5
  case tw5 => cW_case .work
  case wu1Panic r1 hr => panic_case
  case wu1Fast r1 hr he => cW_case .work
  case wu1Slow r1 hr he => cW_case .wu2
  case wu2 hl => cW_case .wu3
  case wu3 => cW_case (.wu4 s.working)
  case wu4Panic w hw => panic_case
  case wu4Ok w hw hle => cW_case (.wu5 w s.awakening)
  case wu5Store w a hne => cW_case .wu6
  case wu5Ret w a he => cW_case .work
  case wu6Some u hu6 => n1_case
  case wu6None hnone => cW_case .wu7
  case wu7 => cW_case .work

theorem Inv.step_cntA {s s' : State} {t : Nat} {pc : PC} (h : Inv s) (hpc : s.pcs[t]? = some pc)
    (hs : Step s t pc s') : s'.awakening ≤ s'.pcs.countP isK + min (s'.pcs.countP isWu6) (s'.pcs.countP isWaiting) := by
  cases hs
  case stutterW => exact h.cntA
  case stutterO => exact h.cntA
  case takeOwnW u k h1 h2 => exact h.cntA
  case takeOwnO u k h1 h2 => cA_case .work
  case takeShW hsh => exact h.cntA
  case takeShO hsh => cA_case .work
  case obsEmpty1 h1 h2 h3 => cA_case .done
  case obsEmptyN h1 h2 h3 => cA_case .obsEmpty
  case pushOwn rd k h1 => exact h.cntA
  case pushSh k => exact h.cntA
  case wakeUpCall h1 => cA_case (.wu1 s.working)
  case ttLock h1 hl => cA_case .tt1
  case tt1Panic hw => panic_case
  case tt1Ok hw => cA_case (.tt2 s.working)
  case tt2 w => cA_case (.tt3 (w - 1))
  case tt3Ok w hle => cA_case (.tt4 w s.awakening)
  case tt3Panic w hle => panic_case
  case tt4All => wake_case
  case tt4Wait w a hne => cA_case .waiting
  case tt5 => cA_case .done
  case spur => cA_case .woken
  case relock hl => cA_case .tw1
  case tw1 => cA_case (.tw2 s.working)
  case tw2Ok w hle => cA_case (.tw3 w s.awakening)
  case tw2Panic w hle => panic_case
  case tw3Done => cA_case .done
  case tw3Resume w a ha => cA_case (.tw4 w)
  case tw3Wait w hw => cA_case .waiting
  case tw4 w => cA_case .tw5
  case tw5 => cA_case .work
  case wu1Panic r1 hr => panic_case
  case wu1Fast r1 hr he => cA_case .work
  case wu1Slow r1 hr he => cA_case .wu2
  case wu2 hl => cA_case .wu3
  case wu3 => cA_case (.wu4 s.working)
  case wu4Panic w hw => panic_case
  case wu4Ok w hw hle => cA_case (.wu5 w s.awakening)
  case wu5Store w a hne =>
    have hp := counts_partition s.pcs
    have hlen := h.len
    have hnp := h.noPanic
    have hW := h.cntW
    have hF := h.fin
    have hx := (h.holder_counts hpc rfl).2
    have hpos := countP_pos_get isW hpc rfl
    simp [-List.countP_eq_zero, isExc] at hx
    cA_case .wu6
  case wu5Ret w a he => cA_case .work
  case wu6Some u hu6 => n1_case
  case wu6None hnone => cA_case .wu7
  case wu7 => cA_case .work

theorem Inv.step_shA {s s' : State} {t : Nat} {pc : PC} (h : Inv s) (hpc : s.pcs[t]? = some pc)
    (hs : Step s t pc s') : 0 < s'.shared → 0 < s'.pcs.countP isActive := by
  cases hs
  case stutterW => exact h.shA
  case stutterO => exact h.shA
  case takeOwnW u k h1 h2 => exact h.shA
  case takeOwnO u k h1 h2 => cS_case .work
  case takeShW hsh => exact fun h0 => h.shA (by simp at h0; omega)
  case takeShO hsh => cS_case .work
  case obsEmpty1 h1 h2 h3 => cS_case .done
  case obsEmptyN h1 h2 h3 => cS_case .obsEmpty
  case pushOwn rd k h1 => exact h.shA
  case pushSh k => exact fun _ => countP_pos_get isActive hpc rfl
  case wakeUpCall h1 => cS_case (.wu1 s.working)
  case ttLock h1 hl => cS_case .tt1
  case tt1Panic hw => panic_case
  case tt1Ok hw => cS_case (.tt2 s.working)
  case tt2 w => cS_case (.tt3 (w - 1))
  case tt3Ok w hle => cS_case (.tt4 w s.awakening)
  case tt3Panic w hle => panic_case
  case tt4All => wake_case
  case tt4Wait w a hne => cS_case .waiting
  case tt5 => cS_case .done
  case spur => cS_case .woken
  case relock hl => cS_case .tw1
  case tw1 => cS_case (.tw2 s.working)
  case tw2Ok w hle => cS_case (.tw3 w s.awakening)
  case tw2Panic w hle => panic_case
  case tw3Done => cS_case .done
  case tw3Resume w a ha => cS_case (.tw4 w)
  case tw3Wait w hw => cS_case .waiting
  case tw4 w => cS_case .tw5
  case tw5 => cS_case .work
  case wu1Panic r1 hr => panic_case
  case wu1Fast r1 hr he => cS_case .work
  case wu1Slow r1 hr he => cS_case .wu2
  case wu2 hl => cS_case .wu3
  case wu3 => cS_case (.wu4 s.working)
  case wu4Panic w hw => panic_case
  case wu4Ok w hw hle => cS_case (.wu5 w s.awakening)
  case wu5Store w a hne => cS_case .wu6
  case wu5Ret w a he => cS_case .work
  case wu6Some u hu6 => n1_case
  case wu6None hnone => cS_case .wu7
  case wu7 => cS_case .work

theorem Inv.step_zero {s s' : State} {t : Nat} {pc : PC} (h : Inv s) (hpc : s.pcs[t]? = some pc)
    (hs : Step s t pc s') : 1 < s'.n → s'.working = 0 → s'.awakening = 0 → 0 < s'.pcs.countP isEnd ∨ 0 < s'.pcs.countP isExc := by
  cases hs
  case stutterW => exact h.zero
  case stutterO => exact h.zero
  case takeOwnW u k h1 h2 => exact h.zero
  case takeOwnO u k h1 h2 => cZ_case .work
  case takeShW hsh => exact h.zero
  case takeShO hsh => cZ_case .work
  case obsEmpty1 h1 h2 h3 => cZ_case .done
  case obsEmptyN h1 h2 h3 => cZ_case .obsEmpty
  case pushOwn rd k h1 => exact h.zero
  case pushSh k => exact h.zero
  case wakeUpCall h1 => cZ_case (.wu1 s.working)
  case ttLock h1 hl => cZ_case .tt1
  case tt1Panic hw => panic_case
  case tt1Ok hw => cZ_case (.tt2 s.working)
  case tt2 w => cZ_case (.tt3 (w - 1))
  case tt3Ok w hle => cZ_case (.tt4 w s.awakening)
  case tt3Panic w hle => panic_case
  case tt4All => wake_case
  case tt4Wait w a hne => cZ_case .waiting
  case tt5 => cZ_case .done
  case spur => cZ_case .woken
  case relock hl => cZ_case .tw1
  case tw1 => cZ_case (.tw2 s.working)
  case tw2Ok w hle => cZ_case (.tw3 w s.awakening)
  case tw2Panic w hle => panic_case
  case tw3Done => cZ_case .done
  case tw3Resume w a ha => cZ_case (.tw4 w)
  case tw3Wait w hw => cZ_case .waiting
  case tw4 w => cZ_case .tw5
  case tw5 => cZ_case .work
  case wu1Panic r1 hr => panic_case
  case wu1Fast r1 hr he => cZ_case .work
  case wu1Slow r1 hr he => cZ_case .wu2
  case wu2 hl => cZ_case .wu3
  case wu3 => cZ_case (.wu4 s.working)
  case wu4Panic w hw => panic_case
  case wu4Ok w hw hle => cZ_case (.wu5 w s.awakening)
  case wu5Store w a hne => cZ_case .wu6
  case wu5Ret w a he => cZ_case .work
  case wu6Some u hu6 => n1_case
  case wu6None hnone => cZ_case .wu7
  case wu7 => cZ_case .work

theorem Inv.step_fin {s s' : State} {t : Nat} {pc : PC} (h : Inv s) (hpc : s.pcs[t]? = some pc)
    (hs : Step s t pc s') : 0 < s'.pcs.countP isEnd → (s'.n = 1 ∨ (s'.working = 0 ∧ s'.awakening = 0)) ∧ s'.pcs.countP isPostEnd = s'.n := by
  cases hs
  case stutterW => exact h.fin
  case stutterO => exact h.fin
  case takeOwnW u k h1 h2 => exact h.fin
  case takeOwnO u k h1 h2 => cF_case .work
  case takeShW hsh => exact h.fin
  case takeShO hsh => cF_case .work
  case obsEmpty1 h1 h2 h3 => cF_case .done
  case obsEmptyN h1 h2 h3 => cF_case .obsEmpty
  case pushOwn rd k h1 => exact h.fin
  case pushSh k => exact h.fin
  case wakeUpCall h1 => cF_case (.wu1 s.working)
  case ttLock h1 hl => cF_case .tt1
  case tt1Panic hw => panic_case
  case tt1Ok hw => cF_case (.tt2 s.working)
  case tt2 w => cF_case (.tt3 (w - 1))
  case tt3Ok w hle => cF_case (.tt4 w s.awakening)
  case tt3Panic w hle => panic_case
  case tt4All => wake_case
  case tt4Wait w a hne => cF_case .waiting
  case tt5 => cF_case .done
  case spur => cF_case .woken
  case relock hl => cF_case .tw1
  case tw1 => cF_case (.tw2 s.working)
  case tw2Ok w hle => cF_case (.tw3 w s.awakening)
  case tw2Panic w hle => panic_case
  case tw3Done => have hZ := h.zero; cF_case .done
  case tw3Resume w a ha => cF_case (.tw4 w)
  case tw3Wait w hw => cF_case .waiting
  case tw4 w => cF_case .tw5
  case tw5 => cF_case .work
  case wu1Panic r1 hr => panic_case
  case wu1Fast r1 hr he => cF_case .work
  case wu1Slow r1 hr he => cF_case .wu2
  case wu2 hl => cF_case .wu3
  case wu3 => cF_case (.wu4 s.working)
  case wu4Panic w hw => panic_case
  case wu4Ok w hw hle => cF_case (.wu5 w s.awakening)
  case wu5Store w a hne => cF_case .wu6
  case wu5Ret w a he => cF_case .work
  case wu6Some u hu6 => n1_case
  case wu6None hnone => cF_case .wu7
  case wu7 => cF_case .work

end Dora.Term
