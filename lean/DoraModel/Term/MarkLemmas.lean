import DoraModel.Term.Mark
/-!
# C12 — the inductive invariant of the marking model (`Term/Mark.lean`)

`Inv` has one *counting* part (`place`: for every object, [marked] = occurrences in the injector + in every
worker's segment / deque / hand + in the processed log + [pre-marked]) and four *closure* parts
(`reach`, `scanOk`, `rootsDone`, `closed`).  A worker step changes the shared lists and ONE entry of
`State.ws` (`List.set`), so its effect is described once (`LocalEff`) and `Inv.local` shows that every such
effect preserves the invariant; the per-step work (`MarkLemmas2.lean`) is then to exhibit the effect.
-/
namespace Dora.Mark

open Classical in
/-- indicator -/
noncomputable def ind (p : Prop) : Nat := if p then 1 else 0

theorem ind_le (p : Prop) : ind p ≤ 1 := by unfold ind; split <;> omega
theorem ind_pos {p : Prop} : 0 < ind p ↔ p := by unfold ind; split <;> simp_all
theorem ind_true {p : Prop} (h : p) : ind p = 1 := by simp [ind, h]
theorem ind_false {p : Prop} (h : ¬ p) : ind p = 0 := by simp [ind, h]

theorem wsCount_set {ws : List WState} {w : Nat} {me : WState} (hw : ws[w]? = some me) (me' : WState) (z : Obj) :
    wsCount (ws.set w me') z + wcount z me = wsCount ws z + wcount z me' := by
  induction ws generalizing w with
  | nil => simp at hw
  | cons a l ih =>
    cases w with
    | zero => simp at hw; subst hw; simp [wsCount]; omega
    | succ k =>
      simp at hw
      have := ih hw
      simp [wsCount] at this ⊢
      omega

theorem wsCount_replicate (n : Nat) (z : Obj) : wsCount (List.replicate n WState.init) z = 0 := by
  induction n with
  | zero => simp [wsCount]
  | succ k ih => simp [wsCount, List.replicate_succ] at ih ⊢; simp [wcount, WState.init, held]

theorem wsCount_zero_of {ws : List WState} {z : Obj} (h : ∀ m ∈ ws, wcount z m = 0) : wsCount ws z = 0 := by
  induction ws with
  | nil => simp [wsCount]
  | cons a l ih =>
    have h1 := h a (by simp)
    have h2 := ih (fun m hm => h m (by simp [hm]))
    simp [wsCount] at h2 ⊢
    omega

theorem wcount_le_wsCount {ws : List WState} {m : WState} (hm : m ∈ ws) (z : Obj) : wcount z m ≤ wsCount ws z := by
  induction ws with
  | nil => simp at hm
  | cons a l ih =>
    simp at hm
    rcases hm with rfl | hm
    · simp [wsCount]
    · have := ih hm; simp [wsCount] at this ⊢; omega

theorem mem_of_getElem?' {α} {l : List α} {i : Nat} {a : α} (h : l[i]? = some a) : a ∈ l :=
  List.mem_of_getElem? h

theorem mem_set_self {α} {l : List α} {i : Nat} {a b : α} (h : l[i]? = some a) : b ∈ l.set i b := by
  have hi : i < l.length := by
    rcases Nat.lt_or_ge i l.length with h1 | h1
    · exact h1
    · simp [List.getElem?_eq_none h1] at h
  exact List.mem_iff_getElem?.mpr ⟨i, by simp [hi]⟩

/-- an element of the old list is the replaced one or is still there -/
theorem mem_old_or_set {α} {l : List α} {i : Nat} {a b m : α} (h : l[i]? = some a) (hm : m ∈ l) :
    m = a ∨ m ∈ l.set i b := by
  obtain ⟨j, hj⟩ := List.mem_iff_getElem?.mp hm
  by_cases hij : i = j
  · subst hij; rw [h] at hj; simp at hj; exact Or.inl hj.symm
  · exact Or.inr (List.mem_iff_getElem?.mpr ⟨j, by rw [List.getElem?_set_ne hij]; exact hj⟩)

theorem takeAll?_count : ∀ {src xs r : List Obj}, takeAll? src xs = some r →
    ∀ z, src.count z = xs.count z + r.count z
  | src, [], r, h, z => by simp [takeAll?] at h; subst h; simp
  | src, x :: xs, r, h, z => by
    simp only [takeAll?] at h
    split at h
    · rename_i hx
      have ih := takeAll?_count h z
      have hc : 0 < src.count x := List.count_pos_iff.mpr hx
      rw [List.count_erase] at ih
      rw [List.count_cons]
      by_cases hxz : x = z
      · subst hxz; simp at ih ⊢; omega
      · have : (x == z) = false := by simpa using hxz
        simp [this] at ih ⊢; omega
    · simp at h

theorem takeAll?_append (xs l : List Obj) : takeAll? (xs ++ l) xs = some l := by
  induction xs with
  | nil => simp [takeAll?]
  | cons x xs ih => simp [takeAll?, ih]

/-- `x` is processed and some worker is still to trace its field `y` -/
def Pend (ws : List WState) (x y : Obj) : Prop :=
  ∃ m ∈ ws, ∃ r, scanning m.hand = some (x, r) ∧ y ∈ r

structure Inv (h : Heap) (s : State) : Prop where
  /-- every object is in exactly as many places as its mark bit says (0 or 1) -/
  place : ∀ z, ind (z ∈ s.marked) = poolCount s z + s.log.count z + ind (z ∈ h.pre)
  /-- marks are only set on pre-marked or reachable objects -/
  reach : ∀ z, z ∈ s.marked → z ∈ h.pre ∨ Reachable h z
  rootsSub : ∀ r ∈ s.rootsLeft, r ∈ h.roots
  /-- a worker scans a processed object, and what it still has to trace are fields of that object -/
  scanOk : ∀ m ∈ s.ws, ∀ x r, scanning m.hand = some (x, r) → x ∈ s.log ∧ ∀ y ∈ r, y ∈ h.succ x
  rootsDone : ∀ r ∈ h.roots, r ∈ s.marked ∨ r ∈ s.rootsLeft
  /-- every field of a processed object is marked, or somebody is still going to trace it -/
  closed : ∀ x ∈ s.log, ∀ y ∈ h.succ x, y ∈ s.marked ∨ Pend s.ws x y

theorem Inv.init (h : Heap) (n : Nat) : Inv h (init h n) where
  place z := by simp [Dora.Mark.init, poolCount, wsCount_replicate]
  reach z hz := Or.inl hz
  rootsSub r hr := hr
  scanOk m hm x r hs := by
    simp [Dora.Mark.init] at hm
    rw [hm.2] at hs; simp [WState.init, scanning] at hs
  rootsDone r hr := Or.inr hr
  closed x hx := by simp [Dora.Mark.init] at hx

theorem Inv.log_marked {h : Heap} {s : State} (i : Inv h s) {x : Obj} (hx : x ∈ s.log) :
    x ∈ s.marked ∧ x ∉ h.pre := by
  have hp := i.place x
  have hc : 0 < s.log.count x := List.count_pos_iff.mpr hx
  have h1 := ind_le (x ∈ s.marked)
  constructor
  · apply ind_pos.mp; omega
  · intro hpre; have := ind_true hpre; omega

theorem Inv.log_reachable {h : Heap} {s : State} (i : Inv h s) {x : Obj} (hx : x ∈ s.log) : Reachable h x := by
  obtain ⟨hm, hp⟩ := i.log_marked hx
  rcases i.reach x hm with h1 | h1
  · exact absurd h1 hp
  · exact h1

/-- the state after a step of worker `w` -/
def State.upd (s : State) (w : Nat) (me' : WState) (inj' marked' log' : List Obj) : State :=
  { rootsLeft := s.rootsLeft, inj := inj', marked := marked', ws := s.ws.set w me', log := log' }

/-- What a step of one worker (`me` → `me'`) does, as far as the invariant is concerned. -/
structure LocalEff (h : Heap) (s : State) (me me' : WState) (inj' marked' log' : List Obj) : Prop where
  bal : ∀ z, ind (z ∈ marked') + s.inj.count z + wcount z me + s.log.count z
            = ind (z ∈ s.marked) + inj'.count z + wcount z me' + log'.count z
  mono : ∀ z, z ∈ s.marked → z ∈ marked'
  /-- a newly marked object is a field the worker was about to trace -/
  fresh : ∀ z, z ∈ marked' → z ∈ s.marked ∨ ∃ x r, scanning me.hand = some (x, r) ∧ z ∈ r
  logMono : ∀ z, z ∈ s.log → z ∈ log'
  /-- a newly processed object is now being scanned by this worker, all fields pending -/
  logNew : ∀ z, z ∈ log' → z ∈ s.log ∨ scanning me'.hand = some (z, h.succ z)
  scan' : ∀ x r, scanning me'.hand = some (x, r) →
            (∃ r0, scanning me.hand = some (x, r0) ∧ ∀ y ∈ r, y ∈ r0) ∨ (x ∈ log' ∧ r = h.succ x)
  pendKeep : ∀ x r y, scanning me.hand = some (x, r) → y ∈ r →
            y ∈ marked' ∨ ∃ r', scanning me'.hand = some (x, r') ∧ y ∈ r'

theorem Inv.local {h : Heap} {s : State} (i : Inv h s) {w : Nat} {me me' : WState} {inj' marked' log' : List Obj}
    (hw : s.ws[w]? = some me) (e : LocalEff h s me me' inj' marked' log') :
    Inv h (s.upd w me' inj' marked' log') where
  place z := by
    have h1 := i.place z
    have h2 := e.bal z
    have h3 := wsCount_set hw me' z
    simp only [State.upd, poolCount] at h1 ⊢
    omega
  reach z hz := by
    rcases e.fresh z hz with h1 | ⟨x, r, hs, hzr⟩
    · exact i.reach z h1
    · by_cases hp : z ∈ h.pre
      · exact Or.inl hp
      · obtain ⟨hx, hr⟩ := i.scanOk me (mem_of_getElem?' hw) x r hs
        exact Or.inr (Reachable.succ (i.log_reachable hx) (hr z hzr) hp)
  rootsSub := i.rootsSub
  scanOk m hm x r hs := by
    rcases List.mem_or_eq_of_mem_set hm with hm | rfl
    · obtain ⟨a, b⟩ := i.scanOk m hm x r hs
      exact ⟨e.logMono x a, b⟩
    · rcases e.scan' x r hs with ⟨r0, h0, hsub⟩ | ⟨hx, rfl⟩
      · obtain ⟨a, b⟩ := i.scanOk me (mem_of_getElem?' hw) x r0 h0
        exact ⟨e.logMono x a, fun y hy => b y (hsub y hy)⟩
      · exact ⟨hx, fun y hy => hy⟩
  rootsDone r hr := by
    rcases i.rootsDone r hr with h1 | h1
    · exact Or.inl (e.mono r h1)
    · exact Or.inr h1
  closed x hx y hy := by
    rcases e.logNew x hx with hx | hx
    · rcases i.closed x hx y hy with h1 | ⟨m, hm, r, hs, hyr⟩
      · exact Or.inl (e.mono y h1)
      · rcases mem_old_or_set (b := me') hw hm with rfl | hm'
        · rcases e.pendKeep x r y hs hyr with h1 | ⟨r', hs', hyr'⟩
          · exact Or.inl h1
          · exact Or.inr ⟨me', mem_set_self hw, r', hs', hyr'⟩
        · exact Or.inr ⟨m, hm', r, hs, hyr⟩
    · exact Or.inr ⟨me', mem_set_self hw, h.succ x, hx, hy⟩

end Dora.Mark
