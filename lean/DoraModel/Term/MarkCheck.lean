import DoraModel.Term.Mark
import Std.Data.HashMap
import Std.Data.HashSet
/-!
# C12 — checking the mark log of a real `marking::run` (hook `hooks/c12_marklog.patch`)

The hook logs, per marking run, the root loop (`r x`, `R`) and per `MarkingTask` its own operations in
program order (`p x` popped/processed, `t y` about to `try_mark` field target `y`, `w` mark won, `l`/`q`
pushed to local segment / deque, `h v` moved to the injector by `defensive_push`).  There is no global
order between the tasks (none is recorded on purpose: the real interleaving is not disturbed), and the
content of stolen batches is not visible.  So a log is checked in two parts:

* `replayTask` — *projection acceptance*: every task's record sequence is run through the model's own step
  function `Dora.Mark.stepW` on a one-worker state (the shared containers are cut off: a non-local pop is
  offered the popped object in an otherwise empty deque, `try_mark` gets the logged answer).  This checks
  everything thread-private the model says: last-in-first-out local segment, local before shared pop,
  push to the segment while it has capacity else to the deque, `defensive_push` after 257 marks moving
  down to half the segment, the fields traced = the fields of the object (from the heap dump if present).
* `checkRun` — the *decidable conclusions* of the theorems of `Props/C12.lean` on the whole run: no object
  processed twice, no mark won twice, every lost `try_mark` explained, won = processed (nothing lost,
  nothing invented), and with the pre-collection heap dump: processed = the objects reachable from the
  roots without passing through the read-only space.
-/
namespace Dora.Mark.Check
open Dora.Mark

inductive Rec where
  | pop (x : Nat) | trace (y : Nat) | won | pushL | pushQ | share (v : Nat)
  deriving Repr, Inhabited, BEq

structure Run where
  n : Nat := 0
  workers : Nat := 0
  permLo : Nat := 0
  permHi : Nat := 0
  /-- root object, whether its `try_mark` was won -/
  roots : Array (Nat × Bool) := #[]
  tasks : Array (Nat × Array Rec) := #[]
  deriving Inhabited

/-- reachable part of the pre-collection heap dump: non-null root objects in root order, and per object its
non-null reference fields in field order -/
structure Dump where
  roots : Array Nat := #[]
  refs : Std.HashMap Nat (Array Nat) := {}
  deriving Inhabited

/-- one finding: key (`oracle:…` / `corr:marklog`) and text -/
abbrev Finding := String × String

def hex (n : Nat) : String := String.ofList (Nat.toDigits 16 n)

/-- the fields each task traced after popping an object, as logged -/
def loggedFields (r : Run) : Std.HashMap Nat (Array Nat) := Id.run do
  let mut m : Std.HashMap Nat (Array Nat) := {}
  for (_, recs) in r.tasks do
    let mut cur : Option Nat := none
    for rc in recs do
      match rc with
      | .pop x => cur := some x; m := m.insert x #[]
      | .trace y => if let some x := cur then m := m.insert x ((m.getD x #[]).push y)
      | _ => pure ()
  return m

/-- one model step of the projected worker; returns the new worker state and what it put into the injector -/
def projStep (h : Heap) (me : WState) (marked : List Obj) (a : Act) : Except String (WState × List Obj × List Obj) :=
  let s : State := { rootsLeft := [], inj := [], marked := marked, ws := [me], log := [] }
  match stepW h s 0 me a with
  | .ok s' =>
    match s'.ws with
    | [me'] => .ok (me', s'.inj, s'.log)
    | _ => .error "projection: worker list changed shape"
  | .error e => .error e

/-- Projection acceptance of one task's records by `stepW`. -/
def replayTask (h : Heap) (tid : Nat) (recs : Array Rec) : Except String Unit := do
  let mut me : WState := WState.init
  let n := recs.size
  let mut i := 0
  let fail (i : Nat) (msg : String) : Except String Unit :=
    .error s!"task {tid} record {i}: {msg}"
  while i < n do
    let rc := recs[i]!
    -- `defensive_push` loop over: the model must agree that the target length is reached
    match me.hand, rc with
    | .share .., .share _ => pure ()
    | .share .., _ =>
      match projStep h me [] .shareEnd with
      | .ok (me', _, _) => me := me'
      | .error e => fail i e
    | _, _ => pure ()
    match rc with
    | .pop x =>
      match me.hand with
      | .scan _ [] =>
        match projStep h me [] .scanEnd with
        | .ok (me', _, _) => me := me'
        | .error e => fail i e
      | _ => pure ()
      if me.loc.isEmpty then
        match projStep h { me with deq := [x] } [] (.popDeque x) with
        | .ok (me', _, _) => me := { me' with deq := [] }
        | .error e => fail i e
      else
        match projStep h me [] .popLocal with
        | .ok (me', _, lg) =>
          if lg != [x] then fail i s!"pop() returned {hex x} but the top of the local segment is {lg.map hex}"
          me := me'
        | .error e => fail i e
      i := i + 1
    | .trace y =>
      let won := (recs[i + 1]? == some Rec.won)
      match me.hand with
      | .scan _ (y' :: _) =>
        if y' != y then fail i s!"traced {hex y} but the next reference field of the object holds {hex y'}"
      | _ => pure ()
      match projStep h me (if won then [] else [y]) (.trace won) with
      | .ok (me', _, _) => me := me'
      | .error e => fail i e
      i := i + (if won then 2 else 1)
    | .won => fail i "`w` record without a preceding `t`"
    | .pushL =>
      match projStep h me [] .pushLocal with
      | .ok (me', _, _) => me := me'
      | .error e => fail i e
      i := i + 1
    | .pushQ =>
      match projStep h me [] .pushDeque with
      | .ok (me', _, _) => me := { me' with deq := [] }
      | .error e => fail i e
      i := i + 1
    | .share v =>
      match projStep h me [] .shareOne with
      | .ok (me', inj, _) =>
        if inj != [v] then fail i s!"defensive_push moved {hex v} but the top of the local segment is {inj.map hex}"
        me := me'
      | .error e => fail i e
      i := i + 1
  match me.hand with
  | .share .. =>
    match projStep h me [] .shareEnd with
    | .ok (me', _, _) => me := me'
    | .error e => fail n e
  | _ => pure ()
  match me.hand with
  | .scan _ [] => pure ()
  | .idle => pure ()
  | _ => fail n "task ended in the middle of an object (fields left or a marked object in hand)"
  if !me.loc.isEmpty then fail n "task ended with a non-empty local segment"

/-- objects reachable from the roots along `refs` without entering `pre` -/
def reachAvoid (d : Dump) (pre : Nat → Bool) : Std.HashSet Nat := Id.run do
  let mut seen : Std.HashSet Nat := {}
  let mut stack : Array Nat := #[]
  for r in d.roots do
    if !pre r && !seen.contains r then
      seen := seen.insert r; stack := stack.push r
  -- every object is pushed at most once
  let mut fuel := d.refs.size + d.roots.size + 1
  while fuel > 0 && !stack.isEmpty do
    fuel := fuel - 1
    let x := stack.back!
    stack := stack.pop
    for y in d.refs.getD x #[] do
      if !pre y && !seen.contains y then
        seen := seen.insert y; stack := stack.push y
        fuel := fuel + 1
  return seen

structure Summary where
  processed : Nat := 0
  traced : Nat := 0
  lost : Nat := 0
  shared : Nat := 0
  dequePushes : Nat := 0
  tasksWithWork : Nat := 0
  withDump : Bool := false
  deriving Inhabited

/-- all checks of one marking run; findings are capped per key by the caller -/
def checkRun (r : Run) (dump : Option Dump) : Array Finding × Summary := Id.run do
  let mut fs : Array Finding := #[]
  let mut sm : Summary := { withDump := dump.isSome }
  let pre (x : Nat) : Bool := r.permLo ≤ x && x < r.permHi
  -- who won which mark
  let mut wonBy : Std.HashMap Nat Nat := {}       -- object ↦ number of wins
  for (x, w) in r.roots do
    if w then wonBy := wonBy.insert x (wonBy.getD x 0 + 1)
  let mut processedBy : Std.HashMap Nat Nat := {}  -- object ↦ task
  for (tid, recs) in r.tasks do
    let mut i := 0
    let mut worked := false
    for rc in recs do
      match rc with
      | .pop x =>
        worked := true
        sm := { sm with processed := sm.processed + 1 }
        match processedBy.get? x with
        | some t0 => fs := fs.push ("oracle:processed-twice", s!"object {hex x} processed by task {t0} and by task {tid}")
        | none => processedBy := processedBy.insert x tid
      | .trace y =>
        sm := { sm with traced := sm.traced + 1 }
        if recs[i + 1]? == some Rec.won then wonBy := wonBy.insert y (wonBy.getD y 0 + 1)
        else sm := { sm with lost := sm.lost + 1 }
      | .share _ => sm := { sm with shared := sm.shared + 1 }
      | .pushQ => sm := { sm with dequePushes := sm.dequePushes + 1 }
      | _ => pure ()
      i := i + 1
    if worked then sm := { sm with tasksWithWork := sm.tasksWithWork + 1 }
  -- marks are won once, never on a pre-marked object
  for (x, k) in wonBy.toList do
    if k > 1 then fs := fs.push ("oracle:marked-twice", s!"try_mark of object {hex x} succeeded {k} times")
    if pre x then fs := fs.push ("corr:marklog", s!"try_mark succeeded on {hex x} in the read-only space (assumed pre-marked)")
    if !processedBy.contains x then
      fs := fs.push ("oracle:reachable-not-processed", s!"object {hex x} was marked and pushed but never processed (lost from the pools)")
  for (x, tid) in processedBy.toList do
    if !wonBy.contains x then
      fs := fs.push ("oracle:processed-unmarked", s!"object {hex x} processed by task {tid} although nobody won its mark")
  -- a lost try_mark needs a winner or a pre-marked object
  for (x, w) in r.roots do
    if !w && !pre x && !wonBy.contains x then
      fs := fs.push ("corr:marklog", s!"try_mark of root {hex x} failed, but nobody marked it and it is not in the read-only space")
  for (tid, recs) in r.tasks do
    let mut i := 0
    for rc in recs do
      if let .trace y := rc then
        if recs[i + 1]? != some Rec.won && !pre y && !wonBy.contains y then
          fs := fs.push ("corr:marklog", s!"task {tid}: try_mark of {hex y} failed, but nobody marked it and it is not in the read-only space")
      i := i + 1
  -- projection acceptance by the model's step function
  let logged := loggedFields r
  let succTab : Std.HashMap Nat (Array Nat) := match dump with
    | some d => d.refs
    | none => logged
  let h : Heap := { succ := fun x => (succTab.getD x #[]).toList, roots := [], pre := [] }
  for (tid, recs) in r.tasks do
    match replayTask h tid recs with
    | .ok () => pure ()
    | .error e => fs := fs.push ("corr:marklog", "the model's step function rejects the log: " ++ e)
  -- against the heap dump
  if let some d := dump then
    if d.roots != r.roots.map (·.1) then
      fs := fs.push ("corr:marklog", s!"root loop saw {r.roots.size} non-null roots, the heap dump has {d.roots.size} (or another order)")
    for (x, tid) in processedBy.toList do
      match d.refs.get? x with
      | none => fs := fs.push ("oracle:processed-unreachable", s!"object {hex x} processed by task {tid} is not in the reachable heap dump")
      | some fl =>
        if logged.getD x #[] != fl then
          fs := fs.push ("corr:marklog", s!"fields traced for {hex x} differ from the object's reference fields in the dump")
    let reach := reachAvoid d pre
    for x in reach.toList do
      if !processedBy.contains x then
        fs := fs.push ("oracle:reachable-not-processed", s!"object {hex x} is reachable from the roots but was not processed")
    for (x, tid) in processedBy.toList do
      if !reach.contains x then
        fs := fs.push ("oracle:processed-unreachable", s!"object {hex x} processed by task {tid} is not reachable from the roots outside the read-only space")
  return (fs, sm)

end Dora.Mark.Check
