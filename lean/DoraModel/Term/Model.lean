/-!
# C12 — model of `dora-runtime/src/gc/swiper/terminator.rs` (`Terminator::{new,try_terminate,wake_up}`)

Transition system for `n` workers, one *shim operation* per step (DESIGN Appendix A.1): taking the
lock, every atomic load / store, `wait`, `notify_one`, `notify_all`, dropping the guard.  The unlocked
two-load fast path of `wake_up` is two separate steps (`work --loadW--> wu1 r1 --loadA--> …`) whose
values may be stale by the time they are used.

The work pool is abstract: `shared : Nat` (the injector) and `own t : Nat` (worker `t`'s local segment
plus deque).  A worker outside the terminator (`work`) may take from its own pool, from the shared pool,
steal from another worker, push to its own or to the shared pool, and call `wake_up` at any time
(the GC code calls it after every push to its deque or the injector; the model allows more).  It moves
towards `try_terminate` (`obsEmpty`) only by reading `shared = 0` while `own t = 0` — this is what the
worker loops of `marking.rs` / `minor.rs` do (`pop()` returned `None`).

The model is executable: `accept : State → Event → Except String State`.  The event (thread, operation,
values read / written, which waiter a `notify_one` woke) resolves all nondeterminism, so checking a trace
of the real code is a fold.  A failing `assert!` / `debug_assert!` of the Rust code is the pc `panicked`
(never a default value); `Props/C12.lean` proves it unreachable.

Imports nothing outside core Lean (the driver links as a native executable).
-/
namespace Dora.Term

/-- Program counter of one worker. `[L]` = holds `Terminator::lock`.
Registers (`w`, `a`, `r1`) are the Rust locals `working` / `awakening`. -/
inductive PC where
  /-- in the worker loop, outside the terminator; may hold or publish work -/
  | work
  /-- `pop()` found own and shared pool empty; about to call `try_terminate` (A.1 `tt0`) -/
  | obsEmpty
  /-- `try_terminate` [L] after `self.lock.lock()`, before `working.load` -/
  | tt1
  /-- [L] loaded `working = w` (`assert!(working > 0)` passed), before `working.store(w - 1)` -/
  | tt2 (w : Nat)
  /-- [L] stored; local `working = w`; before `awakening.load` -/
  | tt3 (w : Nat)
  /-- [L] both locals known, `debug_assert!` passed; next: `notify_all` (both 0) or `wait` -/
  | tt4 (w a : Nat)
  /-- [L] after `notify_all`, before the guard is dropped by `return true` -/
  | tt5
  /-- inside `condvar.wait`: lock released, in the wait set -/
  | waiting
  /-- signalled (notify or spurious), has to re-acquire the lock -/
  | woken
  /-- [L] back from `wait`, before `working.load` -/
  | tw1
  /-- [L] loaded `working = w`, before `awakening.load` -/
  | tw2 (w : Nat)
  /-- [L] both loaded, `debug_assert!` passed; next: unlock/`return true`, `awakening.store`, or `wait` -/
  | tw3 (w a : Nat)
  /-- [L] stored `awakening - 1`, before `working.store(w + 1)` -/
  | tw4 (w : Nat)
  /-- [L] before the guard is dropped by `return false` -/
  | tw5
  /-- `wake_up`: loaded `working = r1` without the lock, before the unlocked `awakening.load` -/
  | wu1 (r1 : Nat)
  /-- `wake_up`: fast path did not return; before `self.lock.lock()` -/
  | wu2
  /-- `wake_up` [L] before `working.load` -/
  | wu3
  /-- [L] loaded `working = w`, before `awakening.load` -/
  | wu4 (w : Nat)
  /-- [L] both loaded, both `debug_assert!`s passed; next: `awakening.store` or drop guard -/
  | wu5 (w a : Nat)
  /-- [L] stored `awakening + 1`, before `notify_one` -/
  | wu6
  /-- [L] before the guard is dropped at the end of `wake_up` -/
  | wu7
  /-- `try_terminate` returned `true` -/
  | done
  /-- an `assert!` / `debug_assert!` of terminator.rs failed -/
  | panicked
  deriving DecidableEq, Repr, Hashable, Inhabited

/-- What one step does, with the values the real execution saw. -/
inductive Act where
  /-- `fetch_update` on `own[u]` reading `rd`: takes one item iff `rd > 0` (`u = tid`: pop, else: steal) -/
  | takeOwn (u rd : Nat)
  /-- `fetch_update` on the shared pool reading `rd` -/
  | takeShared (rd : Nat)
  /-- `fetch_add(k)` on the worker's own pool reading `rd` -/
  | pushOwn (rd k : Nat)
  /-- `fetch_add(k)` on the shared pool reading `rd` -/
  | pushShared (rd k : Nat)
  | loadW (r : Nat)
  | loadA (r : Nat)
  | storeW (v : Nat)
  | storeA (v : Nat)
  /-- `Mutex::lock` acquired -/
  | lock
  /-- guard dropped -/
  | unlock
  /-- `Condvar::wait`: releases the lock and joins the wait set, atomically -/
  | wait
  /-- lock re-acquired on the way out of `Condvar::wait` -/
  | relock
  /-- spurious wake-up of the acting thread -/
  | spur
  /-- `notify_one`; `woken` = the waiter chosen, `none` = the wait set was empty -/
  | notifyOne (woken : Option Nat)
  /-- `notify_all`; `k` = number of waiters woken -/
  | notifyAll (k : Nat)
  deriving DecidableEq, Repr, Hashable, Inhabited

structure Event where
  tid : Nat
  act : Act
  deriving DecidableEq, Repr, Hashable

structure State where
  /-- `Terminator::total` -/
  n : Nat
  working : Nat
  awakening : Nat
  /-- owner of `Terminator::lock` -/
  lock : Option Nat
  /-- abstract injector -/
  shared : Nat
  /-- abstract local segment + deque of every worker -/
  own : List Nat
  pcs : List PC
  deriving DecidableEq, Repr, Hashable

/-- `Terminator::new(n)` plus an initial distribution of work items. -/
def init (n shared : Nat) (own : List Nat) : State :=
  { n := n, working := n, awakening := 0, lock := none, shared := shared, own := own,
    pcs := List.replicate n .work }

def isWaiting : PC → Bool
  | .waiting => true
  | _ => false

/-- effect of `notify_all` on one thread -/
def wake : PC → PC
  | .waiting => .woken
  | p => p

def State.setPc (s : State) (t : Nat) (pc : PC) : State := { s with pcs := s.pcs.set t pc }

/-- One step of thread `t` standing at `pc`. `.error` = the model does not allow this event here. -/
def stepAt (s : State) (t : Nat) : PC → Act → Except String State
  -- ───────── worker loop (abstract pool)
  | .work, .takeOwn u rd =>
      if s.own[u]? = some rd then
        (if rd = 0 then .ok s else .ok { s with own := s.own.set u (rd - 1) })
      else .error "work/takeOwn: value read differs from the model's own[u]"
  | .work, .takeShared rd =>
      if s.shared = rd then
        (if rd = 0 then
          (if s.own[t]? = some 0 then .ok (s.setPc t (if s.n = 1 then .done else .obsEmpty)) else .ok s)
        else .ok { s with shared := rd - 1 })
      else .error "work/takeShared: value read differs from the model's shared"
  | .work, .pushOwn rd k =>
      if s.own[t]? = some rd then .ok { s with own := s.own.set t (rd + k) }
      else .error "work/pushOwn: value read differs from the model's own[t]"
  | .work, .pushShared rd k =>
      if s.shared = rd then .ok { s with shared := rd + k }
      else .error "work/pushShared: value read differs from the model's shared"
  -- `wake_up`: `if self.total == 1 { return; }` then the unlocked `working.load`
  | .work, .loadW r =>
      if 1 < s.n ∧ r = s.working then .ok (s.setPc t (.wu1 r))
      else .error "work/loadW (wake_up fast path): n = 1 or value differs from working"
  -- ───────── observed empty: may still steal / poll; otherwise calls try_terminate
  | .obsEmpty, .takeOwn u rd =>
      if s.own[u]? = some rd then
        (if rd = 0 then .ok s else .ok { s with own := s.own.set u (rd - 1), pcs := s.pcs.set t .work })
      else .error "obsEmpty/takeOwn: value read differs from the model's own[u]"
  | .obsEmpty, .takeShared rd =>
      if s.shared = rd then
        (if rd = 0 then .ok s else .ok { s with shared := rd - 1, pcs := s.pcs.set t .work })
      else .error "obsEmpty/takeShared: value read differs from the model's shared"
  -- `try_terminate`: `if self.total == 1 { return true; }` is folded into work/takeShared; here n > 1
  | .obsEmpty, .lock =>
      if 1 < s.n ∧ s.lock = none then .ok { s with lock := some t, pcs := s.pcs.set t .tt1 }
      else .error "obsEmpty/lock: lock is held (or n = 1)"
  -- ───────── try_terminate, first part
  | .tt1, .loadW r =>
      if r = s.working then .ok (s.setPc t (if r = 0 then .panicked else .tt2 r))
      else .error "tt1/loadW: value differs from working"
  | .tt2 w, .storeW v =>
      if v = w - 1 then .ok { s with working := v, pcs := s.pcs.set t (.tt3 v) }
      else .error "tt2/storeW: stored value is not working - 1"
  | .tt3 w, .loadA r =>
      if r = s.awakening then .ok (s.setPc t (if w + r ≤ s.n then .tt4 w r else .panicked))
      else .error "tt3/loadA: value differs from awakening"
  | .tt4 w a, .notifyAll k =>
      if w = 0 ∧ a = 0 ∧ k = s.pcs.countP isWaiting then .ok { s with pcs := (s.pcs.map wake).set t .tt5 }
      else .error "tt4/notifyAll: counters not both 0, or number of woken waiters differs"
  | .tt4 w a, .wait =>
      if ¬ (w = 0 ∧ a = 0) then .ok { s with lock := none, pcs := s.pcs.set t .waiting }
      else .error "tt4/wait: both counters are 0, the code returns true here"
  | .tt5, .unlock => .ok { s with lock := none, pcs := s.pcs.set t .done }
  -- ───────── condvar
  | .waiting, .spur => .ok (s.setPc t .woken)
  | .woken, .relock =>
      if s.lock = none then .ok { s with lock := some t, pcs := s.pcs.set t .tw1 }
      else .error "woken/relock: lock is held"
  -- ───────── try_terminate, loop body after `wait`
  | .tw1, .loadW r =>
      if r = s.working then .ok (s.setPc t (.tw2 r)) else .error "tw1/loadW: value differs from working"
  | .tw2 w, .loadA r =>
      if r = s.awakening then .ok (s.setPc t (if w + r ≤ s.n then .tw3 w r else .panicked))
      else .error "tw2/loadA: value differs from awakening"
  | .tw3 w a, .unlock =>
      if w = 0 ∧ a = 0 then .ok { s with lock := none, pcs := s.pcs.set t .done }
      else .error "tw3/unlock: counters not both 0, the code does not return true here"
  | .tw3 w a, .storeA v =>
      if ¬ (w = 0 ∧ a = 0) ∧ 0 < a ∧ v = a - 1 then
        .ok { s with awakening := v, pcs := s.pcs.set t (.tw4 w) }
      else .error "tw3/storeA: not the awakening > 0 branch, or wrong value"
  | .tw3 w a, .wait =>
      if ¬ (w = 0 ∧ a = 0) ∧ a = 0 then .ok { s with lock := none, pcs := s.pcs.set t .waiting }
      else .error "tw3/wait: not the branch that loops"
  | .tw4 w, .storeW v =>
      if v = w + 1 then .ok { s with working := v, pcs := s.pcs.set t .tw5 }
      else .error "tw4/storeW: stored value is not working + 1"
  | .tw5, .unlock => .ok { s with lock := none, pcs := s.pcs.set t .work }
  -- ───────── wake_up
  | .wu1 r1, .loadA r =>
      if r = s.awakening then
        .ok (s.setPc t (if r1 = 0 then .panicked else if r1 + r = s.n then .work else .wu2))
      else .error "wu1/loadA: value differs from awakening"
  | .wu2, .lock =>
      if s.lock = none then .ok { s with lock := some t, pcs := s.pcs.set t .wu3 }
      else .error "wu2/lock: lock is held"
  | .wu3, .loadW r =>
      if r = s.working then .ok (s.setPc t (.wu4 r)) else .error "wu3/loadW: value differs from working"
  | .wu4 w, .loadA r =>
      if r = s.awakening then
        .ok (s.setPc t (if w = 0 ∨ ¬ (w + r ≤ s.n) then .panicked else .wu5 w r))
      else .error "wu4/loadA: value differs from awakening"
  | .wu5 w a, .storeA v =>
      if w + a ≠ s.n ∧ v = a + 1 then .ok { s with awakening := v, pcs := s.pcs.set t .wu6 }
      else .error "wu5/storeA: working + awakening = total (no store here), or wrong value"
  | .wu5 w a, .unlock =>
      if w + a = s.n then .ok { s with lock := none, pcs := s.pcs.set t .work }
      else .error "wu5/unlock: working + awakening != total, the code notifies first"
  | .wu6, .notifyOne (some u) =>
      if s.pcs[u]? = some .waiting then .ok { s with pcs := (s.pcs.set u .woken).set t .wu7 }
      else .error "wu6/notifyOne: the thread named as woken is not waiting"
  | .wu6, .notifyOne none =>
      if s.pcs.countP isWaiting = 0 then .ok (s.setPc t .wu7)
      else .error "wu6/notifyOne: nobody woken although a thread is waiting (lost notification)"
  | .wu7, .unlock => .ok { s with lock := none, pcs := s.pcs.set t .work }
  | _, _ => .error "operation not possible at this pc"

/-- Trace acceptor: one event of the real execution against the model. -/
def accept (s : State) (e : Event) : Except String State :=
  match s.pcs[e.tid]? with
  | none => .error "no such thread"
  | some pc => stepAt s e.tid pc e.act

/-- fold over a trace; `.error (i, msg)` = first event (0-based) the model does not allow -/
def acceptTrace (s : State) (es : List Event) (i : Nat := 0) : Except (Nat × String × State) State :=
  match es with
  | [] => .ok s
  | e :: rest =>
    match accept s e with
    | .ok s' => acceptTrace s' rest (i + 1)
    | .error m => .error (i, m, s)

/-- What the real call must have returned, checked by the driver against the harness' `ret` marks:
`try_terminate` returned `true` iff the model's pc is `done`, `false` iff it is back at `work`;
`wake_up` returns at `work`. -/
def retOk (s : State) (t : Nat) (fn : String) (val : Nat) : Bool :=
  match s.pcs[t]? with
  | some .done => fn == "T" && val == 1
  | some .work => (fn == "T" && val == 0) || fn == "U"
  | _ => false

end Dora.Term
