/-!
# C12 — model of the parallel marker `dora-runtime/src/gc/swiper/marking.rs`

Transition system over an arbitrary object graph (`Heap.succ`, `Heap.roots`), ANY number of workers
(`State.ws : List WState`), every interleaving.  One step = one operation of `marking.rs` that another
thread can observe, plus the thread-private bookkeeping that surrounds it:

| Rust (`marking.rs`)                                             | model step                          |
|-----------------------------------------------------------------|-------------------------------------|
| `run`: `for root in rootset { if try_mark { injector.push } }`  | `Event.root won`                    |
| `pop_local` (`Segment::pop`, a `Vec`, last in first out)         | `Act.popLocal`                      |
| `pop_worker` (`Worker::pop`)                                     | `Act.popDeque x`                    |
| `pop_global` (`Injector::steal_batch_and_pop(&worker)`)          | `Act.stealInj x batch`              |
| `steal` (`Stealer::steal_batch_and_pop(&worker)` of victim `v`)  | `Act.steal v x batch`               |
| `trace`: `field_obj.header().try_mark()` (mirror.rs, CAS loop)   | `Act.trace won`  (ONE atomic step)  |
| `trace`: `local.push` + `defensive_push` counter                 | `Act.pushLocal`                     |
| `trace`: `worker.push` (+ `wake_up`, see Term/Model.lean)        | `Act.pushDeque`                     |
| `defensive_push`: `local.pop()` + `injector.push(val)`           | `Act.shareOne`                      |
| `defensive_push`: loop exit (+ `wake_up`)                        | `Act.shareEnd`                      |
| `visit_reference_fields` closure returns, next `pop()`           | `Act.scanEnd`                       |

An object counts as *processed* (appended to `State.log`) at the moment `pop()` hands it to the worker:
from there on `run` unconditionally sets the live page bit, adds its size and scans its fields.
A worker's scan of an object is the sequence of `trace` steps over `Heap.succ x` (the non-null reference
fields in the order `visit_reference_fields` reports them; null fields return before `try_mark`).

## Assumptions (trusted base)

* crossbeam-deque's `Worker`/`Stealer`/`Injector` are *linearizable multisets*: `push`, `pop`,
  `steal_batch_and_pop` take effect atomically; a pop / steal returns an element that is in the container
  and removes exactly what it hands out; a batch steal moves an ARBITRARY (possibly empty) further set of
  elements of the source into the thief's own deque.  `Steal::Retry` / an observed `Empty` change nothing
  (no step).  Which element a pop returns is not constrained (the model allows any).
* `try_mark` is one atomic read-modify-write of the header word (its bit algebra is `Props/C03.lean`:
  `tryMark_twice_exactly_one`); atomics have interleaving semantics (DESIGN §5).
* Thread-private operations (`Segment` push/pop, the `marked_since_share` counter, reading a field of the
  object being scanned — the mutator is stopped) are merged into the neighbouring shared operation; this
  does not remove interleavings of shared operations.
* `Heap.pre` = objects whose mark bit is already set when marking starts (the read-only space:
  `verify.rs` asserts `is_marked() == page.is_readonly()`); they are never pushed and never scanned.
* The root loop is one step per root (it runs before the workers are started, so its `try_mark` +
  `push` cannot be interleaved with anything).  The model does NOT require that the workers start after the
  last root — it allows more interleavings than the code has.
* Not modelled: the `debug_assert!` in `trace` / `run` that a referenced object lies in the heap or the
  read-only region (objects are abstract here), and the results a task accumulates per processed object
  (`live_pages`, `marked_bytes`) — "processed" is the event they hang on.
* When a worker may stop (`Terminator::try_terminate`) is the other half of C12 (`Term/Model.lean`); here a
  worker is simply `idle` between two objects.

The local segment is kept with its top at the head (`push` = cons, `pop` = head).  Imports nothing outside
core Lean (the driver links as a native executable).
-/
namespace Dora.Mark

abbrev Obj := Nat

/-- `SEGMENT_SIZE` -/
def segmentSize : Nat := 64
/-- `defensive_push`: `if self.marked_since_share > 256` -/
def shareEvery : Nat := 256
/-- `defensive_push`: `if self.local.len() > 4` -/
def shareMinLen : Nat := 4

/-- The stopped heap as the marker sees it. -/
structure Heap where
  /-- non-null reference fields of an object, in `visit_reference_fields` order -/
  succ : Obj → List Obj
  /-- non-null root slots, in `rootset` order -/
  roots : List Obj
  /-- objects already marked before marking starts (read-only space) -/
  pre : List Obj

/-- What a `MarkingTask` is doing (its position in `run` / `trace` / `defensive_push`). -/
inductive Hand where
  /-- at `self.pop()` (or inside `try_terminate`) -/
  | idle
  /-- inside `visit_reference_fields` of `x`; `rest` = reference fields still to be traced -/
  | scan (x : Obj) (rest : List Obj)
  /-- `try_mark` of `y` just succeeded; `y` is marked and in no container yet -/
  | won (x : Obj) (rest : List Obj) (y : Obj)
  /-- inside the `while self.local.len() > target_len` loop of `defensive_push` -/
  | share (x : Obj) (rest : List Obj) (target : Nat)
  deriving DecidableEq, Repr, Inhabited

/-- One `MarkingTask`. -/
structure WState where
  /-- `local: Segment`, top of the stack first -/
  loc : List Obj
  /-- `worker: Worker<Address>` (what its `Stealer` sees) -/
  deq : List Obj
  hand : Hand
  /-- `marked_since_share` -/
  since : Nat
  deriving DecidableEq, Repr, Inhabited

structure State where
  /-- roots the loop in `run` has not looked at yet -/
  rootsLeft : List Obj
  /-- `injector` -/
  inj : List Obj
  /-- objects whose mark bit is set -/
  marked : List Obj
  ws : List WState
  /-- processed objects, most recent first -/
  log : List Obj
  deriving DecidableEq, Repr

def WState.init : WState := { loc := [], deq := [], hand := .idle, since := 0 }

/-- state at the start of `marking::run` with `n` workers -/
def init (h : Heap) (n : Nat) : State :=
  { rootsLeft := h.roots, inj := [], marked := h.pre, ws := List.replicate n WState.init, log := [] }

inductive Act where
  | popLocal
  | popDeque (x : Obj)
  | stealInj (x : Obj) (batch : List Obj)
  | steal (v : Nat) (x : Obj) (batch : List Obj)
  /-- `try_mark` of the next field; `won` = what it returned -/
  | trace (won : Bool)
  | pushLocal
  | pushDeque
  | shareOne
  | shareEnd
  | scanEnd
  deriving DecidableEq, Repr, Inhabited

inductive Event where
  /-- main thread: next root; `won` = what `try_mark` returned -/
  | root (won : Bool)
  | worker (w : Nat) (a : Act)
  deriving DecidableEq, Repr, Inhabited

/-- multiset difference `src − xs`; `none` if some element of `xs` is not (often enough) in `src` -/
def takeAll? : List Obj → List Obj → Option (List Obj)
  | src, [] => some src
  | src, x :: xs => if x ∈ src then takeAll? (src.erase x) xs else none

/-- what the worker does right after `pop()` returned `x` -/
def startScan (h : Heap) (x : Obj) : Hand := .scan x (h.succ x)

/-- One step of worker `w` whose current state is `me`.  `.error` = the model does not allow it. -/
def stepW (h : Heap) (s : State) (w : Nat) (me : WState) : Act → Except String State
  | .popLocal =>
    match me.hand, me.loc with
    | .idle, x :: l =>
      .ok { s with log := x :: s.log, ws := s.ws.set w { me with loc := l, hand := startScan h x } }
    | _, _ => .error "popLocal: not at pop() or local segment empty"
  | .popDeque x =>
    match me.hand with
    | .idle =>
      if me.loc = [] ∧ x ∈ me.deq then
        .ok { s with log := x :: s.log,
                     ws := s.ws.set w { me with deq := me.deq.erase x, hand := startScan h x } }
      else .error "popDeque: local segment not empty, or object not in the worker's deque"
    | _ => .error "popDeque: not at pop()"
  | .stealInj x batch =>
    match me.hand with
    | .idle =>
      if me.loc = [] ∧ me.deq = [] then
        match takeAll? s.inj (x :: batch) with
        | some inj' =>
          .ok { s with inj := inj', log := x :: s.log,
                       ws := s.ws.set w { me with deq := me.deq ++ batch, hand := startScan h x } }
        | none => .error "stealInj: objects not in the injector"
      else .error "stealInj: own pools not empty"
    | _ => .error "stealInj: not at pop()"
  | .steal v x batch =>
    match me.hand with
    | .idle =>
      if v ≠ w ∧ me.loc = [] ∧ me.deq = [] then
        match s.ws[v]? with
        | some vic =>
          match takeAll? vic.deq (x :: batch) with
          | some d' =>
            .ok { s with log := x :: s.log,
                         ws := (s.ws.set v { vic with deq := d' }).set w
                                 { me with deq := me.deq ++ batch, hand := startScan h x } }
          | none => .error "steal: objects not in the victim's deque"
        | none => .error "steal: no such victim"
      else .error "steal: victim is the thief, or own pools not empty"
    | _ => .error "steal: not at pop()"
  | .trace won =>
    match me.hand with
    | .scan x (y :: rest) =>
      if won = decide (y ∉ s.marked) then
        (if won then
          .ok { s with marked := y :: s.marked, ws := s.ws.set w { me with hand := .won x rest y } }
        else .ok { s with ws := s.ws.set w { me with hand := .scan x rest } })
      else .error "trace: try_mark returned something else than the model's mark set says"
    | _ => .error "trace: not scanning, or no field left"
  | .pushLocal =>
    match me.hand with
    | .won x rest y =>
      if me.loc.length < segmentSize then
        let loc' := y :: me.loc
        let since' := me.since + 1
        if since' > shareEvery then
          (if loc'.length > shareMinLen then
            .ok { s with ws := s.ws.set w { me with loc := loc', since := 0, hand := .share x rest (loc'.length / 2) } }
          else .ok { s with ws := s.ws.set w { me with loc := loc', since := 0, hand := .scan x rest } })
        else .ok { s with ws := s.ws.set w { me with loc := loc', since := since', hand := .scan x rest } }
      else .error "pushLocal: local segment is full"
    | _ => .error "pushLocal: no freshly marked object in hand"
  | .pushDeque =>
    match me.hand with
    | .won x rest y =>
      if segmentSize ≤ me.loc.length then
        .ok { s with ws := s.ws.set w { me with deq := y :: me.deq, hand := .scan x rest } }
      else .error "pushDeque: local segment has capacity"
    | _ => .error "pushDeque: no freshly marked object in hand"
  | .shareOne =>
    match me.hand, me.loc with
    | .share _ _ t, v :: l =>
      if t < (v :: l).length then
        .ok { s with inj := v :: s.inj, ws := s.ws.set w { me with loc := l } }
      else .error "shareOne: target length reached"
    | _, _ => .error "shareOne: not in defensive_push"
  | .shareEnd =>
    match me.hand with
    | .share x rest t =>
      if me.loc.length ≤ t then .ok { s with ws := s.ws.set w { me with hand := .scan x rest } }
      else .error "shareEnd: target length not reached"
    | _ => .error "shareEnd: not in defensive_push"
  | .scanEnd =>
    match me.hand with
    | .scan _ [] => .ok { s with ws := s.ws.set w { me with hand := .idle } }
    | _ => .error "scanEnd: fields left, or not scanning"

/-- Trace acceptor: one event against the model. -/
def accept (h : Heap) (s : State) : Event → Except String State
  | .root won =>
    match s.rootsLeft with
    | r :: rs =>
      if won = decide (r ∉ s.marked) then
        (if won then .ok { s with rootsLeft := rs, marked := r :: s.marked, inj := r :: s.inj }
         else .ok { s with rootsLeft := rs })
      else .error "root: try_mark returned something else than the model's mark set says"
    | [] => .error "root: no root left"
  | .worker w a =>
    match s.ws[w]? with
    | some me => stepW h s w me a
    | none => .error "no such worker"

def runTrace (h : Heap) (s : State) : List Event → Option State
  | [] => some s
  | e :: es =>
    match accept h s e with
    | .ok s' => runTrace h s' es
    | .error _ => none

/-- the objects a hand holds outside every container -/
def held : Hand → List Obj
  | .won _ _ y => [y]
  | _ => []

/-- the object a hand is scanning and the fields it still has to trace -/
def scanning : Hand → Option (Obj × List Obj)
  | .idle => none
  | .scan x r => some (x, r)
  | .won x r _ => some (x, r)
  | .share x r _ => some (x, r)

/-- "all pools are empty and no worker holds an object" -/
def quiescent (s : State) : Prop :=
  s.rootsLeft = [] ∧ s.inj = [] ∧ ∀ m ∈ s.ws, m.loc = [] ∧ m.deq = [] ∧ m.hand = .idle

/-- occurrences of `z` in what one worker holds: local segment, deque, hand -/
def wcount (z : Obj) (m : WState) : Nat := m.loc.count z + m.deq.count z + (held m.hand).count z

def wsCount (ws : List WState) (z : Obj) : Nat := (ws.map (wcount z)).sum

/-- number of pool slots holding `z`: occurrences in the injector and in every worker's local segment,
deque and hand -/
def poolCount (s : State) (z : Obj) : Nat := s.inj.count z + wsCount s.ws z

/-- what marking has to find: reachable from a root along reference fields without passing through a
pre-marked (read-only space) object -/
inductive Reachable (h : Heap) : Obj → Prop
  | root {r : Obj} : r ∈ h.roots → r ∉ h.pre → Reachable h r
  | succ {x y : Obj} : Reachable h x → y ∈ h.succ x → y ∉ h.pre → Reachable h y

end Dora.Mark
