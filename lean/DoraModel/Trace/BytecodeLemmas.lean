import DoraModel.Trace.Bytecode
import DoraModel.Trace.Lemmas
/-!
Helper lemmas for the bytecode-level position lookup (`offset_location`) of C14. Core Lean only.
-/
namespace Dora.Trace.Bc
open Dora.Trace

/-- index form of sortedness -/
def Sorted (l : List BEntry) : Prop :=
  ∀ (i j : Nat) (hi : i < l.length) (hj : j < l.length), i < j → l[i].off < l[j].off

theorem sortedB_sorted (l : List BEntry) (h : sortedB l = true) : Sorted l := by
  have hp := strictInc_pairwise _ h
  rw [List.pairwise_iff_getElem] at hp
  intro i j hi hj hij
  have := hp i j (by simpa using hi) (by simpa using hj) hij
  simpa using this

theorem sorted_le (l : List BEntry) (hs : Sorted l) (i j : Nat) (hi : i < l.length) (hj : j < l.length)
    (h : l[i].off ≤ l[j].off) : i ≤ j := by
  rcases Nat.lt_or_ge j i with hlt | hge
  · have := hs j i hj hi hlt; omega
  · exact hge

/-- what the answer of the search means -/
def SearchOK (l : List BEntry) (off : Nat) : Search → Prop
  | .ok i => ∃ h : i < l.length, l[i].off = off
  | .err i => i ≤ l.length ∧ (∀ (j : Nat) (hj : j < l.length), j < i → l[j].off < off) ∧
      (∀ (j : Nat) (hj : j < l.length), i ≤ j → off < l[j].off)

/-- the halving search never reads outside the slice and returns `Ok(index of the offset)` or `Err(insertion point)` -/
theorem bsearch_spec (l : List BEntry) (hs : Sorted l) (off : Nat) :
    ∀ (n lo hi : Nat), hi - lo = n → lo ≤ hi → hi ≤ l.length →
      (∀ (j : Nat) (hj : j < l.length), j < lo → l[j].off < off) →
      (∀ (j : Nat) (hj : j < l.length), hi ≤ j → off < l[j].off) →
      ∃ r, bsearch l off lo hi = some r ∧ SearchOK l off r := by
  intro n
  induction n using Nat.strongRecOn with
  | _ n ih =>
    intro lo hi hn hle hhi hbelow habove
    rw [bsearch]
    by_cases hlt : lo < hi
    · simp only [hlt, dite_true]
      have hmid : lo + (hi - lo) / 2 < l.length := by omega
      rw [List.getElem?_eq_getElem hmid]
      simp only
      by_cases heq : l[lo + (hi - lo) / 2].off = off
      · simp only [heq, if_true]
        exact ⟨_, rfl, hmid, heq⟩
      · simp only [heq, if_false]
        by_cases hl : l[lo + (hi - lo) / 2].off < off
        · simp only [hl, if_true]
          refine ih (hi - (lo + (hi - lo) / 2 + 1)) (by omega) _ _ rfl (by omega) hhi ?_ habove
          intro j hj hjm
          rcases Nat.lt_or_ge j (lo + (hi - lo) / 2) with h | h
          · have := hs j _ hj hmid h; omega
          · have : j = lo + (hi - lo) / 2 := by omega
            subst this; exact hl
        · simp only [hl, if_false]
          refine ih (lo + (hi - lo) / 2 - lo) (by omega) _ _ rfl (by omega) (by omega) hbelow ?_
          intro j hj hjm
          rcases Nat.lt_or_ge (lo + (hi - lo) / 2) j with h | h
          · have := hs _ j hmid hj h; omega
          · have : j = lo + (hi - lo) / 2 := by omega
            subst this; omega
    · simp only [hlt, dite_false]
      have : lo = hi := by omega
      subst this
      exact ⟨_, rfl, hhi, hbelow, habove⟩

theorem bsearch_top (l : List BEntry) (hs : Sorted l) (off : Nat) :
    ∃ r, bsearch l off 0 l.length = some r ∧ SearchOK l off r :=
  bsearch_spec l hs off _ 0 l.length rfl (Nat.zero_le _) (Nat.le_refl _)
    (fun j _ h => absurd h (Nat.not_lt_zero j)) (fun j hj h => absurd hj (by omega))

/-- index form of the floor statement -/
theorem offsetLocation_floor_idx (l : List BEntry) (hs : Sorted l) (q : Nat) (i : Nat) (hi : i < l.length)
    (hle : l[i].off ≤ q) (hmax : ∀ (j : Nat) (hj : j < l.length), l[j].off ≤ q → l[j].off ≤ l[i].off) :
    offsetLocation l q = some l[i].loc := by
  obtain ⟨r, hr, hok⟩ := bsearch_top l hs q
  simp only [offsetLocation, hr]
  have key : pickIndex r = i := by
    cases r with
    | ok k =>
      obtain ⟨hk, hkq⟩ := hok
      simp only [pickIndex]
      have h1 := hmax k hk (by omega)
      have a := sorted_le l hs k i hk hi h1
      have b := sorted_le l hs i k hi hk (by omega)
      omega
    | err k =>
      obtain ⟨hkl, hlow, hhigh⟩ := hok
      cases k with
      | zero =>
        have := hhigh i hi (Nat.zero_le _)
        omega
      | succ k =>
        simp only [pickIndex]
        have hkl' : k < l.length := by omega
        have h1 := hlow k hkl' (by omega)
        have h2 := hmax k hkl' (by omega)
        have a := sorted_le l hs k i hkl' hi h2
        have b : i ≤ k := by
          rcases Nat.lt_or_ge k i with h | h
          · have := hhigh i hi (by omega); omega
          · exact h
        omega
  rw [key, List.getElem?_eq_getElem hi]

/-- a query below every entry: the code's `Err(0) => 0` -/
theorem offsetLocation_before_first (e : BEntry) (r : List BEntry) (hs : Sorted (e :: r)) (q : Nat) (h : q < e.off) :
    offsetLocation (e :: r) q = some e.loc := by
  obtain ⟨res, hr, hok⟩ := bsearch_top (e :: r) hs q
  simp only [offsetLocation, hr]
  have key : pickIndex res = 0 := by
    have hall : ∀ (j : Nat) (hj : j < (e :: r).length), q < (e :: r)[j].off := by
      intro j hj
      rcases Nat.eq_zero_or_pos j with rfl | hp
      · simpa using h
      · have := hs 0 j (by simp) hj hp
        simp only [List.getElem_cons_zero] at this
        omega
    cases res with
    | ok k =>
      obtain ⟨hk, hkq⟩ := hok
      have := hall k hk
      omega
    | err k =>
      obtain ⟨hkl, hlow, hhigh⟩ := hok
      cases k with
      | zero => rfl
      | succ k =>
        have h1 := hlow 0 (by simp) (by omega)
        have h2 := hall 0 (by simp)
        omega
  rw [key]
  rfl

/-! ### the writer -/

/-- `loc` is what the table says about offset `q`: the entry with the greatest offset ≤ q -/
def IsFloor (l : List BEntry) (q : Nat) (loc : Loc) : Prop :=
  ∃ e ∈ l, e.loc = loc ∧ e.off ≤ q ∧ ∀ e' ∈ l, e'.off ≤ q → e'.off ≤ e.off

theorem offsetLocation_of_isFloor (l : List BEntry) (hs : Sorted l) (q : Nat) (loc : Loc) (h : IsFloor l q loc) :
    offsetLocation l q = some loc := by
  obtain ⟨e, he, hloc, hle, hmax⟩ := h
  obtain ⟨i, hi, rfl⟩ := List.mem_iff_getElem.mp he
  rw [← hloc]
  exact offsetLocation_floor_idx l hs q i hi hle (fun j hj hq => hmax _ (List.getElem_mem hj) hq)

theorem sorted_append (l : List BEntry) (hs : Sorted l) (e : BEntry) (h : ∀ x ∈ l, x.off < e.off) :
    Sorted (l ++ [e]) := by
  intro i j hi hj hij
  simp only [List.length_append, List.length_cons, List.length_nil] at hi hj
  have hil : i < l.length := by omega
  rw [List.getElem_append_left hil]
  rcases Nat.lt_or_ge j l.length with hjl | hjl
  · rw [List.getElem_append_left hjl]
    exact hs i j hil hjl hij
  · have : j = l.length := by omega
    subst this
    simp only [List.getElem_append_right (Nat.le_refl _), Nat.sub_self, List.getElem_cons_zero]
    exact h _ (List.getElem_mem hil)

theorem isFloor_append (l : List BEntry) (q : Nat) (loc : Loc) (e : BEntry) (h : IsFloor l q loc) (hq : q < e.off) :
    IsFloor (l ++ [e]) q loc := by
  obtain ⟨x, hx, hloc, hle, hmax⟩ := h
  refine ⟨x, List.mem_append_left _ hx, hloc, hle, ?_⟩
  intro e' he' hq'
  rcases List.mem_append.mp he' with h | h
  · exact hmax e' h hq'
  · simp only [List.mem_singleton] at h
    subst h
    omega

theorem isFloor_new (l : List BEntry) (e : BEntry) (h : ∀ x ∈ l, x.off < e.off) : IsFloor (l ++ [e]) e.off e.loc := by
  refine ⟨e, by simp, rfl, Nat.le_refl _, ?_⟩
  intro e' he' _
  rcases List.mem_append.mp he' with h' | h'
  · exact Nat.le_of_lt (h e' h')
  · simp only [List.mem_singleton] at h'
    subst h'
    exact Nat.le_refl _

theorem getLast_max (l : List BEntry) (hs : Sorted l) (last : BEntry) (h : l.getLast? = some last) :
    last ∈ l ∧ ∀ x ∈ l, x.off ≤ last.off := by
  have hm : last ∈ l := List.mem_of_getLast? h
  refine ⟨hm, ?_⟩
  intro x hx
  obtain ⟨j, hj, rfl⟩ := List.mem_iff_getElem.mp hx
  have hlen : 0 < l.length := by omega
  rw [List.getLast?_eq_getElem?] at h
  rw [List.getElem?_eq_getElem (by omega)] at h
  cases h
  rcases Nat.lt_or_ge j (l.length - 1) with hlt | hge
  · exact Nat.le_of_lt (hs j (l.length - 1) hj (by omega) hlt)
  · have : j = l.length - 1 := by omega
    subst this
    exact Nat.le_refl _

/-- the invariant of the writer between two instructions: no pending location (`emit_values` always clears it), table
sorted, every entry below the write position, and every location-carrying instruction emitted so far (`done`: offset,
location) is answered with its own location -/
structure Inv (s : WState) (done : List (Nat × Loc)) : Prop where
  cur : s.cur = none
  sorted : Sorted s.table
  below : ∀ x ∈ s.table, x.off < s.codeLen
  found : ∀ p ∈ done, p.1 < s.codeLen ∧ IsFloor s.table p.1 p.2

theorem inv_init : Inv WState.init [] :=
  ⟨rfl, fun i _ hi => absurd hi (by simp [WState.init]), fun x hx => by simp [WState.init] at hx, fun p hp => by cases hp⟩

theorem inv_step_plain (s s' : WState) (done : List (Nat × Loc)) (i : Instr) (hinv : Inv s done)
    (hn : i.needs = false) (h : emitInstr s i = some s') :
    s'.codeLen = s.codeLen + i.size ∧ Inv s' done := by
  obtain ⟨_, hsorted, hbelow, hfound⟩ := hinv
  simp only [emitInstr, emitValues, hn, Bool.false_eq_true, if_false, Option.some.injEq] at h
  subst h
  cases i.loc <;>
  · refine ⟨rfl, rfl, hsorted, ?_, ?_⟩
    · intro x hx
      have := hbelow x hx
      simp only [setLocation]
      omega
    · intro p hp
      have := hfound p hp
      exact ⟨by simp only [setLocation]; omega, this.2⟩

theorem inv_step_loc (s s' : WState) (done : List (Nat × Loc)) (i : Instr) (hsz : 0 < i.size) (hinv : Inv s done)
    (hn : i.needs = true) (h : emitInstr s i = some s') :
    s'.codeLen = s.codeLen + i.size ∧ ∃ loc, i.loc = some loc ∧ Inv s' ((s.codeLen, loc) :: done) := by
  obtain ⟨hcur, hsorted, hbelow, hfound⟩ := hinv
  cases hl : i.loc with
  | none =>
    simp [emitInstr, emitValues, hn, hl, emitLocation, hcur] at h
  | some loc =>
    simp only [emitInstr, emitValues, hn, if_true, hl, setLocation, emitLocation] at h
    cases hlast : s.table.getLast? with
    | none =>
      simp only [hlast, Option.map_some, Option.some.injEq] at h
      subst h
      refine ⟨rfl, loc, rfl, rfl, sorted_append _ hsorted _ hbelow, ?_, ?_⟩
      · intro x hx
        rcases List.mem_append.mp hx with hx | hx
        · have := hbelow x hx; simp only; omega
        · simp only [List.mem_singleton] at hx; subst hx; simp only; omega
      · intro p hp
        rcases List.mem_cons.mp hp with rfl | hp
        · exact ⟨by simp only; omega, isFloor_new s.table ⟨s.codeLen, loc⟩ hbelow⟩
        · have := hfound p hp
          exact ⟨by simp only; omega, isFloor_append _ _ _ _ this.2 this.1⟩
    | some last =>
      obtain ⟨hlm, hlmax⟩ := getLast_max s.table hsorted last hlast
      simp only [hlast] at h
      by_cases heq : last.loc = loc
      · simp only [heq, if_true, Option.map_some, Option.some.injEq] at h
        subst h
        refine ⟨rfl, loc, rfl, rfl, hsorted, ?_, ?_⟩
        · intro x hx
          have := hbelow x hx; simp only; omega
        · intro p hp
          rcases List.mem_cons.mp hp with rfl | hp
          · refine ⟨by simp only; omega, last, hlm, heq, Nat.le_of_lt (hbelow last hlm), fun e' he' _ => hlmax e' he'⟩
          · have := hfound p hp
            exact ⟨by simp only; omega, this.2⟩
      · simp only [heq, if_false, Option.map_some, Option.some.injEq] at h
        subst h
        refine ⟨rfl, loc, rfl, rfl, sorted_append _ hsorted _ hbelow, ?_, ?_⟩
        · intro x hx
          rcases List.mem_append.mp hx with hx | hx
          · have := hbelow x hx; simp only; omega
          · simp only [List.mem_singleton] at hx; subst hx; simp only; omega
        · intro p hp
          rcases List.mem_cons.mp hp with rfl | hp
          · exact ⟨by simp only; omega, isFloor_new s.table ⟨s.codeLen, loc⟩ hbelow⟩
          · have := hfound p hp
            exact ⟨by simp only; omega, isFloor_append _ _ _ _ this.2 this.1⟩

theorem offsetOf_zero (is : List Instr) : offsetOf is 0 = 0 := by simp [offsetOf]

theorem offsetOf_succ (i : Instr) (r : List Instr) (k : Nat) : offsetOf (i :: r) (k + 1) = i.size + offsetOf r k := by
  simp [offsetOf]

/-- the whole sequence: the invariant holds at the end and every location-carrying instruction is in `done` -/
theorem emitAll_found : ∀ (is : List Instr), (∀ i ∈ is, 0 < i.size) → ∀ (s s' : WState) (done : List (Nat × Loc)),
    Inv s done → emitAll s is = some s' →
    ∃ done', Inv s' done' ∧ (∀ p ∈ done, p ∈ done') ∧
      ∀ (k : Nat) (hk : k < is.length), is[k].needs = true →
        ∃ loc, is[k].loc = some loc ∧ (s.codeLen + offsetOf is k, loc) ∈ done'
  | [], _, s, s', done, hinv, h => by
    simp only [emitAll, Option.some.injEq] at h
    subst h
    exact ⟨done, hinv, fun p hp => hp, fun k hk => absurd hk (by simp)⟩
  | i :: r, hsz, s, s', done, hinv, h => by
    simp only [emitAll] at h
    cases h1 : emitInstr s i with
    | none => simp [h1] at h
    | some s1 =>
      simp only [h1] at h
      have hszr : ∀ x ∈ r, 0 < x.size := fun x hx => hsz x (List.mem_cons_of_mem _ hx)
      cases hn : i.needs with
      | false =>
        obtain ⟨hlen, hinv1⟩ := inv_step_plain s s1 done i hinv hn h1
        obtain ⟨done', hinv', hsub, hall⟩ := emitAll_found r hszr s1 s' done hinv1 h
        refine ⟨done', hinv', hsub, ?_⟩
        intro k hk hnk
        cases k with
        | zero => simp only [List.getElem_cons_zero, hn] at hnk; cases hnk
        | succ k =>
          simp only [List.getElem_cons_succ] at hnk ⊢
          obtain ⟨loc, hl, hm⟩ := hall k (by simpa using hk) hnk
          refine ⟨loc, hl, ?_⟩
          rw [offsetOf_succ, ← Nat.add_assoc, ← hlen]
          exact hm
      | true =>
        obtain ⟨hlen, loc0, hl0, hinv1⟩ := inv_step_loc s s1 done i (hsz i (List.mem_cons_self)) hinv hn h1
        obtain ⟨done', hinv', hsub, hall⟩ := emitAll_found r hszr s1 s' _ hinv1 h
        refine ⟨done', hinv', fun p hp => hsub p (List.mem_cons_of_mem _ hp), ?_⟩
        intro k hk hnk
        cases k with
        | zero =>
          simp only [List.getElem_cons_zero]
          refine ⟨loc0, hl0, ?_⟩
          rw [offsetOf_zero, Nat.add_zero]
          exact hsub _ (List.mem_cons_self)
        | succ k =>
          simp only [List.getElem_cons_succ] at hnk ⊢
          obtain ⟨loc, hl, hm⟩ := hall k (by simpa using hk) hnk
          refine ⟨loc, hl, ?_⟩
          rw [offsetOf_succ, ← Nat.add_assoc, ← hlen]
          exact hm

/-- `Sorted` back to the executable check (for examples and the final statement) -/
theorem sorted_sortedB : ∀ (l : List BEntry), Sorted l → sortedB l = true
  | [], _ => rfl
  | [_], _ => rfl
  | a :: b :: r, hs => by
    have h01 := hs 0 1 (by simp) (by simp) (by omega)
    have htail : Sorted (b :: r) := by
      intro i j hi hj hij
      have := hs (i + 1) (j + 1) (by simpa using hi) (by simpa using hj) (by omega)
      simpa using this
    have ih := sorted_sortedB (b :: r) htail
    simp only [sortedB, List.map_cons, strictInc, Bool.and_eq_true, decide_eq_true_eq] at ih ⊢
    exact ⟨by simpa using h01, ih⟩

end Dora.Trace.Bc
