import DoraModel.Trace.Model
/-!
Helper lemmas for C14 (location lookup, inline expansion). Core Lean only.
-/
namespace Dora.Trace

/-! ### strictly increasing offsets -/

theorem strictInc_head_lt : ∀ (a : Nat) (l : List Nat), strictInc (a :: l) = true → ∀ x ∈ l, a < x
  | _, [], _, x, hx => by cases hx
  | a, b :: r, h, x, hx => by
    simp only [strictInc, Bool.and_eq_true, decide_eq_true_eq] at h
    rcases List.mem_cons.mp hx with rfl | hx'
    · exact h.1
    · exact Nat.lt_trans h.1 (strictInc_head_lt b r h.2 x hx')

theorem strictInc_tail : ∀ (a : Nat) (l : List Nat), strictInc (a :: l) = true → strictInc l = true
  | _, [], _ => rfl
  | _, _ :: _, h => by
    simp only [strictInc, Bool.and_eq_true] at h
    exact h.2

theorem strictInc_pairwise : ∀ (l : List Nat), strictInc l = true → l.Pairwise (· < ·)
  | [], _ => List.Pairwise.nil
  | a :: l, h => List.Pairwise.cons (strictInc_head_lt a l h) (strictInc_pairwise l (strictInc_tail a l h))

/-- index form of sortedness -/
def Sorted (l : List Entry) : Prop :=
  ∀ (i j : Nat) (hi : i < l.length) (hj : j < l.length), i < j → l[i].off < l[j].off

theorem sortedB_sorted (l : List Entry) (h : sortedB l = true) : Sorted l := by
  have hp := strictInc_pairwise _ h
  rw [List.pairwise_iff_getElem] at hp
  intro i j hi hj hij
  have := hp i j (by simpa using hi) (by simpa using hj) hij
  simpa using this

/-! ### binary search -/

theorem bsearch_sound (l : List Entry) (off : Nat) :
    ∀ (n lo hi : Nat), hi - lo = n → ∀ e, bsearch l off lo hi = some e → e ∈ l ∧ e.off = off := by
  intro n
  induction n using Nat.strongRecOn with
  | _ n ih =>
    intro lo hi hn e h
    rw [bsearch] at h
    split at h
    · rename_i hlt
      simp only at h
      split at h
      · cases h
      · rename_i e' he'
        split at h
        · rename_i heq
          cases h
          exact ⟨List.mem_of_getElem? he', heq⟩
        · split at h
          · exact ih (hi - (lo + (hi - lo) / 2 + 1)) (by omega) _ _ rfl e h
          · exact ih (lo + (hi - lo) / 2 - lo) (by omega) _ _ rfl e h
    · cases h

theorem bsearch_complete (l : List Entry) (hs : Sorted l) (off : Nat) :
    ∀ (n lo hi : Nat), hi - lo = n → hi ≤ l.length →
      ∀ (j : Nat) (hj : j < l.length), lo ≤ j → j < hi → l[j].off = off → bsearch l off lo hi = some l[j] := by
  intro n
  induction n using Nat.strongRecOn with
  | _ n ih =>
    intro lo hi hn hhi j hj hlo hjhi hoff
    rw [bsearch]
    have hlt : lo < hi := by omega
    simp only [hlt, dite_true]
    have hmid : lo + (hi - lo) / 2 < l.length := by omega
    rw [List.getElem?_eq_getElem hmid]
    simp only
    by_cases heq : l[lo + (hi - lo) / 2].off = off
    · simp only [heq, if_true]
      -- strictness: the only index with this offset is j
      have : lo + (hi - lo) / 2 = j := by
        rcases Nat.lt_trichotomy (lo + (hi - lo) / 2) j with h | h | h
        · have := hs _ _ hmid hj h; omega
        · exact h
        · have := hs _ _ hj hmid h; omega
      subst this
      rfl
    · simp only [heq, if_false]
      by_cases hl : l[lo + (hi - lo) / 2].off < off
      · simp only [hl, if_true]
        have hjm : lo + (hi - lo) / 2 < j := by
          rcases Nat.lt_trichotomy (lo + (hi - lo) / 2) j with h | h | h
          · exact h
          · subst h; omega
          · have := hs _ _ hj hmid h; omega
        exact ih (hi - (lo + (hi - lo) / 2 + 1)) (by omega) _ _ rfl hhi j hj (by omega) hjhi hoff
      · simp only [hl, if_false]
        have hjm : j < lo + (hi - lo) / 2 := by
          rcases Nat.lt_trichotomy (lo + (hi - lo) / 2) j with h | h | h
          · have := hs _ _ hmid hj h; omega
          · subst h; omega
          · exact h
        exact ih (lo + (hi - lo) / 2 - lo) (by omega) _ _ rfl (by omega) j hj hlo hjm hoff

theorem sorted_unique (l : List Entry) (hs : Sorted l) (e₁ e₂ : Entry) (h₁ : e₁ ∈ l) (h₂ : e₂ ∈ l)
    (ho : e₁.off = e₂.off) : e₁ = e₂ := by
  obtain ⟨i, hi, rfl⟩ := List.mem_iff_getElem.mp h₁
  obtain ⟨j, hj, rfl⟩ := List.mem_iff_getElem.mp h₂
  rcases Nat.lt_trichotomy i j with h | h | h
  · have := hs i j hi hj h; omega
  · subst h; rfl
  · have := hs j i hj hi h; omega

theorem get_eq_some_iff (l : List Entry) (hs : Sorted l) (off : Nat) (loc : ILoc) :
    get l off = some loc ↔ (⟨off, loc⟩ : Entry) ∈ l := by
  constructor
  · intro h
    simp only [get, Option.map_eq_some_iff] at h
    obtain ⟨e, he, rfl⟩ := h
    obtain ⟨hm, ho⟩ := bsearch_sound l off _ 0 l.length rfl e he
    cases e
    simp only at ho
    subst ho
    exact hm
  · intro h
    obtain ⟨j, hj, hjeq⟩ := List.mem_iff_getElem.mp h
    have hoff : l[j].off = off := by rw [hjeq]
    have := bsearch_complete l hs off _ 0 l.length rfl (Nat.le_refl _) j hj (Nat.zero_le _) hj hoff
    simp only [get, this, Option.map_some, hjeq]

theorem get_eq_none_iff (l : List Entry) (hs : Sorted l) (off : Nat) :
    get l off = none ↔ ∀ e ∈ l, e.off ≠ off := by
  constructor
  · intro h e he heq
    cases e with
    | mk o loc =>
      simp only at heq
      subst heq
      have := (get_eq_some_iff l hs o loc).mpr he
      rw [h] at this
      cases this
  · intro h
    cases hg : get l off with
    | none => rfl
    | some loc =>
      have := (get_eq_some_iff l hs off loc).mp hg
      exact absurd rfl (h _ this)

/-! ### inline expansion -/

theorem wfInlined_parent_lt (inls : List Inl) (h : wfInlined inls = true) (c p : Nat)
    (hp : parentOf inls c = some p) : p < c := by
  simp only [wfInlined, List.all_eq_true, List.mem_range] at h
  have hc : c < inls.length := by
    simp only [parentOf] at hp
    split at hp
    · rename_i e he
      exact (List.getElem?_eq_some_iff.mp he).1
    · cases hp
  have := h c hc
  rw [hp] at this
  simpa using this

theorem expand_fuel_mono (inls : List Inl) (top : Nat) :
    ∀ (fuel : Nat) (loc : ILoc) (fs : List Frame), expand inls top fuel loc = .ok fs →
      ∀ k, expand inls top (fuel + k) loc = .ok fs := by
  intro fuel
  induction fuel with
  | zero =>
    intro loc fs h k
    rcases loc with ⟨_ | id, line, col⟩
    · cases k <;> simpa [expand] using h
    · simp [expand] at h
  | succ n ih =>
    intro loc fs h k
    rcases loc with ⟨_ | id, line, col⟩
    · have : n + 1 + k = (n + k) + 1 := by omega
      rw [this]
      simpa [expand] using h
    · have : n + 1 + k = (n + k) + 1 := by omega
      rw [this]
      simp only [expand] at h ⊢
      split at h
      · cases h
      · rename_i f hf
        split at h
        · rename_i gs hgs
          rw [ih _ _ hgs k]
          exact h
        · rename_i r hr
          -- the recursive call did not produce frames: the whole result is `r`, not `.ok`
          cases hrec : expand inls top n f.site with
          | ok gs => exact absurd hrec (by intro hh; exact hr gs hh)
          | panic => rw [hrec] at h; cases h
          | outOfFuel => rw [hrec] at h; cases h

theorem expand_chain (inls : List Inl) (top : Nat) :
    ∀ (fuel : Nat) (loc : ILoc) (fs : List Frame), expand inls top fuel loc = .ok fs → Chain inls top loc fs := by
  intro fuel
  induction fuel with
  | zero =>
    intro loc fs h
    rcases loc with ⟨_ | id, line, col⟩
    · simp only [expand, Res.ok.injEq] at h
      subst h
      exact Chain.root line col
    · simp [expand] at h
  | succ n ih =>
    intro loc fs h
    rcases loc with ⟨_ | id, line, col⟩
    · simp only [expand, Res.ok.injEq] at h
      subst h
      exact Chain.root line col
    · simp only [expand] at h
      split at h
      · cases h
      · rename_i f hf
        split at h
        · rename_i gs hgs
          simp only [Res.ok.injEq] at h
          subst h
          exact Chain.step id line col f gs hf (ih _ _ hgs)
        · rename_i r hr
          cases hrec : expand inls top n f.site with
          | ok gs => exact absurd hrec (by intro hh; exact hr gs hh)
          | panic => rw [hrec] at h; cases h
          | outOfFuel => rw [hrec] at h; cases h

theorem chain_unique (inls : List Inl) (top : Nat) :
    ∀ (loc : ILoc) (fs gs : List Frame), Chain inls top loc fs → Chain inls top loc gs → fs = gs := by
  intro loc fs gs h
  induction h generalizing gs with
  | root line col =>
    intro hg
    cases hg
    rfl
  | step id line col f fs' hf _ ih =>
    intro hg
    cases hg with
    | step _ _ _ f2 gs' hf2 hc2 =>
      rw [hf] at hf2
      cases hf2
      rw [ih gs' hc2]

/-- the key induction: with parents smaller than children, the loop started in inlined function `id` stops
after at most `id + 1` iterations -/
theorem expand_terminates_aux (inls : List Inl) (top : Nat) (hwf : wfInlined inls = true)
    (hrange : ∀ e ∈ inls, ∀ p, e.site.inl = some p → p < inls.length) :
    ∀ (id : Nat), id < inls.length → ∀ line col, ∃ fs, expand inls top (id + 1) ⟨some id, line, col⟩ = .ok fs := by
  intro id
  induction id using Nat.strongRecOn with
  | _ id ih =>
    intro hid line col
    simp only [expand, List.getElem?_eq_getElem hid]
    cases hs : inls[id].site with
    | mk pinl pl pc =>
      cases pinl with
      | none =>
        cases id <;> simp [expand]
      | some p =>
        have hp : parentOf inls id = some p := by
          simp [parentOf, List.getElem?_eq_getElem hid, hs]
        have hlt := wfInlined_parent_lt inls hwf id p hp
        have hpr : p < inls.length := hrange _ (List.getElem_mem hid) p (by rw [hs])
        obtain ⟨gs, hgs⟩ := ih p hlt hpr pl pc
        have := expand_fuel_mono inls top (p + 1) ⟨some p, pl, pc⟩ gs hgs (id - (p + 1))
        have he : p + 1 + (id - (p + 1)) = id := by omega
        rw [he] at this
        rw [this]
        exact ⟨_, rfl⟩

theorem pathIds_fuel_mono (inls : List Inl) (hwf : wfInlined inls = true) :
    ∀ (id fuel : Nat), id < fuel → pathIds inls fuel (some id) = pathIds inls (id + 1) (some id) := by
  intro id
  induction id using Nat.strongRecOn with
  | _ id ih =>
    intro fuel hf
    obtain ⟨k, rfl⟩ : ∃ k, fuel = k + 1 := ⟨fuel - 1, by omega⟩
    simp only [pathIds]
    congr 1
    cases hp : parentOf inls id with
    | none => cases k <;> cases id <;> simp [pathIds]
    | some p =>
      have hlt := wfInlined_parent_lt inls hwf id p hp
      rw [ih p hlt k (by omega), ih p hlt id hlt]

/-- frames of a chain, read against the path of ids: functions and positions -/
theorem chain_path (inls : List Inl) (top : Nat) (hwf : wfInlined inls = true) :
    ∀ (loc : ILoc) (fs : List Frame), Chain inls top loc fs →
      fs.map (·.fn) = ((pathIds inls inls.length loc.inl).map fun i => (inls[i]?.map (·.fn)).getD 0) ++ [top] ∧
      fs.map (fun f => (f.line, f.col)) =
        (loc.line, loc.col) :: ((pathIds inls inls.length loc.inl).map fun i =>
          (inls[i]?.map fun e => (e.site.line, e.site.col)).getD (0, 0)) := by
  intro loc fs h
  induction h with
  | root line col => cases hl : inls.length <;> simp [pathIds]
  | step id line col f fs' hf _ ih =>
    have hid : id < inls.length := (List.getElem?_eq_some_iff.mp hf).1
    obtain ⟨k, hk⟩ : ∃ k, inls.length = k + 1 := ⟨inls.length - 1, by omega⟩
    have hpar : parentOf inls id = f.site.inl := by simp [parentOf, hf]
    have hstep : pathIds inls inls.length (some id) = id :: pathIds inls inls.length f.site.inl := by
      rw [hk]
      simp only [pathIds, hpar]
      congr 1
      cases hp : f.site.inl with
      | none => cases k <;> simp [pathIds]
      | some p =>
        have hlt := wfInlined_parent_lt inls hwf id p (by rw [hpar, hp])
        rw [pathIds_fuel_mono inls hwf p k (by omega), pathIds_fuel_mono inls hwf p (k + 1) (by omega)]
    constructor
    · simp only [List.map_cons, hstep, hf, Option.map_some, Option.getD_some, List.cons_append]
      rw [ih.1]
    · simp only [List.map_cons, hstep, hf, Option.map_some, Option.getD_some]
      rw [ih.2]

theorem pathIds_decreasing (inls : List Inl) (hwf : wfInlined inls = true) :
    ∀ (fuel : Nat) (o : Option Nat), (pathIds inls fuel o).Pairwise (· > ·) ∧
      ∀ x ∈ pathIds inls fuel o, ∀ s, o = some s → x ≤ s := by
  intro fuel
  induction fuel with
  | zero =>
    intro o
    cases o <;> simp [pathIds]
  | succ n ih =>
    intro o
    cases o with
    | none => simp [pathIds]
    | some id =>
      simp only [pathIds]
      obtain ⟨hp, hb⟩ := ih (parentOf inls id)
      constructor
      · refine List.Pairwise.cons ?_ hp
        intro x hx
        cases hpar : parentOf inls id with
        | none => rw [hpar] at hx; cases n <;> simp [pathIds] at hx
        | some p =>
          have := hb x hx p hpar
          have hlt := wfInlined_parent_lt inls hwf id p hpar
          omega
      · intro x hx s hs
        cases hs
        rcases List.mem_cons.mp hx with rfl | hx'
        · exact Nat.le_refl _
        · cases hpar : parentOf inls id with
          | none => rw [hpar] at hx'; cases n <;> simp [pathIds] at hx'
          | some p =>
            have := hb x hx' p hpar
            have hlt := wfInlined_parent_lt inls hwf id p hpar
            omega

theorem chain_ne_nil (inls : List Inl) (top : Nat) :
    ∀ (loc : ILoc) (fs : List Frame), Chain inls top loc fs → fs ≠ [] := by
  intro loc fs h
  cases h <;> simp

theorem chain_last (inls : List Inl) (top : Nat) :
    ∀ (loc : ILoc) (fs : List Frame), Chain inls top loc fs → fs.getLast?.map (·.fn) = some top := by
  intro loc fs h
  induction h with
  | root line col => rfl
  | step id line col g gs hg hcg ih =>
    cases gs with
    | nil => exact absurd rfl (chain_ne_nil _ _ _ _ hcg)
    | cons x xs => simpa [List.getLast?_cons_cons] using ih

theorem chain_head (inls : List Inl) (top : Nat) :
    ∀ (loc : ILoc) (fs : List Frame), Chain inls top loc fs →
      fs.head?.map (fun x => (x.line, x.col)) = some (loc.line, loc.col) := by
  intro loc fs h
  cases h <;> rfl

end Dora.Trace
