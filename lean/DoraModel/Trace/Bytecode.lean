import DoraModel.Trace.Model
/-
C14 — the BYTECODE-level position lookup and its producer.

Transcribed (by hand, function by function) from
  * `BytecodeBody::offset_location`     dora-bytecode/src/data.rs     (bytecode offset -> source location; the lookup the
                                                                      baseline code generator performs for every trapping /
                                                                      calling instruction it translates)
  * `BytecodeWriter::set_location`, `emit_location`, `emit_values`   dora-bytecode/src/writer.rs   (which instructions get
                                                                      an entry: one that has the location of the last entry
                                                                      gets none)
Tied on every run by `h_c14` (real dora-bytecode) vs `drv_c14` (this file) on generated tables / instruction sequences.
Imports nothing outside core Lean (the driver links natively).
-/
namespace Dora.Trace.Bc

/-- `Location` (dora-bytecode/src/data.rs): line and column -/
structure Loc where
  line : Nat
  col : Nat
  deriving DecidableEq, Repr, Inhabited

/-- one element of `BytecodeBody::locations`: `(BytecodeOffset, Location)` -/
structure BEntry where
  off : Nat
  loc : Loc
  deriving DecidableEq, Repr, Inhabited

/-- result of `slice::binary_search_by_key`: `Ok(index)` / `Err(insertion index)` -/
inductive Search where
  | ok (i : Nat)
  | err (i : Nat)
  deriving DecidableEq, Repr, Inhabited

/-- `locations.binary_search_by_key(&BytecodeOffset(offset), |&(o, _)| o)` on the index range `[lo, hi)`: the halving
search. `none` = an index outside the slice would be read (cannot happen for `hi ≤ length`: `bsearch_total`).
Rust's contract on a slice sorted by the key: `Ok(i)` for some `i` whose key matches if there is one, else `Err(i)` with
`i` the insertion point; on strictly increasing offsets both are unique (`bsearch_spec`), so every implementation of the
contract returns the same answer as this one. -/
def bsearch (l : List BEntry) (off : Nat) (lo hi : Nat) : Option Search :=
  if _h : lo < hi then
    let mid := lo + (hi - lo) / 2
    match l[mid]? with
    | none => none
    | some e =>
      if e.off = off then some (.ok mid)
      else if e.off < off then bsearch l off (mid + 1) hi
      else bsearch l off lo mid
  else some (.err lo)
termination_by hi - lo
decreasing_by all_goals omega

/-- `match index { Err(0) => 0, Err(index) => index - 1, Ok(index) => index }` -/
def pickIndex : Search → Nat
  | .err 0 => 0
  | .err (i + 1) => i
  | .ok i => i

/-- `BytecodeBody::offset_location(offset)`:
`self.locations.get(index).map(|(_, loc)| *loc).unwrap_or(Location::new(1, 1))`.
`none` = panic (there is no panicking path in the code; `offset_location_total`). -/
def offsetLocation (l : List BEntry) (off : Nat) : Option Loc :=
  match bsearch l off 0 l.length with
  | none => none
  | some r =>
    match l[pickIndex r]? with
    | some e => some e.loc
    | none => some ⟨1, 1⟩

/-- offsets strictly increasing (every entry is pushed at `code.len()` and at least the opcode byte follows) -/
def sortedB (l : List BEntry) : Bool := strictInc (l.map (·.off))

/-! ### the producer: `BytecodeWriter` -/

/-- the three fields of `BytecodeWriter` the position table depends on -/
structure WState where
  codeLen : Nat                 -- `self.code.len()`
  table : List BEntry           -- `self.line_number_table`
  cur : Option Loc              -- `self.current_location`
  deriving DecidableEq, Repr, Inhabited

def WState.init : WState := ⟨0, [], none⟩

/-- `set_location` -/
def setLocation (s : WState) (loc : Loc) : WState := { s with cur := some loc }

/-- `emit_location`; `none` = `assert!(self.current_location.is_some())` fails -/
def emitLocation (s : WState) : Option WState :=
  match s.cur with
  | none => none
  | some loc =>
    match s.table.getLast? with
    | some last =>
      if last.loc = loc then some { s with cur := none }
      else some { s with table := s.table ++ [⟨s.codeLen, loc⟩], cur := none }
    | none => some { s with table := s.table ++ [⟨s.codeLen, loc⟩], cur := none }

/-- `emit_values(op, values)`: `needs` = `op.needs_location()`, `size` = number of bytes the opcode and its operands
take (`emit_opcode` + `emit_u32_variable` each) -/
def emitValues (s : WState) (needs : Bool) (size : Nat) : Option WState :=
  if needs then (emitLocation s).map fun s' => { s' with codeLen := s'.codeLen + size }
  else some { s with cur := none, codeLen := s.codeLen + size }

/-- one emitted instruction as the bytecode generator drives the writer (`BytecodeBuilder`,
dora-frontend/src/generator/bytecode.rs: every emitter that takes a `location` calls `set_location` immediately before
the writer's `emit_*`, nothing else calls it): an optional `set_location(loc)` right before the `emit_*` call, whether the
opcode needs a location, and its encoded size.
Forward jumps (`emit_jmp_forward`) do not go through `emit_values`: they neither use nor clear `current_location`. The
builder never sets a location before a jump and every `emit_values` leaves `current_location = None`, so a forward jump
is the instruction `⟨none, false, size⟩` here (h_c14 emits real forward jumps inside its sequences). -/
structure Instr where
  loc : Option Loc
  needs : Bool
  size : Nat
  deriving DecidableEq, Repr, Inhabited

def emitInstr (s : WState) (i : Instr) : Option WState :=
  emitValues (match i.loc with | some l => setLocation s l | none => s) i.needs i.size

/-- the whole sequence; `none` = the writer's assertion failed somewhere -/
def emitAll : WState → List Instr → Option WState
  | s, [] => some s
  | s, i :: r =>
    match emitInstr s i with
    | none => none
    | some s' => emitAll s' r

/-- bytecode offset of instruction `k` of a sequence emitted from an empty writer -/
def offsetOf (is : List Instr) (k : Nat) : Nat := ((is.take k).map (·.size)).sum

end Dora.Trace.Bc
