/-
C14 — trap reports: model of what the runtime does with a return offset when it prints a stack trace.

Transcribed (by hand, function by function) from
  * `LocationTable::get`            dora-compiler/src/lib.rs      (binary search by code offset)
  * `dump_stack_elem`               dora-runtime/src/stack.rs     (expansion of inlined frames, innermost first)
  * `determine_stack_entry`, `frames_from_pc`   dora-runtime/src/stack.rs   (which code kinds yield a frame)
  * `decode_inlined_location`, `initialize_code_map`   dora-runtime/src/startup.rs   (table layout)
and the executable validator `wfTrace` that is run on the tables of every emitted artifact
(`tools/c14_extract.py` -> `drv_c14`). `Props/C14.lean` states what lookup, expansion and an accepted artifact
guarantee. Imports nothing outside core Lean (the driver links natively).
-/
namespace Dora.Trace

/-- `InlinedLocation` (dora-compiler/src/lib.rs): a source position and, when the position lies in an inlined
function, the id of that inlined function (`None` = the physical function itself; `u32::MAX` in the tables). -/
structure ILoc where
  inl : Option Nat
  line : Nat
  col : Nat
  deriving DecidableEq, Repr, Inhabited

/-- one entry of a `LocationTable`: `(code offset, InlinedLocation)` -/
structure Entry where
  off : Nat
  loc : ILoc
  deriving DecidableEq, Repr, Inhabited

/-- `InlinedFunctionAot`: the function that was inlined (index into `.dora.function_info`) and
`inlined_location`, the call site it was inlined at (whose `inl` is the PARENT inlined function). -/
structure Inl where
  fn : Nat
  site : ILoc
  deriving DecidableEq, Repr, Inhabited

/-- one printed line of a stack trace: function (index into `.dora.function_info`), line, column -/
structure Frame where
  fn : Nat
  line : Nat
  col : Nat
  deriving DecidableEq, Repr, Inhabited

/-! ### `LocationTable::get` -/

/-- `entries.binary_search_by_key(&offset, |&(offset, _)| offset)` on the index range `[lo, hi)`:
the classic halving search; `none` = `Err(_)`. (Rust's contract: on a slice sorted by the key the result is
`Ok(i)` for SOME `i` whose key matches, if there is one. `lookup_exact` shows that on a strictly increasing
table that index is unique, so every implementation of the contract returns the same entry.) -/
def bsearch (l : List Entry) (off : Nat) (lo hi : Nat) : Option Entry :=
  if _h : lo < hi then
    let mid := lo + (hi - lo) / 2
    match l[mid]? with
    | none => none
    | some e =>
      if e.off = off then some e
      else if e.off < off then bsearch l off (mid + 1) hi
      else bsearch l off lo mid
  else none
termination_by hi - lo
decreasing_by all_goals omega

/-- `LocationTable::get(offset)` -/
def get (l : List Entry) (off : Nat) : Option ILoc :=
  (bsearch l off 0 l.length).map (·.loc)

/-- offsets strictly increasing (`LocationTable::insert` asserts `offset > last.0`) -/
def strictInc : List Nat → Bool
  | [] => true
  | [_] => true
  | a :: b :: r => decide (a < b) && strictInc (b :: r)

def sortedB (l : List Entry) : Bool := strictInc (l.map (·.off))

/-! ### `dump_stack_elem` -/

/-- how printing one stack element ends -/
inductive Res where
  | ok (frames : List Frame)
  | panic                      -- `self.inlined_functions[id]` out of bounds
  | outOfFuel                  -- the `while` loop did not stop within the given number of iterations
  deriving DecidableEq, Repr, Inhabited

/-- the loop `while inlined_location.is_inlined() { print inlined_function(id) at location;
inlined_location = inlined_function.inlined_location }` followed by the line for the physical function `top`.
`fuel` bounds the number of iterations (the real loop has no bound: `inline_chain_terminates`). -/
def expand (inls : List Inl) (top : Nat) : Nat → ILoc → Res
  | _, ⟨none, line, col⟩ => .ok [⟨top, line, col⟩]
  | 0, ⟨some _, _, _⟩ => .outOfFuel
  | fuel + 1, ⟨some id, line, col⟩ =>
    match inls[id]? with
    | none => .panic
    | some f =>
      match expand inls top fuel f.site with
      | .ok fs => .ok (⟨f.fn, line, col⟩ :: fs)
      | r => r

/-- parent of inlined function `c` -/
def parentOf (inls : List Inl) (c : Nat) : Option Nat :=
  match inls[c]? with
  | some e => e.site.inl
  | none => none

/-- the forest check: every inlined function's parent has a smaller id (ids are handed out in creation order,
pkgs/boots/compilation.dora `add_inlined_function`, and a callee can only be inlined into something that exists) -/
def wfInlined (inls : List Inl) : Bool :=
  (List.range inls.length).all fun i =>
    match parentOf inls i with
    | none => true
    | some p => decide (p < i)

/-- the specification of the printed chain: the path from the inlined function the location lies in up to the
physical function `top` -/
inductive Chain (inls : List Inl) (top : Nat) : ILoc → List Frame → Prop where
  | root (line col : Nat) : Chain inls top ⟨none, line, col⟩ [⟨top, line, col⟩]
  | step (id line col : Nat) (f : Inl) (fs : List Frame) :
      inls[id]? = some f → Chain inls top f.site fs → Chain inls top ⟨some id, line, col⟩ (⟨f.fn, line, col⟩ :: fs)

/-- ids of the inlined functions on the path from `start` to the root, innermost first (executable; fuel = table size) -/
def pathIds (inls : List Inl) : Nat → Option Nat → List Nat
  | _, none => []
  | 0, some _ => []
  | fuel + 1, some id => id :: pathIds inls fuel (parentOf inls id)

/-! ### artifacts -/

/-- `AOT_CODE_KIND_*` / `CodeKind` -/
inductive Kind where
  | optimized | runtimeEntry | doraEntry | allocFailure | trap | safepoint | unreachable | fatalError | stackOverflow
  deriving DecidableEq, Repr, Inhabited

/-- class of a call target (from its relocation symbol) -/
inductive CallClass where
  | trap | stackOverflow | fatalError | unreachable | managed | indirect | runtimeEntry | other
  deriving DecidableEq, Repr, Inhabited

/-- the handler behind such a call prints the trace starting with THIS call's return offset -/
def CallClass.reports : CallClass → Bool
  | .trap | .stackOverflow => true
  | _ => false

structure Call where
  ret : Nat
  cls : CallClass
  deriving Repr, Inhabited

structure Fn where
  kind : Kind
  size : Nat              -- code size in bytes
  info : Nat              -- index into `.dora.function_info`
  infoLine : Nat          -- `function_info.loc`: printed when the offset has no location entry
  infoCol : Nat
  locs : List Entry
  inls : List Inl
  calls : List Call
  bad : Bool              -- the extractor could not read this function's tables
  deriving Repr, Inhabited

structure Artifact where
  fns : List Fn
  bad : Bool
  deriving Repr, Inhabited

/-- `dump_stack_elem(w, code, offset)` -/
def dumpStackElem (f : Fn) (off : Nat) (fuel : Nat) : Res :=
  match get f.locs off with
  | some loc => expand f.inls f.info fuel loc
  | none => .ok [⟨f.info, f.infoLine, f.infoCol⟩]

/-- what `determine_stack_entry` does with a program counter inside `f` at byte offset `off` -/
inductive EntryStep where
  | push (off : Nat)      -- `stacktrace.push_entry(code_id, offset)`, go on
  | skip                  -- trampoline: no entry, go on
  | stop                  -- Dora entry trampoline: end of this stack segment
  | unreachable           -- `CodeKind::SafepointTrampoline => unreachable!()`
  deriving DecidableEq, Repr

def determineStackEntry (f : Fn) (off : Nat) : EntryStep :=
  match f.kind with
  | .optimized => .push off
  | .runtimeEntry => .push 0
  | .trap | .stackOverflow | .allocFailure | .unreachable | .fatalError => .skip
  | .doraEntry => .stop
  | .safepoint => .unreachable

/-- `frames_from_pc` followed by `NativeStacktrace::dump`: the program counters found by following the saved
frame pointers (innermost first), each given as (function index, byte offset in it). -/
def walk (a : Artifact) (fuel : Nat) : List (Nat × Nat) → Res
  | [] => .ok []
  | (fi, off) :: rest =>
    match a.fns[fi]? with
    | none => .panic                        -- `panic!("invalid stack frame")`
    | some f =>
      match determineStackEntry f off with
      | .stop => .ok []
      | .unreachable => .panic
      | .skip => walk a fuel rest
      | .push o =>
        match dumpStackElem f o fuel, walk a fuel rest with
        | .ok fs, .ok gs => .ok (fs ++ gs)
        | .ok _, r => r
        | r, _ => r

/-! ### validator -/

def locOK (f : Fn) (e : Entry) : Bool :=
  decide (e.off ≤ f.size) &&
  match e.loc.inl with
  | none => true
  | some id => decide (id < f.inls.length)

def inlOK (f : Fn) (e : Inl) : Bool :=
  match e.site.inl with
  | none => true
  | some id => decide (id < f.inls.length)

/-- The return offset of a reporting call must lie STRICTLY inside the function (`c.ret < f.size`): the handler finds the
function by looking the return ADDRESS up in the code map, and an address equal to the end of a function that fills its
aligned slot exactly belongs to the next function. -/
def callOK (f : Fn) (c : Call) : Bool :=
  if c.cls.reports then decide (c.ret < f.size) && (get f.locs c.ret).isSome else true

def fnOK (f : Fn) : Bool :=
  !f.bad &&
  sortedB f.locs &&
  f.locs.all (locOK f) &&
  f.inls.all (inlOK f) &&
  wfInlined f.inls &&
  (if f.kind = .optimized then f.calls.all (callOK f) else true)

def wfTrace (a : Artifact) : Bool :=
  !a.bad && a.fns.all fnOK

/-- first violated rule, for the report -/
def explain (a : Artifact) : String :=
  if a.bad then "extractor: tables unreadable"
  else
    match a.fns.zipIdx.find? (fun p => !fnOK p.1) with
    | none => "ok"
    | some (f, i) =>
      let why :=
        if f.bad then "tables unreadable"
        else if !sortedB f.locs then "location table not strictly increasing"
        else if !f.locs.all (locOK f) then
          match f.locs.find? (fun e => !locOK f e) with
          | some e => s!"location entry at {e.off}: offset outside the function (size {f.size}) or inlined id {repr e.loc.inl} out of range ({f.inls.length})"
          | none => "location entry"
        else if !f.inls.all (inlOK f) then "inlined function with a parent id out of range"
        else if !wfInlined f.inls then "inlined functions do not form a forest (parent id not smaller)"
        else
          match f.calls.find? (fun c => !callOK f c) with
          | some c =>
            if c.ret < f.size then s!"call returning to offset {c.ret} ({repr c.cls}) has no location entry"
            else s!"call ({repr c.cls}) returns to offset {c.ret} = end of the function (size {f.size}): the code map attributes that address to the next function"
          | none => "call"
      s!"fn {i} {repr f.kind}: {why}"

end Dora.Trace
