import DoraModel.Intern.Model
namespace Dora.Intern

section Interner
variable {M K : Type} [DecidableEq K] [MapLike M K Nat]

/-- abstraction relation: the hash map holds exactly "position of first occurrence in `keys`" -/
def Rel (s : Interner M K) (keys : List K) : Prop :=
  s.keys = keys ∧ ∀ k, MapLike.get s.map k = if k ∈ keys then some (keys.idxOf k) else none

theorem rel_new : Rel (Interner.new : Interner M K) [] := by
  refine ⟨rfl, ?_⟩
  intro k; simp [Interner.new, MapLike.get_empty]

theorem rel_intern (s : Interner M K) (keys : List K) (k : K) (h : Rel s keys) :
    Rel (s.intern k).1 (refIntern keys k).1 ∧ (s.intern k).2 = (refIntern keys k).2 := by
  obtain ⟨hk, hm⟩ := h
  unfold Interner.intern refIntern
  have hmk := hm k
  by_cases hin : k ∈ keys
  · simp only [hin, if_true] at hmk ⊢
    rw [hmk]
    exact ⟨⟨hk, hm⟩, rfl⟩
  · simp only [hin, if_false] at hmk ⊢
    rw [hmk]
    refine ⟨⟨by simp [hk], ?_⟩, by simp [hk]⟩
    intro k'
    simp only [MapLike.get_insert, hk]
    by_cases e : k' = k
    · subst e
      simp [List.idxOf_append, hin]
    · have := hm k'
      simp only [e, if_false, this, List.mem_append, List.mem_singleton, or_false]
      by_cases hin' : k' ∈ keys
      · simp [hin', List.idxOf_append]
      · simp [hin']

theorem rel_internAll (s : Interner M K) (keys : List K) (ks : List K) (h : Rel s keys) :
    Rel (s.internAll ks).1 (refInternAll keys ks).1 ∧ (s.internAll ks).2 = (refInternAll keys ks).2 := by
  induction ks generalizing s keys with
  | nil => exact ⟨h, rfl⟩
  | cons k ks ih =>
    obtain ⟨h1, h2⟩ := rel_intern s keys k h
    obtain ⟨h3, h4⟩ := ih _ _ h1
    simp only [Interner.internAll, refInternAll]
    exact ⟨h3, by rw [h2, h4]⟩

end Interner

section Closure
variable {S N : Type} [DecidableEq N] [SetLike S N]

def CRel (c : Closure S N) (wl : List N) (idx : Nat) : Prop :=
  c.worklist = wl ∧ c.idx = idx ∧ ∀ n, SetLike.contains c.visited n = decide (n ∈ wl)

theorem crel_push (c : Closure S N) (wl : List N) (idx : Nat) (n : N) (h : CRel c wl idx) :
    CRel (c.push n) (refPush wl n) idx := by
  obtain ⟨h1, h2, h3⟩ := h
  unfold Closure.push refPush
  by_cases hin : n ∈ wl
  · simp only [h3 n, hin, decide_true, if_true]
    exact ⟨h1, h2, h3⟩
  · simp only [h3 n, hin, decide_false, if_false]
    refine ⟨by simp [h1], h2, ?_⟩
    intro m
    show SetLike.contains (SetLike.insert c.visited n) m = decide (m ∈ wl ++ [n])
    rw [SetLike.contains_insert, h3 m]
    by_cases e : m = n <;> simp [e, hin]

theorem crel_pushes (ns : List N) (c : Closure S N) (wl : List N) (idx : Nat) (h : CRel c wl idx) :
    CRel (ns.foldl Closure.push c) (ns.foldl refPush wl) idx := by
  induction ns generalizing c wl with
  | nil => exact h
  | cons n ns ih => exact ih _ _ (crel_push c wl idx n h)

theorem crel_run (succ : N → List N) (fuel : Nat) (c : Closure S N) (wl : List N) (idx : Nat)
    (h : CRel c wl idx) :
    CRel (Closure.run succ fuel c) (refRun succ fuel (wl, idx)).1 (refRun succ fuel (wl, idx)).2 := by
  induction fuel generalizing c wl idx with
  | zero => exact h
  | succ fuel ih =>
    obtain ⟨h1, h2, h3⟩ := h
    simp only [Closure.run, refRun, h1, h2]
    cases hg : wl[idx]? with
    | none => simp only; exact ⟨h1, h2, h3⟩
    | some n =>
      simp only
      apply ih
      apply crel_pushes
      exact ⟨rfl, rfl, h3⟩

theorem crel_start (roots : List N) :
    CRel (Closure.start roots : Closure S N) (roots.foldl refPush []) 0 := by
  unfold Closure.start
  apply crel_pushes
  exact ⟨rfl, rfl, by intro n; simp [SetLike.contains_empty]⟩

end Closure

/-- the work list never holds a node twice -/
theorem refPush_nodup {N : Type} [DecidableEq N] (wl : List N) (n : N) (h : wl.Nodup) : (refPush wl n).Nodup := by
  unfold refPush
  by_cases hin : n ∈ wl
  · simp [hin, h]
  · simp only [hin, if_false]
    rw [List.nodup_append]
    refine ⟨h, by simp, ?_⟩
    intro a ha b hb
    simp at hb; subst hb
    intro e; subst e; exact hin ha

theorem refPushes_nodup {N : Type} [DecidableEq N] (ns wl : List N) (h : wl.Nodup) : (ns.foldl refPush wl).Nodup := by
  induction ns generalizing wl with
  | nil => exact h
  | cons n ns ih => exact ih _ (refPush_nodup wl n h)

theorem refRun_nodup {N : Type} [DecidableEq N] (succ : N → List N) (fuel : Nat) (wl : List N) (idx : Nat)
    (h : wl.Nodup) : (refRun succ fuel (wl, idx)).1.Nodup := by
  induction fuel generalizing wl idx with
  | zero => exact h
  | succ fuel ih =>
    simp only [refRun]
    cases wl[idx]? with
    | none => exact h
    | some n => exact ih _ _ (refPushes_nodup _ _ h)

end Dora.Intern
