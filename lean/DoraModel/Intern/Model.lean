/-
C15 — the part a theorem can carry: numbering (interning, work-list discovery) is a function of the
request sequence only, for EVERY implementation of the hash containers involved.

Hash maps/sets are abstract: a type `M` with `get/insert` (resp. `contains/insert`) satisfying the usual
laws and NO iteration. `AotStringTable::intern`, `AotShapeInterner::intern` (dora-compiler/src/aot.rs) and
`TransitiveClosureComputation::{push,pop,compute}` (dora-compiler/src/closure.rs) are transcribed against
that interface. The tie to the code is (a) tools/hashiter_lint.py, which lists every place where the
pipeline iterates a hash container (must be empty / allow-listed), and (b) repeated builds.
-/
namespace Dora.Intern

/-- abstract finite map with `get`/`insert` only -/
class MapLike (M : Type) (K V : outParam Type) [DecidableEq K] where
  empty : M
  get : M → K → Option V
  insert : M → K → V → M
  get_empty : ∀ k, get empty k = none
  get_insert : ∀ m k v k', get (insert m k v) k' = if k' = k then some v else get m k'

/-- abstract finite set with `contains`/`insert` only -/
class SetLike (S : Type) (K : outParam Type) [DecidableEq K] where
  empty : S
  contains : S → K → Bool
  insert : S → K → S
  contains_empty : ∀ k, contains empty k = false
  contains_insert : ∀ s k k', contains (insert s k) k' = (decide (k' = k) || contains s k')

section Interner
variable {M K : Type} [DecidableEq K] [MapLike M K Nat]

/-- `AotStringTable` / `AotShapeInterner`: `entries`/`keys : Vec<K>` and `map/ids : HashMap<K, Id>` -/
structure Interner (M K : Type) where
  keys : List K
  map : M

def Interner.new : Interner M K := { keys := [], map := MapLike.empty }

/-- `intern`: return the id if present, else the current number of entries; push; insert. -/
def Interner.intern (s : Interner M K) (k : K) : Interner M K × Nat :=
  match MapLike.get s.map k with
  | some id => (s, id)
  | none =>
    let id := s.keys.length
    ({ keys := s.keys ++ [k], map := MapLike.insert s.map k id }, id)

/-- a whole request sequence: final table and the ids handed out -/
def Interner.internAll (s : Interner M K) : List K → Interner M K × List Nat
  | [] => (s, [])
  | k :: ks =>
    let (s1, id) := s.intern k
    let (s2, ids) := s1.internAll ks
    (s2, id :: ids)

end Interner

/-- reference: the same with a plain list search instead of a hash map (position of first occurrence) -/
def refIntern {K : Type} [DecidableEq K] (keys : List K) (k : K) : List K × Nat :=
  if k ∈ keys then (keys, keys.idxOf k) else (keys ++ [k], keys.length)

def refInternAll {K : Type} [DecidableEq K] (keys : List K) : List K → List K × List Nat
  | [] => (keys, [])
  | k :: ks =>
    let (k1, id) := refIntern keys k
    let (k2, ids) := refInternAll k1 ks
    (k2, id :: ids)

section Closure
variable {S N : Type} [DecidableEq N] [SetLike S N]

/-- `TransitiveClosureComputation`: `worklist : Vec`, `worklist_idx`, `visited : HashSet` -/
structure Closure (S N : Type) where
  worklist : List N
  idx : Nat
  visited : S

/-- `push`: append iff newly inserted into `visited` -/
def Closure.push (c : Closure S N) (n : N) : Closure S N :=
  if SetLike.contains c.visited n then c
  else { c with worklist := c.worklist ++ [n], visited := SetLike.insert c.visited n }

/-- `compute`: `while let Some(n) = self.pop() { trace(n) }` where `trace n` pushes `succ n` in
instruction order. Fuel bounds the number of iterations (the real loop ends because `visited` only grows
within the finite set of (function, type arguments) pairs of the program). -/
def Closure.run (succ : N → List N) : Nat → Closure S N → Closure S N
  | 0, c => c
  | fuel + 1, c =>
    match c.worklist[c.idx]? with
    | none => c
    | some n =>
      let c1 := { c with idx := c.idx + 1 }
      Closure.run succ fuel ((succ n).foldl Closure.push c1)

def Closure.start (roots : List N) : Closure S N :=
  roots.foldl Closure.push { worklist := [], idx := 0, visited := SetLike.empty }

end Closure

/-- reference closure: `visited` is the work list itself (list membership) -/
def refPush {N : Type} [DecidableEq N] (wl : List N) (n : N) : List N :=
  if n ∈ wl then wl else wl ++ [n]

def refRun {N : Type} [DecidableEq N] (succ : N → List N) : Nat → List N × Nat → List N × Nat
  | 0, c => c
  | fuel + 1, (wl, idx) =>
    match wl[idx]? with
    | none => (wl, idx)
    | some n => refRun succ fuel ((succ n).foldl refPush wl, idx + 1)

end Dora.Intern
