import DoraModel.Mini.Prim
/-!
# How a run ends: classification of (signal, exit status, first stderr line)

`checks/c01.py::classify` is the Python twin of `classify` below (C02: "every run ends by returning
from main, by an explicit exit, or by one of the documented traps with its message and status").
-/
namespace Dora.Mini

/-- what the harness observes of a finished process -/
structure Obs where
  signal : Option Nat        -- terminating signal, if any
  status : Nat               -- exit status (meaningful when `signal = none`)
  stderr1 : String           -- first line of stderr
  rustPanic : Bool           -- stderr contains a Rust panic report
  deriving Inhabited

inductive RunEnd where
  | exit (status : Nat)
  | trap (t : Trap)
  | fatal
  | undefined (why : String)
  deriving Inhabited, DecidableEq

def allTraps : List Trap :=
  [.div0, .assert, .index, .nil, .cast, .oom, .stackOverflow, .illegal, .overflow, .shift]

def trapOfStatus (n : Nat) : Option Trap := allTraps.find? (fun t => t.status == n)

def isTrapMessage (s : String) : Bool := allTraps.any (fun t => t.message == s)

def classify (o : Obs) : RunEnd :=
  match o.signal with
  | some n => .undefined s!"signal {n}"
  | none =>
    if o.rustPanic then .undefined "rust-panic" else
    match trapOfStatus o.status with
    | some t => if o.stderr1 = t.message then .trap t else .undefined "trap status without its message"
    | none =>
      if o.status = 1 ∧ (o.stderr1.startsWith "fatal error: " ∨ o.stderr1 = "unreachable code executed.") then .fatal
      else if isTrapMessage o.stderr1 then .undefined "trap message with a different status"
      else .exit o.status

def RunEnd.defined : RunEnd → Bool
  | .undefined _ => false
  | _ => true

end Dora.Mini
