import DoraModel.Mini.Prim
/-!
# Lemmas about the MiniDora primitive operations (`DoraModel.Mini.Prim`)

Everything here is universally quantified over the width `w : IW` and the operands `a b : Int`;
range hypotheses (`w.inRange a = true`) are stated only where they are needed.  The numeric meaning
of the ranges is exposed by `IW.min_w32 … IW.inRange_w64`:

* Int32: `-2147483648 ≤ x ≤ 2147483647`       (`-(2^31) ≤ x ≤ 2^31 - 1`)
* Int64: `-9223372036854775808 ≤ x ≤ 9223372036854775807`   (`-(2^63) ≤ x ≤ 2^63 - 1`)

Imports `DoraModel.Mini.Prim` only (core Lean, no Mathlib).
-/
namespace Dora.Mini

/-! ## 0. The numbers behind the widths -/

/-- Int32 has 32 bits. -/
theorem IW.bits_w32 : IW.w32.bits = 32 := rfl
/-- Int64 has 64 bits. -/
theorem IW.bits_w64 : IW.w64.bits = 64 := rfl
/-- 2^31 as a numeral. -/
theorem IW.half_w32 : IW.w32.half = 2147483648 := by decide
/-- 2^63 as a numeral. -/
theorem IW.half_w64 : IW.w64.half = 9223372036854775808 := by decide
/-- 2^32 as a numeral. -/
theorem IW.modulus_w32 : IW.w32.modulus = 4294967296 := by decide
/-- 2^64 as a numeral. -/
theorem IW.modulus_w64 : IW.w64.modulus = 18446744073709551616 := by decide
/-- smallest Int32 is -(2^31). -/
theorem IW.min_w32 : IW.w32.min = -2147483648 := by decide
/-- largest Int32 is 2^31 - 1. -/
theorem IW.max_w32 : IW.w32.max = 2147483647 := by decide
/-- smallest Int64 is -(2^63). -/
theorem IW.min_w64 : IW.w64.min = -9223372036854775808 := by decide
/-- largest Int64 is 2^63 - 1. -/
theorem IW.max_w64 : IW.w64.max = 9223372036854775807 := by decide
/-- the modulus is `2 ^ bits` (definitional; stated so that `2 ^ w.bits` can be rewritten). -/
theorem IW.two_pow_bits (w : IW) : (2 : Int) ^ w.bits = w.modulus := rfl
/-- the modulus is twice the half. -/
theorem IW.modulus_eq_two_half (w : IW) : w.modulus = 2 * w.half := by
  cases w <;> decide
/-- the half is positive. -/
theorem IW.half_pos (w : IW) : 0 < w.half := by
  cases w <;> decide

/-- `inRange` is the Boolean form of `min ≤ x ≤ max`. -/
theorem IW.inRange_iff (w : IW) (x : Int) : w.inRange x = true ↔ w.min ≤ x ∧ x ≤ w.max := by
  simp [IW.inRange]
/-- Int32 range with the numbers spelled out. -/
theorem IW.inRange_w32 (x : Int) :
    IW.w32.inRange x = true ↔ -2147483648 ≤ x ∧ x ≤ 2147483647 := by
  simp [IW.inRange, IW.min_w32, IW.max_w32]
/-- Int64 range with the numbers spelled out. -/
theorem IW.inRange_w64 (x : Int) :
    IW.w64.inRange x = true ↔ -9223372036854775808 ≤ x ∧ x ≤ 9223372036854775807 := by
  simp [IW.inRange, IW.min_w64, IW.max_w64]
/-- the Int32 range written with powers of two. -/
theorem IW.inRange_w32_pow (x : Int) :
    IW.w32.inRange x = true ↔ -(2 ^ 31) ≤ x ∧ x ≤ 2 ^ 31 - 1 := by
  rw [IW.inRange_w32]; exact Iff.rfl
/-- the Int64 range written with powers of two. -/
theorem IW.inRange_w64_pow (x : Int) :
    IW.w64.inRange x = true ↔ -(2 ^ 63) ≤ x ∧ x ≤ 2 ^ 63 - 1 := by
  rw [IW.inRange_w64]; exact Iff.rfl
/-- zero is representable at every width. -/
theorem IW.inRange_zero (w : IW) : w.inRange 0 = true := by
  cases w <;> decide

/-! ## 1. Checked `+ - *` and unary `-` -/

/-- `checked` returns its argument when representable and traps `overflow` otherwise. -/
theorem checked_spec (w : IW) (x : Int) :
    w.checked x = if w.min ≤ x ∧ x ≤ w.max then .ok x else .error .overflow := by
  simp [IW.checked, IW.inRange]

/-- `a + b`: exact result when representable, `overflow` otherwise. -/
theorem addC_spec (w : IW) (a b : Int) :
    addC w a b = if w.min ≤ a + b ∧ a + b ≤ w.max then .ok (a + b) else .error .overflow :=
  checked_spec w (a + b)
/-- `a - b`: exact result when representable, `overflow` otherwise. -/
theorem subC_spec (w : IW) (a b : Int) :
    subC w a b = if w.min ≤ a - b ∧ a - b ≤ w.max then .ok (a - b) else .error .overflow :=
  checked_spec w (a - b)
/-- `a * b`: exact result when representable, `overflow` otherwise. -/
theorem mulC_spec (w : IW) (a b : Int) :
    mulC w a b = if w.min ≤ a * b ∧ a * b ≤ w.max then .ok (a * b) else .error .overflow :=
  checked_spec w (a * b)
/-- `-a`: exact result when representable, `overflow` otherwise. -/
theorem negC_spec (w : IW) (a : Int) :
    negC w a = if w.min ≤ -a ∧ -a ≤ w.max then .ok (-a) else .error .overflow :=
  checked_spec w (-a)

/-- checked addition is exact whenever the mathematical sum is representable. -/
theorem add_exact (w : IW) (a b : Int) (h : w.inRange (a + b) = true) :
    addC w a b = .ok (a + b) := by simp [addC, IW.checked, h]
/-- checked addition traps `overflow` whenever the mathematical sum is not representable. -/
theorem add_traps (w : IW) (a b : Int) (h : ¬ w.inRange (a + b) = true) :
    addC w a b = .error .overflow := by simp [addC, IW.checked, h]
/-- checked subtraction is exact whenever the mathematical difference is representable. -/
theorem sub_exact (w : IW) (a b : Int) (h : w.inRange (a - b) = true) :
    subC w a b = .ok (a - b) := by simp [subC, IW.checked, h]
/-- checked subtraction traps `overflow` whenever the difference is not representable. -/
theorem sub_traps (w : IW) (a b : Int) (h : ¬ w.inRange (a - b) = true) :
    subC w a b = .error .overflow := by simp [subC, IW.checked, h]
/-- checked multiplication is exact whenever the mathematical product is representable. -/
theorem mul_exact (w : IW) (a b : Int) (h : w.inRange (a * b) = true) :
    mulC w a b = .ok (a * b) := by simp [mulC, IW.checked, h]
/-- checked multiplication traps `overflow` whenever the product is not representable. -/
theorem mul_traps (w : IW) (a b : Int) (h : ¬ w.inRange (a * b) = true) :
    mulC w a b = .error .overflow := by simp [mulC, IW.checked, h]
/-- checked negation is exact whenever `-a` is representable. -/
theorem neg_exact (w : IW) (a : Int) (h : w.inRange (-a) = true) :
    negC w a = .ok (-a) := by simp [negC, IW.checked, h]
/-- checked negation traps `overflow` whenever `-a` is not representable. -/
theorem neg_traps (w : IW) (a : Int) (h : ¬ w.inRange (-a) = true) :
    negC w a = .error .overflow := by simp [negC, IW.checked, h]

/-- for an in-range operand, negation traps exactly on `MIN`. -/
theorem negC_traps_iff_min (w : IW) (a : Int) (ha : w.inRange a = true) :
    negC w a = .error .overflow ↔ a = w.min := by
  cases w
  · simp [negC, IW.checked, IW.inRange, IW.min_w32, IW.max_w32] at *; omega
  · simp [negC, IW.checked, IW.inRange, IW.min_w64, IW.max_w64] at *; omega

/-- `checked` never returns anything but `.ok x` or `.error .overflow`. -/
theorem checked_cases (w : IW) (x : Int) :
    w.checked x = .ok x ∨ w.checked x = .error .overflow := by
  cases h : w.inRange x <;> simp [IW.checked, h]

/-- a successful `checked` returns its (in-range) argument. -/
theorem checked_ok (w : IW) (x r : Int) (h : w.checked x = .ok r) :
    r = x ∧ w.inRange r = true := by
  cases hx : w.inRange x
  · simp [IW.checked, hx] at h
  · simp [IW.checked, hx] at h; subst h; exact ⟨rfl, hx⟩

/-! ## 2. Division and remainder (truncating) -/

/-- helper: equal signs, spelled out as order facts. -/
private theorem sign_eq_sign_cases {r a : Int} (h : r.sign = a.sign) :
    (r = 0 ∧ a = 0) ∨ (0 < r ∧ 0 < a) ∨ (r < 0 ∧ a < 0) := by
  rcases Int.lt_trichotomy a 0 with ha | ha | ha
  · rw [Int.sign_eq_neg_one_iff_neg.mpr ha] at h
    exact Or.inr (Or.inr ⟨Int.sign_eq_neg_one_iff_neg.mp h, ha⟩)
  · subst ha
    rw [Int.sign_zero] at h
    exact Or.inl ⟨Int.sign_eq_zero_iff_zero.mp h, rfl⟩
  · rw [Int.sign_eq_one_iff_pos.mpr ha] at h
    exact Or.inr (Or.inl ⟨Int.sign_eq_one_iff_pos.mp h, ha⟩)

/-- the truncated quotient and remainder satisfy `a = q*b + r`, `|r| < |b|`, and `r` is zero or has
the sign of the dividend. -/
theorem tdiv_tmod_spec (a b : Int) (hb : b ≠ 0) :
    a = a.tdiv b * b + a.tmod b ∧ (a.tmod b).natAbs < b.natAbs ∧
      (a.tmod b = 0 ∨ (a.tmod b).sign = a.sign) := by
  refine ⟨?_, ?_, ?_⟩
  · have := Int.tmod_add_tdiv_mul a b; omega
  · rw [Int.natAbs_tmod]; exact Nat.mod_lt _ (by omega)
  · have := Int.sign_tmod a b
    by_cases hd : b ∣ a
    · left; rw [if_pos hd] at this; exact Int.sign_eq_zero_iff_zero.mp this
    · right; rw [if_neg hd] at this; exact this

/-- the three conditions of `tdiv_tmod_spec` determine quotient and remainder uniquely: they ARE the
truncated quotient and remainder. -/
theorem tdiv_tmod_unique (a b q r : Int) (hb : b ≠ 0) (h1 : a = q * b + r)
    (h2 : r.natAbs < b.natAbs) (h3 : r = 0 ∨ r.sign = a.sign) :
    q = a.tdiv b ∧ r = a.tmod b := by
  obtain ⟨e1, e2, e3⟩ := tdiv_tmod_spec a b hb
  have hq : q = a.tdiv b := by
    apply Classical.byContradiction
    intro hne
    have hd : (q - a.tdiv b) * b = a.tmod b - r := by
      rw [Int.sub_mul]; omega
    have hn : ((q - a.tdiv b) * b).natAbs = (a.tmod b - r).natAbs := by rw [hd]
    rw [Int.natAbs_mul] at hn
    have hpos : 0 < (q - a.tdiv b).natAbs := by omega
    have hge : b.natAbs ≤ (q - a.tdiv b).natAbs * b.natAbs := Nat.le_mul_of_pos_left _ hpos
    have hlt : (a.tmod b - r).natAbs < b.natAbs := by
      rcases h3 with h3 | h3
      · subst h3; simpa using e2
      · rcases e3 with e3 | e3
        · rw [e3]; simpa using h2
        · have s1 := sign_eq_sign_cases h3
          have s2 := sign_eq_sign_cases e3
          omega
    omega
  refine ⟨hq, ?_⟩
  subst hq
  omega

/-- the truncated quotient of in-range operands is representable, except for `MIN / -1`. -/
theorem tdiv_inRange (w : IW) (a b : Int) (ha : w.inRange a = true) (hb0 : b ≠ 0)
    (hov : ¬ (a = w.min ∧ b = -1)) : w.inRange (a.tdiv b) = true := by
  have h1 := Int.natAbs_tdiv_le_natAbs a b
  by_cases hb2 : 2 ≤ b.natAbs
  · have h2 : (a.tdiv b).natAbs ≤ a.natAbs / 2 := by
      rw [Int.natAbs_tdiv]; exact Nat.div_le_div_left hb2 (by omega)
    cases w
    · rw [IW.inRange_w32] at *; omega
    · rw [IW.inRange_w64] at *; omega
  · have hb1 : b = 1 ∨ b = -1 := by omega
    rcases hb1 with hb1 | hb1
    · subst hb1; simpa using ha
    · subst hb1
      cases w
      · rw [IW.inRange_w32] at *; rw [IW.min_w32] at hov; omega
      · rw [IW.inRange_w64] at *; rw [IW.min_w64] at hov; omega

/-- the truncated remainder by an in-range non-zero divisor is representable. -/
theorem tmod_inRange (w : IW) (a b : Int) (hb : w.inRange b = true) (hb0 : b ≠ 0) :
    w.inRange (a.tmod b) = true := by
  have h1 : (a.tmod b).natAbs < b.natAbs := (tdiv_tmod_spec a b hb0).2.1
  cases w
  · rw [IW.inRange_w32] at *; omega
  · rw [IW.inRange_w64] at *; omega

/-- division by zero traps `div0` (whatever the dividend). -/
theorem div_by_zero (w : IW) (a : Int) : divC w a 0 = .error .div0 := by simp [divC]
/-- `MIN / -1` traps `overflow`. -/
theorem div_min_neg_one (w : IW) : divC w w.min (-1) = .error .overflow := by simp [divC]
/-- remainder by zero traps `div0`. -/
theorem mod_by_zero (w : IW) (a : Int) : modC w a 0 = .error .div0 := by simp [modC]
/-- `MIN % -1` traps `overflow` (as the x64 `idiv` does). -/
theorem mod_min_neg_one (w : IW) : modC w w.min (-1) = .error .overflow := by simp [modC]

/-- division: `b = 0` traps `div0`; `MIN / -1` traps `overflow`; otherwise the result is the `q` with
`a = q*b + r`, `|r| < |b|`, `r = 0 ∨ sign r = sign a` (truncation toward zero), and `q` is representable. -/
theorem div_spec (w : IW) (a b : Int) (ha : w.inRange a = true) (_hb : w.inRange b = true) :
    (b = 0 → divC w a b = .error .div0) ∧
    (a = w.min ∧ b = -1 → divC w a b = .error .overflow) ∧
    (b ≠ 0 → ¬ (a = w.min ∧ b = -1) →
      ∃ q r : Int, divC w a b = .ok q ∧ a = q * b + r ∧ r.natAbs < b.natAbs ∧
        (r = 0 ∨ r.sign = a.sign) ∧ w.inRange q = true) := by
  refine ⟨?_, ?_, ?_⟩
  · intro h; simp [divC, h]
  · intro h; simp [divC, h]
  · intro h0 hov
    obtain ⟨e1, e2, e3⟩ := tdiv_tmod_spec a b h0
    exact ⟨a.tdiv b, a.tmod b, by simp [divC, h0, hov], e1, e2, e3, tdiv_inRange w a b ha h0 hov⟩

/-- remainder: `b = 0` traps `div0`; `MIN % -1` traps `overflow`; otherwise the result is the `r` with
`a = q*b + r`, `|r| < |b|`, `r = 0 ∨ sign r = sign a`, and `r` is representable. -/
theorem mod_spec (w : IW) (a b : Int) (_ha : w.inRange a = true) (hb : w.inRange b = true) :
    (b = 0 → modC w a b = .error .div0) ∧
    (a = w.min ∧ b = -1 → modC w a b = .error .overflow) ∧
    (b ≠ 0 → ¬ (a = w.min ∧ b = -1) →
      ∃ q r : Int, modC w a b = .ok r ∧ a = q * b + r ∧ r.natAbs < b.natAbs ∧
        (r = 0 ∨ r.sign = a.sign) ∧ w.inRange r = true) := by
  refine ⟨?_, ?_, ?_⟩
  · intro h; simp [modC, h]
  · intro h; simp [modC, h]
  · intro h0 hov
    obtain ⟨e1, e2, e3⟩ := tdiv_tmod_spec a b h0
    exact ⟨a.tdiv b, a.tmod b, by simp [modC, h0, hov], e1, e2, e3, tmod_inRange w a b hb h0⟩

/-- converse reading of `div_spec`: any `q, r` meeting the three conditions give the value of `a / b`. -/
theorem div_eq_of_spec (w : IW) (a b q r : Int) (hb : b ≠ 0) (hov : ¬ (a = w.min ∧ b = -1))
    (h1 : a = q * b + r) (h2 : r.natAbs < b.natAbs) (h3 : r = 0 ∨ r.sign = a.sign) :
    divC w a b = .ok q ∧ modC w a b = .ok r := by
  obtain ⟨hq, hr⟩ := tdiv_tmod_unique a b q r hb h1 h2 h3
  subst hq hr
  simp [divC, modC, hb, hov]

/-- `divC` and `modC` trap on exactly the same operands, with the same trap. -/
theorem div_mod_same_traps (w : IW) (a b : Int) (t : Trap) :
    divC w a b = .error t ↔ modC w a b = .error t := by
  unfold divC modC
  by_cases h0 : b = 0
  · simp [h0]
  · by_cases hov : a = w.min ∧ b = -1
    · simp [hov]
    · simp [h0, hov]

/-! ## 3. Wrapping -/

/-- `wrap x` is in range and congruent to `x` modulo `2^bits`. -/
theorem wrap_spec (w : IW) (x : Int) :
    w.inRange (w.wrap x) = true ∧ (w.wrap x - x) % (2 : Int) ^ w.bits = 0 := by
  rw [IW.two_pow_bits]
  cases w
  · simp [IW.inRange, IW.min_w32, IW.max_w32, IW.wrap, IW.half_w32, IW.modulus_w32]; omega
  · simp [IW.inRange, IW.min_w64, IW.max_w64, IW.wrap, IW.half_w64, IW.modulus_w64]; omega

/-- `wrap x` is in range. -/
theorem wrap_inRange (w : IW) (x : Int) : w.inRange (w.wrap x) = true := (wrap_spec w x).1

/-- `wrap` is the identity on representable values. -/
theorem wrap_id (w : IW) (x : Int) (h : w.inRange x = true) : w.wrap x = x := by
  cases w
  · simp [IW.inRange, IW.min_w32, IW.max_w32, IW.wrap, IW.half_w32, IW.modulus_w32] at *; omega
  · simp [IW.inRange, IW.min_w64, IW.max_w64, IW.wrap, IW.half_w64, IW.modulus_w64] at *; omega

/-- `wrap x` is the ONLY in-range value congruent to `x` modulo `2^bits`. -/
theorem wrap_unique (w : IW) (x y : Int) (hy : w.inRange y = true)
    (hc : (y - x) % (2 : Int) ^ w.bits = 0) : y = w.wrap x := by
  rw [IW.two_pow_bits] at hc
  cases w
  · simp [IW.inRange, IW.min_w32, IW.max_w32, IW.wrap, IW.half_w32, IW.modulus_w32] at *; omega
  · simp [IW.inRange, IW.min_w64, IW.max_w64, IW.wrap, IW.half_w64, IW.modulus_w64] at *; omega

/-- wrapping is idempotent. -/
theorem wrap_wrap (w : IW) (x : Int) : w.wrap (w.wrap x) = w.wrap x :=
  wrap_id w _ (wrap_inRange w x)

/-- `wrapping_add`: in range and congruent to `a + b` modulo `2^bits`. -/
theorem addW_spec (w : IW) (a b : Int) :
    w.inRange (addW w a b) = true ∧ (addW w a b - (a + b)) % (2 : Int) ^ w.bits = 0 :=
  wrap_spec w (a + b)
/-- `wrapping_sub`: in range and congruent to `a - b` modulo `2^bits`. -/
theorem subW_spec (w : IW) (a b : Int) :
    w.inRange (subW w a b) = true ∧ (subW w a b - (a - b)) % (2 : Int) ^ w.bits = 0 :=
  wrap_spec w (a - b)
/-- `wrapping_mul`: in range and congruent to `a * b` modulo `2^bits`. -/
theorem mulW_spec (w : IW) (a b : Int) :
    w.inRange (mulW w a b) = true ∧ (mulW w a b - a * b) % (2 : Int) ^ w.bits = 0 :=
  wrap_spec w (a * b)
/-- `wrapping_neg`: in range and congruent to `-a` modulo `2^bits`. -/
theorem negW_spec (w : IW) (a : Int) :
    w.inRange (negW w a) = true ∧ (negW w a - (-a)) % (2 : Int) ^ w.bits = 0 :=
  wrap_spec w (-a)

/-- `wrapping_add` equals the exact sum when that is representable. -/
theorem addW_exact (w : IW) (a b : Int) (h : w.inRange (a + b) = true) : addW w a b = a + b :=
  wrap_id w _ h
/-- `wrapping_sub` equals the exact difference when that is representable. -/
theorem subW_exact (w : IW) (a b : Int) (h : w.inRange (a - b) = true) : subW w a b = a - b :=
  wrap_id w _ h
/-- `wrapping_mul` equals the exact product when that is representable. -/
theorem mulW_exact (w : IW) (a b : Int) (h : w.inRange (a * b) = true) : mulW w a b = a * b :=
  wrap_id w _ h
/-- `wrapping_neg` equals `-a` when that is representable. -/
theorem negW_exact (w : IW) (a : Int) (h : w.inRange (-a) = true) : negW w a = -a :=
  wrap_id w _ h

/-- whenever the checked addition succeeds, the wrapping addition returns the same value. -/
theorem addC_ok_eq_addW (w : IW) (a b r : Int) (h : addC w a b = .ok r) : addW w a b = r := by
  obtain ⟨e, hr⟩ := checked_ok w _ _ h; subst e; exact wrap_id w _ hr
/-- whenever the checked subtraction succeeds, the wrapping subtraction returns the same value. -/
theorem subC_ok_eq_subW (w : IW) (a b r : Int) (h : subC w a b = .ok r) : subW w a b = r := by
  obtain ⟨e, hr⟩ := checked_ok w _ _ h; subst e; exact wrap_id w _ hr
/-- whenever the checked multiplication succeeds, the wrapping multiplication returns the same value. -/
theorem mulC_ok_eq_mulW (w : IW) (a b r : Int) (h : mulC w a b = .ok r) : mulW w a b = r := by
  obtain ⟨e, hr⟩ := checked_ok w _ _ h; subst e; exact wrap_id w _ hr
/-- whenever the checked negation succeeds, the wrapping negation returns the same value. -/
theorem negC_ok_eq_negW (w : IW) (a r : Int) (h : negC w a = .ok r) : negW w a = r := by
  obtain ⟨e, hr⟩ := checked_ok w _ _ h; subst e; exact wrap_id w _ hr

/-- `wrapping_neg MIN = MIN`. -/
theorem negW_min (w : IW) : negW w w.min = w.min := by
  cases w <;> decide

/-- the unsigned reading lies in `[0, 2^bits)` and is congruent to the value. -/
theorem toUnsigned_spec (w : IW) (x : Int) :
    0 ≤ w.toUnsigned x ∧ w.toUnsigned x < (2 : Int) ^ w.bits ∧
      (w.toUnsigned x - x) % (2 : Int) ^ w.bits = 0 := by
  rw [IW.two_pow_bits]
  cases w
  · simp [IW.toUnsigned, IW.modulus_w32]; omega
  · simp [IW.toUnsigned, IW.modulus_w64]; omega

/-- re-wrapping the unsigned reading of an in-range value gives the value back. -/
theorem wrap_toUnsigned (w : IW) (x : Int) (h : w.inRange x = true) :
    w.wrap (w.toUnsigned x) = x := by
  cases w
  · simp [IW.inRange, IW.min_w32, IW.max_w32, IW.wrap, IW.half_w32, IW.modulus_w32,
      IW.toUnsigned] at *; omega
  · simp [IW.inRange, IW.min_w64, IW.max_w64, IW.wrap, IW.half_w64, IW.modulus_w64,
      IW.toUnsigned] at *; omega

/-! ## 4. Shifts -/

/-- the shift-amount check is `0 ≤ n < bits`. -/
theorem shiftOk_iff (w : IW) (n : Int) : w.shiftOk n = true ↔ 0 ≤ n ∧ n < (w.bits : Int) := by
  simp [IW.shiftOk]

/-- `<<` traps `shift` exactly when the amount is outside `0 ≤ n < bits`. -/
theorem shlC_traps_iff (w : IW) (a n : Int) :
    shlC w a n = .error .shift ↔ ¬ (0 ≤ n ∧ n < (w.bits : Int)) := by
  rw [← shiftOk_iff]; cases h : w.shiftOk n <;> simp [shlC, h]
/-- `>>` traps `shift` exactly when the amount is outside `0 ≤ n < bits`. -/
theorem sarC_traps_iff (w : IW) (a n : Int) :
    sarC w a n = .error .shift ↔ ¬ (0 ≤ n ∧ n < (w.bits : Int)) := by
  rw [← shiftOk_iff]; cases h : w.shiftOk n <;> simp [sarC, h]
/-- `>>>` traps `shift` exactly when the amount is outside `0 ≤ n < bits`. -/
theorem shrC_traps_iff (w : IW) (a n : Int) :
    shrC w a n = .error .shift ↔ ¬ (0 ≤ n ∧ n < (w.bits : Int)) := by
  rw [← shiftOk_iff]; cases h : w.shiftOk n <;> simp [shrC, h]

/-- with a legal amount, `a << n` is `a * 2^n` reduced modulo `2^bits`. -/
theorem shlC_ok (w : IW) (a n : Int) (h0 : 0 ≤ n) (h1 : n < (w.bits : Int)) :
    shlC w a n = .ok (w.wrap (a * 2 ^ n.toNat)) := by
  simp [shlC, IW.shiftOk, h0, h1]
/-- with a legal amount, `a >> n` is the floor of `a / 2^n`. -/
theorem sarC_ok (w : IW) (a n : Int) (h0 : 0 ≤ n) (h1 : n < (w.bits : Int)) :
    sarC w a n = .ok (a / 2 ^ n.toNat) := by
  simp [sarC, IW.shiftOk, h0, h1]
/-- with a legal amount, `a >>> n` is the unsigned reading divided by `2^n`, re-wrapped. -/
theorem shrC_ok (w : IW) (a n : Int) (h0 : 0 ≤ n) (h1 : n < (w.bits : Int)) :
    shrC w a n = .ok (w.wrap (w.toUnsigned a / 2 ^ n.toNat)) := by
  simp [shrC, IW.shiftOk, h0, h1]

/-- helper: floor division by a positive number keeps a value inside any interval containing 0. -/
private theorem ediv_between {lo hi a c : Int} (hc : 0 < c) (hlo : lo ≤ a) (hhi : a ≤ hi)
    (hlo0 : lo ≤ 0) (hhi0 : 0 ≤ hi) : lo ≤ a / c ∧ a / c ≤ hi := by
  by_cases ha : 0 ≤ a
  · have h1 : 0 ≤ a / c := Int.ediv_nonneg ha (Int.le_of_lt hc)
    have h2 : a / c ≤ a := Int.ediv_le_self c ha
    omega
  · have ha' : a < 0 := by omega
    have h1 : a / c < 0 := Int.ediv_neg_of_neg_of_pos ha' hc
    have h2 : a ≤ a / c := by
      rw [Int.le_ediv_iff_mul_le hc]
      have := Int.mul_le_mul_of_nonpos_left (a := a) (b := c) (c := 1) (by omega) (by omega)
      omega
    omega

/-- floor division of an in-range value by a power of two stays in range. -/
theorem ediv_two_pow_inRange (w : IW) (a : Int) (k : Nat) (ha : w.inRange a = true) :
    w.inRange (a / 2 ^ k) = true := by
  have hc : (0 : Int) < 2 ^ k := Int.pow_pos (by omega)
  rw [IW.inRange_iff] at *
  have hh := w.half_pos
  exact ediv_between hc ha.1 ha.2 (by unfold IW.min; omega) (by unfold IW.max; omega)

/-- `a >> n` of an in-range value is in range. -/
theorem sarC_inRange (w : IW) (a n r : Int) (ha : w.inRange a = true) (h : sarC w a n = .ok r) :
    w.inRange r = true := by
  cases hs : w.shiftOk n
  · simp [sarC, hs] at h
  · simp [sarC, hs] at h; subst h; exact ediv_two_pow_inRange w a _ ha

/-- `a >> n` is the FLOOR of `a / 2^n`: the unique `r` with `r * 2^n ≤ a < (r + 1) * 2^n`. -/
theorem sarC_floor (w : IW) (a n r : Int) (h : sarC w a n = .ok r) :
    r * 2 ^ n.toNat ≤ a ∧ a < (r + 1) * 2 ^ n.toNat := by
  cases hs : w.shiftOk n
  · simp [sarC, hs] at h
  · simp [sarC, hs] at h; subst h
    have hc : (0 : Int) < 2 ^ n.toNat := Int.pow_pos (by omega)
    exact ⟨Int.ediv_mul_le a (by omega), Int.lt_ediv_add_one_mul_self a hc⟩

/-- `a >> n` keeps the sign: non-negative stays non-negative, negative stays negative. -/
theorem sarC_sign (w : IW) (a n r : Int) (h : sarC w a n = .ok r) : (0 ≤ a ↔ 0 ≤ r) := by
  cases hs : w.shiftOk n
  · simp [sarC, hs] at h
  · simp [sarC, hs] at h; subst h
    have hc : (0 : Int) < 2 ^ n.toNat := Int.pow_pos (by omega)
    constructor
    · intro ha; exact Int.ediv_nonneg ha (Int.le_of_lt hc)
    · intro hr
      apply Classical.byContradiction; intro ha
      have := Int.ediv_neg_of_neg_of_pos (a := a) (by omega) hc
      omega

/-- `a << n` is always in range (the shifted-out bits are discarded). -/
theorem shlC_inRange (w : IW) (a n r : Int) (h : shlC w a n = .ok r) : w.inRange r = true := by
  cases hs : w.shiftOk n
  · simp [shlC, hs] at h
  · simp [shlC, hs] at h; subst h; exact wrap_inRange w _

/-- `a << n` is congruent to `a * 2^n` modulo `2^bits`. -/
theorem shlC_congr (w : IW) (a n r : Int) (h : shlC w a n = .ok r) :
    (r - a * 2 ^ n.toNat) % (2 : Int) ^ w.bits = 0 := by
  cases hs : w.shiftOk n
  · simp [shlC, hs] at h
  · simp [shlC, hs] at h; subst h; exact (wrap_spec w _).2

/-- `a >>> n` is always in range. -/
theorem shrC_inRange (w : IW) (a n r : Int) (h : shrC w a n = .ok r) : w.inRange r = true := by
  cases hs : w.shiftOk n
  · simp [shrC, hs] at h
  · simp [shrC, hs] at h; subst h; exact wrap_inRange w _

/-- for `1 ≤ n < bits`, `a >>> n` is exactly `toUnsigned a / 2^n` (no wrapping happens) and it is
non-negative. -/
theorem shrC_pos_amount (w : IW) (a n : Int) (h0 : 1 ≤ n) (h1 : n < (w.bits : Int)) :
    shrC w a n = .ok (w.toUnsigned a / 2 ^ n.toNat) ∧ 0 ≤ w.toUnsigned a / 2 ^ n.toNat := by
  have hu := toUnsigned_spec w a
  rw [IW.two_pow_bits] at hu
  have hc : (0 : Int) < 2 ^ n.toNat := Int.pow_pos (by omega)
  have h2 : (2 : Int) ≤ 2 ^ n.toNat := by
    have : n.toNat = (n.toNat - 1) + 1 := by omega
    rw [this, Int.pow_succ]
    have : (0 : Int) < 2 ^ (n.toNat - 1) := Int.pow_pos (by omega)
    omega
  have hnn : 0 ≤ w.toUnsigned a / 2 ^ n.toNat := Int.ediv_nonneg hu.1 (Int.le_of_lt hc)
  have hlt : w.toUnsigned a / 2 ^ n.toNat < w.half := by
    rw [Int.ediv_lt_iff_lt_mul hc]
    have hm := w.modulus_eq_two_half
    have hh := w.half_pos
    have := Int.mul_le_mul_of_nonneg_left h2 (Int.le_of_lt hh)
    omega
  refine ⟨?_, hnn⟩
  rw [shrC_ok w a n (by omega) h1, wrap_id]
  rw [IW.inRange_iff]; unfold IW.min IW.max; omega

/-- shifting left by 0 returns the (in-range) operand. -/
theorem shlC_zero (w : IW) (a : Int) (ha : w.inRange a = true) : shlC w a 0 = .ok a := by
  have : w.shiftOk 0 = true := by cases w <;> decide
  simp [shlC, this, wrap_id w a ha]
/-- arithmetic shift right by 0 returns the operand. -/
theorem sarC_zero (w : IW) (a : Int) : sarC w a 0 = .ok a := by
  have : w.shiftOk 0 = true := by cases w <;> decide
  simp [sarC, this]
/-- logical shift right by 0 returns the (in-range) operand. -/
theorem shrC_zero (w : IW) (a : Int) (ha : w.inRange a = true) : shrC w a 0 = .ok a := by
  have : w.shiftOk 0 = true := by cases w <;> decide
  simp [shrC, this, wrap_toUnsigned w a ha]

/-- rotations always produce an in-range value. -/
theorem rotl_inRange (w : IW) (a n : Int) : w.inRange (rotl w a n) = true := wrap_inRange w _
/-- rotations always produce an in-range value. -/
theorem rotr_inRange (w : IW) (a n : Int) : w.inRange (rotr w a n) = true := wrap_inRange w _

/-! ## 5. Checked results are always in range -/

/-- a successful checked addition is in range. -/
theorem addC_inRange (w : IW) (a b r : Int) (h : addC w a b = .ok r) : w.inRange r = true :=
  (checked_ok w _ _ h).2
/-- a successful checked subtraction is in range. -/
theorem subC_inRange (w : IW) (a b r : Int) (h : subC w a b = .ok r) : w.inRange r = true :=
  (checked_ok w _ _ h).2
/-- a successful checked multiplication is in range. -/
theorem mulC_inRange (w : IW) (a b r : Int) (h : mulC w a b = .ok r) : w.inRange r = true :=
  (checked_ok w _ _ h).2
/-- a successful checked negation is in range. -/
theorem negC_inRange (w : IW) (a r : Int) (h : negC w a = .ok r) : w.inRange r = true :=
  (checked_ok w _ _ h).2

/-- a successful division of an in-range dividend is in range. -/
theorem divC_inRange (w : IW) (a b r : Int) (ha : w.inRange a = true) (h : divC w a b = .ok r) :
    w.inRange r = true := by
  unfold divC at h
  by_cases h0 : b = 0
  · simp [h0] at h
  · by_cases hov : a = w.min ∧ b = -1
    · simp [hov] at h
    · simp only [h0, hov, if_false] at h
      injection h with h; subst h
      exact tdiv_inRange w a b ha h0 hov

/-- a successful remainder by an in-range divisor is in range. -/
theorem modC_inRange (w : IW) (a b r : Int) (hb : w.inRange b = true) (h : modC w a b = .ok r) :
    w.inRange r = true := by
  unfold modC at h
  by_cases h0 : b = 0
  · simp [h0] at h
  · by_cases hov : a = w.min ∧ b = -1
    · simp [hov] at h
    · simp only [h0, hov, if_false] at h
      injection h with h; subst h
      exact tmod_inRange w a b hb h0

/-- the only traps arithmetic can raise: `+ - *` and unary `-` raise nothing but `overflow`. -/
theorem addC_trap (w : IW) (a b : Int) (t : Trap) (h : addC w a b = .error t) : t = .overflow := by
  rcases checked_cases w (a + b) with h' | h' <;> simp [addC, h'] at h; exact h.symm
/-- `-` raises nothing but `overflow`. -/
theorem subC_trap (w : IW) (a b : Int) (t : Trap) (h : subC w a b = .error t) : t = .overflow := by
  rcases checked_cases w (a - b) with h' | h' <;> simp [subC, h'] at h; exact h.symm
/-- `*` raises nothing but `overflow`. -/
theorem mulC_trap (w : IW) (a b : Int) (t : Trap) (h : mulC w a b = .error t) : t = .overflow := by
  rcases checked_cases w (a * b) with h' | h' <;> simp [mulC, h'] at h; exact h.symm
/-- unary `-` raises nothing but `overflow`. -/
theorem negC_trap (w : IW) (a : Int) (t : Trap) (h : negC w a = .error t) : t = .overflow := by
  rcases checked_cases w (-a) with h' | h' <;> simp [negC, h'] at h; exact h.symm
/-- shifts raise nothing but `shift`. -/
theorem shift_trap (w : IW) (a n : Int) (t : Trap)
    (h : shlC w a n = .error t ∨ sarC w a n = .error t ∨ shrC w a n = .error t) : t = .shift := by
  cases hs : w.shiftOk n
  · simp [shlC, sarC, shrC, hs] at h; exact h.symm
  · simp [shlC, sarC, shrC, hs] at h
/-- division raises nothing but `div0` and `overflow`. -/
theorem divC_trap (w : IW) (a b : Int) (t : Trap) (h : divC w a b = .error t) :
    t = .div0 ∨ t = .overflow := by
  unfold divC at h
  by_cases h0 : b = 0
  · simp [h0] at h; exact Or.inl h.symm
  · by_cases hov : a = w.min ∧ b = -1
    · simp [hov] at h; exact Or.inr h.symm
    · simp [h0, hov] at h

/-! ## 6. Comparisons -/

/-- exactly one of `<`, `==`, `>` holds. -/
theorem cmp_total (a b : Int) :
    (CmpOp.eval .lt a b = true ∧ CmpOp.eval .eq a b = false ∧ CmpOp.eval .gt a b = false) ∨
    (CmpOp.eval .lt a b = false ∧ CmpOp.eval .eq a b = true ∧ CmpOp.eval .gt a b = false) ∨
    (CmpOp.eval .lt a b = false ∧ CmpOp.eval .eq a b = false ∧ CmpOp.eval .gt a b = true) := by
  simp [CmpOp.eval]; omega

/-- `≤` is `<` or `==`. -/
theorem cmp_le (a b : Int) :
    CmpOp.eval .le a b = (CmpOp.eval .lt a b || CmpOp.eval .eq a b) := by
  rw [Bool.eq_iff_iff]; simp [CmpOp.eval]; omega
/-- `!=` is the negation of `==`. -/
theorem cmp_ne (a b : Int) : CmpOp.eval .ne a b = !CmpOp.eval .eq a b := by
  simp [CmpOp.eval]
/-- `≥` is the negation of `<`. -/
theorem cmp_ge (a b : Int) : CmpOp.eval .ge a b = !CmpOp.eval .lt a b := by
  rw [Bool.eq_iff_iff]; simp [CmpOp.eval]
/-- `>` is the negation of `≤`. -/
theorem cmp_gt (a b : Int) : CmpOp.eval .gt a b = !CmpOp.eval .le a b := by
  rw [Bool.eq_iff_iff]; simp [CmpOp.eval]
/-- `a > b` is `b < a`; `a ≥ b` is `b ≤ a`. -/
theorem cmp_swap (a b : Int) :
    CmpOp.eval .gt a b = CmpOp.eval .lt b a ∧ CmpOp.eval .ge a b = CmpOp.eval .le b a := by
  simp [CmpOp.eval]

/-! ## 7. Narrowing and bitwise operations -/

/-- `to_uint8` yields a value in `[0, 256)` congruent to the operand modulo 256. -/
theorem toU8_range (a : Int) : 0 ≤ toU8 a ∧ toU8 a < 256 ∧ (toU8 a - a) % 256 = 0 := by
  unfold toU8; omega
/-- `to_uint8` is the identity on `[0, 256)`. -/
theorem toU8_id (a : Int) (h0 : 0 ≤ a) (h1 : a < 256) : toU8 a = a := by
  unfold toU8; omega

/-- bitwise complement of an in-range value is in range. -/
theorem bitNot_range (w : IW) (a : Int) (ha : w.inRange a = true) : w.inRange (bitNot w a) = true := by
  cases w
  · simp [IW.inRange, IW.min_w32, IW.max_w32, bitNot] at *; omega
  · simp [IW.inRange, IW.min_w64, IW.max_w64, bitNot] at *; omega
/-- bitwise complement is an involution. -/
theorem bitNot_bitNot (w : IW) (a : Int) : bitNot w (bitNot w a) = a := by
  unfold bitNot; omega

/-- `&` yields an in-range value. -/
theorem bitAnd_range (w : IW) (a b : Int) : w.inRange (bitAnd w a b) = true := wrap_inRange w _
/-- `|` yields an in-range value. -/
theorem bitOr_range (w : IW) (a b : Int) : w.inRange (bitOr w a b) = true := wrap_inRange w _
/-- `^` yields an in-range value. -/
theorem bitXor_range (w : IW) (a b : Int) : w.inRange (bitXor w a b) = true := wrap_inRange w _

/-- helper: the unsigned reading is non-negative, so `toNat` loses nothing. -/
private theorem toNat_toUnsigned (w : IW) (a : Int) : ((w.toUnsigned a).toNat : Int) = w.toUnsigned a :=
  Int.toNat_of_nonneg (toUnsigned_spec w a).1

/-- the unsigned reading of 0 is 0. -/
theorem toUnsigned_zero (w : IW) : w.toUnsigned 0 = 0 := by simp [IW.toUnsigned]

/-- `a & a = a` for in-range `a`. -/
theorem bitAnd_self (w : IW) (a : Int) (ha : w.inRange a = true) : bitAnd w a a = a := by
  unfold bitAnd; rw [Nat.and_self, toNat_toUnsigned, wrap_toUnsigned w a ha]
/-- `a | a = a` for in-range `a`. -/
theorem bitOr_self (w : IW) (a : Int) (ha : w.inRange a = true) : bitOr w a a = a := by
  unfold bitOr; rw [Nat.or_self, toNat_toUnsigned, wrap_toUnsigned w a ha]
/-- `a ^ a = 0`. -/
theorem bitXor_self (w : IW) (a : Int) : bitXor w a a = 0 := by
  unfold bitXor; rw [Nat.xor_self]; exact wrap_id w 0 w.inRange_zero
/-- `a & 0 = 0`. -/
theorem bitAnd_zero (w : IW) (a : Int) : bitAnd w a 0 = 0 := by
  unfold bitAnd; rw [toUnsigned_zero, Int.toNat_zero, Nat.and_zero]; exact wrap_id w 0 w.inRange_zero
/-- `a | 0 = a` for in-range `a`. -/
theorem bitOr_zero (w : IW) (a : Int) (ha : w.inRange a = true) : bitOr w a 0 = a := by
  unfold bitOr
  rw [toUnsigned_zero, Int.toNat_zero, Nat.or_zero, toNat_toUnsigned, wrap_toUnsigned w a ha]
/-- `a ^ 0 = a` for in-range `a`. -/
theorem bitXor_zero (w : IW) (a : Int) (ha : w.inRange a = true) : bitXor w a 0 = a := by
  unfold bitXor
  rw [toUnsigned_zero, Int.toNat_zero, Nat.xor_zero, toNat_toUnsigned, wrap_toUnsigned w a ha]
/-- `&`, `|`, `^` are commutative. -/
theorem bit_comm (w : IW) (a b : Int) :
    bitAnd w a b = bitAnd w b a ∧ bitOr w a b = bitOr w b a ∧ bitXor w a b = bitXor w b a := by
  unfold bitAnd bitOr bitXor
  rw [Nat.and_comm, Nat.or_comm, Nat.xor_comm]
  exact ⟨rfl, rfl, rfl⟩

/-! ## 8. Trap numbering -/

/-- distinct traps have distinct exit statuses. -/
theorem Trap.status_injective (t u : Trap) (h : t.status = u.status) : t = u := by
  cases t <;> cases u <;> first | rfl | (simp [Trap.status, Trap.id] at h)
/-- exit statuses are 101 … 110. -/
theorem Trap.status_range (t : Trap) : 101 ≤ t.status ∧ t.status ≤ 110 := by
  cases t <;> decide
/-- distinct traps print distinct messages. -/
theorem Trap.message_injective (t u : Trap) (h : t.message = u.message) : t = u := by
  cases t <;> cases u <;> first | rfl | (simp [Trap.message] at h)
/-- distinct traps have distinct protocol names. -/
theorem Trap.name_injective (t u : Trap) (h : t.name = u.name) : t = u := by
  cases t <;> cases u <;> first | rfl | (simp [Trap.name] at h)
/-- the exit statuses, spelled out. -/
theorem Trap.status_table :
    Trap.div0.status = 101 ∧ Trap.assert.status = 102 ∧ Trap.index.status = 103 ∧
    Trap.nil.status = 104 ∧ Trap.cast.status = 105 ∧ Trap.oom.status = 106 ∧
    Trap.stackOverflow.status = 107 ∧ Trap.illegal.status = 108 ∧ Trap.overflow.status = 109 ∧
    Trap.shift.status = 110 := by decide

end Dora.Mini
