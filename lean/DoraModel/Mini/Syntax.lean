import DoraModel.Mini.Prim
import DoraModel.Mini.Sexp
/-!
# MiniDora abstract syntax and the S-expression reader

The concrete S-expression grammar is documented at the top of `/verif/gen/progs.py`.
-/
namespace Dora.Mini

inductive Ty where
  | unit | bool | i32 | i64 | u8 | char | str
  | tuple (ts : List Ty)
  | named (n : String) (args : List Ty)   -- struct / class / enum / trait object / Option / Array / Vec
  | fn (ps : List Ty) (r : Ty)
  | tparam (n : String)
  deriving Inhabited

inductive Lit where
  | unit | bool (b : Bool) | i32 (n : Int) | i64 (n : Int) | u8 (n : Nat) | char (n : Nat) | str (s : String)
  deriving Inhabited, DecidableEq

inductive Pat where
  | wild
  | var (x : String)
  | lit (l : Lit)
  | tuple (ps : List Pat)
  | variant (en vr : String) (ps : List Pat)
  deriving Inhabited

inductive UnOp where
  | neg | not
  deriving DecidableEq, Inhabited

inductive BinOp where
  | add | sub | mul | div | mod | band | bor | bxor | shl | shr | sar
  | cmp (op : CmpOp)
  | is | isnot           -- reference identity `===` / `!==`
  deriving DecidableEq, Inhabited

inductive Expr where
  | lit (l : Lit)
  | var (x : String)
  | un (op : UnOp) (e : Expr)
  | bin (op : BinOp) (a b : Expr)
  | andalso (a b : Expr)
  | orelse (a b : Expr)
  | call (f : String) (args : List Expr)                 -- top-level function or builtin
  | scall (ty : Ty) (f : String) (args : List Expr)      -- `Type::f(args)`
  | meth (m : String) (recv : Expr) (args : List Expr)   -- `recv.m(args)`
  | callv (f : Expr) (args : List Expr)                  -- call of a lambda value
  | lambda (ps : List String) (body : Expr)
  | tuple (es : List Expr)
  | tget (e : Expr) (i : Nat)
  | new (n : String) (args : List Expr)                  -- struct or class construction
  | field (e : Expr) (f : String)
  | variant (en vr : String) (args : List Expr)
  | matchE (e : Expr) (arms : List (Pat × Expr))
  | ite (c t : Expr) (e : Option Expr)
  | block (ss : List Expr)
  | letE (p : Pat) (e : Expr)
  | assign (lhs e : Expr)
  | while (c b : Expr)
  | forRange (x : String) (lo hi b : Expr)
  | forLoop (x : String) (i hi : Int) (b : Expr)         -- internal: the running range loop
  | forEach (x : String) (coll b : Expr)                 -- `for x in coll` over an Array / Vec
  | forEachLoop (x : String) (addr i fin : Nat) (b : Expr) -- internal: the running collection loop
  | brk | cont
  | ret (e : Option Expr)
  | index (a i : Expr)
  | template (parts : List Expr)
  | asTrait (tr : String) (e : Expr)
  | at (line : Nat) (e : Expr)
  | assert (e : Expr)
  deriving Inhabited

inductive SelfKind where
  | none | self | mutating
  deriving DecidableEq, Inhabited

structure FnDecl where
  name : String
  params : List (String × Ty)
  ret : Ty
  body : Expr
  selfKind : SelfKind := .none
  line : Nat := 0
  deriving Inhabited

structure Prog where
  name : String := ""
  fns : List FnDecl := []
  structs : List (String × List (String × Ty)) := []
  classes : List (String × List (String × Ty)) := []
  enums : List (String × List (String × List Ty)) := []
  /-- instance methods keyed by (type name, method name); trait impls and inherent impls alike -/
  methods : List ((String × String) × FnDecl) := []
  /-- static functions keyed by (type name, function name) -/
  statics : List ((String × String) × FnDecl) := []
  /-- default methods of traits keyed by (trait, method) and the (type, trait) implements relation -/
  defaults : List ((String × String) × FnDecl) := []
  implements : List (String × String) := []
  globals : List (String × Expr) := []
  deriving Inhabited

/-! ## reader -/

def hexVal (c : Char) : Nat :=
  if c.toNat ≥ 97 then c.toNat - 87 else if c.toNat ≥ 65 then c.toNat - 55 else c.toNat - 48

def unHexBytes : List Char → List UInt8
  | a :: b :: r => UInt8.ofNat (hexVal a * 16 + hexVal b) :: unHexBytes r
  | _ => []

/-- hex atom (`-` = empty) to string; invalid UTF-8 gives none -/
def unHexString (s : String) : Option String :=
  if s = "-" then some "" else String.fromUTF8? (ByteArray.mk (unHexBytes s.toList).toArray)

def atomInt (s : String) : Option Int := s.toInt?

open Sexp in
partial def readTy : Sexp → Except String Ty
  | atom "Unit" => .ok .unit | atom "Bool" => .ok .bool | atom "Int32" => .ok .i32
  | atom "Int64" => .ok .i64 | atom "UInt8" => .ok .u8 | atom "Char" => .ok .char
  | atom "String" => .ok .str
  | atom n => .ok (.named n [])
  | list (atom "Tuple" :: ts) => do .ok (.tuple (← ts.mapM readTy))
  | list [atom "Fn", list ps, r] => do .ok (.fn (← ps.mapM readTy) (← readTy r))
  | list [atom "TP", atom n] => .ok (.tparam n)
  | list (atom n :: ts) => do .ok (.named n (← ts.mapM readTy))
  | s => .error ("bad type " ++ s.toStr)

open Sexp in
def readLit : Sexp → Option Lit
  | list [atom "unit"] => some .unit
  | list [atom "bool", atom "true"] => some (.bool true)
  | list [atom "bool", atom "false"] => some (.bool false)
  | list [atom "i32", atom n] => (atomInt n).map .i32
  | list [atom "i64", atom n] => (atomInt n).map .i64
  | list [atom "u8", atom n] => n.toNat?.map .u8
  | list [atom "char", atom n] => n.toNat?.map .char
  | list [atom "str", atom h] => (unHexString h).map .str
  | _ => none

open Sexp in
partial def readPat : Sexp → Except String Pat
  | list [atom "pwild"] => .ok .wild
  | list [atom "pvar", atom x] => .ok (.var x)
  | list [atom "plit", l] => match readLit l with
    | some l => .ok (.lit l) | none => .error "bad literal pattern"
  | list (atom "ptuple" :: ps) => do .ok (.tuple (← ps.mapM readPat))
  | list (atom "pvariant" :: atom en :: atom vr :: ps) => do .ok (.variant en vr (← ps.mapM readPat))
  | s => .error ("bad pattern " ++ s.toStr)

def readBinOp : String → Option BinOp
  | "add" => some .add | "sub" => some .sub | "mul" => some .mul | "div" => some .div
  | "mod" => some .mod | "band" => some .band | "bor" => some .bor | "bxor" => some .bxor
  | "shl" => some .shl | "shr" => some .shr | "sar" => some .sar
  | "eq" => some (.cmp .eq) | "ne" => some (.cmp .ne) | "lt" => some (.cmp .lt)
  | "le" => some (.cmp .le) | "gt" => some (.cmp .gt) | "ge" => some (.cmp .ge)
  | "is" => some .is | "isnot" => some .isnot
  | _ => none

open Sexp in
partial def readExpr (s : Sexp) : Except String Expr :=
  match readLit s with
  | some l => .ok (.lit l)
  | none =>
  match s with
  | list [atom "var", atom x] => .ok (.var x)
  | list [atom "un", atom "neg", e] => do .ok (.un .neg (← readExpr e))
  | list [atom "un", atom "not", e] => do .ok (.un .not (← readExpr e))
  | list [atom "bin", atom op, a, b] =>
    match readBinOp op with
    | some o => do .ok (.bin o (← readExpr a) (← readExpr b))
    | none => .error ("bad binop " ++ op)
  | list [atom "andalso", a, b] => do .ok (.andalso (← readExpr a) (← readExpr b))
  | list [atom "orelse", a, b] => do .ok (.orelse (← readExpr a) (← readExpr b))
  | list (atom "call" :: atom f :: args) => do .ok (.call f (← args.mapM readExpr))
  | list (atom "scall" :: ty :: atom f :: args) => do .ok (.scall (← readTy ty) f (← args.mapM readExpr))
  | list (atom "meth" :: atom m :: recv :: args) => do .ok (.meth m (← readExpr recv) (← args.mapM readExpr))
  | list (atom "callv" :: f :: args) => do .ok (.callv (← readExpr f) (← args.mapM readExpr))
  | list [atom "lambda", list ps, _ret, body] => do
    let names ← ps.mapM fun p => match p with
      | list [atom x, _] => Except.ok x
      | _ => .error "bad lambda parameter"
    .ok (.lambda names (← readExpr body))
  | list (atom "tuple" :: es) => do .ok (.tuple (← es.mapM readExpr))
  | list [atom "tget", e, atom i] => do
    match i.toNat? with
    | some n => .ok (.tget (← readExpr e) n)
    | none => .error "bad tuple index"
  | list (atom "new" :: atom n :: args) => do .ok (.new n (← args.mapM readExpr))
  | list [atom "field", e, atom f] => do .ok (.field (← readExpr e) f)
  | list (atom "variant" :: atom en :: atom vr :: args) => do .ok (.variant en vr (← args.mapM readExpr))
  | list (atom "match" :: e :: arms) => do
    let arms ← arms.mapM fun a => match a with
      | list [atom "arm", p, b] => do Except.ok ((← readPat p), (← readExpr b))
      | _ => .error "bad match arm"
    .ok (.matchE (← readExpr e) arms)
  | list [atom "if", c, t] => do .ok (.ite (← readExpr c) (← readExpr t) none)
  | list [atom "if", c, t, e] => do .ok (.ite (← readExpr c) (← readExpr t) (some (← readExpr e)))
  | list (atom "block" :: ss) => do .ok (.block (← ss.mapM readExpr))
  | list [atom "let", p, _ty, e] => do .ok (.letE (← readPat p) (← readExpr e))
  | list [atom "assign", l, e] => do .ok (.assign (← readExpr l) (← readExpr e))
  | list [atom "while", c, b] => do .ok (.while (← readExpr c) (← readExpr b))
  | list [atom "for", atom x, lo, hi, b] => do
    .ok (.forRange x (← readExpr lo) (← readExpr hi) (← readExpr b))
  | list [atom "foreach", atom x, c, b] => do .ok (.forEach x (← readExpr c) (← readExpr b))
  | list [atom "break"] => .ok .brk
  | list [atom "continue"] => .ok .cont
  | list [atom "return"] => .ok (.ret none)
  | list [atom "return", e] => do .ok (.ret (some (← readExpr e)))
  | list [atom "index", a, i] => do .ok (.index (← readExpr a) (← readExpr i))
  | list (atom "template" :: ps) => do .ok (.template (← ps.mapM readExpr))
  | list [atom "as", atom tr, e] => do .ok (.asTrait tr (← readExpr e))
  | list [atom "at", atom n, e] => do
    match n.toNat? with
    | some n => .ok (.at n (← readExpr e))
    | none => .error "bad line"
  | list [atom "assert", e] => do .ok (.assert (← readExpr e))
  | s => .error ("bad expression " ++ (s.toStr.take 80).toString)

open Sexp in
def readParams (ps : List Sexp) : Except String (List (String × Ty)) :=
  ps.mapM fun p => match p with
    | list [atom x, t] => do Except.ok (x, (← readTy t))
    | _ => .error "bad parameter"

open Sexp in
/-- `(fn name line (params) ret body)`; `(method kind name line (params) ret body)` -/
def readFn (kind : SelfKind) : List Sexp → Except String FnDecl
  | [atom name, atom line, list ps, ret, body] => do
    .ok { name := name, params := (← readParams ps), ret := (← readTy ret), body := (← readExpr body),
          selfKind := kind, line := line.toNat?.getD 0 }
  | _ => .error "bad function declaration"

open Sexp in
def readFields (fs : List Sexp) : Except String (List (String × Ty)) := readParams fs

open Sexp in
def readDecl (p : Prog) : Sexp → Except String Prog
  | list (atom "fn" :: rest) => do
    let f ← readFn .none rest
    .ok { p with fns := p.fns ++ [f] }
  | list (atom "struct" :: atom n :: fs) => do .ok { p with structs := p.structs ++ [(n, (← readFields fs))] }
  | list (atom "class" :: atom n :: fs) => do .ok { p with classes := p.classes ++ [(n, (← readFields fs))] }
  | list (atom "enum" :: atom n :: vs) => do
    let vs ← vs.mapM fun v => match v with
      | list (atom vn :: ts) => do Except.ok (vn, (← ts.mapM readTy))
      | _ => .error "bad enum variant"
    .ok { p with enums := p.enums ++ [(n, vs)] }
  | list (atom "impl" :: atom ty :: atom tr :: ms) => do
    -- `(impl Type Trait|- (method self|mutating|static name line (params) ret body) ...)`
    let mut q := p
    if tr ≠ "-" then q := { q with implements := q.implements ++ [(ty, tr)] }
    for m in ms do
      match m with
      | list (atom "method" :: atom "self" :: rest) =>
        let f ← readFn .self rest
        q := { q with methods := q.methods ++ [((ty, f.name), f)] }
      | list (atom "method" :: atom "mutating" :: rest) =>
        let f ← readFn .mutating rest
        q := { q with methods := q.methods ++ [((ty, f.name), f)] }
      | list (atom "method" :: atom "static" :: rest) =>
        let f ← readFn .none rest
        q := { q with statics := q.statics ++ [((ty, f.name), f)] }
      | _ => throw "bad impl member"
    .ok q
  | list (atom "trait" :: atom tr :: ms) => do
    -- only default methods carry a body: `(method self name line (params) ret body)`
    let mut q := p
    for m in ms do
      match m with
      | list (atom "method" :: atom "self" :: rest) =>
        let f ← readFn .self rest
        q := { q with defaults := q.defaults ++ [((tr, f.name), f)] }
      | list (atom "sig" :: _) => pure ()
      | _ => throw "bad trait member"
    .ok q
  | list [atom "global", atom n, _ty, e] => do .ok { p with globals := p.globals ++ [(n, (← readExpr e))] }
  | s => .error ("bad declaration " ++ (s.toStr.take 60).toString)

open Sexp in
/-- `(program name decl ...)` -/
def readProg : Sexp → Except String Prog
  | list (atom "program" :: atom name :: ds) => ds.foldlM readDecl { name := name }
  | _ => .error "expected (program name ...)"

end Dora.Mini
