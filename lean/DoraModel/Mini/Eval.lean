import DoraModel.Mini.Syntax
/-!
# MiniDora: the definitional reference interpreter

`eval : Nat → Expr → Env → M Val` is defined by recursion on the fuel only: `eval (n+1) = step (eval n)`
where `step` is a non-recursive functional that evaluates one syntactic node and reaches its
sub-terms only through its first argument.  Fuel therefore bounds the *depth* of the evaluation
(nesting of expressions, calls, loop iterations), and running out of it is the outcome `none` of
the underlying `Option` – distinct from every finished outcome.

The monad is `M = ExceptT Stop (StateT St Option)`:
* `none`                         – out of fuel,
* `some (.ok v, s)`              – value,
* `some (.error stop, s)`        – `break`/`continue`/`return` in flight, a trap, `exit`, a fatal
                                   error, or `stuck` (a dynamically ill-typed program).

Variables live in numbered cells (`St.cells`); an environment maps names to cells.  Lambdas capture
the environment, hence share the cells with their defining scope (Dora's context objects).
Structs, tuples and enum values are immutable trees inside `Val` (value semantics); class instances,
arrays, vectors and lambdas are addresses into `St.heap` (reference identity).
-/
namespace Dora.Mini

abbrev Env := List (String × Nat)

inductive Val where
  | unit
  | bool (b : Bool)
  | int (w : IW) (n : Int)
  | u8 (n : Nat)
  | char (n : Nat)
  | str (s : String)
  | tuple (vs : List Val)
  | struct (name : String) (fs : List Val)
  | enum (en vr : String) (vs : List Val)
  | ref (a : Nat)
  deriving Inhabited

inductive HObj where
  | obj (cls : String) (fs : List Val)
  | arr (vs : Array Val)
  | vec (vs : Array Val)
  | clo (ps : List String) (body : Expr) (env : Env)
  deriving Inhabited

structure St where
  out : String := ""
  cells : Array Val := #[]
  heap : Array HObj := #[]
  /-- source line of the operation being evaluated (set by `at` nodes) -/
  line : Nat := 0
  /-- dynamic call chain, innermost first: (function, line of the call site) -/
  stack : List (String × Nat) := []
  genv : Env := []
  deriving Inhabited

inductive Stop where
  | brk | cont
  | ret (v : Val)
  | trap (t : Trap)
  | exit (code : Int)
  | fatal (msg : String)
  | stuck (msg : String)
  deriving Inhabited

abbrev M := ExceptT Stop (StateT St Option)

def trap {α} (t : Trap) : M α := throw (.trap t)
def stuck {α} (msg : String) : M α := throw (.stuck msg)
def fatal {α} (msg : String) : M α := throw (.fatal msg)
/-- out of fuel -/
def oof {α} : M α := ExceptT.mk (fun _ => none)

def getSt : M St := get
def modSt (f : St → St) : M Unit := modify f

def newCell (v : Val) : M Nat := do
  let s ← getSt
  modSt fun s => { s with cells := s.cells.push v }
  pure s.cells.size

def readCell (c : Nat) : M Val := do
  let s ← getSt
  match s.cells[c]? with
  | some v => pure v
  | none => stuck "bad cell"

def writeCell (c : Nat) (v : Val) : M Unit :=
  modSt fun s => { s with cells := s.cells.setIfInBounds c v }

def alloc (o : HObj) : M Val := do
  let s ← getSt
  modSt fun s => { s with heap := s.heap.push o }
  pure (.ref s.heap.size)

def heapGet (a : Nat) : M HObj := do
  let s ← getSt
  match s.heap[a]? with
  | some o => pure o
  | none => stuck "bad address"

def heapSet (a : Nat) (o : HObj) : M Unit :=
  modSt fun s => { s with heap := s.heap.setIfInBounds a o }

def emit (t : String) : M Unit := modSt fun s => { s with out := s.out ++ t }

def lookupEnv (env : Env) (x : String) : Option Nat := (env.find? (·.1 == x)).map (·.2)

def liftE {α} (r : Except Trap α) : M α :=
  match r with
  | .ok a => pure a
  | .error t => trap t

/-! ## pure helpers -/

def charToString (n : Nat) : String := String.singleton (Char.ofNat n)

/-- what `to_string()` / a template hole prints -/
def Val.render : Val → Option String
  | .bool b => some (if b then "true" else "false")
  | .int _ n => some (intToString n)
  | .u8 n => some (toString n)
  | .char n => some (charToString n)
  | .str s => some s
  | _ => none

def litVal : Lit → Val
  | .unit => .unit | .bool b => .bool b | .i32 n => .int .w32 n | .i64 n => .int .w64 n
  | .u8 n => .u8 n | .char n => .char n | .str s => .str s

/-- equality of primitive values (`==`); `none` = not comparable in MiniDora -/
def primEq : Val → Val → Option Bool
  | .bool a, .bool b => some (a == b)
  | .int w a, .int w' b => if w = w' then some (decide (a = b)) else none
  | .u8 a, .u8 b => some (a == b)
  | .char a, .char b => some (a == b)
  | .str a, .str b => some (a == b)
  | .unit, .unit => some true
  | _, _ => none

/-- the integer reading of an ordered primitive -/
def ordKey : Val → Val → Option (Int × Int)
  | .int w a, .int w' b => if w = w' then some (a, b) else none
  | .u8 a, .u8 b => some (a, b)
  | .char a, .char b => some (a, b)
  | _, _ => none

mutual
def matchPat : Pat → Val → Option (List (String × Val))
  | .wild, _ => some []
  | .var x, v => some [(x, v)]
  | .lit l, v => match primEq (litVal l) v with
    | some true => some []
    | _ => none
  | .tuple ps, .tuple vs => matchPats ps vs
  | .variant en vr ps, .enum en' vr' vs => if en = en' ∧ vr = vr' then matchPats ps vs else none
  | _, _ => none
def matchPats : List Pat → List Val → Option (List (String × Val))
  | [], [] => some []
  | p :: ps, v :: vs => match matchPat p v with
    | some b => (matchPats ps vs).map (b ++ ·)
    | none => none
  | _, _ => none
end

def listSet {α} : List α → Nat → α → List α
  | [], _, _ => []
  | _ :: xs, 0, v => v :: xs
  | x :: xs, n+1, v => x :: listSet xs n v

def fieldIndex (fs : List (String × Ty)) (f : String) : Option Nat := fs.findIdx? (·.1 == f)

def Prog.structFields (p : Prog) (n : String) : Option (List (String × Ty)) :=
  (p.structs.find? (·.1 == n)).map (·.2)
def Prog.classFields (p : Prog) (n : String) : Option (List (String × Ty)) :=
  (p.classes.find? (·.1 == n)).map (·.2)
def Prog.findFn (p : Prog) (n : String) : Option FnDecl := p.fns.find? (·.name == n)
def Prog.findMethod (p : Prog) (ty m : String) : Option FnDecl :=
  match p.methods.find? (fun e => e.1.1 == ty && e.1.2 == m) with
  | some e => some e.2
  | none =>
    -- default method of an implemented trait
    (p.defaults.find? (fun e => e.1.2 == m && p.implements.any (fun i => i.1 == ty && i.2 == e.1.1))).map (·.2)
def Prog.findStatic (p : Prog) (ty m : String) : Option FnDecl :=
  (p.statics.find? (fun e => e.1.1 == ty && e.1.2 == m)).map (·.2)

/-- user-defined static function `ty::f` -/
def Prog.findUserStatic (p : Prog) (ty : Ty) (f : String) : Option FnDecl :=
  match ty with
  | .named n _ => p.findStatic n f
  | .i32 => p.findStatic "Int32" f
  | .i64 => p.findStatic "Int64" f
  | .bool => p.findStatic "Bool" f
  | _ => none

/-- selectors of an l-value path -/
inductive Sel where
  | field (f : String)
  | tup (i : Nat)
  deriving Inhabited

/-- split `root.f.0.g` into `(root, [f, 0, g])` -/
def lvSplit : Expr → Expr × List Sel
  | .field e f => let (r, ss) := lvSplit e; (r, ss ++ [.field f])
  | .tget e i => let (r, ss) := lvSplit e; (r, ss ++ [.tup i])
  | e => (e, [])

/-- where an assignment goes: a variable cell, an array/vector element, or (for selectors that
    start at a class instance) a plain value that must be a reference -/
inductive Base where
  | cell (c : Nat)
  | elem (a : Val) (i : Val)
  | value (v : Val)
  deriving Inhabited

/-- element type name of a value at run time (for method lookup) -/
def typeName (v : Val) : M String :=
  match v with
  | .unit => pure "Unit" | .bool _ => pure "Bool" | .int .w32 _ => pure "Int32" | .int .w64 _ => pure "Int64"
  | .u8 _ => pure "UInt8" | .char _ => pure "Char" | .str _ => pure "String"
  | .tuple _ => pure "Tuple" | .struct n _ => pure n | .enum en _ _ => pure en
  | .ref a => do
    match ← heapGet a with
    | .obj cls _ => pure cls
    | .arr _ => pure "Array"
    | .vec _ => pure "Vec"
    | .clo _ _ _ => pure "Lambda"

def checkIndex (i : Val) (size : Nat) : Option Nat :=
  match i with
  | .int .w64 n => if 0 ≤ n ∧ n < size then some n.toNat else none
  | _ => none

/-- read an array / vector element -/
def elemGet (a i : Val) : M Val := do
  match a, i with
  | .ref ad, .int .w64 _ =>
    match ← heapGet ad with
    | .arr vs => match checkIndex i vs.size with
      | some k => pure (vs[k]?.getD .unit)
      | none => trap .index
    | .vec vs => match checkIndex i vs.size with
      | some k => pure (vs[k]?.getD .unit)
      | none => fatal "index out of bounds for vector"
    | _ => stuck "index: not an array"
  | _, _ => stuck "index: bad operands"

def elemSet (a i v : Val) : M Unit := do
  match a, i with
  | .ref ad, .int .w64 _ =>
    match ← heapGet ad with
    | .arr vs => match checkIndex i vs.size with
      | some k => heapSet ad (.arr (vs.setIfInBounds k v))
      | none => trap .index
    | .vec vs => match checkIndex i vs.size with
      | some k => heapSet ad (.vec (vs.setIfInBounds k v))
      | none => fatal "index out of bounds for vector"
    | _ => stuck "index: not an array"
  | _, _ => stuck "index: bad operands"

def baseGet (b : Base) : M Val :=
  match b with
  | .cell c => readCell c
  | .elem a i => elemGet a i
  | .value v => pure v

def baseSet (b : Base) (v : Val) : M Unit :=
  match b with
  | .cell c => writeCell c v
  | .elem a i => elemSet a i v
  | .value _ => stuck "assignment to a temporary value"

/-- one selector step on a value: `(sub-value, rebuild)` for value aggregates, or the heap field for
    class instances -/
def selGet (p : Prog) (v : Val) (sel : Sel) : M Val := do
  match v, sel with
  | .struct n fs, .field f =>
    match (p.structFields n).bind (fieldIndex · f) with
    | some i => match fs[i]? with
      | some x => pure x
      | none => stuck "struct field"
    | none => stuck ("no field " ++ f)
  | .tuple vs, .tup i => match vs[i]? with
    | some x => pure x
    | none => stuck "tuple index"
  | .ref a, .field f =>
    match ← heapGet a with
    | .obj cls fs =>
      match (p.classFields cls).bind (fieldIndex · f) with
      | some i => match fs[i]? with
        | some x => pure x
        | none => stuck "class field"
      | none => stuck ("no field " ++ f)
    | _ => stuck "field of a non-object"
  | _, _ => stuck "bad selector"

/-- `v` with the component at `sels` replaced by `nv`.  Value aggregates are rebuilt (the result is a
    new value for the enclosing location); a class instance on the path is updated in place in the
    heap and the enclosing value stays what it was. -/
def selSet (p : Prog) : List Sel → Val → Val → M Val
  | [], _, nv => pure nv
  | sel :: rest, v, nv => do
    let sub ← selGet p v sel
    let sub' ← selSet p rest sub nv
    match v, sel with
    | .struct n fs, .field f =>
      match (p.structFields n).bind (fieldIndex · f) with
      | some i => pure (.struct n (listSet fs i sub'))
      | none => stuck "no field"
    | .tuple vs, .tup i => pure (.tuple (listSet vs i sub'))
    | .ref a, .field f =>
      match ← heapGet a with
      | .obj cls fs =>
        match (p.classFields cls).bind (fieldIndex · f) with
        | some i => do heapSet a (.obj cls (listSet fs i sub')); pure v
        | none => stuck "no field"
      | _ => stuck "field of a non-object"
    | _, _ => stuck "bad selector"

def selGets (p : Prog) : List Sel → Val → M Val
  | [], v => pure v
  | s :: ss, v => do selGets p ss (← selGet p v s)

/-- is this value a `Vec`?  `v(i)` on a Vec is a call of the ordinary method `Vec::get`, which returns a COPY of the
    element; only `Array` elements (and variables, fields) are places (`dora-frontend/src/generator/expr/ref_.rs`,
    `gen_expr_as_ref`: `is_array_get` → element reference, any other call → `gen_temporary_expr_as_ref`) -/
def isVecRef (a : Val) : M Bool :=
  match a with
  | .ref ad => do
    match ← heapGet ad with
    | .vec _ => pure true
    | _ => pure false
  | _ => pure false

def storeAt (p : Prog) (b : Base) (sels : List Sel) (nv : Val) : M Unit := do
  match sels with
  | [] => baseSet b nv
  | _ =>
    let cur ← baseGet b
    let upd ← selSet p sels cur nv
    match b, cur with
    | .value _, _ => pure ()          -- path went through a reference; heap already updated
    | _, .ref _ => pure ()
    | .elem a _, _ => do
      -- `w(i).f = x` with a Vec `w` stores into the temporary copy `Vec::get` returned: no effect on the vector
      if ← isVecRef a then pure () else baseSet b upd
    | _, _ => baseSet b upd

/-- write the final `self` of a `mutating` method back to where the receiver came from; a receiver that is the result
    of a call (`w(i)` on a Vec, any other expression) is a temporary -/
def storeBack (p : Prog) (b : Base) (sels : List Sel) (nv : Val) : M Unit := do
  match b, sels with
  | .elem a _, [] => do
    if ← isVecRef a then pure () else baseSet b nv
  | .value _, [] => pure ()
  | _, _ => storeAt p b sels nv

/-! ## primitive operators -/

def binInt (op : BinOp) (w : IW) (a b : Int) : M Val :=
  match op with
  | .add => do pure (.int w (← liftE (addC w a b)))
  | .sub => do pure (.int w (← liftE (subC w a b)))
  | .mul => do pure (.int w (← liftE (mulC w a b)))
  | .div => do pure (.int w (← liftE (divC w a b)))
  | .mod => do pure (.int w (← liftE (modC w a b)))
  | .band => pure (.int w (bitAnd w a b))
  | .bor => pure (.int w (bitOr w a b))
  | .bxor => pure (.int w (bitXor w a b))
  | .cmp c => pure (.bool (c.eval a b))
  | _ => stuck "binInt"

def binPrim (op : BinOp) (x y : Val) : M Val :=
  match op, x, y with
  | .shl, .int w a, .int .w32 n => do pure (.int w (← liftE (shlC w a n)))
  | .shr, .int w a, .int .w32 n => do pure (.int w (← liftE (shrC w a n)))
  | .sar, .int w a, .int .w32 n => do pure (.int w (← liftE (sarC w a n)))
  | .is, .ref a, .ref b => pure (.bool (a == b))
  | .isnot, .ref a, .ref b => pure (.bool (a != b))
  | .add, .str a, .str b => pure (.str (a ++ b))
  | .cmp .eq, x, y => match primEq x y with
    | some r => pure (.bool r)
    | none => stuck "== on incomparable values"
  | .cmp .ne, x, y => match primEq x y with
    | some r => pure (.bool (!r))
    | none => stuck "!= on incomparable values"
  | .cmp c, x, y => match ordKey x y with
    | some (a, b) => pure (.bool (c.eval a b))
    | none => stuck "comparison on incomparable values"
  | .band, .bool a, .bool b => pure (.bool (a && b))
  | .bor, .bool a, .bool b => pure (.bool (a || b))
  | .bxor, .bool a, .bool b => pure (.bool (a != b))
  | op, .int w a, .int w' b => if w = w' then binInt op w a b else stuck "mixed integer widths"
  | _, _, _ => stuck "binary operator on bad operands"

def unPrim (op : UnOp) (x : Val) : M Val :=
  match op, x with
  | .neg, .int w a => do pure (.int w (← liftE (negC w a)))
  | .not, .bool b => pure (.bool (!b))
  | .not, .int w a => pure (.int w (bitNot w a))
  | _, _ => stuck "unary operator on a bad operand"

/-- `String::hex` / `String::binary`: digits of the unsigned reading, upper case, no prefix, "0" for zero -/
def digitsUpper (base n : Nat) : String := String.ofList ((Nat.toDigits base n).map Char.toUpper)

def someV (v : Val) : Val := .enum "Option" "Some" [v]
def noneV : Val := .enum "Option" "None" []

/-- default ("zero") element of `Array[T]::zero` -/
def zeroOf : Ty → Option Val
  | .bool => some (.bool false) | .i32 => some (.int .w32 0) | .i64 => some (.int .w64 0)
  | .u8 => some (.u8 0) | .char => some (.char 0)
  | _ => none

/-- further methods of built-in types (kept apart from `primMeth` so that its case analysis stays small) -/
def primMethExt (m : String) (recv : Val) (args : List Val) : M Val :=
  match m, recv, args with
  -- `overflowing_*`: the wrapped result and whether the exact result was unrepresentable
  | "overflowing_add", .int w a, [.int w' b] =>
    if w = w' then pure (.tuple [.int w (addW w a b), .bool (!w.inRange (a + b))]) else stuck "width"
  | "overflowing_sub", .int w a, [.int w' b] =>
    if w = w' then pure (.tuple [.int w (subW w a b), .bool (!w.inRange (a - b))]) else stuck "width"
  | "overflowing_mul", .int w a, [.int w' b] =>
    if w = w' then pure (.tuple [.int w (mulW w a b), .bool (!w.inRange (a * b))]) else stuck "width"
  | "overflowing_neg", .int w a, [] => pure (.tuple [.int w (negW w a), .bool (!w.inRange (-a))])
  -- more conversions (`pkgs/std/primitives.dora`)
  | "to_char_unchecked", .int _ n, [] =>
    if isScalar n then pure (.char n.toNat) else stuck "to_char_unchecked outside the Unicode scalar values"
  | "len_utf8", .char n, [] =>
    pure (.int .w32 (if n < 0x80 then 1 else if n < 0x800 then 2 else if n < 0x10000 then 3 else 4))
  | "to_string_hex", .int w a, [] => pure (.str (digitsUpper 16 (w.toUnsigned a).toNat))
  | "to_string_hex", .u8 n, [] => pure (.str (digitsUpper 16 n))
  | "to_string_binary", .int w a, [] => pure (.str (digitsUpper 2 (w.toUnsigned a).toNat))
  | "to_string_binary", .u8 n, [] => pure (.str (digitsUpper 2 n))
  | _, _, _ => stuck ("unknown method " ++ m)

/-- methods of built-in types (`recv.m(args)`) that need no call-back into the interpreter -/
def primMeth (m : String) (recv : Val) (args : List Val) : M Val := do
  match m, recv, args with
  | "to_string", v, [] => match v.render with
    | some s => pure (.str s)
    | none => stuck "to_string"
  -- conversions
  | "to_int64", .int .w32 n, [] => pure (.int .w64 n)
  | "to_int64", .u8 n, [] => pure (.int .w64 n)
  | "to_int64", .char n, [] => pure (.int .w64 n)
  | "to_int64", .bool b, [] => pure (.int .w64 (if b then 1 else 0))
  | "to_int32", .int .w64 n, [] => pure (.int .w32 (IW.w32.wrap n))
  | "to_int32", .u8 n, [] => pure (.int .w32 n)
  | "to_int32", .char n, [] => pure (.int .w32 n)
  | "to_int32", .bool b, [] => pure (.int .w32 (if b then 1 else 0))
  | "to_uint8", .int _ n, [] => pure (.u8 (toU8 n).toNat)
  | "to_char", .u8 n, [] => pure (.char n)
  | "to_char", .int _ n, [] => pure (if isScalar n then someV (.char n.toNat) else noneV)
  -- wrapping arithmetic
  | "wrapping_add", .int w a, [.int w' b] => if w = w' then pure (.int w (addW w a b)) else stuck "width"
  | "wrapping_sub", .int w a, [.int w' b] => if w = w' then pure (.int w (subW w a b)) else stuck "width"
  | "wrapping_mul", .int w a, [.int w' b] => if w = w' then pure (.int w (mulW w a b)) else stuck "width"
  | "wrapping_neg", .int w a, [] => pure (.int w (negW w a))
  | "rotate_left", .int w a, [.int .w32 n] => pure (.int w (rotl w a n))
  | "rotate_right", .int w a, [.int .w32 n] => pure (.int w (rotr w a n))
  | "abs", .int w a, [] => do pure (.int w (← liftE (if a < 0 then negC w a else .ok a)))
  -- Option
  | "is_some", .enum "Option" vr _, [] => pure (.bool (vr == "Some"))
  | "is_none", .enum "Option" vr _, [] => pure (.bool (vr == "None"))
  | "get_or_panic", .enum "Option" "Some" [v], [] => pure v
  | "get_or_panic", .enum "Option" "None" [], [] => fatal "cannot unwrap None."
  | "unwrap_or", .enum "Option" "Some" [v], [_] => pure v
  | "unwrap_or", .enum "Option" "None" [], [d] => pure d
  -- String
  | "size", .str s, [] => pure (.int .w64 s.utf8ByteSize)
  | "is_empty", .str s, [] => pure (.bool s.isEmpty)
  -- Array / Vec
  | m, .ref a, args => do
    match m, ← heapGet a, args with
    | "size", .arr vs, [] => pure (.int .w64 vs.size)
    | "size", .vec vs, [] => pure (.int .w64 vs.size)
    | "is_empty", .arr vs, [] => pure (.bool vs.isEmpty)
    | "is_empty", .vec vs, [] => pure (.bool vs.isEmpty)
    | "push", .vec vs, [v] => do heapSet a (.vec (vs.push v)); pure .unit
    | "pop", .vec vs, [] =>
      match vs.back? with
      | some v => do heapSet a (.vec vs.pop); pure (someV v)
      | none => pure noneV
    | "first", .vec vs, [] => pure (match vs[0]? with | some v => someV v | none => noneV)
    | "last", .vec vs, [] => pure (match vs.back? with | some v => someV v | none => noneV)
    | "clear", .vec _, [] => do heapSet a (.vec #[]); pure .unit
    -- `Array::clone`, `Vec::clone`, `Vec::to_array`: a new object with the same elements (element values are copied:
    -- references stay shared, tuples / structs are values)
    | "clone", .arr vs, [] => alloc (.arr vs)
    | "clone", .vec vs, [] => alloc (.vec vs)
    | "to_array", .vec vs, [] => alloc (.arr vs)
    | "get", .arr _, [i] => elemGet recv i
    | "get", .vec _, [i] => elemGet recv i
    | "set", .arr _, [i, v] => do elemSet recv i v; pure .unit
    | "set", .vec _, [i, v] => do elemSet recv i v; pure .unit
    | _, _, _ => stuck ("unknown method " ++ m)
  | m, recv, args => primMethExt m recv args

/-- static functions of built-in types (`Type::f(args)`) -/
def primStatic (ty : Ty) (f : String) (args : List Val) : M Val :=
  match ty, f, args with
  | .i32, "max_value", [] => pure (.int .w32 IW.w32.max)
  | .i32, "min_value", [] => pure (.int .w32 IW.w32.min)
  | .i64, "max_value", [] => pure (.int .w64 IW.w64.max)
  | .i64, "min_value", [] => pure (.int .w64 IW.w64.min)
  | .named "Array" [_], "new", vs => alloc (.arr vs.toArray)
  | .named "Array" [t], "zero", [.int .w64 n] =>
    match zeroOf t with
    | some z => if 0 ≤ n ∧ n ≤ 1000000 then alloc (.arr (Array.replicate n.toNat z)) else stuck "array length outside the modelled range"
    | none => stuck "Array::zero element type"
  | .named "Array" [_], "fill", [.int .w64 n, v] =>
    if 0 ≤ n ∧ n ≤ 1000000 then alloc (.arr (Array.replicate n.toNat v)) else stuck "array length outside the modelled range"
  | .named "Vec" [_], "new", vs => alloc (.vec vs.toArray)
  | _, _, _ => stuck ("unknown static function " ++ f)

/-! ## control helpers (all monotone in their computation argument) -/

inductive Loop where
  | next | broke

/-- run a loop body: `break`/`continue` end it here -/
def catchLoop (x : M Val) : M Loop :=
  ExceptT.mk fun s =>
    match x.run s with
    | none => none
    | some (.ok _, s') => some (.ok .next, s')
    | some (.error .cont, s') => some (.ok .next, s')
    | some (.error .brk, s') => some (.ok .broke, s')
    | some (.error e, s') => some (.error e, s')

/-- run a function body: `return v` ends it here; a stray `break`/`continue` is stuck -/
def catchRet (x : M Val) : M Val :=
  ExceptT.mk fun s =>
    match x.run s with
    | none => none
    | some (.ok v, s') => some (.ok v, s')
    | some (.error (.ret v), s') => some (.ok v, s')
    | some (.error .brk, s') => some (.error (.stuck "break outside loop"), s')
    | some (.error .cont, s') => some (.error (.stuck "continue outside loop"), s')
    | some (.error e, s') => some (.error e, s')

abbrev Rec := Expr → Env → M Val

/-- operands / arguments: left to right, each exactly once, state threaded through -/
def evalList (rec : Rec) : List Expr → Env → M (List Val)
  | [], _ => pure []
  | e :: es, env => do
    let v ← rec e env
    let vs ← evalList rec es env
    pure (v :: vs)

def bindAll (env : Env) : List (String × Val) → M Env
  | [] => pure env
  | (x, v) :: rest => do
    let c ← newCell v
    bindAll ((x, c) :: env) rest

/-- one statement of a block: its value and the environment for the following statements
    (`let` binds the variables of its pattern to fresh cells) -/
def evalStmt (rec : Rec) (e : Expr) (env : Env) : M (Val × Env) :=
  match e with
  | .at l (.letE p a) => do
    modSt fun s => { s with line := l }
    let v ← rec a env
    match matchPat p v with
    | some bs => do pure (.unit, ← bindAll env bs)
    | none => stuck "let pattern does not match"
  | .letE p a => do
    let v ← rec a env
    match matchPat p v with
    | some bs => do pure (.unit, ← bindAll env bs)
    | none => stuck "let pattern does not match"
  | e => do
    let v ← rec e env
    pure (v, env)

/-- statements of a block in order; `let` extends the environment of the following statements;
    the value of the block is the value of its last statement -/
def evalBlock (rec : Rec) : List Expr → Env → M Val
  | [], _ => pure .unit
  | e :: rest, env => do
    let (v, env') ← evalStmt rec e env
    if rest.isEmpty then pure v else evalBlock rec rest env'

/-- first matching arm -/
def evalArms (rec : Rec) (v : Val) : List (Pat × Expr) → Env → M Val
  | [], _ => stuck "no match arm applies"
  | (p, body) :: rest, env =>
    match matchPat p v with
    | some bs => do rec body (← bindAll env bs)
    | none => evalArms rec v rest env

/-- call of a declared function / method with evaluated arguments -/
def callDecl (rec : Rec) (d : FnDecl) (self : Option Val) (args : List Val) : M Val := do
  if d.params.length ≠ args.length then stuck ("arity of " ++ d.name) else
  let s ← getSt
  let env0 ← match self with
    | some sv => bindAll s.genv [("self", sv)]
    | none => pure s.genv
  let env ← bindAll env0 (d.params.map (·.1) |>.zip args)
  modSt fun s => { s with stack := (d.name, s.line) :: s.stack }
  let r ← catchRet (rec d.body env)
  modSt fun s' => { s' with stack := s'.stack.drop 1, line := s.line }
  pure r

/-- like `callDecl` for a `mutating` method: returns the result and the final value of `self` -/
def callMutating (rec : Rec) (d : FnDecl) (self : Val) (args : List Val) : M (Val × Val) := do
  if d.params.length ≠ args.length then stuck ("arity of " ++ d.name) else
  let s ← getSt
  let c ← newCell self
  let env ← bindAll (("self", c) :: s.genv) (d.params.map (·.1) |>.zip args)
  modSt fun s => { s with stack := (d.name, s.line) :: s.stack }
  let r ← catchRet (rec d.body env)
  modSt fun s' => { s' with stack := s'.stack.drop 1, line := s.line }
  pure (r, ← readCell c)

def callClosure (rec : Rec) (f : Val) (args : List Val) : M Val := do
  match f with
  | .ref a =>
    match ← heapGet a with
    | .clo ps body cenv =>
      if ps.length ≠ args.length then stuck "arity of lambda" else
      let env ← bindAll cenv (ps.zip args)
      let s ← getSt
      modSt fun s => { s with stack := ("<lambda>", s.line) :: s.stack }
      let r ← catchRet (rec body env)
      modSt fun s' => { s' with stack := s'.stack.drop 1, line := s.line }
      pure r
    | _ => stuck "call of a non-lambda"
  | _ => stuck "call of a non-lambda"

/-- `Array[T]::fill_with(len, f)`: `f(0)`, `f(1)`, … `f(len-1)` in this order, each exactly once
    (`pkgs/std/collections.dora`: a `while i < len` loop storing `fct(i)`) -/
def fillWith (rec : Rec) (f : Val) : Nat → Nat → M (List Val)
  | _, 0 => pure []
  | i, k + 1 => do
    let v ← callClosure rec f [.int .w64 i]
    let vs ← fillWith rec f (i + 1) k
    pure (v :: vs)

/-- resolve the root of an l-value / receiver path -/
def evalBase (rec : Rec) (root : Expr) (env : Env) : M Base :=
  match root with
  | .var x => match lookupEnv env x with
    | some c => pure (.cell c)
    | none => stuck ("unbound variable " ++ x)
  | .index a i => do
    let av ← rec a env
    let iv ← rec i env
    pure (.elem av iv)
  | e => do pure (.value (← rec e env))

/-- builtin functions -/
def callBuiltin (f : String) (args : List Val) : M Val :=
  match f, args with
  | "print", [.str s] => do emit s; pure .unit
  | "println", [.str s] => do emit (s ++ "\n"); pure .unit
  | "exit", [.int .w32 n] => throw (.exit n)
  | "unreachable", [] => fatal "unreachable code executed."
  | "fatal_error", [.str s] => fatal s
  | _, _ => stuck ("unknown function " ++ f)

/-- One node.  Sub-terms are reached only through `rec`. -/
def step (p : Prog) (rec : Rec) (e : Expr) (env : Env) : M Val :=
  match e with
  | .lit l => pure (litVal l)
  | .var x =>
    match lookupEnv env x with
    | some c => readCell c
    | none => stuck ("unbound variable " ++ x)
  | .un op a => do
    let v ← rec a env
    unPrim op v
  | .bin op a b => do
    let x ← rec a env
    let y ← rec b env
    binPrim op x y
  | .andalso a b => do
    match ← rec a env with
    | .bool true => rec b env
    | .bool false => pure (.bool false)
    | _ => stuck "&& on non-bool"
  | .orelse a b => do
    match ← rec a env with
    | .bool true => pure (.bool true)
    | .bool false => rec b env
    | _ => stuck "|| on non-bool"
  | .call f args => do
    let vs ← evalList rec args env
    match p.findFn f with
    | some d => callDecl rec d none vs
    | none => callBuiltin f vs
  | .scall ty f args => do
    let vs ← evalList rec args env
    match p.findUserStatic ty f with
    | some d => callDecl rec d none vs
    | none =>
      match ty, f, vs with
      | .named "Array" [_], "fill_with", [.int .w64 n, fv] =>
        if 0 ≤ n ∧ n ≤ 1000000 then do
          let vs ← fillWith rec fv 0 n.toNat
          alloc (.arr vs.toArray)
        else stuck "array length outside the modelled range"
      | _, _, _ => primStatic ty f vs
  | .meth m recv args => do
    let (root, sels) := lvSplit recv
    let base ← evalBase rec root env
    let b0 ← baseGet base
    let rv ← selGets p sels b0
    let vs ← evalList rec args env
    let tn ← typeName rv
    match p.findMethod tn m with
    | some d =>
      match d.selfKind with
      | .mutating => do
        let (r, self') ← callMutating rec d rv vs
        storeBack p base sels self'
        pure r
      | _ => callDecl rec d (some rv) vs
    | none => primMeth m rv vs
  | .callv f args => do
    let fv ← rec f env
    let vs ← evalList rec args env
    callClosure rec fv vs
  | .lambda ps body => alloc (.clo ps body env)
  | .tuple es => do pure (.tuple (← evalList rec es env))
  | .tget a i => do
    match ← rec a env with
    | .tuple vs => match vs[i]? with
      | some v => pure v
      | none => stuck "tuple index"
    | _ => stuck "tuple projection of a non-tuple"
  | .new n args => do
    let vs ← evalList rec args env
    match p.structFields n with
    | some fs => if fs.length = vs.length then pure (.struct n vs) else stuck "struct arity"
    | none => match p.classFields n with
      | some fs => if fs.length = vs.length then alloc (.obj n vs) else stuck "class arity"
      | none => stuck ("unknown type " ++ n)
  | .field a f => do
    let v ← rec a env
    selGet p v (.field f)
  | .variant en vr args => do pure (.enum en vr (← evalList rec args env))
  | .matchE a arms => do
    let v ← rec a env
    evalArms rec v arms env
  | .ite c t el => do
    match ← rec c env with
    | .bool true => rec t env
    | .bool false => match el with
      | some x => rec x env
      | none => pure .unit
    | _ => stuck "if on non-bool"
  | .block ss => evalBlock rec ss env
  | .letE _ a => do let _ ← rec a env; pure .unit   -- a `let` outside a block binds nothing visible
  | .assign lhs a => do
    let (root, sels) := lvSplit lhs
    let base ← evalBase rec root env
    let v ← rec a env
    storeAt p base sels v
    pure .unit
  | .while c b => do
    match ← rec c env with
    | .bool true => do
      match ← catchLoop (rec b env) with
      | .next => rec (.while c b) env
      | .broke => pure .unit
    | .bool false => pure .unit
    | _ => stuck "while on non-bool"
  | .forRange x lo hi b => do
    match ← rec lo env, ← rec hi env with
    | .int .w64 l, .int .w64 h => rec (.forLoop x l h b) env
    | _, _ => stuck "range bounds"
  | .forLoop x i hi b =>
    if i < hi then do
      let c ← newCell (.int .w64 i)
      match ← catchLoop (rec b ((x, c) :: env)) with
      | .next => rec (.forLoop x (i + 1) hi b) env
      | .broke => pure .unit
    else pure .unit
  | .forEach x coll b => do
    -- `pkgs/std/collections.dora` ArrayIter / VecIter: the end is the size when the loop starts
    match ← rec coll env with
    | .ref a => do
      match ← heapGet a with
      | .arr vs => rec (.forEachLoop x a 0 vs.size b) env
      | .vec vs => rec (.forEachLoop x a 0 vs.size b) env
      | _ => stuck "for over a non-collection"
    | _ => stuck "for over a non-collection"
  | .forEachLoop x a i fin b =>
    -- every step reads the element the collection holds NOW (`self.array(self.idx)` / `Vec::get`, bounds-checked)
    if i < fin then do
      let v ← elemGet (.ref a) (.int .w64 i)
      let c ← newCell v
      match ← catchLoop (rec b ((x, c) :: env)) with
      | .next => rec (.forEachLoop x a (i + 1) fin b) env
      | .broke => pure .unit
    else pure .unit
  | .brk => throw .brk
  | .cont => throw .cont
  | .ret none => throw (.ret .unit)
  | .ret (some a) => do throw (.ret (← rec a env))
  | .index a i => do
    let av ← rec a env
    let iv ← rec i env
    elemGet av iv
  | .template parts => do
    let vs ← evalList rec parts env
    match vs.mapM Val.render with
    | some ss => pure (.str (String.join ss))
    | none => stuck "template hole is not printable"
  | .asTrait _ a => rec a env
  | .at l a => do
    modSt fun s => { s with line := l }
    rec a env
  | .assert a => do
    match ← rec a env with
    | .bool true => pure .unit
    | .bool false => trap .assert
    | _ => stuck "assert on non-bool"

/-- the fuelled interpreter: fuel bounds the evaluation depth -/
def eval (p : Prog) : Nat → Expr → Env → M Val
  | 0 => fun _ _ => oof
  | n + 1 => step p (eval p n)

/-! ## whole programs -/

/-- how a run ends -/
inductive Outcome where
  | exit (status : Nat)            -- main returned / `exit` was called
  | trap (t : Trap)                -- status 101 + id, message on stderr
  | fatal (msg : String)           -- `fatal error: msg`, status 1
  | stuck (msg : String)           -- the program is not a (dynamically) well-typed MiniDora program
  | outOfFuel
  deriving Inhabited

def statusByte (n : Int) : Nat := (n % 256).toNat

/-- initialise globals in order, then call `main` -/
def runMain (p : Prog) (fuel : Nat) : M Val := do
  let rec initGlobals : List (String × Expr) → M Unit
    | [] => pure ()
    | (g, e) :: rest => do
      let s ← getSt
      let v ← eval p fuel e s.genv
      let c ← newCell v
      modSt fun s => { s with genv := (g, c) :: s.genv }
      initGlobals rest
  initGlobals p.globals
  match p.findFn "main" with
  | some d => callDecl (eval p fuel) d none []
  | none => stuck "no main"

def runProg (p : Prog) (fuel : Nat) : String × Outcome × St :=
  match (runMain p fuel).run {} with
  | none => ("", .outOfFuel, {})
  | some (r, s) =>
    let o : Outcome := match r with
      | .ok (.int _ n) => .exit (statusByte n)
      | .ok _ => .exit 0
      | .error (.trap t) => .trap t
      | .error (.exit c) => .exit (statusByte c)
      | .error (.fatal m) => .fatal m
      | .error (.stuck m) => .stuck m
      | .error (.ret _) => .stuck "return escaped"
      | .error .brk => .stuck "break escaped"
      | .error .cont => .stuck "continue escaped"
    (s.out, o, s)

end Dora.Mini
