/-!
# S-expressions: the program format read by the MiniDora reference interpreter

`gen/progs.py` emits every generated program twice from the same internal AST: as Dora source and as
an S-expression (documented at the top of `gen/progs.py`).  Atoms are maximal runs of characters
other than blanks and parentheses; string literals travel as lower-case hex atoms, so the reader needs
no quoting rules.  This file imports nothing.
-/
namespace Dora.Mini

inductive Sexp where
  | atom (s : String)
  | list (xs : List Sexp)
  deriving Inhabited

namespace Sexp

/-- tokens: "(" , ")" and atoms -/
def tokenizeAux : List Char → List Char → List String → List String
  | [], cur, acc => (if cur.isEmpty then acc else String.ofList cur.reverse :: acc).reverse
  | c :: cs, cur, acc =>
    let flush := if cur.isEmpty then acc else String.ofList cur.reverse :: acc
    if c = '(' then tokenizeAux cs [] ("(" :: flush)
    else if c = ')' then tokenizeAux cs [] (")" :: flush)
    else if c = ' ' ∨ c = '\n' ∨ c = '\t' ∨ c = '\r' then tokenizeAux cs [] flush
    else tokenizeAux cs (c :: cur) acc

def tokenize (s : String) : List String := tokenizeAux s.toList [] []

/-- stack-based reader: `stack` holds the reversed partial lists of the open parentheses,
    innermost first; the last entry collects the top-level forms -/
def parseAux : List String → List (List Sexp) → Except String (List Sexp)
  | [], [top] => .ok top.reverse
  | [], _ => .error "unbalanced: missing )"
  | t :: ts, stack =>
    if t = "(" then parseAux ts ([] :: stack)
    else if t = ")" then
      match stack with
      | cur :: parent :: rest => parseAux ts ((Sexp.list cur.reverse :: parent) :: rest)
      | _ => .error "unbalanced: extra )"
    else
      match stack with
      | cur :: rest => parseAux ts ((Sexp.atom t :: cur) :: rest)
      | [] => .error "internal: empty stack"

/-- all top-level forms of a text -/
def parseAll (s : String) : Except String (List Sexp) := parseAux (tokenize s) [[]]

partial def toStr : Sexp → String
  | atom s => s
  | list xs => "(" ++ " ".intercalate (xs.map toStr) ++ ")"

end Sexp
end Dora.Mini
