/-!
# MiniDora primitive operations (the arithmetic core of the reference semantics)

Integers are modelled as mathematical `Int`s together with a width (`IW.w32` / `IW.w64`); a value of
width `w` is always kept inside `[w.min, w.max]`.  Every operation either returns the value the
language prescribes or the trap the language prescribes (`Except Trap Int`).

Facts about Dora that were established by reading `pkgs/std/primitives.dora`, the baseline code
generator (`dora-cannon-compiler/src/codegen.rs`, `masm/x64.rs`) and by running programs with both
code generators:

* `+ - *` and unary `-` on Int32/Int64 trap `overflow` when the exact result is not representable;
* `/` and `%` trap `division by 0` for a zero divisor, `overflow` for `MIN / -1` **and** `MIN % -1`;
  otherwise they truncate toward zero (`-7 / 2 = -3`, `-7 % 2 = -1`);
* `wrapping_add/sub/mul/neg` reduce modulo 2^n (two's complement);
* `<<`, `>>` (arithmetic), `>>>` (logical) take an Int32 amount and trap `shift amount out of bounds`
  unless `0 ≤ amount < bits`; `<<` discards the bits shifted out (wraps);
* `rotate_left/right` mask the amount to `bits - 1`;
* conversions: `Int64.to_int32`, `Int32/Int64.to_uint8` truncate (keep the low bits);
  `Int32.to_int64`, `UInt8.to_int32/64`, `Char.to_int32/64` are exact; `UInt8.to_char` is exact;
  `Int32/Int64.to_char` yields `None` outside the Unicode scalar values.

This file imports nothing.
-/
namespace Dora.Mini

/-- the trap kinds of `dora-runtime/src/stdlib.rs::trap`; exit status is `101 + id` -/
inductive Trap where
  | div0 | assert | index | nil | cast | oom | stackOverflow | illegal | overflow | shift
  deriving DecidableEq, Repr, Inhabited

def Trap.id : Trap → Nat
  | .div0 => 0 | .assert => 1 | .index => 2 | .nil => 3 | .cast => 4 | .oom => 5
  | .stackOverflow => 6 | .illegal => 7 | .overflow => 8 | .shift => 9

def Trap.status (t : Trap) : Nat := 101 + t.id

/-- first line the runtime prints on stderr -/
def Trap.message : Trap → String
  | .div0 => "division by 0" | .assert => "assert failed" | .index => "array index out of bounds"
  | .nil => "nil check failed" | .cast => "cast failed" | .oom => "out of memory"
  | .stackOverflow => "stack overflow" | .illegal => "illegal state" | .overflow => "overflow"
  | .shift => "shift amount out of bounds"

/-- short name used in the line protocol -/
def Trap.name : Trap → String
  | .div0 => "div0" | .assert => "assert" | .index => "index" | .nil => "nil" | .cast => "cast"
  | .oom => "oom" | .stackOverflow => "stackoverflow" | .illegal => "illegal" | .overflow => "overflow"
  | .shift => "shift"

/-- integer width -/
inductive IW where
  | w32 | w64
  deriving DecidableEq, Repr, Inhabited

def IW.bits : IW → Nat
  | .w32 => 32 | .w64 => 64

/-- 2^bits -/
def IW.modulus (w : IW) : Int := (2 : Int) ^ w.bits
/-- 2^(bits-1) -/
def IW.half (w : IW) : Int := (2 : Int) ^ (w.bits - 1)
def IW.min (w : IW) : Int := - w.half
def IW.max (w : IW) : Int := w.half - 1

def IW.inRange (w : IW) (x : Int) : Bool := decide (w.min ≤ x) && decide (x ≤ w.max)

/-- two's-complement reduction into `[min, max]` -/
def IW.wrap (w : IW) (x : Int) : Int := (x + w.half) % w.modulus - w.half

/-- the unsigned reading of a (signed) value -/
def IW.toUnsigned (w : IW) (x : Int) : Int := x % w.modulus

def IW.checked (w : IW) (x : Int) : Except Trap Int :=
  if w.inRange x then .ok x else .error .overflow

def addC (w : IW) (a b : Int) : Except Trap Int := w.checked (a + b)
def subC (w : IW) (a b : Int) : Except Trap Int := w.checked (a - b)
def mulC (w : IW) (a b : Int) : Except Trap Int := w.checked (a * b)
def negC (w : IW) (a : Int) : Except Trap Int := w.checked (- a)

def divC (w : IW) (a b : Int) : Except Trap Int :=
  if b = 0 then .error .div0
  else if a = w.min ∧ b = -1 then .error .overflow
  else .ok (Int.tdiv a b)

def modC (w : IW) (a b : Int) : Except Trap Int :=
  if b = 0 then .error .div0
  else if a = w.min ∧ b = -1 then .error .overflow
  else .ok (Int.tmod a b)

def addW (w : IW) (a b : Int) : Int := w.wrap (a + b)
def subW (w : IW) (a b : Int) : Int := w.wrap (a - b)
def mulW (w : IW) (a b : Int) : Int := w.wrap (a * b)
def negW (w : IW) (a : Int) : Int := w.wrap (- a)

/-- shift amount check: `0 ≤ n < bits` -/
def IW.shiftOk (w : IW) (n : Int) : Bool := decide (0 ≤ n) && decide (n < w.bits)

def shlC (w : IW) (a n : Int) : Except Trap Int :=
  if w.shiftOk n then .ok (w.wrap (a * 2 ^ n.toNat)) else .error .shift

/-- arithmetic shift right (`>>`, trait `Sar`): floor division by 2^n -/
def sarC (w : IW) (a n : Int) : Except Trap Int :=
  if w.shiftOk n then .ok (a / 2 ^ n.toNat) else .error .shift

/-- logical shift right (`>>>`, trait `Shr`) -/
def shrC (w : IW) (a n : Int) : Except Trap Int :=
  if w.shiftOk n then .ok (w.wrap (w.toUnsigned a / 2 ^ n.toNat)) else .error .shift

def rotl (w : IW) (a n : Int) : Int :=
  let k := (n % w.bits).toNat
  let u := w.toUnsigned a
  w.wrap ((u * 2 ^ k) % w.modulus + u / 2 ^ (w.bits - k))

def rotr (w : IW) (a n : Int) : Int :=
  let k := (n % w.bits).toNat
  let u := w.toUnsigned a
  w.wrap (u / 2 ^ k + (u * 2 ^ (w.bits - k)) % w.modulus)

/-- bitwise operations go through the unsigned reading (Nat bit ops) -/
def bitAnd (w : IW) (a b : Int) : Int := w.wrap ((w.toUnsigned a).toNat &&& (w.toUnsigned b).toNat : Nat)
def bitOr (w : IW) (a b : Int) : Int := w.wrap ((w.toUnsigned a).toNat ||| (w.toUnsigned b).toNat : Nat)
def bitXor (w : IW) (a b : Int) : Int := w.wrap ((w.toUnsigned a).toNat ^^^ (w.toUnsigned b).toNat : Nat)
def bitNot (_w : IW) (a : Int) : Int := - a - 1

/-- narrowing to UInt8: low eight bits -/
def toU8 (a : Int) : Int := a % 256

/-- is `n` a Unicode scalar value -/
def isScalar (n : Int) : Bool :=
  (decide (0 ≤ n) && decide (n < 0xD800)) || (decide (0xE000 ≤ n) && decide (n ≤ 0x10FFFF))

/-- comparison result used by `cmp` -/
inductive CmpOp where
  | eq | ne | lt | le | gt | ge
  deriving DecidableEq, Repr, Inhabited

def CmpOp.eval (op : CmpOp) (a b : Int) : Bool :=
  match op with
  | .eq => decide (a = b) | .ne => decide (a ≠ b) | .lt => decide (a < b)
  | .le => decide (a ≤ b) | .gt => decide (a > b) | .ge => decide (a ≥ b)

/-- decimal rendering (what `to_string` prints for Int32/Int64/UInt8) -/
def intToString (a : Int) : String :=
  if a < 0 then "-" ++ toString a.natAbs else toString a.toNat

end Dora.Mini
