import DoraModel.Mini.Prim

/-!
# The algebraic simplifications of the optimizing code generator (`pkgs/boots/simplification.dora`)

`SimplificationPass.run` (simplification.dora:18) visits every instruction of the SSA graph once and
asks `simplify_inst` (simplification.dora:32) for a replacement.  A replacement is always either
*an operand of the instruction*, *a constant*, or (for the two value-less checks `CheckDivZero` and
`CheckShiftAmount`) *nothing* — the instruction is deleted.  So a rule can be stated on ONE instruction
whose operands are either constants or opaque SSA values; this file does exactly that:

* `IOpd` / `BOpd` — an integer / Bool operand: a constant or an opaque value `var i`;
* `Expr` — one instruction (`Not`, `Neg`, `CheckedNeg`, the six wrapping binary ops, the five checked
  binary ops, the ten comparisons, `CheckDivZero`, `CheckShiftAmount`) or one of the three possible
  replacements (`int o`, `bool o`, `removed`);
* `eval` — the meaning of an instruction, value or trap, built from `DoraModel.Mini.Prim`;
* `simplifyO` — the rule set, transcribed function by function; result `keep` (Dora `None`),
  `replace e'` (Dora `Some(inst)`, resp. `inst.remove()` for the checks) or `panic` (an `assert` of the
  pass fails); `simplify : Expr → Option Expr` forgets the difference between `keep` and `panic`;
* `simplify_sound` — a rule never changes the outcome: same value, same trap, never trap ↔ value.

## How the graph encodes trapping division and shifts

`emit_div_mod` (bytecode_graph_builder.dora:1677) translates `a / b` into TWO instructions,
`CheckDivZero(b)` (traps `division by 0`) followed by `CheckedDiv(a, b)` (traps `overflow` for
`MIN / -1`, x64.dora:381); `emit_shift` (:1658) translates `a << n` into `CheckShiftAmount(n)` followed by
`Shl(a, n)`.  In this model `cbin .div` / `cbin .mod` carry the semantics of the *pair* (`divC`/`modC` of
Prim: `div0` for a zero divisor) — the strongest reading, under which a fold of `CheckedDiv(c, 0)` would
be a lost trap — and the two checks are modelled as instructions of their own with result `unit`.
`Shl/Shr/Sar` themselves have no rule in simplification.dora (they fall into `_ => None`, :64).

## Rules that are NOT modelled (and why)

* `Add/Sub/Mul` with operation type `Float32/Float64/Address`: `simplify_wrapping_binary` returns `None`
  for them (`!is_int32_or_int64`, :104/:117/:130; float constants are not `get_int_const`), so there is no
  rule to model; floats and addresses are outside `Prim`.
* `simplify_compare` excludes float comparisons (`!ty.is_any_float()`, :268 — `NaN != NaN`) and an
  `Undef` operand (`lhs.op() != Op::Undef`); the operand language here has neither floats nor `Undef`.
* Comparisons with operation type `Char`/`Ptr`/…: `get_int_const` knows only Int32/Int64/UInt8 constants
  and the same-operand rule is type independent; `ITy` covers Int32, Int64, UInt8.
* `Neg` with a float operation type: `get_int_const` is `None`, no rule.
* Everything else (`Phi`, loads/stores, control flow, `Shl/Shr/Sar`, `Div/Mod` (wrapping), conversions,
  `IsXOverflowing`) has no rule in this pass: `_ => None` (:64).
* The effect of the replacement on the rest of the graph (`replace_all_uses_with`, `remove`, the
  hash-consing of constants in `ensure_const_*_inst`) is graph surgery, not arithmetic.

## Modelling assumptions

* `lhs === rhs` (object identity of two `Inst`s) is modelled as equality of operands.  For `var i` that is
  the definition of `i`; for constants it assumes they were created through `Graph.ensure_const_*_inst`
  (graph.dora:188/201), which hash-conses by value.  Soundness does not depend on it (it only decides
  *whether* a same-operand rule fires on two constants, and those rules are proved for any operand).
* `Int32/Int64.overflowing_{add,sub,mul,div,mod,neg}` and `wrapping_*` are intrinsics
  (pkgs/std/primitives.dora:107–134, 490–517); their meaning is taken to be the usual one
  (`(wrapped result, did the exact result leave the range)`, `MIN / -1 ↦ (MIN, true)`,
  `MIN % -1 ↦ (0, true)`), see `ovfAdd` … `ovfNeg` below.
* `value.to_int32()` on the `Int64` obtained from `get_int_const` is `IW.wrap`; for an Int64 operation the
  value is used as it is, which for a value in range is also `IW.wrap`.

## Spot checks against the real compiler (2026-09-23, `dora compile --emit-graph f --emit-graph-after-each-pass`)

Graph after the pass "simplification": `(x + 0) * 1 - 0` ↦ `Ret x`; `x / 1 + x % 1` ↦ `Ret x` and both
`CheckDivZero(1)` gone; `(x & x) | (x ^ x) | (x - x) | (x * 0)` ↦ `Ret x`; `x == x` ↦ `Const.True`,
`x < x` ↦ `Const.False` and the `Not` of it ↦ `Const.True`; `2147483647.wrapping_add(1)` ↦
`Const.Int32(#-2147483648)`; `CheckShiftAmount(3)` gone.  NOT changed: `x / x` (`CheckDivZero x;
CheckedDiv x, x` stay), `5 / 0`, `CheckedAdd 2147483647, 1`, `CheckedDiv MIN, -1` (only its
`CheckDivZero(-1)` goes), `CheckedMod MIN, -1`, `CheckedNeg MIN`, `CheckShiftAmount(32)`; the binaries exit
with status 109 (`overflow`) for the four overflow cases.
-/
namespace Dora.Mini.Simp

open Dora.Mini

/-! ## Syntax -/

/-- an integer operand: `Int32Const`/`Int64Const`/`UInt8Const` (graph.dora:1388 `get_int_const`) or any
other SSA value -/
inductive IOpd where
  | const (c : Int)
  | var (i : Nat)
  deriving DecidableEq, Repr, Inhabited

/-- a Bool operand: `TrueConst`/`FalseConst` (graph.dora:1102 `get_bool_const`) or any other SSA value -/
inductive BOpd where
  | const (b : Bool)
  | var (i : Nat)
  deriving DecidableEq, Repr, Inhabited

/-- operation type of an integer comparison -/
inductive ITy where
  | i32 | i64 | u8
  deriving DecidableEq, Repr, Inhabited

/-- `Op::Add | Sub | Mul | And | Or | Xor` (simplification.dora:38) -/
inductive WOp where
  | add | sub | mul | and | or | xor
  deriving DecidableEq, Repr, Inhabited

/-- `Op::CheckedAdd | CheckedSub | CheckedMul | CheckedDiv | CheckedMod` (simplification.dora:44) -/
inductive COp where
  | add | sub | mul | div | mod
  deriving DecidableEq, Repr, Inhabited

/-- `Op::Equal … Op::UnsignedLessOrEqual` (simplification.dora:50) -/
inductive Cmp where
  | eq | ne | gt | ge | lt | le | ugt | uge | ult | ule
  deriving DecidableEq, Repr, Inhabited

/-- one instruction, or what it is replaced by -/
inductive Expr where
  /-- replacement: an existing integer value or an integer constant -/
  | int (o : IOpd)
  /-- replacement: an existing Bool value or `TrueConst`/`FalseConst` -/
  | bool (o : BOpd)
  /-- replacement of a value-less check: the instruction is deleted -/
  | removed
  /-- `Op::Not` with operation type Bool -/
  | not (a : BOpd)
  /-- `Op::Not` with operation type Int32/Int64 (bitwise complement) -/
  | inot (w : IW) (a : IOpd)
  /-- `Op::Neg` (`checked = false`) / `Op::CheckedNeg` (`checked = true`) -/
  | neg (checked : Bool) (w : IW) (a : IOpd)
  | wbin (op : WOp) (w : IW) (a b : IOpd)
  | cbin (op : COp) (w : IW) (a b : IOpd)
  /-- comparison with an integer operation type -/
  | icmp (op : Cmp) (ty : ITy) (a b : IOpd)
  /-- comparison with operation type Bool -/
  | bcmp (op : Cmp) (a b : BOpd)
  /-- `Op::CheckDivZero` (input Int32 or Int64, verifier.dora:185) -/
  | checkDivZero (a : IOpd)
  /-- `Op::CheckShiftAmount`; `w` is the type of the shifted value, the input is an Int32
  (verifier.dora:187) -/
  | checkShift (w : IW) (a : IOpd)
  deriving DecidableEq, Repr, Inhabited

/-! ## Semantics -/

inductive Val where
  | int (v : Int)
  | bool (b : Bool)
  | unit
  deriving DecidableEq, Repr, Inhabited

/-- values of the opaque operands -/
structure Env where
  int : Nat → Int
  bool : Nat → Bool

def IOpd.eval (env : Env) : IOpd → Int
  | .const c => c
  | .var i => env.int i

def BOpd.eval (env : Env) : BOpd → Bool
  | .const b => b
  | .var i => env.bool i

def ITy.inRange : ITy → Int → Bool
  | .i32, x => IW.w32.inRange x
  | .i64, x => IW.w64.inRange x
  | .u8, x => decide (0 ≤ x) && decide (x ≤ 255)

/-- 2^bits of the type -/
def ITy.modulus : ITy → Int
  | .i32 => IW.w32.modulus
  | .i64 => IW.w64.modulus
  | .u8 => 256

/-- unsigned reading -/
def ITy.toUnsigned (ty : ITy) (x : Int) : Int := x % ty.modulus

def WOp.eval (op : WOp) (w : IW) (a b : Int) : Int :=
  match op with
  | .add => addW w a b | .sub => subW w a b | .mul => mulW w a b
  | .and => bitAnd w a b | .or => bitOr w a b | .xor => bitXor w a b

def COp.eval (op : COp) (w : IW) (a b : Int) : Except Trap Int :=
  match op with
  | .add => addC w a b | .sub => subC w a b | .mul => mulC w a b
  | .div => divC w a b | .mod => modC w a b

def Cmp.base : Cmp → CmpOp
  | .eq => .eq | .ne => .ne
  | .gt | .ugt => .gt | .ge | .uge => .ge | .lt | .ult => .lt | .le | .ule => .le

def Cmp.isUnsigned : Cmp → Bool
  | .ugt | .uge | .ult | .ule => true
  | _ => false

def Cmp.evalInt (op : Cmp) (ty : ITy) (a b : Int) : Bool :=
  if op.isUnsigned then op.base.eval (ty.toUnsigned a) (ty.toUnsigned b) else op.base.eval a b

/-- Bool is ordered `false < true`; signed and unsigned readings coincide -/
def Cmp.evalBool (op : Cmp) (a b : Bool) : Bool :=
  op.base.eval (a.toNat : Int) (b.toNat : Int)

def okInt (r : Except Trap Int) : Except Trap Val := r.map Val.int

/-- meaning of one instruction: a value or a trap -/
def eval (env : Env) : Expr → Except Trap Val
  | .int o => .ok (.int (o.eval env))
  | .bool o => .ok (.bool (o.eval env))
  | .removed => .ok .unit
  | .not a => .ok (.bool (!(a.eval env)))
  | .inot w a => .ok (.int (bitNot w (a.eval env)))
  | .neg false w a => .ok (.int (negW w (a.eval env)))
  | .neg true w a => okInt (negC w (a.eval env))
  | .wbin op w a b => .ok (.int (op.eval w (a.eval env) (b.eval env)))
  | .cbin op w a b => okInt (op.eval w (a.eval env) (b.eval env))
  | .icmp op ty a b => .ok (.bool (op.evalInt ty (a.eval env) (b.eval env)))
  | .bcmp op a b => .ok (.bool (op.evalBool (a.eval env) (b.eval env)))
  | .checkDivZero a => if a.eval env = 0 then .error .div0 else .ok .unit
  | .checkShift w a => if w.shiftOk (a.eval env) then .ok .unit else .error .shift

/-! ### Which operand values are admissible

An operand of an Int32 instruction holds an Int32 and so on.  `Expr.InRange env e` says that every
integer operand of `e` (constant or not) evaluates into the range of the operand type of `e`. -/

/-- the integer operands of an instruction -/
def Expr.iopds : Expr → List IOpd
  | .inot _ a | .neg _ _ a | .checkDivZero a | .checkShift _ a => [a]
  | .wbin _ _ a b | .cbin _ _ a b | .icmp _ _ a b => [a, b]
  | _ => []

/-- range of the integer operands of an instruction (`CheckDivZero` takes Int32 or Int64: the wider one;
`CheckShiftAmount` takes an Int32) -/
def Expr.range : Expr → Int → Bool
  | .inot w _ | .neg _ w _ | .wbin _ w _ _ | .cbin _ w _ _ => w.inRange
  | .icmp _ ty _ _ => ty.inRange
  | .checkDivZero _ => IW.w64.inRange
  | .checkShift _ _ => IW.w32.inRange
  | _ => fun _ => true

def Expr.InRange (env : Env) (e : Expr) : Prop :=
  ∀ o, o ∈ e.iopds → e.range (o.eval env) = true

/-- the constants among the operands are in range (a property of the instruction alone) -/
def Expr.ConstsInRange (e : Expr) : Prop :=
  ∀ c, IOpd.const c ∈ e.iopds → e.range c = true

/-! ## The rule set -/

/-- `Inst.get_int_const` (graph.dora:1388) -/
def IOpd.getIntConst : IOpd → Option Int
  | .const c => some c
  | .var _ => none

/-- `Op.get_bool_const` (graph.dora:1102) -/
def BOpd.getBoolConst : BOpd → Option Bool
  | .const b => some b
  | .var _ => none

/-- `Inst.is_zero_const` (graph.dora:1397) -/
def IOpd.isZeroConst : IOpd → Bool
  | .const c => decide (c = 0)
  | .var _ => false

/-- `Inst.is_one_const` (graph.dora:1406) -/
def IOpd.isOneConst : IOpd → Bool
  | .const c => decide (c = 1)
  | .var _ => false

/-- `Inst.is_all_ones_const` (graph.dora:1415) for Int32Const/Int64Const -/
def IOpd.isAllOnesConst : IOpd → Bool
  | .const c => decide (c = -1)
  | .var _ => false

/-- result of `simplify_inst` -/
inductive Outcome where
  /-- `None` -/
  | keep
  /-- `Some(replacement)`, or `inst.remove()` when the replacement is `Expr.removed` -/
  | replace (e : Expr)
  /-- an `assert(..)` / `unreachable()` of the pass is hit (the compiler aborts) -/
  | panic
  deriving DecidableEq, Repr, Inhabited

/-- `Graph.ensure_const_int32_inst` / `ensure_const_int64_inst` -/
def constInt (c : Int) : Expr := .int (.const c)
/-- `Graph.ensure_const_bool_inst` / `ensure_const_true_inst` / `ensure_const_false_inst` -/
def constBool (b : Bool) : Expr := .bool (.const b)

/-- `ensure_zero_int_inst` (simplification.dora:376) -/
def zeroInt : Expr := constInt 0

/-! ### the `overflowing_*` intrinsics -/

def ovfAdd (w : IW) (a b : Int) : Int × Bool := (w.wrap (a + b), !w.inRange (a + b))
def ovfSub (w : IW) (a b : Int) : Int × Bool := (w.wrap (a - b), !w.inRange (a - b))
def ovfMul (w : IW) (a b : Int) : Int × Bool := (w.wrap (a * b), !w.inRange (a * b))
def ovfNeg (w : IW) (a : Int) : Int × Bool := (w.wrap (-a), !w.inRange (-a))
/-- only called with `b ≠ 0` -/
def ovfDiv (w : IW) (a b : Int) : Int × Bool :=
  if a = w.min ∧ b = -1 then (w.min, true) else (Int.tdiv a b, false)
/-- only called with `b ≠ 0` -/
def ovfMod (w : IW) (a b : Int) : Int × Bool :=
  if a = w.min ∧ b = -1 then (0, true) else (Int.tmod a b, false)

/-- `checked_result_int32` / `checked_result_int64` (simplification.dora:506/515) -/
def checkedResult (r : Int × Bool) : Option Int := if r.2 then none else some r.1

/-- `simplify_not` (simplification.dora:68): `Not(const b) ↦ const !b`; nothing else (in particular no
`Not(Not x)` rule and nothing for the integer `Not`) -/
def simplifyNot (a : BOpd) : Outcome :=
  match a.getBoolConst with
  | some v => .replace (constBool (!v))
  | none => .keep

/-- `fold_neg` (simplification.dora:384): `Neg(const c) ↦ const (wrapping -c)`;
`CheckedNeg(const c) ↦ const (-c)` unless `overflowing_neg` reports overflow (`c = MIN`) -/
def foldNeg (w : IW) (value : Int) (checked : Bool) : Outcome :=
  let r := ovfNeg w (w.wrap value)
  if checked && r.2 then .keep else .replace (constInt r.1)

/-- `simplify_neg` (simplification.dora:78).  No `Neg(Neg x)` rule exists. -/
def simplifyNeg (checked : Bool) (w : IW) (a : IOpd) : Outcome :=
  match a.getIntConst with
  | some v => foldNeg w v checked
  | none => .keep

/-- `fold_wrapping_int32` / `fold_wrapping_int64` (simplification.dora:444/456) -/
def foldWrappingInt (op : WOp) (w : IW) (lhs rhs : Int) : Int :=
  match op with
  | .add => addW w lhs rhs
  | .sub => subW w lhs rhs
  | .mul => mulW w lhs rhs
  | .and => bitAnd w lhs rhs
  | .or => bitOr w lhs rhs
  | .xor => bitXor w lhs rhs

/-- `fold_wrapping_binary` (simplification.dora:408); the `_ => unreachable()` type arm cannot be reached
because the operation type here is an `IW` -/
def foldWrappingBinary (op : WOp) (w : IW) (lhs rhs : Int) : Expr :=
  constInt (foldWrappingInt op w (w.wrap lhs) (w.wrap rhs))

/-- `simplify_wrapping_binary` (simplification.dora:89), operation type Int32/Int64.
Rules, in the order of the code:
* both constant ↦ folded constant (:96);
* `Add`: `x + 0 ↦ x` (:108), `0 + x ↦ x` (:111);
* `Sub`: `x - 0 ↦ x` (:121), `x - x ↦ 0` (:124)        (no `0 - x` rule);
* `Mul`: `x * 1 ↦ x` (:134), `1 * x ↦ x` (:137), `x * 0`, `0 * x ↦ 0` (:140);
* `And`: `x & x ↦ x` (:148), `x & 0`, `0 & x ↦ 0` (:151), `x & -1 ↦ x` (:154), `-1 & x ↦ x` (:157);
* `Or`:  `x | x ↦ x` (:165), `x | 0 ↦ x` (:168), `0 | x ↦ x` (:171)   (no `x | -1` rule);
* `Xor`: `x ^ x ↦ 0` (:179), `x ^ 0 ↦ x` (:182), `0 ^ x ↦ x` (:185). -/
def simplifyWrappingBinary (op : WOp) (w : IW) (lhs rhs : IOpd) : Outcome :=
  match lhs.getIntConst, rhs.getIntConst with
  | some l, some r => .replace (foldWrappingBinary op w l r)
  | _, _ =>
    match op with
    | .add =>
      if rhs.isZeroConst then .replace (.int lhs)
      else if lhs.isZeroConst then .replace (.int rhs)
      else .keep
    | .sub =>
      if rhs.isZeroConst then .replace (.int lhs)
      else if lhs = rhs then .replace zeroInt
      else .keep
    | .mul =>
      if rhs.isOneConst then .replace (.int lhs)
      else if lhs.isOneConst then .replace (.int rhs)
      else if rhs.isZeroConst || lhs.isZeroConst then .replace zeroInt
      else .keep
    | .and =>
      if lhs = rhs then .replace (.int lhs)
      else if rhs.isZeroConst || lhs.isZeroConst then .replace zeroInt
      else if rhs.isAllOnesConst then .replace (.int lhs)
      else if lhs.isAllOnesConst then .replace (.int rhs)
      else .keep
    | .or =>
      if lhs = rhs then .replace (.int lhs)
      else if rhs.isZeroConst then .replace (.int lhs)
      else if lhs.isZeroConst then .replace (.int rhs)
      else .keep
    | .xor =>
      if lhs = rhs then .replace zeroInt
      else if rhs.isZeroConst then .replace (.int lhs)
      else if lhs.isZeroConst then .replace (.int rhs)
      else .keep

/-- `fold_checked_int32` / `fold_checked_int64` (simplification.dora:468/487) -/
def foldCheckedInt (op : COp) (w : IW) (lhs rhs : Int) : Option Int :=
  match op with
  | .add => checkedResult (ovfAdd w lhs rhs)
  | .sub => checkedResult (ovfSub w lhs rhs)
  | .mul => checkedResult (ovfMul w lhs rhs)
  | .div => if rhs = 0 then none else checkedResult (ovfDiv w lhs rhs)
  | .mod => if rhs = 0 then none else checkedResult (ovfMod w lhs rhs)

/-- `fold_checked_binary` (simplification.dora:420) -/
def foldCheckedBinary (op : COp) (w : IW) (lhs rhs : Int) : Option Expr :=
  match foldCheckedInt op w (w.wrap lhs) (w.wrap rhs) with
  | some r => some (constInt r)
  | none => none

/-- the `match op { … }` block of `simplify_checked_binary` (simplification.dora:210–257):
* `CheckedAdd`: `x + 0 ↦ x` (:212), `0 + x ↦ x` (:215);
* `CheckedSub`: `x - 0 ↦ x` (:221), `x - x ↦ 0` (:225);
* `CheckedMul`: `x * 1 ↦ x` (:231), `1 * x ↦ x` (:234), `x * 0`, `0 * x ↦ 0` (:237);
* `CheckedDiv`: `x / 1 ↦ x` (:244)   — NOT `x / x`, NOT `0 / x`;
* `CheckedMod`: `x % 1 ↦ 0` (:251)   — NOT `x % x`, NOT `0 % x`. -/
def checkedIdentity (op : COp) (lhs rhs : IOpd) : Outcome :=
  match op with
  | .add =>
    if rhs.isZeroConst then .replace (.int lhs)
    else if lhs.isZeroConst then .replace (.int rhs)
    else .keep
  | .sub =>
    if rhs.isZeroConst then .replace (.int lhs)
    else if lhs = rhs then .replace zeroInt
    else .keep
  | .mul =>
    if rhs.isOneConst then .replace (.int lhs)
    else if lhs.isOneConst then .replace (.int rhs)
    else if rhs.isZeroConst || lhs.isZeroConst then .replace zeroInt
    else .keep
  | .div =>
    if rhs.isOneConst then .replace (.int lhs) else .keep
  | .mod =>
    if rhs.isOneConst then .replace zeroInt else .keep

/-- `simplify_checked_binary` (simplification.dora:196): both operands constant and the operation
neither overflows nor divides by zero ↦ constant (:202); otherwise the code FALLS THROUGH to the
identities of `checkedIdentity` (also when both operands are constants). -/
def simplifyCheckedBinary (op : COp) (w : IW) (lhs rhs : IOpd) : Outcome :=
  let folded : Option Expr :=
    match lhs.getIntConst, rhs.getIntConst with
    | some l, some r => foldCheckedBinary op w l r
    | _, _ => none
  match folded with
  | some e => .replace e
  | none => checkedIdentity op lhs rhs

/-- the same-operand arm of `simplify_compare` (simplification.dora:269–287) -/
def compareSame (op : Cmp) : Expr :=
  match op with
  | .eq | .ge | .le | .uge | .ule => constBool true
  | .ne | .gt | .lt | .ugt | .ult => constBool false

/-- `fold_bool_compare` (simplification.dora:331) -/
def foldBoolCompare (op : Cmp) (lhs rhs : Bool) : Outcome :=
  match op with
  | .eq => .replace (constBool (lhs == rhs))
  | .ne => .replace (constBool (lhs != rhs))
  | _ => .keep

/-- `fold_int_compare` (simplification.dora:339); `lhs`, `rhs` are the `Int64`s of `get_int_const`
(sign-extended Int32, zero-extended UInt8) and are compared as such -/
def foldIntCompare (op : Cmp) (ty : ITy) (lhs rhs : Int) : Outcome :=
  match op with
  | .eq => .replace (constBool (decide (lhs = rhs)))
  | .ne => .replace (constBool (decide (lhs ≠ rhs)))
  | .gt => .replace (constBool (decide (lhs > rhs)))
  | .ge => .replace (constBool (decide (lhs ≥ rhs)))
  | .lt => .replace (constBool (decide (lhs < rhs)))
  | .le => .replace (constBool (decide (lhs ≤ rhs)))
  | .ugt => -- assert(ty == Type::UInt8)
    if ty = .u8 then .replace (constBool (decide (lhs > rhs))) else .panic
  | .uge => -- assert(ty == Type::UInt8 || ty == Type::Int32)
    if ty = .u8 then .replace (constBool (decide (lhs ≥ rhs)))
    else if ty = .i32 then .keep
    else .panic
  | .ult => if ty = .u8 then .replace (constBool (decide (lhs < rhs))) else .panic
  | .ule => if ty = .u8 then .replace (constBool (decide (lhs ≤ rhs))) else .panic

/-- `simplify_compare` (simplification.dora:262), integer operation type -/
def simplifyIntCompare (op : Cmp) (ty : ITy) (lhs rhs : IOpd) : Outcome :=
  if lhs = rhs then .replace (compareSame op)
  else
    match lhs.getIntConst, rhs.getIntConst with
    | some l, some r => foldIntCompare op ty l r
    | _, _ => .keep

/-- `simplify_compare` (simplification.dora:262), operation type Bool -/
def simplifyBoolCompare (op : Cmp) (lhs rhs : BOpd) : Outcome :=
  if lhs = rhs then .replace (compareSame op)
  else
    match lhs.getBoolConst, rhs.getBoolConst with
    | some l, some r => foldBoolCompare op l r
    | _, _ => .keep

/-- `simplify_check_div_zero` (simplification.dora:305): a constant non-zero divisor deletes the check -/
def simplifyCheckDivZero (a : IOpd) : Outcome :=
  match a.getIntConst with
  | some v => if v ≠ 0 then .replace .removed else .keep
  | none => .keep

/-- `shift_limit` (simplification.dora:524) -/
def shiftLimit : IW → Int
  | .w32 => 32
  | .w64 => 64

/-- `simplify_check_shift_amount` (simplification.dora:316): a constant amount in `[0, limit)` deletes
the check -/
def simplifyCheckShiftAmount (w : IW) (a : IOpd) : Outcome :=
  match a.getIntConst with
  | some v => if 0 ≤ v ∧ v < shiftLimit w then .replace .removed else .keep
  | none => .keep

/-- `simplify_inst` (simplification.dora:32) -/
def simplifyO : Expr → Outcome
  | .not a => simplifyNot a
  | .inot _ _ => .keep            -- `simplify_not` only looks for a Bool constant
  | .neg checked w a => simplifyNeg checked w a
  | .wbin op w a b => simplifyWrappingBinary op w a b
  | .cbin op w a b => simplifyCheckedBinary op w a b
  | .icmp op ty a b => simplifyIntCompare op ty a b
  | .bcmp op a b => simplifyBoolCompare op a b
  | .checkDivZero a => simplifyCheckDivZero a
  | .checkShift w a => simplifyCheckShiftAmount w a
  | .int _ | .bool _ | .removed => .keep   -- constants and other values: `_ => None`

/-- the rule set as a partial function: `some e'` iff the pass replaces the instruction by `e'` -/
def simplify (e : Expr) : Option Expr :=
  match simplifyO e with
  | .replace e' => some e'
  | _ => none

/-! ## Arithmetic lemmas -/

theorem inRange_iff (w : IW) (a : Int) : w.inRange a = true ↔ w.min ≤ a ∧ a ≤ w.max := by
  simp [IW.inRange]

/-- `inRange` with the bounds as numerals (so that `omega` sees them) -/
theorem inRange_num (w : IW) (a : Int) :
    w.inRange a = true ↔
      (match w with
        | .w32 => -2147483648 ≤ a ∧ a ≤ 2147483647
        | .w64 => -9223372036854775808 ≤ a ∧ a ≤ 9223372036854775807) := by
  cases w <;> simp [inRange_iff, IW.min, IW.max, IW.half, IW.bits]

theorem wrap_of_inRange {w : IW} {a : Int} (h : w.inRange a = true) : w.wrap a = a := by
  cases w <;> simp [inRange_num] at h <;>
    simp [IW.wrap, IW.half, IW.modulus, IW.bits] <;> omega

theorem inRange_zero (w : IW) : w.inRange 0 = true := by cases w <;> decide

theorem wrap_zero (w : IW) : w.wrap 0 = 0 := wrap_of_inRange (inRange_zero w)

theorem checked_of_inRange {w : IW} {a : Int} (h : w.inRange a = true) : w.checked a = .ok a := by
  simp [IW.checked, h]

theorem checked_of_not_inRange {w : IW} {a : Int} (h : w.inRange a = false) :
    w.checked a = .error .overflow := by
  simp [IW.checked, h]

/-- `wrap ∘ toUnsigned` is the identity on values in range -/
theorem wrap_toUnsigned_toNat {w : IW} {a : Int} (h : w.inRange a = true) :
    w.wrap ((w.toUnsigned a).toNat : Int) = a := by
  cases w <;> simp [inRange_num] at h <;>
    simp [IW.wrap, IW.toUnsigned, IW.half, IW.modulus, IW.bits] <;> omega

theorem toUnsigned_zero_toNat (w : IW) : (w.toUnsigned 0).toNat = 0 := by
  simp [IW.toUnsigned]

theorem wrap_natCast_zero (w : IW) : w.wrap ((0 : Nat) : Int) = 0 := by
  simpa using wrap_zero w

theorem bitAnd_self {w : IW} {a : Int} (h : w.inRange a = true) : bitAnd w a a = a := by
  simp only [bitAnd, Nat.and_self, wrap_toUnsigned_toNat h]

theorem bitAnd_zero_right (w : IW) (a : Int) : bitAnd w a 0 = 0 := by
  simp only [bitAnd, toUnsigned_zero_toNat, Nat.and_zero, wrap_natCast_zero]

theorem bitAnd_zero_left (w : IW) (a : Int) : bitAnd w 0 a = 0 := by
  simp only [bitAnd, toUnsigned_zero_toNat, Nat.zero_and, wrap_natCast_zero]

theorem bitAnd_allOnes_right {w : IW} {a : Int} (h : w.inRange a = true) : bitAnd w a (-1) = a := by
  cases w <;> simp [inRange_num] at h
  · have e : (4294967295 : Nat) = 2 ^ 32 - 1 := by decide
    simp [bitAnd, IW.wrap, IW.toUnsigned, IW.half, IW.modulus, IW.bits]
    rw [e, Nat.and_two_pow_sub_one_eq_mod]
    omega
  · have e : (18446744073709551615 : Nat) = 2 ^ 64 - 1 := by decide
    simp [bitAnd, IW.wrap, IW.toUnsigned, IW.half, IW.modulus, IW.bits]
    rw [e, Nat.and_two_pow_sub_one_eq_mod]
    omega

theorem bitAnd_comm (w : IW) (a b : Int) : bitAnd w a b = bitAnd w b a := by
  simp only [bitAnd, Nat.and_comm]

theorem bitAnd_allOnes_left {w : IW} {a : Int} (h : w.inRange a = true) : bitAnd w (-1) a = a := by
  rw [bitAnd_comm]; exact bitAnd_allOnes_right h

theorem bitOr_self {w : IW} {a : Int} (h : w.inRange a = true) : bitOr w a a = a := by
  simp only [bitOr, Nat.or_self, wrap_toUnsigned_toNat h]

theorem bitOr_zero_right {w : IW} {a : Int} (h : w.inRange a = true) : bitOr w a 0 = a := by
  simp only [bitOr, toUnsigned_zero_toNat, Nat.or_zero, wrap_toUnsigned_toNat h]

theorem bitOr_zero_left {w : IW} {a : Int} (h : w.inRange a = true) : bitOr w 0 a = a := by
  simp only [bitOr, toUnsigned_zero_toNat, Nat.zero_or, wrap_toUnsigned_toNat h]

theorem bitXor_self (w : IW) (a : Int) : bitXor w a a = 0 := by
  simp only [bitXor, Nat.xor_self, wrap_natCast_zero]

theorem bitXor_zero_right {w : IW} {a : Int} (h : w.inRange a = true) : bitXor w a 0 = a := by
  simp only [bitXor, toUnsigned_zero_toNat, Nat.xor_zero, wrap_toUnsigned_toNat h]

theorem bitXor_zero_left {w : IW} {a : Int} (h : w.inRange a = true) : bitXor w 0 a = a := by
  simp only [bitXor, toUnsigned_zero_toNat, Nat.zero_xor, wrap_toUnsigned_toNat h]

/-! ### identities of the wrapping operations -/

theorem addW_zero_right {w : IW} {a : Int} (h : w.inRange a = true) : addW w a 0 = a := by
  simp [addW, wrap_of_inRange h]
theorem addW_zero_left {w : IW} {a : Int} (h : w.inRange a = true) : addW w 0 a = a := by
  simp [addW, wrap_of_inRange h]
theorem subW_zero_right {w : IW} {a : Int} (h : w.inRange a = true) : subW w a 0 = a := by
  simp [subW, wrap_of_inRange h]
theorem subW_self (w : IW) (a : Int) : subW w a a = 0 := by
  simp [subW, wrap_zero]
theorem mulW_one_right {w : IW} {a : Int} (h : w.inRange a = true) : mulW w a 1 = a := by
  simp [mulW, wrap_of_inRange h]
theorem mulW_one_left {w : IW} {a : Int} (h : w.inRange a = true) : mulW w 1 a = a := by
  simp [mulW, wrap_of_inRange h]
theorem mulW_zero_right (w : IW) (a : Int) : mulW w a 0 = 0 := by
  simp [mulW, wrap_zero]
theorem mulW_zero_left (w : IW) (a : Int) : mulW w 0 a = 0 := by
  simp [mulW, wrap_zero]

/-! ### identities of the checked operations -/

theorem addC_zero_right {w : IW} {a : Int} (h : w.inRange a = true) : addC w a 0 = .ok a := by
  simp [addC, checked_of_inRange h]
theorem addC_zero_left {w : IW} {a : Int} (h : w.inRange a = true) : addC w 0 a = .ok a := by
  simp [addC, checked_of_inRange h]
theorem subC_zero_right {w : IW} {a : Int} (h : w.inRange a = true) : subC w a 0 = .ok a := by
  simp [subC, checked_of_inRange h]
theorem subC_self (w : IW) (a : Int) : subC w a a = .ok 0 := by
  simp [subC, checked_of_inRange (inRange_zero w)]
theorem mulC_one_right {w : IW} {a : Int} (h : w.inRange a = true) : mulC w a 1 = .ok a := by
  simp [mulC, checked_of_inRange h]
theorem mulC_one_left {w : IW} {a : Int} (h : w.inRange a = true) : mulC w 1 a = .ok a := by
  simp [mulC, checked_of_inRange h]
theorem mulC_zero_right (w : IW) (a : Int) : mulC w a 0 = .ok 0 := by
  simp [mulC, checked_of_inRange (inRange_zero w)]
theorem mulC_zero_left (w : IW) (a : Int) : mulC w 0 a = .ok 0 := by
  simp [mulC, checked_of_inRange (inRange_zero w)]
/-- `x / 1` neither divides by zero nor is it `MIN / -1` -/
theorem divC_one (w : IW) (a : Int) : divC w a 1 = .ok a := by
  simp [divC]
theorem modC_one (w : IW) (a : Int) : modC w a 1 = .ok 0 := by
  simp [modC]

/-! ### constant folding -/

/-- a successful `fold_checked_int32/64` returns exactly the value of the checked operation, and the
checked operation does not trap -/
theorem foldCheckedInt_sound {op : COp} {w : IW} {a b r : Int}
    (h : foldCheckedInt op w a b = some r) : op.eval w a b = .ok r := by
  cases op <;> simp [foldCheckedInt, checkedResult, ovfAdd, ovfSub, ovfMul] at h
  · obtain ⟨h1, h2⟩ := h
    simp [COp.eval, addC, checked_of_inRange h1, ← h2, wrap_of_inRange h1]
  · obtain ⟨h1, h2⟩ := h
    simp [COp.eval, subC, checked_of_inRange h1, ← h2, wrap_of_inRange h1]
  · obtain ⟨h1, h2⟩ := h
    simp [COp.eval, mulC, checked_of_inRange h1, ← h2, wrap_of_inRange h1]
  · obtain ⟨h0, h1⟩ := h
    by_cases hc : a = w.min ∧ b = -1
    · simp [ovfDiv, hc] at h1
    · simp [ovfDiv, hc] at h1
      simp [COp.eval, divC, h0, hc, h1]
  · obtain ⟨h0, h1⟩ := h
    by_cases hc : a = w.min ∧ b = -1
    · simp [ovfMod, hc] at h1
    · simp [ovfMod, hc] at h1
      simp [COp.eval, modC, h0, hc, h1]

/-- conversely `fold_checked_int32/64` declines exactly when the checked operation traps -/
theorem foldCheckedInt_none {op : COp} {w : IW} {a b : Int}
    (h : foldCheckedInt op w a b = none) : ∃ t, op.eval w a b = .error t := by
  cases op <;> simp [foldCheckedInt, checkedResult, ovfAdd, ovfSub, ovfMul] at h
  · exact ⟨.overflow, by simp [COp.eval, addC, checked_of_not_inRange h]⟩
  · exact ⟨.overflow, by simp [COp.eval, subC, checked_of_not_inRange h]⟩
  · exact ⟨.overflow, by simp [COp.eval, mulC, checked_of_not_inRange h]⟩
  · by_cases h0 : b = 0
    · exact ⟨.div0, by simp [COp.eval, divC, h0]⟩
    · by_cases hc : a = w.min ∧ b = -1
      · exact ⟨.overflow, by simp [COp.eval, divC, hc]⟩
      · simp [h0, ovfDiv, hc] at h
  · by_cases h0 : b = 0
    · exact ⟨.div0, by simp [COp.eval, modC, h0]⟩
    · by_cases hc : a = w.min ∧ b = -1
      · exact ⟨.overflow, by simp [COp.eval, modC, hc]⟩
      · simp [h0, ovfMod, hc] at h

theorem foldWrappingInt_eq (op : WOp) (w : IW) (a b : Int) : foldWrappingInt op w a b = op.eval w a b := by
  cases op <;> rfl

/-! ## Soundness, one group of rules at a time -/

theorem simplifyNot_sound {a : BOpd} {e' : Expr} (env : Env)
    (h : simplifyNot a = .replace e') : eval env e' = eval env (.not a) := by
  cases a <;> simp [simplifyNot, BOpd.getBoolConst, constBool] at h
  subst h; simp [eval, BOpd.eval]

theorem simplifyNeg_sound {checked : Bool} {w : IW} {a : IOpd} {e' : Expr} (env : Env)
    (h : simplifyNeg checked w a = .replace e') (ha : w.inRange (a.eval env) = true) :
    eval env e' = eval env (.neg checked w a) := by
  cases a with
  | var i => simp [simplifyNeg, IOpd.getIntConst] at h
  | const c =>
    simp only [IOpd.eval] at ha
    simp only [simplifyNeg, IOpd.getIntConst, foldNeg, ovfNeg, wrap_of_inRange ha] at h
    cases checked
    · simp [constInt] at h
      subst h; simp [eval, IOpd.eval, negW]
    · by_cases hr : w.inRange (-c) = true
      · simp [hr, constInt] at h
        subst h
        simp [eval, IOpd.eval, negC, checked_of_inRange hr, wrap_of_inRange hr, okInt, Except.map]
      · simp [hr] at h

theorem simplifyWrappingBinary_sound {op : WOp} {w : IW} {a b : IOpd} {e' : Expr} (env : Env)
    (h : simplifyWrappingBinary op w a b = .replace e')
    (ha : w.inRange (a.eval env) = true) (hb : w.inRange (b.eval env) = true) :
    eval env e' = eval env (.wbin op w a b) := by
  cases a with
  | const ca =>
    cases b with
    | const cb =>
      simp only [IOpd.eval] at ha hb
      simp [simplifyWrappingBinary, IOpd.getIntConst, foldWrappingBinary, constInt,
        wrap_of_inRange ha, wrap_of_inRange hb, foldWrappingInt_eq] at h
      subst h; simp [eval, IOpd.eval]
    | var j =>
      simp only [IOpd.eval] at ha hb
      cases op <;>
        simp [simplifyWrappingBinary, IOpd.getIntConst, IOpd.isZeroConst, IOpd.isOneConst,
          IOpd.isAllOnesConst, zeroInt, constInt] at h <;>
        (repeat' split at h) <;> (try injection h with h) <;> (try subst h) <;>
        simp_all [eval, IOpd.eval, WOp.eval, addW_zero_left, mulW_one_left,
          mulW_zero_left, bitAnd_zero_left, bitAnd_allOnes_left, bitOr_zero_left, bitXor_zero_left]
  | var i =>
    cases b with
    | const cb =>
      simp only [IOpd.eval] at ha hb
      cases op <;>
        simp [simplifyWrappingBinary, IOpd.getIntConst, IOpd.isZeroConst, IOpd.isOneConst,
          IOpd.isAllOnesConst, zeroInt, constInt] at h <;>
        (repeat' split at h) <;> (try injection h with h) <;> (try subst h) <;>
        simp_all [eval, IOpd.eval, WOp.eval, addW_zero_right, subW_zero_right, mulW_one_right,
          mulW_zero_right, bitAnd_zero_right, bitAnd_allOnes_right, bitOr_zero_right,
          bitXor_zero_right]
    | var j =>
      simp only [IOpd.eval] at ha hb
      cases op <;>
        simp [simplifyWrappingBinary, IOpd.getIntConst, IOpd.isZeroConst, IOpd.isOneConst,
          IOpd.isAllOnesConst, zeroInt, constInt] at h <;>
        (repeat' split at h) <;> (try injection h with h) <;> (try subst h) <;>
        simp_all [eval, IOpd.eval, WOp.eval, subW_self, bitAnd_self, bitOr_self, bitXor_self]

theorem checkedIdentity_sound {op : COp} {w : IW} {a b : IOpd} {e' : Expr} (env : Env)
    (h : checkedIdentity op a b = .replace e')
    (ha : w.inRange (a.eval env) = true) (hb : w.inRange (b.eval env) = true) :
    eval env e' = eval env (.cbin op w a b) := by
  cases a <;> cases b <;> simp only [IOpd.eval] at ha hb <;> cases op <;>
    simp [checkedIdentity, IOpd.isZeroConst, IOpd.isOneConst, zeroInt, constInt] at h <;>
    (repeat' split at h) <;> (try injection h with h) <;> (try subst h) <;>
    simp_all [eval, IOpd.eval, COp.eval, okInt, Except.map, addC_zero_left, addC_zero_right,
      subC_zero_right, subC_self, mulC_one_left, mulC_one_right, mulC_zero_left, mulC_zero_right,
      divC_one, modC_one]
  -- `c * c'` with `c = 0 ∨ c' = 0` (both constants, fold declined — cannot happen, but is sound)
  all_goals
    rename_i h0
    rcases h0 with h0 | h0 <;> simp [h0, mulC_zero_left, mulC_zero_right]

theorem simplifyCheckedBinary_sound {op : COp} {w : IW} {a b : IOpd} {e' : Expr} (env : Env)
    (h : simplifyCheckedBinary op w a b = .replace e')
    (ha : w.inRange (a.eval env) = true) (hb : w.inRange (b.eval env) = true) :
    eval env e' = eval env (.cbin op w a b) := by
  unfold simplifyCheckedBinary at h
  simp only at h
  split at h
  · rename_i e hf
    injection h with h; subst h
    split at hf
    · rename_i l r hl hr
      cases a <;> simp [IOpd.getIntConst] at hl
      cases b <;> simp [IOpd.getIntConst] at hr
      subst hl hr
      simp only [IOpd.eval] at ha hb
      simp only [foldCheckedBinary, wrap_of_inRange ha, wrap_of_inRange hb] at hf
      split at hf
      · rename_i r hr
        injection hf with hf; subst hf
        simp [eval, IOpd.eval, constInt, foldCheckedInt_sound hr, okInt, Except.map]
      · cases hf
    · cases hf
  · exact checkedIdentity_sound env h ha hb

theorem u8_toUnsigned {a : Int} (h : ITy.u8.inRange a = true) : ITy.u8.toUnsigned a = a := by
  simp [ITy.inRange] at h
  simp [ITy.toUnsigned, ITy.modulus]; omega

/-- `x op x` for an integer operation type -/
theorem compareSame_int (env : Env) (op : Cmp) (ty : ITy) (x : Int) :
    eval env (compareSame op) = .ok (.bool (op.evalInt ty x x)) := by
  cases op <;>
    simp [compareSame, constBool, eval, BOpd.eval, Cmp.evalInt, Cmp.isUnsigned, Cmp.base, CmpOp.eval]

/-- `x op x` for operation type Bool -/
theorem compareSame_bool (env : Env) (op : Cmp) (x : Bool) :
    eval env (compareSame op) = .ok (.bool (op.evalBool x x)) := by
  cases op <;>
    simp [compareSame, constBool, eval, BOpd.eval, Cmp.evalBool, Cmp.base, CmpOp.eval]

theorem foldIntCompare_sound {op : Cmp} {ty : ITy} {a b : Int} {e' : Expr} (env : Env)
    (h : foldIntCompare op ty a b = .replace e')
    (ha : ty.inRange a = true) (hb : ty.inRange b = true) :
    eval env e' = .ok (.bool (op.evalInt ty a b)) := by
  cases op <;> simp only [foldIntCompare] at h <;>
    (repeat' split at h) <;> (try injection h with h) <;> (try subst h) <;>
    simp_all [eval, BOpd.eval, constBool, Cmp.evalInt, Cmp.isUnsigned, Cmp.base, CmpOp.eval,
      u8_toUnsigned]

theorem foldBoolCompare_sound {op : Cmp} {a b : Bool} {e' : Expr} (env : Env)
    (h : foldBoolCompare op a b = .replace e') :
    eval env e' = .ok (.bool (op.evalBool a b)) := by
  cases op <;> simp only [foldBoolCompare] at h <;> cases h <;>
    cases a <;> cases b <;>
    simp [eval, BOpd.eval, constBool, Cmp.evalBool, Cmp.base, CmpOp.eval]

theorem simplifyIntCompare_sound {op : Cmp} {ty : ITy} {a b : IOpd} {e' : Expr} (env : Env)
    (h : simplifyIntCompare op ty a b = .replace e')
    (ha : ty.inRange (a.eval env) = true) (hb : ty.inRange (b.eval env) = true) :
    eval env e' = eval env (.icmp op ty a b) := by
  unfold simplifyIntCompare at h
  split at h
  · rename_i hab
    injection h with h; subst h; subst hab
    simpa [eval] using compareSame_int env op ty (a.eval env)
  · split at h
    · rename_i l r hl hr
      cases a <;> simp [IOpd.getIntConst] at hl
      cases b <;> simp [IOpd.getIntConst] at hr
      subst hl hr
      simpa [eval, IOpd.eval] using foldIntCompare_sound env h ha hb
    · cases h

theorem simplifyBoolCompare_sound {op : Cmp} {a b : BOpd} {e' : Expr} (env : Env)
    (h : simplifyBoolCompare op a b = .replace e') :
    eval env e' = eval env (.bcmp op a b) := by
  unfold simplifyBoolCompare at h
  split at h
  · rename_i hab
    injection h with h; subst h; subst hab
    simpa [eval] using compareSame_bool env op (a.eval env)
  · split at h
    · rename_i l r hl hr
      cases a <;> simp [BOpd.getBoolConst] at hl
      cases b <;> simp [BOpd.getBoolConst] at hr
      subst hl hr
      simpa [eval, BOpd.eval] using foldBoolCompare_sound env h
    · cases h

theorem simplifyCheckDivZero_sound {a : IOpd} {e' : Expr} (env : Env)
    (h : simplifyCheckDivZero a = .replace e') : eval env e' = eval env (.checkDivZero a) := by
  cases a with
  | var i => simp [simplifyCheckDivZero, IOpd.getIntConst] at h
  | const c =>
    simp only [simplifyCheckDivZero, IOpd.getIntConst] at h
    split at h
    · rename_i hc
      injection h with h; subst h
      simp [eval, IOpd.eval, hc]
    · cases h

theorem shiftLimit_eq (w : IW) : shiftLimit w = (w.bits : Int) := by cases w <;> rfl

theorem simplifyCheckShiftAmount_sound {w : IW} {a : IOpd} {e' : Expr} (env : Env)
    (h : simplifyCheckShiftAmount w a = .replace e') : eval env e' = eval env (.checkShift w a) := by
  cases a with
  | var i => simp [simplifyCheckShiftAmount, IOpd.getIntConst] at h
  | const c =>
    simp only [simplifyCheckShiftAmount, IOpd.getIntConst] at h
    split at h
    · rename_i hc
      injection h with h; subst h
      rw [shiftLimit_eq] at hc
      simp [eval, IOpd.eval, IW.shiftOk, hc]
    · cases h

/-! ## The soundness theorem -/

theorem simplifyO_sound {e e' : Expr} (env : Env)
    (h : simplifyO e = .replace e') (hr : e.InRange env) : eval env e' = eval env e := by
  cases e with
  | int o => cases h
  | bool o => cases h
  | removed => cases h
  | inot w a => cases h
  | not a => exact simplifyNot_sound env h
  | neg c w a => exact simplifyNeg_sound env h (hr a (by simp [Expr.iopds]))
  | wbin op w a b =>
    exact simplifyWrappingBinary_sound env h (hr a (by simp [Expr.iopds])) (hr b (by simp [Expr.iopds]))
  | cbin op w a b =>
    exact simplifyCheckedBinary_sound env h (hr a (by simp [Expr.iopds])) (hr b (by simp [Expr.iopds]))
  | icmp op ty a b =>
    exact simplifyIntCompare_sound env h (hr a (by simp [Expr.iopds])) (hr b (by simp [Expr.iopds]))
  | bcmp op a b => exact simplifyBoolCompare_sound env h
  | checkDivZero a => exact simplifyCheckDivZero_sound env h
  | checkShift w a => exact simplifyCheckShiftAmount_sound env h

theorem simplify_eq_some {e e' : Expr} : simplify e = some e' ↔ simplifyO e = .replace e' := by
  unfold simplify
  split <;> simp_all

instance (env : Env) (e : Expr) : Decidable (e.InRange env) := by
  unfold Expr.InRange; infer_instance

/-- **Soundness of the simplification pass, one instruction at a time.**  If `simplify_inst` replaces
the instruction `e` by `e'` (an operand, a constant, or — for the two checks — nothing), then for all
values of the opaque operands that lie in the range of the operand type, `e'` has *the same outcome* as
`e`: the same value, or the same trap.  Since the equation is between `Except Trap Val`s, a trapping
operation is never folded into a value, and no rule introduces a trap. -/
theorem simplify_sound {e e' : Expr} (env : Env)
    (h : simplify e = some e') (hr : e.InRange env) : eval env e' = eval env e :=
  simplifyO_sound env (simplify_eq_some.mp h) hr

/-- hypotheses satisfiable: `x + 0 ↦ x` on Int32 with `x = 2147483647` -/
example :
    let env : Env := ⟨fun _ => 2147483647, fun _ => false⟩
    let e := Expr.wbin .add .w32 (.var 0) (.const 0)
    simplify e = some (.int (.var 0)) ∧ e.InRange env ∧
      eval env (.int (.var 0)) = eval env e := by
  intro env e
  have h1 : simplify e = some (.int (.var 0)) := by decide
  have h2 : e.InRange env := by decide
  exact ⟨h1, h2, simplify_sound env h1 h2⟩

/-- hypotheses satisfiable: `CheckedMul(46341, 46340)` on Int32 is folded to `2147441940` (no overflow) -/
example :
    let env : Env := ⟨fun _ => 0, fun _ => false⟩
    let e := Expr.cbin .mul .w32 (.const 46341) (.const 46340)
    simplify e = some (.int (.const 2147441940)) ∧ e.InRange env := by
  intro env e
  exact ⟨by decide, by decide⟩

/-- operands in range, from the two separate facts "all opaque values are in range" and "the constants
of the instruction are in range" -/
theorem inRange_of_env {e : Expr} {env : Env}
    (hv : ∀ i, e.range (env.int i) = true) (hc : e.ConstsInRange) : e.InRange env := by
  intro o ho
  cases o with
  | const c => exact hc c ho
  | var i => exact hv i

/-- `simplify_sound` in the form: every opaque value lies in the range of the instruction's operand
type (`e.range` is `w.inRange` for an instruction of width `w`) and the instruction's own constants do. -/
theorem simplify_sound_env {e e' : Expr} (env : Env)
    (h : simplify e = some e') (hv : ∀ i, e.range (env.int i) = true) (hc : e.ConstsInRange) :
    eval env e' = eval env e :=
  simplify_sound env h (inRange_of_env hv hc)

/-- the same for one width, spelled out for the binary operations -/
theorem simplify_sound_wbin {op : WOp} {w : IW} {a b : IOpd} {e' : Expr} (env : Env)
    (h : simplify (.wbin op w a b) = some e') (hv : ∀ i, w.inRange (env.int i) = true)
    (hc : (Expr.wbin op w a b).ConstsInRange) :
    eval env e' = .ok (.int (op.eval w (a.eval env) (b.eval env))) :=
  simplify_sound_env env h hv hc

theorem simplify_sound_cbin {op : COp} {w : IW} {a b : IOpd} {e' : Expr} (env : Env)
    (h : simplify (.cbin op w a b) = some e') (hv : ∀ i, w.inRange (env.int i) = true)
    (hc : (Expr.cbin op w a b).ConstsInRange) :
    eval env e' = okInt (op.eval w (a.eval env) (b.eval env)) :=
  simplify_sound_env env h hv hc

/-- hypotheses satisfiable: `CheckedSub(x, x) ↦ 0` on Int64 with `x = MIN` -/
example :
    let env : Env := ⟨fun _ => -9223372036854775808, fun _ => false⟩
    simplify (.cbin .sub .w64 (.var 3) (.var 3)) = some (.int (.const 0)) ∧
      (∀ i, IW.w64.inRange (env.int i) = true) ∧
      (Expr.cbin .sub .w64 (.var 3) (.var 3)).ConstsInRange := by
  intro env
  refine ⟨by decide, fun _ => by show IW.w64.inRange (-9223372036854775808) = true; decide, ?_⟩
  intro c hc; simp [Expr.iopds] at hc

/-! ## Shape of the result, and when the pass aborts -/

/-- the three replacement forms -/
def Expr.isLeaf : Expr → Bool
  | .int _ | .bool _ | .removed => true
  | _ => false

/-- a replacement is always an operand, a constant, or "deleted" — never a new operation.  (This is the
reason why one instruction with opaque operands is enough to state the rules.) -/
theorem simplify_result_isLeaf {e e' : Expr} (h : simplify e = some e') : e'.isLeaf = true := by
  rw [simplify_eq_some] at h
  cases e with
  | int o => cases h
  | bool o => cases h
  | removed => cases h
  | inot w a => cases h
  | not a =>
    cases a <;> simp [simplifyO, simplifyNot, BOpd.getBoolConst, constBool] at h <;> cases h <;> rfl
  | neg c w a =>
    cases a <;> simp [simplifyO, simplifyNeg, IOpd.getIntConst, foldNeg, constInt] at h <;>
      (repeat' split at h) <;> (try cases h) <;> rfl
  | wbin op w a b =>
    cases a <;> cases b <;> cases op <;>
      simp [simplifyO, simplifyWrappingBinary, IOpd.getIntConst, IOpd.isZeroConst, IOpd.isOneConst,
        IOpd.isAllOnesConst, zeroInt, constInt, foldWrappingBinary] at h <;>
      (repeat' split at h) <;> (try cases h) <;> rfl
  | cbin op w a b =>
    simp only [simplifyO, simplifyCheckedBinary] at h
    split at h
    · rename_i e hf
      cases h
      split at hf
      · simp only [foldCheckedBinary] at hf
        split at hf
        · cases hf; rfl
        · cases hf
      · cases hf
    · cases a <;> cases b <;> cases op <;>
        simp [checkedIdentity, IOpd.isZeroConst, IOpd.isOneConst, zeroInt, constInt] at h <;>
        (repeat' split at h) <;> (try cases h) <;> rfl
  | icmp op ty a b =>
    simp only [simplifyO, simplifyIntCompare] at h
    split at h
    · cases h; cases op <;> rfl
    · split at h
      · cases op <;> simp only [foldIntCompare] at h <;>
          (repeat' split at h) <;> (try cases h) <;> rfl
      · cases h
  | bcmp op a b =>
    simp only [simplifyO, simplifyBoolCompare] at h
    split at h
    · cases h; cases op <;> rfl
    · split at h
      · cases op <;> simp only [foldBoolCompare] at h <;> cases h <;> rfl
      · cases h
  | checkDivZero a =>
    cases a <;> simp [simplifyO, simplifyCheckDivZero, IOpd.getIntConst] at h
    split at h <;> cases h; rfl
  | checkShift w a =>
    cases a <;> simp [simplifyO, simplifyCheckShiftAmount, IOpd.getIntConst] at h
    split at h <;> cases h; rfl

/-- hypotheses satisfiable: `1 * x ↦ x` -/
example : simplify (.wbin .mul .w64 (.const 1) (.var 5)) = some (.int (.var 5)) ∧
    (Expr.int (.var 5)).isLeaf = true := by decide

/-- consequently the pass reaches a fixed point on the instruction after ONE application -/
theorem simplify_idempotent {e e' : Expr} (h : simplify e = some e') : simplify e' = none := by
  have hl := simplify_result_isLeaf h
  cases e' <;> first | rfl | cases hl

example : simplify (.wbin .mul .w64 (.const 1) (.var 5)) = some (.int (.var 5)) ∧
    simplify (.int (.var 5)) = none := by decide

/-- an unsigned comparison operator on a type for which `fold_int_compare` asserts it is not used
(simplification.dora:348–370) -/
def unsignedMisuse (op : Cmp) (ty : ITy) : Bool :=
  match op, ty with
  | .ugt, .i32 | .ugt, .i64 | .uge, .i64 | .ult, .i32 | .ult, .i64 | .ule, .i32 | .ule, .i64 => true
  | _, _ => false

/-- the only way to make the pass abort (within the modelled instructions): an unsigned comparison of
two *different* Int32/Int64 constants, other than `UnsignedGreaterOrEqual.Int32`.  The graph builder
emits the unsigned operators only for UInt8 (`emit_compare`, bytecode_graph_builder.dora:1620), so this
is unreachable from bytecode. -/
theorem simplifyO_panic_iff (e : Expr) :
    simplifyO e = .panic ↔
      ∃ op ty a b, e = .icmp op ty (.const a) (.const b) ∧ a ≠ b ∧ unsignedMisuse op ty = true := by
  constructor
  · intro h
    cases e with
    | int o => cases h
    | bool o => cases h
    | removed => cases h
    | inot w a => cases h
    | not a => cases a <;> simp [simplifyO, simplifyNot, BOpd.getBoolConst] at h
    | neg c w a =>
      cases a <;> simp [simplifyO, simplifyNeg, IOpd.getIntConst, foldNeg] at h
      split at h <;> cases h
    | wbin op w a b =>
      cases a <;> cases b <;> cases op <;>
        simp [simplifyO, simplifyWrappingBinary, IOpd.getIntConst, IOpd.isZeroConst, IOpd.isOneConst,
          IOpd.isAllOnesConst] at h <;>
        (repeat' split at h) <;> cases h
    | cbin op w a b =>
      simp only [simplifyO, simplifyCheckedBinary] at h
      split at h
      · cases h
      · cases a <;> cases b <;> cases op <;>
          simp [checkedIdentity, IOpd.isZeroConst, IOpd.isOneConst] at h <;>
          (repeat' split at h) <;> cases h
    | icmp op ty a b =>
      simp only [simplifyO, simplifyIntCompare] at h
      split at h
      · cases h
      · rename_i hab
        split at h
        · rename_i l r hl hr
          cases a <;> simp [IOpd.getIntConst] at hl
          cases b <;> simp [IOpd.getIntConst] at hr
          subst hl hr
          refine ⟨op, ty, _, _, rfl, fun hc => hab (by rw [hc]), ?_⟩
          cases op <;> cases ty <;> simp [foldIntCompare] at h <;> rfl
        · cases h
    | bcmp op a b =>
      simp only [simplifyO, simplifyBoolCompare] at h
      split at h
      · cases h
      · split at h
        · cases op <;> simp only [foldBoolCompare] at h <;> cases h
        · cases h
    | checkDivZero a =>
      cases a <;> simp [simplifyO, simplifyCheckDivZero, IOpd.getIntConst] at h
      split at h <;> cases h
    | checkShift w a =>
      cases a <;> simp [simplifyO, simplifyCheckShiftAmount, IOpd.getIntConst] at h
      split at h <;> cases h
  · rintro ⟨op, ty, a, b, rfl, hne, hm⟩
    cases op <;> cases ty <;> simp [unsignedMisuse] at hm <;>
      simp [simplifyO, simplifyIntCompare, hne, IOpd.getIntConst, foldIntCompare]

/-- hypotheses satisfiable: `UnsignedLess.Int32(1, 2)` hits `assert(ty == Type::UInt8)` -/
example : simplifyO (.icmp .ult .i32 (.const 1) (.const 2)) = .panic := by decide

/-! ## Corollaries about traps -/

/-- a trap of the original instruction is still there after simplification -/
theorem simplify_keeps_trap {e e' : Expr} {t : Trap} (env : Env)
    (h : simplify e = some e') (hr : e.InRange env) (ht : eval env e = .error t) :
    eval env e' = .error t := by
  rw [simplify_sound env h hr, ht]

/-- simplification introduces no trap -/
theorem simplify_no_new_trap {e e' : Expr} {t : Trap} (env : Env)
    (h : simplify e = some e') (hr : e.InRange env) (ht : eval env e' = .error t) :
    eval env e = .error t := by
  rw [← simplify_sound env h hr, ht]

/-- an instruction that the pass simplifies does not trap (for operands in range): every replacement is
an operand, a constant or nothing, and those evaluate to a value -/
theorem simplify_some_no_trap {e e' : Expr} (env : Env)
    (h : simplify e = some e') (hr : e.InRange env) : ∃ v, eval env e = .ok v := by
  rw [← simplify_sound env h hr]
  have hl := simplify_result_isLeaf h
  cases e' <;> first | exact ⟨_, rfl⟩ | cases hl

/-- contrapositive: an instruction that traps for some admissible operand values is left alone -/
theorem simplify_none_of_trap {e : Expr} {t : Trap} (env : Env)
    (hr : e.InRange env) (ht : eval env e = .error t) : simplify e = none := by
  cases h : simplify e with
  | none => rfl
  | some e' =>
    obtain ⟨v, hv⟩ := simplify_some_no_trap env h hr
    rw [ht] at hv; cases hv

/-- hypotheses satisfiable: `CheckedAdd(x, 1)` with `x = MAX` traps -/
example :
    let env : Env := ⟨fun _ => 2147483647, fun _ => false⟩
    (Expr.cbin .add .w32 (.var 0) (.const 1)).InRange env ∧
      eval env (.cbin .add .w32 (.var 0) (.const 1)) = .error .overflow := by
  intro env; exact ⟨by decide, rfl⟩

/-- hypotheses satisfiable (and the conclusion is not vacuous): `CheckShiftAmount(31)` for an Int32
shift is deleted -/
example :
    let env : Env := ⟨fun _ => 0, fun _ => false⟩
    simplify (.checkShift .w32 (.const 31)) = some .removed ∧
      (Expr.checkShift .w32 (.const 31)).InRange env := by
  intro env; exact ⟨by decide, by decide⟩

/-- `x / x` is not simplified (it traps for `x = 0`) — simplification.dora:243 -/
theorem simplify_div_self (w : IW) (i : Nat) : simplify (.cbin .div w (.var i) (.var i)) = none := by
  simp [simplify, simplifyO, simplifyCheckedBinary, IOpd.getIntConst, checkedIdentity, IOpd.isOneConst]

/-- `x % x` is not simplified — simplification.dora:250 -/
theorem simplify_mod_self (w : IW) (i : Nat) : simplify (.cbin .mod w (.var i) (.var i)) = none := by
  simp [simplify, simplifyO, simplifyCheckedBinary, IOpd.getIntConst, checkedIdentity, IOpd.isOneConst]

/-- `0 / x` and `0 % x` are not simplified -/
theorem simplify_zero_div (w : IW) (i : Nat) :
    simplify (.cbin .div w (.const 0) (.var i)) = none ∧
    simplify (.cbin .mod w (.const 0) (.var i)) = none := by
  simp [simplify, simplifyO, simplifyCheckedBinary, IOpd.getIntConst, checkedIdentity, IOpd.isOneConst]

/-- `c / 0` and `c % 0` are never folded, whatever `c` -/
theorem simplify_div_by_const_zero (w : IW) (c : Int) :
    simplify (.cbin .div w (.const c) (.const 0)) = none ∧
    simplify (.cbin .mod w (.const c) (.const 0)) = none := by
  simp [simplify, simplifyO, simplifyCheckedBinary, IOpd.getIntConst, foldCheckedBinary, foldCheckedInt,
    wrap_zero, checkedIdentity, IOpd.isOneConst]

/-- `CheckDivZero(0)` stays -/
theorem simplify_checkDivZero_zero : simplify (.checkDivZero (.const 0)) = none := by decide

/-- `CheckDivZero(x)` for an unknown `x` stays -/
theorem simplify_checkDivZero_var (i : Nat) : simplify (.checkDivZero (.var i)) = none := by
  simp [simplify, simplifyO, simplifyCheckDivZero, IOpd.getIntConst]

/-- a checked operation on two in-range constants that traps is never replaced by a constant -/
theorem simplify_trapping_consts_not_folded {op : COp} {w : IW} {a b c : Int} {t : Trap}
    (ha : w.inRange a = true) (hb : w.inRange b = true) (ht : op.eval w a b = .error t) :
    simplify (.cbin op w (.const a) (.const b)) ≠ some (.int (.const c)) := by
  intro h
  have env : Env := ⟨fun _ => 0, fun _ => false⟩
  have hr : (Expr.cbin op w (.const a) (.const b)).InRange env := by
    intro o ho
    simp [Expr.iopds] at ho
    rcases ho with rfl | rfl <;> simpa [Expr.range, IOpd.eval]
  have := simplify_sound env h hr
  simp [eval, IOpd.eval, ht, okInt, Except.map] at this

/-- hypotheses satisfiable: Int32 `MAX + 1`, `MIN / -1`, `MIN % -1`, `MIN * -1`, `5 / 0` all trap, and
`simplify` leaves all of them alone -/
example :
    COp.eval .add .w32 2147483647 1 = .error .overflow ∧
    COp.eval .div .w32 (-2147483648) (-1) = .error .overflow ∧
    COp.eval .mod .w32 (-2147483648) (-1) = .error .overflow ∧
    COp.eval .mul .w32 (-2147483648) (-1) = .error .overflow ∧
    COp.eval .div .w32 5 0 = .error .div0 ∧
    simplify (.cbin .add .w32 (.const 2147483647) (.const 1)) = none ∧
    simplify (.cbin .div .w32 (.const (-2147483648)) (.const (-1))) = none ∧
    simplify (.cbin .mod .w32 (.const (-2147483648)) (.const (-1))) = none ∧
    simplify (.cbin .mul .w32 (.const (-2147483648)) (.const (-1))) = none ∧
    simplify (.cbin .div .w32 (.const 5) (.const 0)) = none ∧
    simplify (.neg true .w32 (.const (-2147483648))) = none ∧
    simplify (.neg false .w32 (.const (-2147483648))) = some (.int (.const (-2147483648))) := by
  refine ⟨rfl, rfl, rfl, rfl, rfl, ?_⟩
  decide

/-! ## Every rule on a concrete instruction (in the order of the code) -/

section RuleTable
private abbrev x : IOpd := .var 0
private abbrev y : IOpd := .var 1
private abbrev k (c : Int) : IOpd := .const c
private abbrev is (o : IOpd) : Option Expr := some (.int o)
private abbrev tt : Option Expr := some (.bool (.const true))
private abbrev ff : Option Expr := some (.bool (.const false))

/-- `simplify_not`, `simplify_neg` / `fold_neg` -/
example :
    simplify (.not (.const true)) = ff ∧ simplify (.not (.const false)) = tt ∧
    simplify (.not (.var 0)) = none ∧ simplify (.inot .w32 (k 5)) = none ∧
    simplify (.neg false .w32 (k 5)) = is (k (-5)) ∧
    simplify (.neg true .w64 (k 5)) = is (k (-5)) ∧
    simplify (.neg false .w64 (k (-9223372036854775808))) = is (k (-9223372036854775808)) ∧
    simplify (.neg true .w64 (k (-9223372036854775808))) = none ∧
    simplify (.neg true .w32 x) = none := by decide

/-- `simplify_wrapping_binary` -/
example :
    simplify (.wbin .add .w32 (k 2147483647) (k 1)) = is (k (-2147483648)) ∧
    simplify (.wbin .sub .w32 (k (-2147483648)) (k 1)) = is (k 2147483647) ∧
    simplify (.wbin .mul .w32 (k 65536) (k 65536)) = is (k 0) ∧
    simplify (.wbin .and .w32 (k (-16)) (k 255)) = is (k 240) ∧
    simplify (.wbin .or .w64 (k (-16)) (k 3)) = is (k (-13)) ∧
    simplify (.wbin .xor .w64 (k (-1)) (k 5)) = is (k (-6)) ∧
    simplify (.wbin .add .w32 x (k 0)) = is x ∧ simplify (.wbin .add .w32 (k 0) x) = is x ∧
    simplify (.wbin .sub .w32 x (k 0)) = is x ∧ simplify (.wbin .sub .w32 x x) = is (k 0) ∧
    simplify (.wbin .mul .w32 x (k 1)) = is x ∧ simplify (.wbin .mul .w32 (k 1) x) = is x ∧
    simplify (.wbin .mul .w32 x (k 0)) = is (k 0) ∧ simplify (.wbin .mul .w32 (k 0) x) = is (k 0) ∧
    simplify (.wbin .and .w32 x x) = is x ∧
    simplify (.wbin .and .w32 x (k 0)) = is (k 0) ∧ simplify (.wbin .and .w32 (k 0) x) = is (k 0) ∧
    simplify (.wbin .and .w32 x (k (-1))) = is x ∧ simplify (.wbin .and .w32 (k (-1)) x) = is x ∧
    simplify (.wbin .or .w32 x x) = is x ∧
    simplify (.wbin .or .w32 x (k 0)) = is x ∧ simplify (.wbin .or .w32 (k 0) x) = is x ∧
    simplify (.wbin .xor .w32 x x) = is (k 0) ∧
    simplify (.wbin .xor .w32 x (k 0)) = is x ∧ simplify (.wbin .xor .w32 (k 0) x) = is x := by decide

/-- rules that do NOT exist in `simplify_wrapping_binary` -/
example :
    simplify (.wbin .sub .w32 (k 0) x) = none ∧ simplify (.wbin .or .w32 x (k (-1))) = none ∧
    simplify (.wbin .xor .w32 x (k (-1))) = none ∧ simplify (.wbin .add .w32 x x) = none ∧
    simplify (.wbin .add .w32 x y) = none ∧ simplify (.wbin .sub .w32 x y) = none ∧
    simplify (.wbin .mul .w32 x (k 2)) = none := by decide

/-- `simplify_checked_binary` / `fold_checked_*` -/
example :
    simplify (.cbin .add .w32 (k 2147483646) (k 1)) = is (k 2147483647) ∧
    simplify (.cbin .add .w32 (k 2147483647) (k 1)) = none ∧
    simplify (.cbin .sub .w64 (k (-9223372036854775808)) (k 1)) = none ∧
    simplify (.cbin .mul .w32 (k 65536) (k 32768)) = none ∧
    simplify (.cbin .mul .w32 (k 65536) (k (-32768))) = is (k (-2147483648)) ∧
    simplify (.cbin .div .w32 (k (-7)) (k 2)) = is (k (-3)) ∧
    simplify (.cbin .mod .w32 (k (-7)) (k 2)) = is (k (-1)) ∧
    simplify (.cbin .div .w32 (k 7) (k 0)) = none ∧ simplify (.cbin .mod .w32 (k 7) (k 0)) = none ∧
    simplify (.cbin .div .w32 (k 0) (k 0)) = none ∧
    simplify (.cbin .div .w64 (k (-9223372036854775808)) (k (-1))) = none ∧
    simplify (.cbin .mod .w64 (k (-9223372036854775808)) (k (-1))) = none ∧
    simplify (.cbin .div .w32 (k (-2147483647)) (k (-1))) = is (k 2147483647) ∧
    simplify (.cbin .add .w32 x (k 0)) = is x ∧ simplify (.cbin .add .w32 (k 0) x) = is x ∧
    simplify (.cbin .sub .w32 x (k 0)) = is x ∧ simplify (.cbin .sub .w32 x x) = is (k 0) ∧
    simplify (.cbin .mul .w32 x (k 1)) = is x ∧ simplify (.cbin .mul .w32 (k 1) x) = is x ∧
    simplify (.cbin .mul .w32 x (k 0)) = is (k 0) ∧ simplify (.cbin .mul .w32 (k 0) x) = is (k 0) ∧
    simplify (.cbin .div .w32 x (k 1)) = is x ∧ simplify (.cbin .mod .w32 x (k 1)) = is (k 0) ∧
    simplify (.cbin .div .w32 x x) = none ∧ simplify (.cbin .mod .w32 x x) = none ∧
    simplify (.cbin .div .w32 (k 0) x) = none ∧ simplify (.cbin .div .w32 (k 1) x) = none ∧
    simplify (.cbin .div .w32 x (k (-1))) = none ∧ simplify (.cbin .sub .w32 (k 0) x) = none := by
  decide

/-- `simplify_compare`, `fold_int_compare`, `fold_bool_compare` -/
example :
    simplify (.icmp .eq .i32 x x) = tt ∧ simplify (.icmp .ge .i32 x x) = tt ∧
    simplify (.icmp .le .i64 x x) = tt ∧ simplify (.icmp .uge .u8 x x) = tt ∧
    simplify (.icmp .ule .u8 x x) = tt ∧
    simplify (.icmp .ne .i32 x x) = ff ∧ simplify (.icmp .gt .i32 x x) = ff ∧
    simplify (.icmp .lt .i64 x x) = ff ∧ simplify (.icmp .ugt .u8 x x) = ff ∧
    simplify (.icmp .ult .u8 x x) = ff ∧
    simplify (.icmp .eq .i32 x y) = none ∧ simplify (.icmp .lt .i32 x (k 0)) = none ∧
    simplify (.icmp .lt .i32 (k (-1)) (k 0)) = tt ∧ simplify (.icmp .gt .i64 (k (-1)) (k 0)) = ff ∧
    simplify (.icmp .eq .i32 (k 3) (k 4)) = ff ∧ simplify (.icmp .ne .i32 (k 3) (k 4)) = tt ∧
    simplify (.icmp .ge .i32 (k 3) (k 4)) = ff ∧ simplify (.icmp .le .i32 (k 3) (k 4)) = tt ∧
    simplify (.icmp .ugt .u8 (k 200) (k 100)) = tt ∧ simplify (.icmp .uge .u8 (k 100) (k 200)) = ff ∧
    simplify (.icmp .ult .u8 (k 100) (k 200)) = tt ∧ simplify (.icmp .ule .u8 (k 200) (k 100)) = ff ∧
    simplify (.icmp .uge .i32 (k (-1)) (k 0)) = none ∧
    simplify (.bcmp .eq (.var 0) (.var 0)) = tt ∧ simplify (.bcmp .ne (.var 0) (.var 0)) = ff ∧
    simplify (.bcmp .eq (.const true) (.const false)) = ff ∧
    simplify (.bcmp .ne (.const true) (.const false)) = tt ∧
    simplify (.bcmp .lt (.const false) (.const true)) = none ∧
    simplify (.bcmp .eq (.var 0) (.const true)) = none := by decide

/-- `simplify_check_div_zero`, `simplify_check_shift_amount` -/
example :
    simplify (.checkDivZero (k 7)) = some .removed ∧ simplify (.checkDivZero (k (-1))) = some .removed ∧
    simplify (.checkDivZero (k 0)) = none ∧ simplify (.checkDivZero x) = none ∧
    simplify (.checkShift .w32 (k 0)) = some .removed ∧
    simplify (.checkShift .w32 (k 31)) = some .removed ∧
    simplify (.checkShift .w32 (k 32)) = none ∧ simplify (.checkShift .w32 (k (-1))) = none ∧
    simplify (.checkShift .w64 (k 63)) = some .removed ∧ simplify (.checkShift .w64 (k 64)) = none ∧
    simplify (.checkShift .w64 x) = none := by decide

end RuleTable

end Dora.Mini.Simp
