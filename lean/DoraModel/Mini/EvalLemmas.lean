import DoraModel.Mini.Eval
/-!
# Lemmas about the MiniDora interpreter: monotonicity in the fuel

`M α = St → Option (Except Stop α × St)` carries the flat order of `Option` (`none` = out of fuel is
the bottom element) pointwise.  `step` is monotone in its recursive-call argument, hence more fuel
never changes a finished outcome.
-/
namespace Dora.Mini
open Lean.Order

theorem flat_le_iff {α} {x y : Option α} : x ⊑ y ↔ (x = none ∨ x = y) := by
  constructor
  · intro h
    cases h with
    | bot => exact Or.inl rfl
    | refl => exact Or.inr rfl
  · intro h
    cases h with
    | inl h => subst h; exact FlatOrder.rel.bot
    | inr h => subst h; exact FlatOrder.rel.refl

/-- the order on `M α`, spelled out -/
theorem M_le_iff {α} {x y : M α} : x ⊑ y ↔ ∀ s, (x.run s = none ∨ x.run s = y.run s) := by
  constructor
  · intro h s; exact flat_le_iff.mp (h s)
  · intro h s; exact flat_le_iff.mpr (h s)

@[partial_fixpoint_monotone]
theorem catchLoop_mono {γ} [PartialOrder γ] (f : γ → M Val) (hf : monotone f) :
    monotone (fun x => catchLoop (f x)) := by
  intro a b hab
  apply M_le_iff.mpr
  intro s
  have h := M_le_iff.mp (hf a b hab) s
  simp only [catchLoop, ExceptT.mk, ExceptT.run] at *
  cases h with
  | inl h => left; rw [h]
  | inr h => right; rw [h]

@[partial_fixpoint_monotone]
theorem catchRet_mono {γ} [PartialOrder γ] (f : γ → M Val) (hf : monotone f) :
    monotone (fun x => catchRet (f x)) := by
  intro a b hab
  apply M_le_iff.mpr
  intro s
  have h := M_le_iff.mp (hf a b hab) s
  simp only [catchRet, ExceptT.mk, ExceptT.run] at *
  cases h with
  | inl h => left; rw [h]
  | inr h => right; rw [h]

/-- one step of a monotonicity proof; `hf : monotone f` for the recursive-call argument is in scope -/
syntax "mono_with " ident : tactic
macro_rules
  | `(tactic| mono_with $hf) => `(tactic|
    repeat' (first
      | assumption
      | exact (fun a b hab => $hf a b hab _ _)
      | apply monotone_const
      | apply monotone_bind
      | apply catchLoop_mono
      | apply catchRet_mono
      | split
      | (apply monotone_of_monotone_apply; intro _)))

@[partial_fixpoint_monotone]
theorem evalList_mono {γ} [PartialOrder γ] (f : γ → Rec) (hf : monotone f) (es : List Expr) (env : Env) :
    monotone (fun x => evalList (f x) es env) := by
  induction es with
  | nil => unfold evalList; mono_with hf
  | cons e es ih => unfold evalList; mono_with hf

syntax "mono_with2 " ident ident : tactic
macro_rules
  | `(tactic| mono_with2 $hf $ih) => `(tactic|
    repeat' (first
      | assumption
      | exact (fun a b hab => $hf a b hab _ _)
      | apply $ih
      | apply monotone_const
      | apply monotone_bind
      | apply catchLoop_mono
      | apply catchRet_mono
      | split
      | (apply monotone_of_monotone_apply; intro _)))

theorem evalStmt_mono {γ} [PartialOrder γ] (f : γ → Rec) (hf : monotone f) (e : Expr) (env : Env) :
    monotone (fun x => evalStmt (f x) e env) := by
  unfold evalStmt; mono_with hf

theorem evalBlock_mono {γ} [PartialOrder γ] (f : γ → Rec) (hf : monotone f) (es : List Expr) (env : Env) :
    monotone (fun x => evalBlock (f x) es env) := by
  induction es generalizing env with
  | nil => simp only [evalBlock]; mono_with hf
  | cons e rest ih =>
    simp only [evalBlock]
    have h1 := evalStmt_mono f hf e env
    mono_with2 hf ih

theorem evalArms_mono {γ} [PartialOrder γ] (f : γ → Rec) (hf : monotone f) (v : Val)
    (arms : List (Pat × Expr)) (env : Env) : monotone (fun x => evalArms (f x) v arms env) := by
  induction arms with
  | nil => simp only [evalArms]; mono_with hf
  | cons a rest ih =>
    obtain ⟨p, body⟩ := a
    simp only [evalArms]; mono_with2 hf ih

theorem callDecl_mono {γ} [PartialOrder γ] (f : γ → Rec) (hf : monotone f) (d : FnDecl) (self : Option Val)
    (args : List Val) : monotone (fun x => callDecl (f x) d self args) := by
  unfold callDecl; mono_with hf

theorem callMutating_mono {γ} [PartialOrder γ] (f : γ → Rec) (hf : monotone f) (d : FnDecl) (self : Val)
    (args : List Val) : monotone (fun x => callMutating (f x) d self args) := by
  unfold callMutating; mono_with hf

theorem callClosure_mono {γ} [PartialOrder γ] (f : γ → Rec) (hf : monotone f) (fv : Val)
    (args : List Val) : monotone (fun x => callClosure (f x) fv args) := by
  unfold callClosure; mono_with hf

theorem fillWith_mono {γ} [PartialOrder γ] (f : γ → Rec) (hf : monotone f) (fv : Val) (i k : Nat) :
    monotone (fun x => fillWith (f x) fv i k) := by
  induction k generalizing i with
  | zero => simp only [fillWith]; mono_with hf
  | succ k ih =>
    simp only [fillWith]
    have h1 := callClosure_mono f hf fv [.int .w64 i]
    mono_with2 hf ih

theorem evalBase_mono {γ} [PartialOrder γ] (f : γ → Rec) (hf : monotone f) (root : Expr) (env : Env) :
    monotone (fun x => evalBase (f x) root env) := by
  unfold evalBase; mono_with hf

syntax "mono_step " ident : tactic
macro_rules
  | `(tactic| mono_step $hf) => `(tactic|
    repeat' (first
      | assumption
      | exact (fun a b hab => $hf a b hab _ _)
      | apply monotone_const
      | apply evalList_mono _ $hf
      | apply evalBlock_mono _ $hf
      | apply evalArms_mono _ $hf
      | apply callDecl_mono _ $hf
      | apply callMutating_mono _ $hf
      | apply callClosure_mono _ $hf
      | apply fillWith_mono _ $hf
      | apply evalBase_mono _ $hf
      | apply monotone_bind
      | apply catchLoop_mono
      | apply catchRet_mono
      | split
      | (apply monotone_of_monotone_apply; intro _)))

/-- `step` is monotone in the recursive-call argument -/
theorem step_mono (p : Prog) {γ} [PartialOrder γ] (f : γ → Rec) (hf : monotone f) (e : Expr) (env : Env) :
    monotone (fun x => step p (f x) e env) := by
  unfold step
  mono_step hf

theorem eval_le_succ (p : Prog) (n : Nat) : ∀ e env, eval p n e env ⊑ eval p (n + 1) e env := by
  induction n with
  | zero =>
    intro e env
    apply M_le_iff.mpr
    intro s
    left
    rfl
  | succ n ih =>
    intro e env
    have h := step_mono p (fun (r : Rec) => r) monotone_id e env
    exact h (eval p n) (eval p (n + 1)) (fun e env => ih e env)

/-- a finished run (any result other than "out of fuel") is unchanged by one more unit of fuel -/
theorem eval_succ_of_some (p : Prog) (n : Nat) (e : Expr) (env : Env) (s : St) (r : Except Stop Val × St)
    (h : (eval p n e env).run s = some r) : (eval p (n + 1) e env).run s = some r := by
  have hle := M_le_iff.mp (eval_le_succ p n e env) s
  cases hle with
  | inl h0 => rw [h0] at h; cases h
  | inr h1 => rw [← h1]; exact h

theorem eval_add_of_some (p : Prog) (n k : Nat) (e : Expr) (env : Env) (s : St) (r : Except Stop Val × St)
    (h : (eval p n e env).run s = some r) : (eval p (n + k) e env).run s = some r := by
  induction k with
  | zero => exact h
  | succ k ih => exact eval_succ_of_some p (n + k) e env s r ih

end Dora.Mini
