import DoraModel.Bytecode.Model
/-!
`BytecodeWriter` as a state machine (writer.rs): labels, forward-jump patching, `JumpLoop`, jump tables in
the constant pool, the constant pool entries the `emit_const_*` functions create, the line-number table.
`assert!`/`expect`/out-of-range indexing are `none`.
-/
namespace Dora.Bytecode

/-- the `ConstPoolEntry` variants the writer itself creates (floats as bit patterns, strings as UTF-8 bytes) -/
inductive ConstEntry where
  | string (bytes : List UInt8)
  | float32 (bits : Nat)
  | float64 (bits : Nat)
  | int32 (v : Int)
  | int64 (v : Int)
  | char (c : Nat)
  | jumpTable (targets : List Nat) (default : Nat)
  deriving DecidableEq, Repr, Inhabited

structure Writer where
  code : Array UInt8 := #[]
  /-- `label_offsets` -/
  labels : Array (Option Nat) := #[]
  /-- `unresolved_jump_offsets`: (start of the instruction, address of the 4 distance bytes, label), in push order -/
  unresolved : Array (Nat × Nat × Nat) := #[]
  /-- `unresolved_jump_tables`: (const-pool index, target labels, default label) -/
  tables : Array (Nat × List Nat × Nat) := #[]
  constPool : Array ConstEntry := #[]
  /-- `line_number_table` -/
  locs : Array (Nat × Nat × Nat) := #[]
  /-- `current_location` -/
  curLoc : Option (Nat × Nat) := none
  deriving Inhabited

namespace Writer

/-- append to `code` (the array is taken out of the structure first so that it is updated in place) -/
def emitBytes (w : Writer) (bs : Bytes) : Writer :=
  let code := w.code
  let w := { w with code := #[] }
  { w with code := code ++ bs.toArray }

/-- `create_label` -/
def createLabel (w : Writer) : Writer × Nat := ({ w with labels := w.labels.push none }, w.labels.size)

/-- `define_label` -/
def defineLabel (w : Writer) : Writer × Nat :=
  ({ w with labels := w.labels.push (some w.code.size) }, w.labels.size)

/-- `lookup_label`: outer `none` = index out of bounds (panic) -/
def lookupLabel (w : Writer) (l : Nat) : Option (Option Nat) := w.labels[l]?

/-- `bind_label`: `assert!(… .is_none(), "bind label twice")` -/
def bindLabel (w : Writer) (l : Nat) : Option Writer :=
  match w.lookupLabel l with
  | some none => some { w with labels := w.labels.set! l (some w.code.size) }
  | _ => none

/-- `set_location` -/
def setLocation (w : Writer) (line col : Nat) : Writer := { w with curLoc := some (line, col) }

/-- `emit_location`: `assert!(self.current_location.is_some())` -/
def emitLocation (w : Writer) : Option Writer :=
  match w.curLoc with
  | none => none
  | some (line, col) =>
    let same := match w.locs.back? with
      | some (_, l, c) => l == line && c == col
      | none => false
    if same then some { w with curLoc := none }
    else some { w with locs := w.locs.push (w.code.size, line, col), curLoc := none }

/-- the location bookkeeping at the head of `emit_values` -/
def noteLocation (w : Writer) (op : Opcode) : Option Writer :=
  if op.needsLocation then w.emitLocation else some { w with curLoc := none }

/-- every `emit_*` that goes through `emit_values` (+ `emit_u8` for `ConstUInt8`) -/
def emitInstr (w : Writer) (i : Instr) : Option Writer :=
  (w.noteLocation i.op).map fun w => w.emitBytes (writeInstr i)

/-- `add_const` -/
def addConst (w : Writer) (e : ConstEntry) : Writer × Nat :=
  let cp := w.constPool
  let n := cp.size
  let w := { w with constPool := #[] }
  ({ w with constPool := cp.push e }, n)

/-- `emit_jump` / `emit_jump_if_false` / `emit_jump_if_true`: `assert!(self.lookup_label(lbl).is_none())`, then
    `emit_jmp_forward` (opcode, optional condition register, four zero bytes; no location bookkeeping) -/
def emitJumpForward (w : Writer) (op : Opcode) (cond : Option Nat) (l : Nat) : Option Writer :=
  match w.lookupLabel l with
  | some none =>
    let start := w.code.size
    let w := w.emitBytes [op.toByte]
    let w := match cond with
      | some c => w.emitBytes (writeVar c)
      | none => w
    let address := w.code.size
    let w := w.emitBytes (writeFixed 0)
    some { w with unresolved := w.unresolved.push (start, address, l) }
  | _ => none

/-- `emit_jump_loop`: `expect("label not bound")`, `assert!(offset <= code.len())` -/
def emitJumpLoop (w : Writer) (l : Nat) : Option Writer :=
  match w.lookupLabel l with
  | some (some off) =>
    if off ≤ w.code.size then w.emitInstr ⟨.JumpLoop, [.num (w.code.size - off)]⟩ else none
  | _ => none

/-- `add_const_jump_table` -/
def addConstJumpTable (w : Writer) (targets : List Nat) (dflt : Nat) : Writer × Nat :=
  let (w, idx) := w.addConst (.jumpTable [] 0)
  ({ w with tables := w.tables.push (idx, targets, dflt) }, idx)

/-- `patch_u32` (indexing past the end panics) -/
def patchU32 (code : Array UInt8) (off v : Nat) : Option (Array UInt8) :=
  if off + 4 ≤ code.size then
    match writeFixed v with
    | [b0, b1, b2, b3] =>
      some ((((code.setIfInBounds off b0).setIfInBounds (off + 1) b1).setIfInBounds (off + 2) b2).setIfInBounds (off + 3) b3)
    | _ => none
  else none

/-- one iteration of `resolve_forward_jumps`: `expect("label not bound")`, `assert!(start < label)` -/
def resolveOne (labels : Array (Option Nat)) (code : Array UInt8) (j : Nat × Nat × Nat) : Option (Array UInt8) :=
  match labels[j.2.2]? with
  | some (some target) => if j.1 < target then patchU32 code j.2.1 (target - j.1) else none
  | _ => none

def resolveList (labels : Array (Option Nat)) : List (Nat × Nat × Nat) → Array UInt8 → Option (Array UInt8)
  | [], code => some code
  | j :: js, code =>
    match resolveOne labels code j with
    | none => none
    | some code' => resolveList labels js code'

/-- `resolve_forward_jumps` -/
def resolveForwardJumps (w : Writer) : Option Writer :=
  (resolveList w.labels w.unresolved.toList w.code).map fun c => { w with code := c, unresolved := #[] }

def lookupAll (labels : Array (Option Nat)) : List Nat → Option (List Nat)
  | [] => some []
  | l :: ls =>
    match labels[l]? with
    | some (some off) => (lookupAll labels ls).map (off :: ·)
    | _ => none

def resolveTables (labels : Array (Option Nat)) : List (Nat × List Nat × Nat) → Array ConstEntry → Option (Array ConstEntry)
  | [], cp => some cp
  | (idx, targets, dflt) :: ts, cp =>
    match lookupAll labels targets, labels[dflt]? with
    | some offs, some (some d) =>
      if idx < cp.size then resolveTables labels ts (cp.set! idx (.jumpTable offs d)) else none
    | _, _ => none

/-- `resolve_jump_tables` -/
def resolveJumpTables (w : Writer) : Option Writer :=
  (resolveTables w.labels w.tables.toList w.constPool).map fun cp => { w with constPool := cp, tables := #[] }

/-- `generate`: code, constant pool, line-number table -/
def generate (w : Writer) : Option Writer :=
  match w.resolveForwardJumps with
  | none => none
  | some w => w.resolveJumpTables

end Writer
end Dora.Bytecode
