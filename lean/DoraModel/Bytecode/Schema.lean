import DoraModel.Bytecode.Bincode
/-!
A generic bincode codec driven by a type table (C18, package layer).

`#[derive(Encode, Decode)]` produces exactly two shapes (bincode_derive 2.0.1, `derive_struct.rs` /
`derive_enum.rs`): a struct is its fields one after the other; an enum is the POSITION of the variant as a `u32`
varint (explicit discriminants are ignored: `EnumVariantIterator` counts from 0) followed by the variant's fields.
A table `Env` lists every type reachable from `Program` in this form; it is regenerated from the Rust sources into
`DoraModel/Gen/PkgTypes.lean` on every check run. Composite types refer to their components by table index, so
recursive types (`BytecodeType`) need nothing special; decoding is bounded by `fuel` (nesting depth).
-/
namespace Dora.Bincode

inductive Prim where
  | u8 | u16 | u32 | u64 | i32 | i64 | bool | f32 | f64 | char | str | bytes
  deriving DecidableEq, Repr, Inhabited

/-- one table entry; numbers are table indices -/
inductive TyD where
  | prim (p : Prim)
  /-- `Vec<T>` (also `Arc<Vec<T>>`, slices) -/
  | vec (t : Nat)
  | opt (t : Nat)
  /-- struct / tuple / tuple struct / the fields of an enum variant; `Box<T>`, `Arc<T>` are 1-tuples -/
  | tuple (ts : List Nat)
  /-- enum: for variant `i` (its position) the table index of its field tuple -/
  | enum (vs : List Nat)
  deriving Repr, Inhabited

abbrev Env := Array TyD

/-- decoded values -/
inductive PVal where
  | nat (n : Nat)
  | int (i : Int)
  | bool (b : Bool)
  | bytes (s : Bytes)
  | list (vs : List PVal)
  | opt (v : Option PVal)
  | tuple (vs : List PVal)
  | variant (idx : Nat) (payload : PVal)
  deriving Repr, Inhabited

def decPrim : Prim → Dec PVal
  | .u8, bs => (decU8 bs).map fun (n, r) => (.nat n, r)
  | .u16, bs => (decU16 bs).map fun (n, r) => (.nat n, r)
  | .u32, bs => (decU32 bs).map fun (n, r) => (.nat n, r)
  | .u64, bs => (decU64 bs).map fun (n, r) => (.nat n, r)
  | .i32, bs => (decI32 bs).map fun (n, r) => (.int n, r)
  | .i64, bs => (decI64 bs).map fun (n, r) => (.int n, r)
  | .bool, bs => (decBool bs).map fun (n, r) => (.bool n, r)
  | .f32, bs => (decF32 bs).map fun (n, r) => (.nat n, r)
  | .f64, bs => (decF64 bs).map fun (n, r) => (.nat n, r)
  | .char, bs => (decChar bs).map fun (n, r) => (.nat n, r)
  | .str, bs => (decStr bs).map fun (n, r) => (.bytes n, r)
  | .bytes, bs => (decBytes bs).map fun (n, r) => (.bytes n, r)

def encPrim : Prim → PVal → Bytes
  | .u8, .nat n => encU8 n
  | .u16, .nat n | .u32, .nat n | .u64, .nat n => encVarU n
  | .i32, .int i | .i64, .int i => encInt i
  | .bool, .bool b => encBool b
  | .f32, .nat n => encF32 n
  | .f64, .nat n => encF64 n
  | .char, .nat n => encChar n
  | .str, .bytes s => encStr s
  | .bytes, .bytes s => encBytes s
  | _, _ => []

/-- the values a primitive can hold (what the Rust type can hold) -/
def wfPrim : Prim → PVal → Bool
  | .u8, .nat n => n < 256
  | .u16, .nat n => n < 65536
  | .u32, .nat n => n < 4294967296
  | .u64, .nat n => n < 18446744073709551616
  | .i32, .int i => -2147483648 ≤ i && i < 2147483648
  | .i64, .int i => -9223372036854775808 ≤ i && i < 9223372036854775808
  | .bool, .bool _ => true
  | .f32, .nat n => n < 4294967296
  | .f64, .nat n => n < 18446744073709551616
  | .char, .nat n => isScalar n
  | .str, .bytes s => s.length < 18446744073709551616 && isUtf8 s
  | .bytes, .bytes s => s.length < 18446744073709551616
  | _, _ => false

/-- the fields of a struct / tuple, in order, each decoded by `d` -/
def decFieldsWith (d : Nat → Dec PVal) : List Nat → Dec (List PVal)
  | [], bs => some ([], bs)
  | t :: ts, bs =>
    match d t bs with
    | none => none
    | some (v, r) => (decFieldsWith d ts r).map fun (vs, r') => (v :: vs, r')

/-- decode a value of table type `t`; `fuel` bounds the nesting depth (structural recursion on `fuel` only:
    vectors and field lists go through the combinators `decN` / `decFieldsWith`) -/
def decT (env : Env) : Nat → Nat → Dec PVal
  | 0, _, _ => none
  | fuel + 1, t, bs =>
    match env[t]? with
    | none => none
    | some (.prim p) => decPrim p bs
    | some (.vec e) =>
      match decU64 bs with
      | none => none
      | some (n, r) => (decN (decT env fuel e) n r).map fun (vs, r') => (.list vs, r')
    | some (.opt e) =>
      match bs with
      | [] => none
      | b :: r =>
        if b = 0 then some (.opt none, r)
        else if b = 1 then (decT env fuel e r).map fun (v, r') => (.opt (some v), r')
        else none
    | some (.tuple ts) => (decFieldsWith (decT env fuel) ts bs).map fun (vs, r) => (.tuple vs, r)
    | some (.enum vs) =>
      match decU32 bs with
      | none => none
      | some (i, r) =>
        match vs[i]? with
        | none => none
        | some p => (decT env fuel p r).map fun (v, r') => (.variant i v, r')

def encFieldsWith (e : Nat → PVal → Bytes) : List Nat → List PVal → Bytes
  | t :: ts, v :: vs => e t v ++ encFieldsWith e ts vs
  | _, _ => []

/-- encode a value at table type `t` (nothing for a value of the wrong shape; see `wfT`) -/
def encT (env : Env) : Nat → Nat → PVal → Bytes
  | 0, _, _ => []
  | fuel + 1, t, v =>
    match env[t]?, v with
    | some (.prim p), v => encPrim p v
    | some (.vec e), .list vs => encVarU vs.length ++ encList (encT env fuel e) vs
    | some (.opt _), .opt none => [0]
    | some (.opt e), .opt (some x) => 1 :: encT env fuel e x
    | some (.tuple ts), .tuple vs => encFieldsWith (encT env fuel) ts vs
    | some (.enum ps), .variant i x =>
      match ps[i]? with
      | some p => encVarU i ++ encT env fuel p x
      | none => []
    | _, _ => []

def wfFieldsWith (w : Nat → PVal → Bool) : List Nat → List PVal → Bool
  | [], [] => true
  | t :: ts, v :: vs => w t v && wfFieldsWith w ts vs
  | _, _ => false

/-- the value has the shape of table type `t`, all numbers are in range, nesting depth ≤ `fuel` -/
def wfT (env : Env) : Nat → Nat → PVal → Bool
  | 0, _, _ => false
  | fuel + 1, t, v =>
    match env[t]?, v with
    | some (.prim p), v => wfPrim p v
    | some (.vec e), .list vs => decide (vs.length < 18446744073709551616) && vs.all (wfT env fuel e)
    | some (.opt _), .opt none => true
    | some (.opt e), .opt (some x) => wfT env fuel e x
    | some (.tuple ts), .tuple vs => wfFieldsWith (wfT env fuel) ts vs
    | some (.enum ps), .variant i x =>
      match ps[i]? with
      | some p => decide (i < 4294967296) && wfT env fuel p x
      | none => false
    | _, _ => false

/-- `decode_program_from_bytes`: decode the root type, refuse trailing bytes -/
def decodeAll (env : Env) (root : Nat) (bs : Bytes) : Option PVal :=
  match decT env ((bs.length + 2) * (env.size + 1)) root bs with
  | some (v, []) => some v
  | _ => none

end Dora.Bincode
