import DoraModel.Gen.BcOpcodes
/-!
Model of the instruction layer of dora-bytecode (C18): `writer.rs` / `reader.rs`.
The opcode numbering and the per-opcode operand layouts are NOT here: they are regenerated from the Rust
sources into `DoraModel/Gen/BcOpcodes.lean` on every check run. This file transcribes the primitives
(`emit_u32_variable`, `read_u32_variable`, `emit_u32_fixed`, `read_u32_fixed`, `patch_u32`) and the
generic "opcode byte + operand list" shape of `emit_values` / `read_instruction`.
`panic!`/`expect`/index-out-of-bounds/arithmetic overflow (the harness and the pinned profile are debug
builds) are `none`.
-/
namespace Dora.Bytecode

abbrev Bytes := List UInt8

/-- `BytecodeWriter::emit_u32_variable`: 7 bits per byte, least significant group first, bit 7 set on
    every byte but the last. (The Rust argument is a `u32`; callers cast with `as u32`, see `WF`.) -/
def writeVar (v : Nat) : Bytes :=
  if v < 128 then [UInt8.ofNat v] else UInt8.ofNat (v % 128 + 128) :: writeVar (v / 128)
termination_by v
decreasing_by omega

/-- the reader's position: the bytes not yet read and `self.offset` -/
structure Cur where
  bs : Bytes
  off : Nat
  deriving DecidableEq, Repr, Inhabited

/-- the loop of `BytecodeReader::read_u32_variable`; `result`/`shift` are the Rust locals (both `u32`).
    `self.code[self.offset]` past the end panics; `<< shift` with `shift ≥ 32` panics in a debug build
    (in a release build the shift amount would wrap instead). Bits shifted out above bit 31 are dropped. -/
def readVarGo (result shift off : Nat) : Bytes → Option (Nat × Cur)
  | [] => none
  | b :: rest =>
    if 32 ≤ shift then none
    else
      let result := result ||| (((b &&& 0x7F).toNat <<< shift) % 4294967296)
      if b &&& 0x80 = 0 then some (result, ⟨rest, off + 1⟩) else readVarGo result (shift + 7) (off + 1) rest

/-- `BytecodeReader::read_u32_variable` -/
def readVar (c : Cur) : Option (Nat × Cur) := readVarGo 0 0 c.off c.bs

/-- `BytecodeWriter::emit_u32_fixed`: four bytes, little endian -/
def writeFixed (v : Nat) : Bytes :=
  [UInt8.ofNat (v % 256), UInt8.ofNat (v / 256 % 256), UInt8.ofNat (v / 65536 % 256), UInt8.ofNat (v / 16777216 % 256)]

/-- `BytecodeReader::read_u32_fixed` -/
def readFixed : Cur → Option (Nat × Cur)
  | ⟨b1 :: b2 :: b3 :: b4 :: rest, off⟩ =>
    some ((b4.toNat <<< 24) ||| (b3.toNat <<< 16) ||| (b2.toNat <<< 8) ||| b1.toNat, ⟨rest, off + 4⟩)
  | _ => none

/-- an operand value: a number (register, const-pool index, global id, const id, jump distance, raw byte)
    or the argument registers of an invoke/new instruction -/
inductive Operand where
  | num (v : Nat)
  | args (rs : List Nat)
  deriving DecidableEq, Repr, Inhabited

/-- an instruction: opcode + operands in wire order -/
structure Instr where
  op : Opcode
  operands : List Operand
  deriving DecidableEq, Repr, Inhabited

def writeRegs : List Nat → Bytes
  | [] => []
  | r :: rs => writeVar r ++ writeRegs rs

/-- one operand as `emit_values` (+ `emit_u8` / `emit_u32_fixed`) writes it -/
def writeOperand : Kind → Operand → Bytes
  | .byte, .num v => [UInt8.ofNat v]
  | .fixed32, .num v => writeFixed v
  | .args, .args rs => writeVar rs.length ++ writeRegs rs
  | .args, .num _ => []
  | _, .num v => writeVar v
  | _, .args _ => []

def writeOperands : List Kind → List Operand → Bytes
  | k :: ks, o :: os => writeOperand k o ++ writeOperands ks os
  | _, _ => []

/-- what `as u32` / `u8` keep: the operand shapes and ranges for which writing loses nothing -/
def wfOperand : Kind → Operand → Bool
  | .byte, .num v => v < 256
  | .args, .args rs => rs.length < 4294967296 && rs.all (· < 4294967296)
  | .args, .num _ => false
  | _, .num v => v < 4294967296
  | _, .args _ => false

def wfOperands : List Kind → List Operand → Bool
  | [], [] => true
  | k :: ks, o :: os => wfOperand k o && wfOperands ks os
  | _, _ => false

/-- well-formed instruction: operands fit the layout the writer uses for the opcode -/
def Instr.WF (i : Instr) : Prop := wfOperands i.op.writeLayout i.operands = true

instance (i : Instr) : Decidable i.WF := by unfold Instr.WF; infer_instance

/-- opcode byte followed by the operands: `emit_values` (and `emit_jmp_forward` with the distance known) -/
def writeInstr (i : Instr) : Bytes := i.op.toByte :: writeOperands i.op.writeLayout i.operands

/-- `read_arguments` after the count -/
def readRegs : Nat → Cur → Option (List Nat × Cur)
  | 0, c => some ([], c)
  | n + 1, c =>
    match readVar c with
    | none => none
    | some (r, c') =>
      match readRegs n c' with
      | none => none
      | some (rs, c'') => some (r :: rs, c'')

def readOperand : Kind → Cur → Option (Operand × Cur)
  | .byte, ⟨[], _⟩ => none
  | .byte, ⟨b :: rest, off⟩ => some (.num b.toNat, ⟨rest, off + 1⟩)
  | .fixed32, c => (readFixed c).map fun (v, r) => (.num v, r)
  | .args, c =>
    match readVar c with
    | none => none
    | some (n, c') => (readRegs n c').map fun (rs, r) => (.args rs, r)
  | _, c => (readVar c).map fun (v, r) => (.num v, r)

def readOperands : List Kind → Cur → Option (List Operand × Cur)
  | [], c => some ([], c)
  | k :: ks, c =>
    match readOperand k c with
    | none => none
    | some (o, c') =>
      match readOperands ks c' with
      | none => none
      | some (os, c'') => some (o :: os, c'')

/-- `BytecodeReader::read_instruction` (`read_opcode` + the arm of the opcode); illegal opcode = `expect` panic -/
def readInstr : Cur → Option (Instr × Cur)
  | ⟨[], _⟩ => none
  | ⟨b :: rest, off⟩ =>
    match Opcode.ofByte? b with
    | none => none
    | some op => (readOperands op.readLayout ⟨rest, off + 1⟩).map fun (os, r) => (⟨op, os⟩, r)

/-- `BytecodeFullIteration::read`: instructions with their start offsets until the code is used up.
    Tail recursive (a function body may be megabytes); `fuel` ≥ number of instructions. -/
def readAllGo : Nat → Cur → List (Nat × Instr) → Option (List (Nat × Instr))
  | _, ⟨[], _⟩, acc => some acc.reverse
  | 0, ⟨_ :: _, _⟩, _ => none
  | fuel + 1, c, acc =>
    match readInstr c with
    | none => none
    | some (i, c') => readAllGo fuel c' ((c.off, i) :: acc)

def readAll (bs : Bytes) : Option (List (Nat × Instr)) := readAllGo bs.length ⟨bs, 0⟩ []

/-- instructions paired with the offsets the writer puts them at -/
def withOffsets : Nat → List Instr → List (Nat × Instr)
  | _, [] => []
  | off, i :: is => (off, i) :: withOffsets (off + (writeInstr i).length) is

def writeAll : List Instr → Bytes
  | [] => []
  | i :: is => writeInstr i ++ writeAll is

end Dora.Bytecode
