import DoraModel.Bytecode.Model
/-! Helper lemmas for C18 (instruction layer). Byte facts by exhaustive `decide` over the 256 byte values. -/
namespace Dora.Bytecode

theorem forall_uint8 (p : UInt8 → Prop) [DecidablePred p] (h : ∀ i : Fin 256, p (UInt8.ofNat i.val)) :
    ∀ b : UInt8, p b := by
  intro b
  have := h ⟨b.toNat, b.toNat_lt⟩
  simpa using this

theorem lo7 (b : UInt8) : (b &&& 0x7F).toNat = b.toNat % 128 := by
  revert b; apply forall_uint8; decide +kernel

theorem hi_clear (b : UInt8) : (b &&& 0x80 = 0) ↔ b.toNat < 128 := by
  revert b; apply forall_uint8; decide +kernel

theorem or_shift (acc c s : Nat) (h : acc < 2 ^ s) : acc ||| (c <<< s) = acc + c * 2 ^ s := by
  rw [Nat.or_comm, ← Nat.shiftLeft_add_eq_or_of_lt h c, Nat.shiftLeft_eq, Nat.add_comm]

theorem or_shift' (acc c s : Nat) (h : acc < 2 ^ s) : acc ||| (c * 2 ^ s) = acc + c * 2 ^ s := by
  have := or_shift acc c s h
  rw [Nat.shiftLeft_eq] at this; exact this

theorem split128 (v P : Nat) : v * P = (v % 128) * P + (v / 128) * (128 * P) := by
  conv => lhs; rw [← Nat.div_add_mod v 128]
  rw [Nat.add_mul, Nat.mul_comm 128 (v / 128), Nat.mul_assoc, Nat.add_comm]

theorem readVarGo_writeVar (v : Nat) : ∀ (acc s off : Nat) (rest : Bytes), acc < 2 ^ s → s < 32 → v * 2 ^ s < 2 ^ 32 →
    readVarGo acc s off (writeVar v ++ rest) = some (acc + v * 2 ^ s, ⟨rest, off + (writeVar v).length⟩) := by
  induction v using Nat.strongRecOn with
  | _ v ih =>
    intro acc s off rest hacc hs hv
    rw [writeVar]
    have hP : 0 < 2 ^ s := Nat.two_pow_pos s
    split
    · rename_i hlt
      have hb : (UInt8.ofNat v).toNat = v := by simp; omega
      have h1 : ¬ (32 ≤ s) := by omega
      have h2 : (UInt8.ofNat v &&& 0x80 = 0) := (hi_clear _).2 (by omega)
      simp only [List.cons_append, List.nil_append, readVarGo, h1, if_false, h2, if_true, lo7, hb,
        List.length_cons, List.length_nil]
      rw [Nat.mod_eq_of_lt hlt, Nat.shiftLeft_eq, Nat.mod_eq_of_lt (by simpa using hv), or_shift' _ _ _ hacc]
    · rename_i hge
      have hge : 128 ≤ v := by omega
      have hb : (UInt8.ofNat (v % 128 + 128)).toNat = v % 128 + 128 := by simp; omega
      have h1 : ¬ (32 ≤ s) := by omega
      have h2 : ¬ (UInt8.ofNat (v % 128 + 128) &&& 0x80 = 0) := by rw [hi_clear, hb]; omega
      have hsplit := split128 v (2 ^ s)
      have hlow : (v % 128) * 2 ^ s ≤ 127 * 2 ^ s := Nat.mul_le_mul_right _ (by omega)
      have hhigh : 1 * (128 * 2 ^ s) ≤ (v / 128) * (128 * 2 ^ s) := Nat.mul_le_mul_right _ (by omega)
      have hpow : 2 ^ (s + 7) = 128 * 2 ^ s := by rw [Nat.pow_add]; omega
      have hs7 : s + 7 < 32 := by
        have : 2 ^ (s + 7) < 2 ^ 32 := by omega
        exact (Nat.pow_lt_pow_iff_right (by decide)).1 this
      have hchunk : (v % 128) * 2 ^ s < 4294967296 := by
        have : (2:Nat) ^ 32 = 4294967296 := by decide
        omega
      simp only [List.cons_append, readVarGo, h1, if_false, h2, lo7, hb, List.length_cons]
      have e1 : (v % 128 + 128) % 128 = v % 128 := by omega
      rw [e1, Nat.shiftLeft_eq, Nat.mod_eq_of_lt hchunk, or_shift' _ _ _ hacc]
      rw [ih (v / 128) (by omega) (acc + v % 128 * 2 ^ s) (s + 7) (off + 1) rest (by rw [hpow]; omega) hs7 (by rw [hpow]; omega)]
      rw [hpow]
      congr 2
      · omega
      · congr 1; omega

theorem ofNat_toNat_lt (n : Nat) (h : n < 256) : (UInt8.ofNat n).toNat = n := by
  simp; omega

theorem readFixed_writeFixed (v off : Nat) (rest : Bytes) (hv : v < 4294967296) :
    readFixed ⟨writeFixed v ++ rest, off⟩ = some (v, ⟨rest, off + 4⟩) := by
  simp only [writeFixed, List.cons_append, List.nil_append, readFixed]
  rw [ofNat_toNat_lt _ (Nat.mod_lt _ (by decide)), ofNat_toNat_lt _ (Nat.mod_lt _ (by decide)),
    ofNat_toNat_lt _ (Nat.mod_lt _ (by decide)), ofNat_toNat_lt _ (Nat.mod_lt _ (by decide))]
  rw [Nat.or_assoc, Nat.or_assoc]
  rw [← Nat.shiftLeft_add_eq_or_of_lt (i := 8) (by omega) (v / 256 % 256)]
  rw [← Nat.shiftLeft_add_eq_or_of_lt (i := 16) (by simp [Nat.shiftLeft_eq]; omega) (v / 65536 % 256)]
  rw [← Nat.shiftLeft_add_eq_or_of_lt (i := 24) (by simp [Nat.shiftLeft_eq]; omega) (v / 16777216 % 256)]
  simp only [Nat.shiftLeft_eq]
  congr 2
  omega

theorem readVar_writeVar (v off : Nat) (rest : Bytes) (hv : v < 4294967296) :
    readVar ⟨writeVar v ++ rest, off⟩ = some (v, ⟨rest, off + (writeVar v).length⟩) := by
  have := readVarGo_writeVar v 0 0 off rest (by decide) (by decide) (by simpa using hv)
  simpa [readVar] using this

theorem writeVar_length_pos (v : Nat) : 0 < (writeVar v).length := by
  rw [writeVar]; split <;> simp

theorem readRegs_writeRegs (rs : List Nat) : ∀ (off : Nat) (rest : Bytes), rs.all (· < 4294967296) = true →
    readRegs rs.length ⟨writeRegs rs ++ rest, off⟩ = some (rs, ⟨rest, off + (writeRegs rs).length⟩) := by
  induction rs with
  | nil => intro off rest _; simp [readRegs, writeRegs]
  | cons r rs ih =>
    intro off rest h
    simp only [List.all_cons, Bool.and_eq_true, decide_eq_true_eq] at h
    simp only [List.length_cons, readRegs, writeRegs, List.append_assoc]
    simp only [readVar_writeVar r off _ h.1, ih _ _ h.2, List.length_append, Nat.add_assoc]

theorem readOperand_var (k : Kind) (v off : Nat) (rest : Bytes) (h : v < 4294967296)
    (hk : k ≠ .byte) (hf : k ≠ .fixed32) (ha : k ≠ .args) :
    readOperand k ⟨writeVar v ++ rest, off⟩ = some (.num v, ⟨rest, off + (writeVar v).length⟩) := by
  cases k <;> first
    | (exact absurd rfl hk) | (exact absurd rfl hf) | (exact absurd rfl ha)
    | (simp only [readOperand, readVar_writeVar v off rest h, Option.map_some])

theorem readOperand_writeOperand (k : Kind) (o : Operand) (off : Nat) (rest : Bytes) (h : wfOperand k o = true) :
    readOperand k ⟨writeOperand k o ++ rest, off⟩ = some (o, ⟨rest, off + (writeOperand k o).length⟩) := by
  cases o with
  | num v =>
    cases k
    case byte =>
      simp only [wfOperand, decide_eq_true_eq] at h
      simp [writeOperand, readOperand, ofNat_toNat_lt v h]
    case fixed32 =>
      simp only [wfOperand, decide_eq_true_eq] at h
      simp only [writeOperand, readOperand, readFixed_writeFixed v off rest h, Option.map_some]
      simp [writeFixed]
    case args => simp [wfOperand] at h
    all_goals
      simp only [wfOperand, decide_eq_true_eq] at h
      simp only [writeOperand]
      exact readOperand_var _ v off rest h (by simp) (by simp) (by simp)
  | args rs =>
    cases k
    case args =>
      simp only [wfOperand, Bool.and_eq_true, decide_eq_true_eq] at h
      simp only [writeOperand, readOperand, List.append_assoc]
      simp only [readVar_writeVar rs.length off _ h.1, readRegs_writeRegs rs _ rest h.2, Option.map_some,
        List.length_append, Nat.add_assoc]
    all_goals simp [wfOperand] at h

theorem readOperands_writeOperands (ks : List Kind) : ∀ (os : List Operand) (off : Nat) (rest : Bytes),
    wfOperands ks os = true →
    readOperands ks ⟨writeOperands ks os ++ rest, off⟩ = some (os, ⟨rest, off + (writeOperands ks os).length⟩) := by
  induction ks with
  | nil => intro os off rest h; cases os <;> simp_all [wfOperands, readOperands, writeOperands]
  | cons k ks ih =>
    intro os off rest h
    cases os with
    | nil => simp [wfOperands] at h
    | cons o os =>
      simp only [wfOperands, Bool.and_eq_true] at h
      simp only [writeOperands, readOperands, List.append_assoc]
      simp only [readOperand_writeOperand k o off _ h.1, ih os _ rest h.2, List.length_append, Nat.add_assoc]

/-- the two generated tables agree: `try_from(into(op)) = op` -/
theorem ofByte_toByte (op : Opcode) : Opcode.ofByte? op.toByte = some op := by
  cases op <;> decide

/-- the writer and the reader use the same operand layout for every opcode (generated tables) -/
theorem layouts_agree (op : Opcode) : op.readLayout = op.writeLayout := by
  cases op <;> rfl

theorem readInstr_writeInstr (i : Instr) (off : Nat) (rest : Bytes) (h : i.WF) :
    readInstr ⟨writeInstr i ++ rest, off⟩ = some (i, ⟨rest, off + (writeInstr i).length⟩) := by
  unfold Instr.WF at h
  simp only [writeInstr, List.cons_append, readInstr, ofByte_toByte, layouts_agree]
  rw [readOperands_writeOperands _ _ _ rest h]
  simp [Nat.add_assoc, Nat.add_comm]

end Dora.Bytecode

namespace Dora.Bytecode

theorem readAllGo_step (f off : Nat) (bs : Bytes) (acc : List (Nat × Instr)) (h : bs ≠ []) :
    readAllGo (f + 1) ⟨bs, off⟩ acc =
      match readInstr ⟨bs, off⟩ with
      | none => none
      | some (i, c') => readAllGo f c' ((off, i) :: acc) := by
  cases bs with
  | nil => exact absurd rfl h
  | cons b bs =>
    rw [readAllGo]
    · cases readInstr ⟨b :: bs, off⟩ <;> rfl
    · intro o ho; simp at ho

theorem writeInstr_ne_nil (i : Instr) : writeInstr i ≠ [] := by simp [writeInstr]

theorem writeAll_length_ge (is : List Instr) : is.length ≤ (writeAll is).length := by
  induction is with
  | nil => simp [writeAll]
  | cons i is ih =>
    have : 0 < (writeInstr i).length := List.length_pos_iff.mpr (writeInstr_ne_nil i)
    simp only [writeAll, List.length_cons, List.length_append]; omega

theorem readAllGo_writeAll (is : List Instr) : ∀ (fuel off : Nat) (acc : List (Nat × Instr)),
    is.length ≤ fuel → (∀ i ∈ is, i.WF) →
    readAllGo fuel ⟨writeAll is, off⟩ acc = some (acc.reverse ++ withOffsets off is) := by
  induction is with
  | nil => intro fuel off acc _ _; cases fuel <;> simp [writeAll, readAllGo, withOffsets]
  | cons i is ih =>
    intro fuel off acc hf hwf
    cases fuel with
    | zero => simp at hf
    | succ f =>
      have hne : writeAll (i :: is) ≠ [] := by simp [writeAll, writeInstr_ne_nil]
      rw [readAllGo_step f off _ acc hne]
      simp only [writeAll]
      rw [readInstr_writeInstr i off (writeAll is) (hwf i (by simp))]
      simp only
      rw [ih f _ _ (by simpa using hf) (fun j hj => hwf j (by simp [hj]))]
      simp [withOffsets]

end Dora.Bytecode
