import DoraModel.Bytecode.Bincode
/-! Round-trip lemmas for the bincode combinators (C18). -/
namespace Dora.Bincode

/-- `dec` inverts `enc` on the values satisfying `P`, whatever follows in the input -/
def RT (enc : α → Bytes) (dec : Dec α) (P : α → Prop) : Prop :=
  ∀ x rest, P x → dec (enc x ++ rest) = some (x, rest)

theorem leBytes_length (n v : Nat) : (leBytes n v).length = n := by
  induction n generalizing v with
  | zero => rfl
  | succ n ih => simp [leBytes, ih]

theorem leVal_leBytes (n : Nat) : ∀ v, v < 256 ^ n → leVal (leBytes n v) = v := by
  induction n with
  | zero => intro v h; simp at h; simp [leBytes, leVal, h]
  | succ n ih =>
    intro v h
    have h2 : v / 256 < 256 ^ n := by
      rw [Nat.pow_succ] at h
      exact Nat.div_lt_of_lt_mul (by rw [Nat.mul_comm]; exact h)
    simp only [leBytes, leVal, ih _ h2, UInt8.toNat_ofNat']
    omega

theorem takeGo_append (xs : Bytes) : ∀ (rest acc : Bytes),
    takeGo xs.length (xs ++ rest) acc = some (acc.reverse ++ xs, rest) := by
  induction xs with
  | nil => intro rest acc; simp [takeGo]
  | cons x xs ih => intro rest acc; simp [takeGo, ih]

theorem takeN_append (xs rest : Bytes) : takeN xs.length (xs ++ rest) = some (xs, rest) := by
  simp [takeN, takeGo_append]

theorem takeN_leBytes (n v : Nat) (rest : Bytes) : takeN n (leBytes n v ++ rest) = some (leBytes n v, rest) := by
  have := takeN_append (leBytes n v) rest
  rwa [leBytes_length] at this

/-- bound of the integer type whose decoder accepts markers up to `m` -/
def varBound (m : Nat) : Nat := if m = 251 then 65536 else if m = 252 then 4294967296 else 18446744073709551616

theorem ofNat_toNat_lt (n : Nat) (h : n < 256) : (UInt8.ofNat n).toNat = n := by
  simp; omega

theorem decVarU_encVarU (m v : Nat) (rest : Bytes) (hm : m = 251 ∨ m = 252 ∨ m = 253) (hv : v < varBound m) :
    decVarU m (encVarU v ++ rest) = some (v, rest) := by
  unfold encVarU
  split
  · rename_i h
    simp [decVarU, ofNat_toNat_lt v (by omega), h]
  · split
    · rename_i h1 h2
      have hl : leVal (leBytes 2 v) = v := leVal_leBytes 2 v (by simpa using h2)
      have : ¬ (m < 251) := by omega
      simp [decVarU, this, takeN_leBytes, hl]
    · split
      · rename_i h1 h2 h3
        have hl : leVal (leBytes 4 v) = v := leVal_leBytes 4 v (by simpa using h3)
        have : ¬ (m < 252) := by
          rcases hm with h | h | h <;> simp [h, varBound] at hv ⊢ <;> omega
        simp [decVarU, this, takeN_leBytes, hl]
      · rename_i h1 h2 h3
        have hm3 : m = 253 := by
          rcases hm with h | h | h <;> simp [h, varBound] at hv ⊢ <;> omega
        subst hm3
        have hl : leVal (leBytes 8 v) = v := leVal_leBytes 8 v (by simpa [varBound] using hv)
        simp [decVarU, takeN_leBytes, hl]

theorem rt_u16 : RT encVarU decU16 (· < 65536) := fun v rest h => decVarU_encVarU 251 v rest (by simp) (by simpa [varBound] using h)
theorem rt_u32 : RT encVarU decU32 (· < 4294967296) := fun v rest h => decVarU_encVarU 252 v rest (by simp) (by simpa [varBound] using h)
theorem rt_u64 : RT encVarU decU64 (· < 18446744073709551616) := fun v rest h => decVarU_encVarU 253 v rest (by simp) (by simpa [varBound] using h)

theorem rt_u8 : RT encU8 decU8 (· < 256) := by
  intro v rest h; simp [encU8, decU8, ofNat_toNat_lt v h]

theorem unzigzag_zigzag (v : Int) : unzigzag (zigzag v) = v := by
  unfold zigzag unzigzag
  split
  · rename_i h
    have e : ((-(2 * v) - 1).toNat : Int) = -(2 * v) - 1 := Int.toNat_of_nonneg (by omega)
    split <;> (simp only [Int.ofNat_eq_natCast, Int.natCast_ediv]; omega)
  · rename_i h
    have e : ((2 * v).toNat : Int) = 2 * v := Int.toNat_of_nonneg (by omega)
    split <;> (simp only [Int.ofNat_eq_natCast, Int.natCast_ediv]; omega)

theorem zigzag_lt (v : Int) (b : Nat) (h1 : -(b : Int) ≤ v) (h2 : v < b) : zigzag v < 2 * b := by
  unfold zigzag; split <;> omega

theorem rt_i32 : RT encInt decI32 (fun v => -2147483648 ≤ v ∧ v < 2147483648) := by
  intro v rest h
  have := rt_u32 (zigzag v) rest (by have := zigzag_lt v 2147483648 (by omega) (by omega); omega)
  simp [encInt, decI32, this, unzigzag_zigzag]

theorem rt_i64 : RT encInt decI64 (fun v => -9223372036854775808 ≤ v ∧ v < 9223372036854775808) := by
  intro v rest h
  have := rt_u64 (zigzag v) rest (by have := zigzag_lt v 9223372036854775808 (by omega) (by omega); omega)
  simp [encInt, decI64, this, unzigzag_zigzag]

theorem rt_bool : RT encBool decBool (fun _ => True) := by
  intro b rest _; cases b <;> simp [encBool, decBool]

theorem rt_f32 : RT encF32 decF32 (· < 4294967296) := by
  intro v rest h
  simp [encF32, decF32, takeN_leBytes, leVal_leBytes 4 v (by simpa using h)]

theorem rt_f64 : RT encF64 decF64 (· < 18446744073709551616) := by
  intro v rest h
  simp [encF64, decF64, takeN_leBytes, leVal_leBytes 8 v (by simpa using h)]

theorem rt_decN (enc : α → Bytes) (dec : Dec α) (P : α → Prop) (h : RT enc dec P) (xs : List α) :
    ∀ rest, (∀ x ∈ xs, P x) → decN dec xs.length (encList enc xs ++ rest) = some (xs, rest) := by
  induction xs with
  | nil => intro rest _; simp [decN, encList]
  | cons x xs ih =>
    intro rest hp
    simp only [List.length_cons, decN, encList, List.append_assoc]
    simp only [h x _ (hp x (by simp)), ih rest (fun y hy => hp y (by simp [hy]))]

/-- `Vec<T>` round-trips when `T` does (and the length fits `u64`) -/
theorem rt_vec (enc : α → Bytes) (dec : Dec α) (P : α → Prop) (h : RT enc dec P) :
    RT (encVec enc) (decVec dec) (fun xs => xs.length < 18446744073709551616 ∧ ∀ x ∈ xs, P x) := by
  intro xs rest hp
  simp only [encVec, decVec, List.append_assoc]
  rw [rt_u64 xs.length _ hp.1]
  exact rt_decN enc dec P h xs rest hp.2

/-- `Option<T>` round-trips when `T` does -/
theorem rt_opt (enc : α → Bytes) (dec : Dec α) (P : α → Prop) (h : RT enc dec P) :
    RT (encOpt enc) (decOpt dec) (fun o => ∀ x, o = some x → P x) := by
  intro o rest hp
  cases o with
  | none => simp [encOpt, decOpt]
  | some x => simp [encOpt, decOpt, h x rest (hp x rfl)]

/-- tuples / struct fields: a pair round-trips when both components do -/
theorem rt_pair (ea : α → Bytes) (da : Dec α) (Pa : α → Prop) (eb : β → Bytes) (db : Dec β) (Pb : β → Prop)
    (ha : RT ea da Pa) (hb : RT eb db Pb) :
    RT (encPair ea eb) (decPair da db) (fun p => Pa p.1 ∧ Pb p.2) := by
  intro p rest hp
  simp only [encPair, decPair, List.append_assoc]
  simp only [ha p.1 _ hp.1, hb p.2 _ hp.2]

/-- byte vectors -/
theorem rt_bytes : RT encBytes decBytes (fun s => s.length < 18446744073709551616) := by
  intro s rest h
  simp only [encBytes, decBytes, List.append_assoc]
  rw [rt_u64 s.length _ h]
  exact takeN_append s rest

/-- strings: any valid UTF-8 byte string -/
theorem rt_str : RT encStr decStr (fun s => s.length < 18446744073709551616 ∧ isUtf8 s = true) := by
  intro s rest h
  simp only [encStr, decStr, List.append_assoc]
  rw [rt_u64 s.length _ h.1]
  simp [takeN_append, h.2]

set_option maxRecDepth 8000 in
/-- `char`: every Unicode scalar value -/
theorem rt_char : RT encChar decChar (fun c => isScalar c = true) := by
  intro c rest h
  simp only [isScalar, Bool.or_eq_true, Bool.and_eq_true, decide_eq_true_eq] at h
  unfold encChar decChar
  split
  · rename_i h1
    simp [decUtf8, ofNat_toNat_lt c (by omega), h1]
  · split
    · rename_i h1 h2
      have a0 : (UInt8.ofNat (0xC0 + c / 64)).toNat = 0xC0 + c / 64 := ofNat_toNat_lt _ (by omega)
      have a1 : (UInt8.ofNat (0x80 + c % 64)).toNat = 0x80 + c % 64 := ofNat_toNat_lt _ (by omega)
      simp only [List.cons_append, List.nil_append, decUtf8, isCont, a0, a1]
      have : ¬ (0xC0 + c / 64 < 0x80) := by omega
      simp only [this, if_false]
      have : (decide (0xC2 ≤ 0xC0 + c / 64) && decide (0xC0 + c / 64 ≤ 0xDF)) = true := by
        simp; omega
      simp only [this, if_true]
      have : (decide (0x80 ≤ 0x80 + c % 64) && decide (0x80 + c % 64 ≤ 0xBF)) = true := by simp; omega
      simp only [this, if_true]
      congr 2; omega
    · split
      · rename_i h1 h2 h3
        have a0 : (UInt8.ofNat (0xE0 + c / 4096)).toNat = 0xE0 + c / 4096 := ofNat_toNat_lt _ (by omega)
        have a1 : (UInt8.ofNat (0x80 + c / 64 % 64)).toNat = 0x80 + c / 64 % 64 := ofNat_toNat_lt _ (by omega)
        have a2 : (UInt8.ofNat (0x80 + c % 64)).toNat = 0x80 + c % 64 := ofNat_toNat_lt _ (by omega)
        simp only [List.cons_append, List.nil_append, decUtf8, isCont, a0, a1, a2]
        have : ¬ (0xE0 + c / 4096 < 0x80) := by omega
        simp only [this, if_false]
        have : (decide (0xC2 ≤ 0xE0 + c / 4096) && decide (0xE0 + c / 4096 ≤ 0xDF)) = false := by simp; omega
        simp only [this, Bool.false_eq_true, if_false]
        have : (decide (0xE0 ≤ 0xE0 + c / 4096) && decide (0xE0 + c / 4096 ≤ 0xEF)) = true := by simp; omega
        simp only [this, if_true]
        have : ((decide ((if 0xE0 + c / 4096 = 0xE0 then 0xA0 else 0x80) ≤ 0x80 + c / 64 % 64) &&
            decide (0x80 + c / 64 % 64 ≤ (if 0xE0 + c / 4096 = 0xED then 0x9F else 0xBF))) &&
            (decide (0x80 ≤ 0x80 + c % 64) && decide (0x80 + c % 64 ≤ 0xBF))) = true := by
          simp only [Bool.and_eq_true, decide_eq_true_eq]
          refine ⟨⟨?_, ?_⟩, ?_, ?_⟩ <;> (try split) <;> omega
        simp only [this, if_true]
        congr 2; omega
      · rename_i h1 h2 h3
        have a0 : (UInt8.ofNat (0xF0 + c / 262144)).toNat = 0xF0 + c / 262144 := ofNat_toNat_lt _ (by omega)
        have a1 : (UInt8.ofNat (0x80 + c / 4096 % 64)).toNat = 0x80 + c / 4096 % 64 := ofNat_toNat_lt _ (by omega)
        have a2 : (UInt8.ofNat (0x80 + c / 64 % 64)).toNat = 0x80 + c / 64 % 64 := ofNat_toNat_lt _ (by omega)
        have a3 : (UInt8.ofNat (0x80 + c % 64)).toNat = 0x80 + c % 64 := ofNat_toNat_lt _ (by omega)
        simp only [List.cons_append, List.nil_append, decUtf8, isCont, a0, a1, a2, a3]
        have : ¬ (0xF0 + c / 262144 < 0x80) := by omega
        simp only [this, if_false]
        have : (decide (0xC2 ≤ 0xF0 + c / 262144) && decide (0xF0 + c / 262144 ≤ 0xDF)) = false := by simp; omega
        simp only [this, Bool.false_eq_true, if_false]
        have : (decide (0xE0 ≤ 0xF0 + c / 262144) && decide (0xF0 + c / 262144 ≤ 0xEF)) = false := by simp; omega
        simp only [this, Bool.false_eq_true, if_false]
        have : (decide (0xF0 ≤ 0xF0 + c / 262144) && decide (0xF0 + c / 262144 ≤ 0xF4)) = true := by simp; omega
        simp only [this, if_true]
        have : ((((decide ((if 0xF0 + c / 262144 = 0xF0 then 0x90 else 0x80) ≤ 0x80 + c / 4096 % 64) &&
            decide (0x80 + c / 4096 % 64 ≤ (if 0xF0 + c / 262144 = 0xF4 then 0x8F else 0xBF))) &&
            (decide (0x80 ≤ 0x80 + c / 64 % 64) && decide (0x80 + c / 64 % 64 ≤ 0xBF))) &&
            (decide (0x80 ≤ 0x80 + c % 64) && decide (0x80 + c % 64 ≤ 0xBF)))) = true := by
          simp only [Bool.and_eq_true, decide_eq_true_eq]
          refine ⟨⟨⟨?_, ?_⟩, ?_, ?_⟩, ?_, ?_⟩ <;> (try split) <;> omega
        simp only [this, if_true]
        congr 2; omega

end Dora.Bincode
