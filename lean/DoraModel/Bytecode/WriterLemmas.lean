import DoraModel.Bytecode.Writer
import DoraModel.Bytecode.Lemmas
/-! Lemmas about the writer state machine (jump patching). -/
namespace Dora.Bytecode

/-- byte `k` (0..3) of the little-endian encoding -/
def fixedByte (v k : Nat) : UInt8 := UInt8.ofNat (v / 256 ^ k % 256)

theorem writeFixed_eq (v : Nat) : writeFixed v = [fixedByte v 0, fixedByte v 1, fixedByte v 2, fixedByte v 3] := by
  simp [writeFixed, fixedByte]

/-- `patch_u32` keeps the length, puts byte `k` of the value at `off + k`, and touches nothing else -/
theorem patchU32_spec (code : Array UInt8) (off v : Nat) (h : off + 4 ≤ code.size) :
    ∃ c', Writer.patchU32 code off v = some c' ∧ c'.size = code.size ∧
      (∀ k, k < 4 → c'[off + k]? = some (fixedByte v k)) ∧
      (∀ i, (i < off ∨ off + 4 ≤ i) → c'[i]? = code[i]?) := by
  simp only [Writer.patchU32, h, if_true, writeFixed]
  refine ⟨_, rfl, by simp, ?_, ?_⟩
  · intro k hk
    simp only [Array.getElem?_setIfInBounds, Array.size_setIfInBounds]
    have : k = 0 ∨ k = 1 ∨ k = 2 ∨ k = 3 := by omega
    rcases this with rfl | rfl | rfl | rfl <;> simp [fixedByte] <;> omega
  · intro i hi
    simp only [Array.getElem?_setIfInBounds, Array.size_setIfInBounds]
    have h0 : ¬ (off = i) := by omega
    have h1 : ¬ (off + 1 = i) := by omega
    have h2 : ¬ (off + 2 = i) := by omega
    have h3 : ¬ (off + 3 = i) := by omega
    simp [h0, h1, h2, h3]


/-- the pending forward jumps lie one after the other inside the code (4 bytes each) -/
def Laid (size : Nat) (u : List (Nat × Nat × Nat)) : Prop :=
  u.Pairwise (fun a b => a.2.1 + 4 ≤ b.2.1) ∧ ∀ j ∈ u, j.2.1 + 4 ≤ size

/-- every pending jump's label is bound behind the jump -/
def Bound (labels : Array (Option Nat)) (u : List (Nat × Nat × Nat)) : Prop :=
  ∀ j ∈ u, ∃ t, labels[j.2.2]? = some (some t) ∧ j.1 < t

theorem resolveList_spec (labels : Array (Option Nat)) (u : List (Nat × Nat × Nat)) :
    ∀ (code : Array UInt8), Laid code.size u → Bound labels u →
    ∃ c', Writer.resolveList labels u code = some c' ∧ c'.size = code.size ∧
      (∀ j ∈ u, ∀ t, labels[j.2.2]? = some (some t) → ∀ k, k < 4 → c'[j.2.1 + k]? = some (fixedByte (t - j.1) k)) ∧
      (∀ i, (∀ j ∈ u, i < j.2.1 ∨ j.2.1 + 4 ≤ i) → c'[i]? = code[i]?) := by
  induction u with
  | nil => intro code _ _; exact ⟨code, rfl, rfl, by simp, by simp⟩
  | cons j js ih =>
    intro code hl hb
    obtain ⟨t, ht, hst⟩ := hb j (by simp)
    have hpw := List.pairwise_cons.mp hl.1
    obtain ⟨c1, e1, s1, p1, q1⟩ := patchU32_spec code j.2.1 (t - j.1) (hl.2 j (by simp))
    have hl' : Laid c1.size js := ⟨hpw.2, fun x hx => by rw [s1]; exact hl.2 x (by simp [hx])⟩
    obtain ⟨c2, e2, s2, p2, q2⟩ := ih c1 hl' (fun x hx => hb x (by simp [hx]))
    refine ⟨c2, ?_, by rw [s2, s1], ?_, ?_⟩
    · simp [Writer.resolveList, Writer.resolveOne, ht, hst, e1, e2]
    · intro x hx t' ht' k hk
      rcases List.mem_cons.mp hx with rfl | hx
      · have : t' = t := by rw [ht] at ht'; simpa using ht'.symm
        subst this
        rw [q2 _ (fun y hy => Or.inl (by have := hpw.1 y hy; omega))]
        exact p1 k hk
      · exact p2 x hx t' ht' k hk
    · intro i hi
      rw [q2 i (fun y hy => hi y (by simp [hy])), q1 i (hi j (by simp))]

/-- an unbound label makes `resolve_forward_jumps` fail (the `expect("label not bound")`) -/
theorem resolveList_unbound (labels : Array (Option Nat)) (u : List (Nat × Nat × Nat)) :
    ∀ (code : Array UInt8), (∃ j ∈ u, labels[j.2.2]? = some none) → Writer.resolveList labels u code = none := by
  induction u with
  | nil => intro code h; simp at h
  | cons j js ih =>
    intro code h
    obtain ⟨x, hx, hn⟩ := h
    rcases List.mem_cons.mp hx with rfl | hx
    · simp [Writer.resolveList, Writer.resolveOne, hn]
    · simp only [Writer.resolveList]
      cases h1 : Writer.resolveOne labels code j with
      | none => rfl
      | some c => exact ih c ⟨x, hx, hn⟩

theorem laid_mono (n m : Nat) (u : List (Nat × Nat × Nat)) (h : n ≤ m) (hl : Laid n u) : Laid m u :=
  ⟨hl.1, fun j hj => Nat.le_trans (hl.2 j hj) h⟩

theorem emitBytes_size (w : Writer) (bs : Bytes) : (w.emitBytes bs).code.size = w.code.size + bs.length := by
  simp [Writer.emitBytes]

/-- `emit_jmp_forward` keeps the pending jumps laid out: the new distance field is the last four bytes -/
theorem emitJumpForward_laid (w w' : Writer) (op : Opcode) (cond : Option Nat) (l : Nat)
    (hl : Laid w.code.size w.unresolved.toList) (h : w.emitJumpForward op cond l = some w') :
    Laid w'.code.size w'.unresolved.toList ∧
    ∃ a, w'.unresolved.toList = w.unresolved.toList ++ [(w.code.size, a, l)] ∧ a + 4 = w'.code.size ∧
      w.code.size < a := by
  unfold Writer.emitJumpForward at h
  split at h
  · simp only [Option.some.injEq] at h
    subst h
    cases cond with
    | none =>
      simp only [Array.toList_push, Writer.emitBytes, writeFixed]
      refine ⟨⟨?_, ?_⟩, _, rfl, ?_, ?_⟩
      · rw [List.pairwise_append]
        refine ⟨hl.1, by simp, ?_⟩
        intro a ha b hb
        simp only [List.mem_singleton] at hb; subst hb
        have := hl.2 a ha; simp; omega
      · intro j hj
        rcases List.mem_append.mp hj with hj | hj
        · have := hl.2 j hj; simp; omega
        · simp only [List.mem_singleton] at hj; subst hj; simp
      · simp
      · simp
    | some c =>
      have hp := writeVar_length_pos c
      simp only [Array.toList_push, Writer.emitBytes, writeFixed]
      refine ⟨⟨?_, ?_⟩, _, rfl, ?_, ?_⟩
      · rw [List.pairwise_append]
        refine ⟨hl.1, by simp, ?_⟩
        intro a ha b hb
        simp only [List.mem_singleton] at hb; subst hb
        have := hl.2 a ha; simp; omega
      · intro j hj
        rcases List.mem_append.mp hj with hj | hj
        · have := hl.2 j hj; simp; omega
        · simp only [List.mem_singleton] at hj; subst hj; simp; omega
      · simp; omega
      · simp
  · simp at h

end Dora.Bytecode
