import DoraModel.Bytecode.Schema
import DoraModel.Bytecode.BincodeLemmas
/-! The generic table-driven codec round-trips (C18, package layer). -/
namespace Dora.Bincode
set_option linter.unusedSimpArgs false

theorem rtPrim (p : Prim) (v : PVal) (rest : Bytes) (h : wfPrim p v = true) :
    decPrim p (encPrim p v ++ rest) = some (v, rest) := by
  cases p with
  | u8 =>
    cases v <;> simp only [wfPrim, Bool.and_eq_true, decide_eq_true_eq, Bool.false_eq_true] at h
    case nat x => simp [encPrim, decPrim, rt_u8 x rest h]
  | u16 =>
    cases v <;> simp only [wfPrim, Bool.and_eq_true, decide_eq_true_eq, Bool.false_eq_true] at h
    case nat x => simp [encPrim, decPrim, rt_u16 x rest h]
  | u32 =>
    cases v <;> simp only [wfPrim, Bool.and_eq_true, decide_eq_true_eq, Bool.false_eq_true] at h
    case nat x => simp [encPrim, decPrim, rt_u32 x rest h]
  | u64 =>
    cases v <;> simp only [wfPrim, Bool.and_eq_true, decide_eq_true_eq, Bool.false_eq_true] at h
    case nat x => simp [encPrim, decPrim, rt_u64 x rest h]
  | i32 =>
    cases v <;> simp only [wfPrim, Bool.and_eq_true, decide_eq_true_eq, Bool.false_eq_true] at h
    case int x => simp [encPrim, decPrim, rt_i32 x rest h]
  | i64 =>
    cases v <;> simp only [wfPrim, Bool.and_eq_true, decide_eq_true_eq, Bool.false_eq_true] at h
    case int x => simp [encPrim, decPrim, rt_i64 x rest h]
  | bool =>
    cases v <;> simp only [wfPrim, Bool.and_eq_true, decide_eq_true_eq, Bool.false_eq_true] at h
    case bool x => simp [encPrim, decPrim, rt_bool x rest trivial]
  | f32 =>
    cases v <;> simp only [wfPrim, Bool.and_eq_true, decide_eq_true_eq, Bool.false_eq_true] at h
    case nat x => simp [encPrim, decPrim, rt_f32 x rest h]
  | f64 =>
    cases v <;> simp only [wfPrim, Bool.and_eq_true, decide_eq_true_eq, Bool.false_eq_true] at h
    case nat x => simp [encPrim, decPrim, rt_f64 x rest h]
  | char =>
    cases v <;> simp only [wfPrim, Bool.and_eq_true, decide_eq_true_eq, Bool.false_eq_true] at h
    case nat x => simp [encPrim, decPrim, rt_char x rest h]
  | str =>
    cases v <;> simp only [wfPrim, Bool.and_eq_true, decide_eq_true_eq, Bool.false_eq_true] at h
    case bytes x => simp [encPrim, decPrim, rt_str x rest h]
  | bytes =>
    cases v <;> simp only [wfPrim, Bool.and_eq_true, decide_eq_true_eq, Bool.false_eq_true] at h
    case bytes x => simp [encPrim, decPrim, rt_bytes x rest h]


/-- statement at one fuel level -/
def RtAt (env : Env) (fuel : Nat) : Prop :=
  ∀ t v rest, wfT env fuel t v = true → decT env fuel t (encT env fuel t v ++ rest) = some (v, rest)

theorem rtFields_of (e : Nat → PVal → Bytes) (d : Nat → Dec PVal) (w : Nat → PVal → Bool)
    (h : ∀ t v rest, w t v = true → d t (e t v ++ rest) = some (v, rest)) (ts : List Nat) :
    ∀ (vs : List PVal) rest, wfFieldsWith w ts vs = true →
      decFieldsWith d ts (encFieldsWith e ts vs ++ rest) = some (vs, rest) := by
  induction ts with
  | nil =>
    intro vs rest hw
    cases vs with
    | nil => simp [decFieldsWith, encFieldsWith]
    | cons v vs => simp [wfFieldsWith] at hw
  | cons t ts ih =>
    intro vs rest hw
    cases vs with
    | nil => simp [wfFieldsWith] at hw
    | cons v vs =>
      simp only [wfFieldsWith, Bool.and_eq_true] at hw
      simp only [encFieldsWith, decFieldsWith, List.append_assoc, h t v _ hw.1, ih vs rest hw.2, Option.map_some]

theorem rtAt (env : Env) : ∀ fuel, RtAt env fuel := by
  intro fuel
  induction fuel with
  | zero => intro t v rest hw; simp [wfT] at hw
  | succ f ih =>
    intro t v rest hw
    simp only [wfT] at hw
    simp only [encT, decT]
    cases ht : env[t]? with
    | none => simp [ht] at hw
    | some d =>
      cases d with
      | prim p =>
        simp only [ht] at hw ⊢
        exact rtPrim p v rest hw
      | vec e =>
        cases v <;> simp only [ht, Bool.false_eq_true] at hw
        case list vs =>
          simp only [Bool.and_eq_true, decide_eq_true_eq, List.all_eq_true] at hw
          have hm := rt_decN (encT env f e) (decT env f e) (fun v => wfT env f e v = true) (ih e) vs rest hw.2
          simp only [ht, List.append_assoc, rt_u64 vs.length _ hw.1, hm, Option.map_some]
      | opt e =>
        cases v <;> simp only [ht, Bool.false_eq_true] at hw
        case opt o =>
          cases o with
          | none => simp [ht]
          | some x =>
            simp only [ht] at hw
            simp [ht, ih e x rest hw]
      | tuple ts =>
        cases v <;> simp only [ht, Bool.false_eq_true] at hw
        case tuple vs =>
          simp only [ht, rtFields_of (encT env f) (decT env f) (wfT env f) ih ts vs rest hw, Option.map_some]
      | «enum» ps =>
        cases v <;> simp only [ht, Bool.false_eq_true] at hw
        case variant i x =>
          cases hp : ps[i]? with
          | none => simp [hp] at hw
          | some q =>
            simp only [hp, Bool.and_eq_true, decide_eq_true_eq] at hw
            simp only [ht, hp, List.append_assoc, rt_u32 i _ hw.1, ih q x rest hw.2, Option.map_some]

/-- The table-driven codec round-trips for every type table, every type in it and every well-formed value:
    the derive-shaped encoding of any type tree is decoded back to the same value, whatever follows. -/
theorem schema_roundtrip (env : Env) (fuel t : Nat) (v : PVal) (rest : Bytes) (h : wfT env fuel t v = true) :
    decT env fuel t (encT env fuel t v ++ rest) = some (v, rest) := rtAt env fuel t v rest h

end Dora.Bincode
