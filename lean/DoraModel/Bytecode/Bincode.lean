/-!
The wire format of bincode 2.0.1 under `bincode::config::standard()` (little endian, variable-length integers,
no limit) — the configuration `dora-bytecode/src/serializer.rs` and the package writer use.
Transcribed from the crate sources in the cargo registry:
  `src/varint/{encode,decode}_{unsigned,signed}.rs`, `src/enc/impls.rs`, `src/de/impls.rs`, `src/de/mod.rs`
  (`decode_option_variant`, `decode_slice_len`), `src/features/impl_alloc.rs` (`Vec`, `String`, `Box`, `Arc`),
  `bincode_derive` (struct = fields in order, enum = variant index as `u32` then the fields).
A decoding error is `none`. Floats are bit patterns; strings and chars are UTF-8 byte strings / code points.
-/
namespace Dora.Bincode

abbrev Bytes := List UInt8
abbrev Dec (α : Type) := Bytes → Option (α × Bytes)

/-- `n` bytes, little endian (`to_le_bytes`) -/
def leBytes : Nat → Nat → Bytes
  | 0, _ => []
  | n + 1, v => UInt8.ofNat (v % 256) :: leBytes n (v / 256)

/-- `from_le_bytes` -/
def leVal : Bytes → Nat
  | [] => 0
  | b :: bs => b.toNat + 256 * leVal bs

/-- `Reader::read` of exactly `n` bytes (`UnexpectedEnd` otherwise) -/
def takeGo : Nat → Bytes → Bytes → Option (Bytes × Bytes)
  | 0, bs, acc => some (acc.reverse, bs)
  | _ + 1, [], _ => none
  | n + 1, b :: bs, acc => takeGo n bs (b :: acc)

def takeN (n : Nat) (bs : Bytes) : Option (Bytes × Bytes) := takeGo n bs []

/-- `varint_encode_u16/u32/u64/usize`: ≤ 250 one byte; else marker 251/252/253 + 2/4/8 bytes LE.
    (The argument is below 2^16 / 2^32 / 2^64 for the respective type; `usize` is encoded as `u64`.) -/
def encVarU (v : Nat) : Bytes :=
  if v ≤ 250 then [UInt8.ofNat v]
  else if v < 65536 then 251 :: leBytes 2 v
  else if v < 4294967296 then 252 :: leBytes 4 v
  else 253 :: leBytes 8 v

/-- `varint_decode_*`: `maxMarker` = 251 for `u16`, 252 for `u32`, 253 for `u64`/`usize`. A marker the type
    is too small for, 254 (u128) and 255 (reserved) are `InvalidIntegerType`. The decoder does NOT insist on
    the shortest form (251 00 00 decodes to 0). -/
def decVarU (maxMarker : Nat) : Dec Nat
  | [] => none
  | b :: rest =>
    if b.toNat ≤ 250 then some (b.toNat, rest)
    else if maxMarker < b.toNat then none
    else
      let width := if b.toNat = 251 then 2 else if b.toNat = 252 then 4 else 8
      match takeN width rest with
      | none => none
      | some (raw, rest') => some (leVal raw, rest')

def encU8 (v : Nat) : Bytes := [UInt8.ofNat v]
def decU8 : Dec Nat
  | [] => none
  | b :: rest => some (b.toNat, rest)

def decU16 : Dec Nat := decVarU 251
def decU32 : Dec Nat := decVarU 252
def decU64 : Dec Nat := decVarU 253

/-- zig-zag of `varint_encode_i16/i32/i64`: negative `n` ↦ `!n * 2 + 1 = -2n - 1`, else `2n` -/
def zigzag (v : Int) : Nat := if v < 0 then (-(2 * v) - 1).toNat else (2 * v).toNat
/-- `varint_decode_i*`: even ↦ `n / 2`, odd ↦ `!(n / 2)` -/
def unzigzag (n : Nat) : Int := if n % 2 = 0 then Int.ofNat (n / 2) else -(Int.ofNat (n / 2)) - 1

def encInt (v : Int) : Bytes := encVarU (zigzag v)
def decI32 : Dec Int := fun bs => (decU32 bs).map fun (n, r) => (unzigzag n, r)
def decI64 : Dec Int := fun bs => (decU64 bs).map fun (n, r) => (unzigzag n, r)

def encBool (b : Bool) : Bytes := [if b then 1 else 0]
/-- `InvalidBooleanValue` for anything but 0/1 -/
def decBool : Dec Bool
  | [] => none
  | b :: rest => if b = 0 then some (false, rest) else if b = 1 then some (true, rest) else none

/-- `f32`/`f64`: the raw bits, fixed width, little endian (floats are never varint-encoded) -/
def encF32 (bits : Nat) : Bytes := leBytes 4 bits
def decF32 : Dec Nat := fun bs => (takeN 4 bs).map fun (raw, r) => (leVal raw, r)
def encF64 (bits : Nat) : Bytes := leBytes 8 bits
def decF64 : Dec Nat := fun bs => (takeN 8 bs).map fun (raw, r) => (leVal raw, r)

/-- a Unicode scalar value -/
def isScalar (c : Nat) : Bool := c < 0xD800 || (0xE000 ≤ c && c < 0x110000)

/-- `encode_utf8` (enc/impls.rs) -/
def encChar (c : Nat) : Bytes :=
  if c < 0x80 then [UInt8.ofNat c]
  else if c < 0x800 then [UInt8.ofNat (0xC0 + c / 64), UInt8.ofNat (0x80 + c % 64)]
  else if c < 0x10000 then [UInt8.ofNat (0xE0 + c / 4096), UInt8.ofNat (0x80 + c / 64 % 64), UInt8.ofNat (0x80 + c % 64)]
  else [UInt8.ofNat (0xF0 + c / 262144), UInt8.ofNat (0x80 + c / 4096 % 64), UInt8.ofNat (0x80 + c / 64 % 64),
        UInt8.ofNat (0x80 + c % 64)]

def isCont (b : UInt8) : Bool := 0x80 ≤ b.toNat && b.toNat ≤ 0xBF

/-- one UTF-8 encoded scalar at the head of the input, as `core::str::from_utf8` accepts it
    (no overlong forms, no surrogates, nothing above U+10FFFF) -/
def decUtf8 : Dec Nat
  | [] => none
  | b0 :: rest =>
    let a := b0.toNat
    if a < 0x80 then some (a, rest)
    else if 0xC2 ≤ a && a ≤ 0xDF then
      match rest with
      | b1 :: r => if isCont b1 then some ((a - 0xC0) * 64 + (b1.toNat - 0x80), r) else none
      | _ => none
    else if 0xE0 ≤ a && a ≤ 0xEF then
      match rest with
      | b1 :: b2 :: r =>
        let lo := if a = 0xE0 then 0xA0 else 0x80
        let hi := if a = 0xED then 0x9F else 0xBF
        if lo ≤ b1.toNat && b1.toNat ≤ hi && isCont b2 then
          some ((a - 0xE0) * 4096 + (b1.toNat - 0x80) * 64 + (b2.toNat - 0x80), r)
        else none
      | _ => none
    else if 0xF0 ≤ a && a ≤ 0xF4 then
      match rest with
      | b1 :: b2 :: b3 :: r =>
        let lo := if a = 0xF0 then 0x90 else 0x80
        let hi := if a = 0xF4 then 0x8F else 0xBF
        if lo ≤ b1.toNat && b1.toNat ≤ hi && isCont b2 && isCont b3 then
          some ((a - 0xF0) * 262144 + (b1.toNat - 0x80) * 4096 + (b2.toNat - 0x80) * 64 + (b3.toNat - 0x80), r)
        else none
      | _ => none
    else none

/-- `impl Decode for char`: width from the first byte (`utf8_char_width`), then `from_utf8` of exactly
    that many bytes — the same acceptance as `decUtf8` -/
def decChar : Dec Nat := decUtf8

/-- `String::from_utf8` succeeds -/
def validUtf8 : Nat → Bytes → Bool
  | _, [] => true
  | 0, _ :: _ => false
  | fuel + 1, bs =>
    match decUtf8 bs with
    | none => false
    | some (_, rest) => validUtf8 fuel rest

def isUtf8 (bs : Bytes) : Bool := validUtf8 bs.length bs

/-- `String` = `Vec<u8>`: length as `u64` varint, then the bytes -/
def encStr (s : Bytes) : Bytes := encVarU s.length ++ s
def decStr : Dec Bytes := fun bs =>
  match decU64 bs with
  | none => none
  | some (n, r) =>
    match takeN n r with
    | none => none
    | some (s, r') => if isUtf8 s then some (s, r') else none

/-- `Vec<u8>` (no UTF-8 requirement) -/
def encBytes (s : Bytes) : Bytes := encVarU s.length ++ s
def decBytes : Dec Bytes := fun bs =>
  match decU64 bs with
  | none => none
  | some (n, r) => takeN n r

def encList (enc : α → Bytes) : List α → Bytes
  | [] => []
  | x :: xs => enc x ++ encList enc xs

def decN (dec : Dec α) : Nat → Dec (List α)
  | 0, bs => some ([], bs)
  | n + 1, bs =>
    match dec bs with
    | none => none
    | some (x, r) =>
      match decN dec n r with
      | none => none
      | some (xs, r') => some (x :: xs, r')

/-- `Vec<T>` / `[T]`: length as `u64` varint, then the items -/
def encVec (enc : α → Bytes) (xs : List α) : Bytes := encVarU xs.length ++ encList enc xs
def decVec (dec : Dec α) : Dec (List α) := fun bs =>
  match decU64 bs with
  | none => none
  | some (n, r) => decN dec n r

/-- `Option<T>`: one byte 0/1 (`decode_option_variant`), then the value -/
def encOpt (enc : α → Bytes) : Option α → Bytes
  | none => [0]
  | some x => 1 :: enc x
def decOpt (dec : Dec α) : Dec (Option α)
  | [] => none
  | b :: rest =>
    if b = 0 then some (none, rest)
    else if b = 1 then (dec rest).map fun (x, r) => (some x, r)
    else none

/-- tuples and derived structs: the fields one after the other -/
def encPair (ea : α → Bytes) (eb : β → Bytes) (p : α × β) : Bytes := ea p.1 ++ eb p.2
def decPair (da : Dec α) (db : Dec β) : Dec (α × β) := fun bs =>
  match da bs with
  | none => none
  | some (a, r) =>
    match db r with
    | none => none
    | some (b, r') => some ((a, b), r')

/-- derived enum: the variant index as a `u32` varint (then the variant's fields) -/
def encTag (i : Nat) : Bytes := encVarU i
def decTag : Dec Nat := decU32

/-! A small closed universe of types so that the driver can decode / re-encode values the harness produced
with the real crate (`bin <type> <hex>` requests). -/

inductive Ty where
  | u8 | u16 | u32 | u64 | i32 | i64 | bool | f32 | f64 | char | str
  | vec (t : Ty) | opt (t : Ty) | pair (a b : Ty)
  deriving Repr, Inhabited

inductive Val where
  | nat (n : Nat) | int (i : Int) | bool (b : Bool) | bytes (s : Bytes)
  | list (vs : List Val) | opt (v : Option Val) | pair (a b : Val)
  deriving Repr, Inhabited

mutual
def decTy : Ty → Dec Val
  | .u8, bs => (decU8 bs).map fun (n, r) => (.nat n, r)
  | .u16, bs => (decU16 bs).map fun (n, r) => (.nat n, r)
  | .u32, bs => (decU32 bs).map fun (n, r) => (.nat n, r)
  | .u64, bs => (decU64 bs).map fun (n, r) => (.nat n, r)
  | .i32, bs => (decI32 bs).map fun (n, r) => (.int n, r)
  | .i64, bs => (decI64 bs).map fun (n, r) => (.int n, r)
  | .bool, bs => (decBool bs).map fun (n, r) => (.bool n, r)
  | .f32, bs => (decF32 bs).map fun (n, r) => (.nat n, r)
  | .f64, bs => (decF64 bs).map fun (n, r) => (.nat n, r)
  | .char, bs => (decChar bs).map fun (n, r) => (.nat n, r)
  | .str, bs => (decStr bs).map fun (n, r) => (.bytes n, r)
  | .vec t, bs =>
    match decU64 bs with
    | none => none
    | some (n, r) => (decTyN t n r).map fun (vs, r') => (.list vs, r')
  | .opt t, bs =>
    match bs with
    | [] => none
    | b :: rest =>
      if b = 0 then some (.opt none, rest)
      else if b = 1 then (decTy t rest).map fun (x, r) => (.opt (some x), r)
      else none
  | .pair a b, bs =>
    match decTy a bs with
    | none => none
    | some (x, r) => (decTy b r).map fun (y, r') => (.pair x y, r')
def decTyN : Ty → Nat → Dec (List Val)
  | _, 0, bs => some ([], bs)
  | t, n + 1, bs =>
    match decTy t bs with
    | none => none
    | some (x, r) => (decTyN t n r).map fun (xs, r') => (x :: xs, r')
end

mutual
def encVal : Ty → Val → Bytes
  | .u8, .nat n => encU8 n
  | .u16, .nat n | .u32, .nat n | .u64, .nat n => encVarU n
  | .i32, .int i | .i64, .int i => encInt i
  | .bool, .bool b => encBool b
  | .f32, .nat n => encF32 n
  | .f64, .nat n => encF64 n
  | .char, .nat n => encChar n
  | .str, .bytes s => encStr s
  | .vec t, .list vs => encVarU vs.length ++ encVals t vs
  | .opt _, .opt none => [0]
  | .opt t, .opt (some v) => 1 :: encVal t v
  | .pair a b, .pair x y => encVal a x ++ encVal b y
  | _, _ => []
def encVals : Ty → List Val → Bytes
  | _, [] => []
  | t, v :: vs => encVal t v ++ encVals t vs
end

partial def parseTy (s : List String) : Option (Ty × List String) :=
  match s with
  | "u8" :: r => some (.u8, r)
  | "u16" :: r => some (.u16, r)
  | "u32" :: r => some (.u32, r)
  | "u64" :: r => some (.u64, r)
  | "usize" :: r => some (.u64, r)
  | "i32" :: r => some (.i32, r)
  | "i64" :: r => some (.i64, r)
  | "bool" :: r => some (.bool, r)
  | "f32" :: r => some (.f32, r)
  | "f64" :: r => some (.f64, r)
  | "char" :: r => some (.char, r)
  | "str" :: r => some (.str, r)
  | "vec" :: r => (parseTy r).map fun (t, r') => (.vec t, r')
  | "opt" :: r => (parseTy r).map fun (t, r') => (.opt t, r')
  | "pair" :: r =>
    match parseTy r with
    | none => none
    | some (a, r') => (parseTy r').map fun (b, r'') => (.pair a b, r'')
  | _ => none

/-- `bin <type> <hex>`: `ok <re-encoding> <bytes left over>` or `err`; the type is written in prefix form with
    `.` between the words (`vec.pair.u32.opt.str`) -/
def respond (ty : String) (input : Bytes) (toHex : Bytes → String) : String :=
  match parseTy (ty.splitOn ".") with
  | some (t, []) =>
    match decTy t input with
    | none => "err"
    | some (v, rest) => s!"ok {toHex (encVal t v)} {rest.length}"
  | _ => "!badreq"

end Dora.Bincode
