import DoraModel.Symbol.Model
