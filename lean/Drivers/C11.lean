import DoraModel.Match.Model
import DoraModel.Match.ModelWT
open Dora.Match

/-! Line-protocol driver for C11. Request grammar: see harness/crates/c11/src/main.rs.
    Response: `<algorithm verdict as the real front end prints it> ## <brute-force truth> ## <run-time arms>`.
    `(m (D*) T (A*))`: run-time arms for every value of a finite scrutinee type.
    `(lm L (A*) (V*))`: literal scrutinee (L = Int64 | Int32 | UInt8 | Char | Str; the model has one integer type);
    run-time arms = `firstMatch` for the selector values `V*` listed in the request, per guard mask. -/

inductive SExp where
  | atom (s : String)
  | list (xs : List SExp)
  deriving Repr, Inhabited

def tokenize (s : String) : List String := Id.run do
  let mut toks : List String := []
  let mut cur : List Char := []
  for c in s.toList do
    if c == '(' || c == ')' then
      if !cur.isEmpty then toks := String.ofList cur.reverse :: toks; cur := []
      toks := String.ofList [c] :: toks
    else if c == ' ' || c == '\n' || c == '\r' || c == '\t' then
      if !cur.isEmpty then toks := String.ofList cur.reverse :: toks; cur := []
    else cur := c :: cur
  if !cur.isEmpty then toks := String.ofList cur.reverse :: toks
  return toks.reverse

partial def parseSeq : List String → List SExp → Option (List SExp × List String)
  | [], acc => some (acc.reverse, [])
  | ")" :: rest, acc => some (acc.reverse, ")" :: rest)
  | "(" :: rest, acc =>
    match parseSeq rest [] with
    | some (xs, ")" :: rest') => parseSeq rest' (.list xs :: acc)
    | _ => none
  | a :: rest, acc => parseSeq rest (.atom a :: acc)

def parseSExp (s : String) : Option SExp :=
  match parseSeq (tokenize s) [] with
  | some ([x], []) => some x
  | _ => none

instance : Inhabited Kind := ⟨.struct⟩
instance : Inhabited Arm := ⟨⟨false, .underscore⟩⟩

structure VariantInfo where
  name : String
  named : Bool
  fields : List (String × String)   -- field name ("" if positional), type name
  deriving Repr, Inhabited

structure DeclInfo where
  name : String
  kind : Kind
  variants : List VariantInfo
  deriving Repr, Inhabited

def parseFields : List SExp → Option (Bool × List (String × String))
  | .atom "pos" :: ts => do
    let fs ← ts.mapM (fun t => match t with | .atom a => some ("", a) | _ => none)
    some (false, fs)
  | .atom "named" :: fs => do
    let fs ← fs.mapM (fun f => match f with | .list [.atom n, .atom t] => some (n, t) | _ => none)
    some (true, fs)
  | _ => none

def parseDecl : SExp → Option DeclInfo
  | .list (.atom "enum" :: .atom n :: vs) => do
    let vs ← vs.mapM (fun v => match v with
      | .list (.atom vn :: f) => do let (named, fs) ← parseFields f; some (⟨vn, named, fs⟩ : VariantInfo)
      | _ => none)
    some ⟨n, .enum, vs⟩
  | .list (.atom "struct" :: .atom n :: f) => do let (named, fs) ← parseFields f; some ⟨n, .struct, [⟨n, named, fs⟩]⟩
  | .list (.atom "class" :: .atom n :: f) => do let (named, fs) ← parseFields f; some ⟨n, .cls, [⟨n, named, fs⟩]⟩
  | .list (.atom "tuple" :: .atom n :: ts) => do
    let fs ← ts.mapM (fun t => match t with | .atom a => some ("", a) | _ => none)
    some ⟨n, .tuple, [⟨n, false, fs⟩]⟩
  | _ => none

def findIdx (p : α → Bool) : List α → Nat → Option Nat
  | [], _ => none
  | x :: xs, i => if p x then some i else findIdx p xs (i + 1)

def resolveTy (ds : List DeclInfo) (t : String) : Option Ty :=
  match t with
  | "Bool" => some .bool | "Int" => some .int | "Char" => some .char | "Str" => some .str
  | "Int64" => some .int | "Int32" => some .int | "UInt8" => some .int
  | n => (findIdx (fun (d : DeclInfo) => d.name == n) ds 0).map Ty.adt

def mkEnv (ds : List DeclInfo) : Option (List Decl) :=
  ds.mapM (fun d => do
    let vs ← d.variants.mapM (fun v => v.fields.mapM (fun f => resolveTy ds f.2))
    some ⟨d.kind, vs⟩)

/-- type name expected by each positional item (the type checker's index rule; "" for `..`) -/
def itemTypes (fieldTys : List String) (items : List SExp) : List String :=
  let n := fieldTys.length
  let m := items.length
  let rec go (idx : Nat) (seen : Bool) : List SExp → List String
    | [] => []
    | .atom ".." :: rest => "" :: go (if seen then idx else idx + (n - (m - 1))) true rest
    | _ :: rest => fieldTys.getD idx "" :: go (idx + 1) seen rest
  go 0 false items

partial def parsePat (ds : List DeclInfo) (tn : String) : SExp → Option SPat
  | .atom "_" => some .underscore
  | .atom "true" => some (.litBool true)
  | .atom "false" => some (.litBool false)
  | .atom ".." => some .rest
  | .list [.atom "v", .atom _] => some .var
  | .list [.atom "i", .atom n] => n.toInt?.map (fun i => SPat.lit (.int i))
  -- a literal with a spelling (hex / binary / underscores / no suffix): the type checker stores the value
  | .list [.atom "i", .atom n, .atom _] => n.toInt?.map (fun i => SPat.lit (.int i))
  -- an identifier resolved to a `const` with this value
  | .list [.atom "k", .atom n] => n.toInt?.map (fun i => SPat.const (.int i))
  | .list [.atom "c", .atom n] => n.toNat?.map (fun c => SPat.lit (.char c))
  | .list [.atom "s"] => some (.lit (.str []))
  | .list [.atom "s", .atom w] => some (.lit (.str (w.toList.map Char.toNat)))
  | .list (.atom "|" :: ps) => do some (.alt (← ps.mapM (parsePat ds tn)))
  | .list (.atom "t" :: ps) => do
    let ftys : List String :=
      match findIdx (fun (d : DeclInfo) => d.name == tn) ds 0 with
      | some d => ((ds[d]!).variants[0]!).fields.map (·.2)
      | none => []
    let tys := itemTypes ftys ps
    let pats ← (ps.zip tys).mapM (fun (p, t) => parsePat ds t p)
    some (.tuple ftys.length pats)
  | .list (.atom "k" :: .atom n :: items) => do
    let d ← findIdx (fun (d : DeclInfo) => d.name == n) ds 0
    let di := ds[d]!
    let t := if di.kind == .cls then Target.cls d else Target.struct d
    let (names, pats) ← parseItems ds (di.variants[0]!) items
    some (.ctor t names pats)
  | .list (.atom "e" :: .atom n :: .atom vn :: items) => do
    let d ← findIdx (fun (d : DeclInfo) => d.name == n) ds 0
    let di := ds[d]!
    let v ← findIdx (fun (v : VariantInfo) => v.name == vn) di.variants 0
    if items.isEmpty then some (.identVariant d v) else
    let (names, pats) ← parseItems ds (di.variants[v]!) items
    some (.ctor (.variant d v) names pats)
  | _ => none
where
  parseItems (ds : List DeclInfo) (vi : VariantInfo) (items : List SExp) : Option (List (Option Nat) × List SPat) := do
    let tys := itemTypes (vi.fields.map (·.2)) items
    let xs ← (items.zip tys).mapM (fun (it, t) => match it with
      | .list [.atom "=", .atom fn, p] => do
        let k ← findIdx (fun (f : String × String) => f.1 == fn) vi.fields 0
        let p ← parsePat ds ((vi.fields.getD k ("", "")).2) p
        some (some k, p)
      | p => do let p ← parsePat ds t p; some (none, p))
    some (xs.map (·.1), xs.map (·.2))

def parseArm (ds : List DeclInfo) (tn : String) : SExp → Option Arm
  | .list [.atom "n", p] => (parsePat ds tn p).map (fun p => ⟨false, p⟩)
  | .list [.atom "g", p] => (parsePat ds tn p).map (fun p => ⟨true, p⟩)
  | _ => none

/-! ### display of witnesses (`display_pattern`) -/

partial def displayPattern (ds : List DeclInfo) : Pat → String
  | .alt _ alts => " | ".intercalate (alts.reverse.map (displayPattern ds))
  | .lit _ (.bool b) => if b then "true" else "false"
  | .lit _ (.char c) => String.ofList [Char.ofNat c]
  | .lit _ (.int i) => toString i
  | .lit _ (.str s) => "\"" ++ String.ofList (s.map Char.ofNat) ++ "\""
  | .any _ => "_"
  | .guard => "!unreachable"
  | .ctor _ cid params =>
    let dp (vi : VariantInfo) : String :=
      if vi.fields.isEmpty then "" else
      "(" ++ ", ".intercalate ((vi.fields.zip params).map (fun (f, p) =>
        (if vi.named then f.1 ++ " = " else "") ++ displayPattern ds p)) ++ ")"
    match cid with
    | .bool => "!unreachable"
    | .enum e v =>
      let di := ds[e]!
      let vi := di.variants[v]!
      di.name ++ "::" ++ vi.name ++ dp vi
    | .cls c => let di := ds[c]!; di.name ++ dp (di.variants[0]!)
    | .struct c => let di := ds[c]!; di.name ++ dp (di.variants[0]!)
    | .tuple => "(" ++ ", ".intercalate (params.map (displayPattern ds)) ++ ")"

def spanLt : List Nat → List Nat → Bool
  | [], [] => false
  | [], _ => true
  | _, [] => false
  | a :: as, b :: bs => a < b || (a == b && spanLt as bs)

def insertSorted (x : List Nat) : List (List Nat) → List (List Nat)
  | [] => [x]
  | y :: ys => if x == y then y :: ys else if spanLt x y then x :: y :: ys else y :: insertSorted x ys

def showSpan : List Nat → String
  | [] => "?"
  | a :: path => toString a ++ ":" ++ ".".intercalate (path.map toString)

/-! ### brute force over values -/

partial def collectLits : SPat → List Lit
  | .lit l => [l]
  | .const l => [l]
  | .tuple _ ps => ps.flatMap collectLits
  | .alt ps => ps.flatMap collectLits
  | .ctor _ _ ps => ps.flatMap collectLits
  | _ => []

def intPool (ls : List Lit) : List Val :=
  let xs := ls.filterMap (fun l => match l with | .int i => some i | _ => none)
  let fresh := xs.foldl (fun m x => if x + 1 > m then x + 1 else m) 0
  (xs.eraseDups ++ [fresh]).map (fun i => Val.lit (.int i))

def charPool (ls : List Lit) : List Val :=
  let xs := ls.filterMap (fun l => match l with | .char i => some i | _ => none)
  let fresh := xs.foldl (fun m x => if x + 1 > m then x + 1 else m) 97
  (xs.eraseDups ++ [fresh]).map (fun i => Val.lit (.char i))

def strPool (ls : List Lit) : List Val :=
  let xs := ls.filterMap (fun l => match l with | .str s => some s | _ => none)
  let n := xs.foldl (fun m x => if x.length + 1 > m then x.length + 1 else m) 1
  (xs.eraseDups ++ [List.replicate n 113]).map (fun s => Val.lit (.str s))

/-- all argument vectors, first component most significant -/
def product : List (List Val) → List (List Val)
  | [] => [[]]
  | xs :: rest => xs.flatMap (fun x => (product rest).map (fun r => x :: r))

partial def countVals (ds : List Decl) (ls : List Lit) (fuel : Nat) : Ty → Nat
  | .bool => 2
  | .int => (intPool ls).length
  | .char => (charPool ls).length
  | .str => (strPool ls).length
  | .guardT => 1
  | .adt d =>
    if fuel == 0 then 1000000 else
    ((ds.getD d unitDecl).variants.map (fun tys => (tys.map (countVals ds ls (fuel - 1))).foldl (· * ·) 1)).foldl (· + ·) 0

partial def valsOf (ds : List Decl) (ls : List Lit) : Ty → List Val
  | .bool => [.ctor 0 [], .ctor 1 []]
  | .int => intPool ls
  | .char => charPool ls
  | .str => strPool ls
  | .guardT => [.guardV]
  | .adt d =>
    let vs := (ds.getD d unitDecl).variants
    (List.range vs.length).flatMap (fun id =>
      (product ((vs.getD id []).map (valsOf ds ls))).map (fun args => Val.ctor id args))

partial def tyFinite (ds : List Decl) (fuel : Nat) : Ty → Bool
  | .bool => true
  | .guardT => true
  | .int | .char | .str => false
  | .adt d => fuel != 0 && (ds.getD d unitDecl).variants.all (fun tys => tys.all (tyFinite ds (fuel - 1)))

def truthPart (arms : List Arm) (vals : List Val) : String :=
  let covered (v : Val) : Bool := arms.any (fun a => !a.guarded && smatch a.pat v)
  let miss := findIdx (fun v => !covered v) vals 0
  let unreach := (List.range arms.length).filter (fun i =>
    let a := arms[i]!
    vals.all (fun v => !smatch a.pat v || (arms.take i).any (fun b => !b.guarded && smatch b.pat v)))
  (match miss with | none => "exhaustive" | some k => "missing@" ++ toString k) ++
    " unreach[" ++ ";".intercalate (unreach.map toString) ++ "]"

def rtPart (arms : List Arm) (vals : List Val) (maxVals : Nat := 64) : String :=
  let guardedIdx := (List.range arms.length).filter (fun i => (arms[i]!).guarded)
  let g := guardedIdx.length
  if g > 3 || vals.length > maxVals then "-" else
  "|".intercalate ((List.range (2 ^ g)).map (fun c =>
    let guards : Nat → Bool := fun i =>
      match findIdx (· == i) guardedIdx 0 with
      | some j => (c >>> j) % 2 == 1
      | none => false
    " ".intercalate (vals.map (fun v => match firstMatch arms guards v with | some i => toString i | none => "x"))))

def fuelAmount : Nat := 100000

/-- selector value of an `lm` request: integer / code point / word (`-` = the empty string) -/
def parseSelector (ty : Ty) : SExp → Option Val
  | .atom a =>
    match ty with
    | .int => a.toInt?.map (fun i => Val.lit (.int i))
    | .char => a.toNat?.map (fun c => Val.lit (.char c))
    | .str => some (Val.lit (.str (if a == "-" then [] else a.toList.map Char.toNat)))
    | _ => none
  | _ => none

/-- `!illtyped` if some arm's pattern is not one the type checker accepts at the scrutinee's type (`spatWT`, the
    hypothesis of `accepted_no_fallthrough` / `convert_pattern_correct`): the real front end answers such a request
    with a type error or — if it accepts it — the disagreement shows that `spatWT` is too narrow. -/
def algoPart (ds : List DeclInfo) (env : Env) (ty : Ty) (arms : List Arm) : String :=
  if !arms.all (fun a => spatWT env a.pat ty) then "!illtyped" else
  match checkMatch env fuelAmount arms with
  | .error (.panic site) => "!panic " ++ (site.splitOn " ").head!
  | .error .fuel => "!fuel"
  | .ok res =>
    let verdict :=
      if res.missing.isEmpty then "exhaustive"
      else "missing[" ++ ", ".intercalate (res.missing.map (fun row =>
        match row with | p :: _ => displayPattern ds p | [] => "!empty")) ++ "]"
    let us := res.useless.foldl (fun acc s => insertSorted s acc) []
    verdict ++ " useless[" ++ ";".intercalate (us.map showSpan) ++ "]"

def respond (line : String) : String :=
  match parseSExp line.trimAscii.toString with
  | some (.list [.atom "m", .list dsx, .atom tn, .list armsx]) =>
    match dsx.mapM parseDecl with
    | none => "!badreq"
    | some ds =>
      match mkEnv ds, resolveTy ds tn, armsx.mapM (parseArm ds tn) with
      | some decls, some ty, some arms =>
        let env := envOf decls
        let algo := algoPart ds env ty arms
        let ls := arms.flatMap (fun a => collectLits a.pat)
        let n := countVals decls ls 8 ty
        if n > 4096 then algo ++ " ## - ## -" else
        let vals := valsOf decls ls ty
        algo ++ " ## " ++ truthPart arms vals ++ " ## " ++
          (if tyFinite decls 8 ty then rtPart arms vals else "-")
      | _, _, _ => "!badreq"
  | some (.list [.atom "lm", .atom tn, .list armsx, .list valsx]) =>
    match resolveTy [] tn, armsx.mapM (parseArm [] tn) with
    | some ty, some arms =>
      match valsx.mapM (parseSelector ty) with
      | none => "!badreq"
      | some sel =>
        let algo := algoPart [] (envOf []) ty arms
        let ls := arms.flatMap (fun a => collectLits a.pat)
        -- truth: brute force over the literals that occur and one value that does not
        algo ++ " ## " ++ truthPart arms (valsOf [] ls ty) ++ " ## " ++ rtPart arms sel 400
    | _, _ => "!badreq"
  | _ => "!badreq"

partial def loop (h : IO.FS.Stream) (out : IO.FS.Stream) : IO Unit := do
  let line ← h.getLine
  if line.isEmpty then return ()
  if line.trimAscii.toString.isEmpty then loop h out else
  out.putStrLn (respond line)
  loop h out

def main : IO Unit := do
  loop (← IO.getStdin) (← IO.getStdout)
