import DoraModel.Term.Model
import Std.Data.HashSet
/-!
Driver of C12: trace acceptance.

request  (one trace per line):  `<n> <shared0> <own0,own1,…> | <tid>,<op>,<obj>,<rd>,<wr> …`
  ops/objects as logged by the harness' sync shim, object ids already mapped to roles:
    pool:        fupd O<u> rd wr|-   fupd S rd wr|-   fadd O<tid> rd wr   fadd S rd wr
    terminator:  load W|A r -   store W|A - v   lock L   unlock L   relock L   wait C   spur C
                 n1 C <woken tid|-> -     na C <number woken> -
    marks:       ret T 0|1 -  (try_terminate returned)    ret U 0 -  (wake_up returned)   — not steps
response: `accept <steps> done=<k> W=<working> A=<awakening> S=<shared> O=<sum own>`
       or `reject <event index> <reason> | <model state>`
last line at end of input: `#stats traces=… states=… transitions=…` (distinct model states / (state,event) pairs visited)
-/
open Dora.Term

inductive Tok where
  | ev (e : Event)
  | ret (t : Nat) (fn : String) (v : Nat)
  | bad (why : String)

def num? (s : String) : Option Nat := if s == "-" then none else s.toNat?

def parseTok (tok : String) : Tok :=
  match tok.splitOn "," with
  | [ts, op, obj, rd, wr] =>
    match ts.toNat? with
    | none => .bad s!"tid {ts}"
    | some t =>
      let ownIdx : Option Nat := if obj.startsWith "O" then (obj.drop 1).toString.toNat? else none
      let mk (a : Act) : Tok := .ev ⟨t, a⟩
      match op, obj, num? rd, num? wr with
      | "fupd", "S", some r, w =>
        if (r = 0 ∧ w = none) ∨ (0 < r ∧ w = some (r - 1)) then mk (.takeShared r) else .bad s!"fupd S {rd} {wr}"
      | "fupd", _, some r, w =>
        match ownIdx with
        | some u => if (r = 0 ∧ w = none) ∨ (0 < r ∧ w = some (r - 1)) then mk (.takeOwn u r) else .bad s!"fupd {obj} {rd} {wr}"
        | none => .bad s!"fupd on {obj}"
      | "fadd", "S", some r, some w => if r ≤ w then mk (.pushShared r (w - r)) else .bad "fadd S decreasing"
      | "fadd", _, some r, some w =>
        match ownIdx with
        | some u => if u = t ∧ r ≤ w then mk (.pushOwn r (w - r)) else .bad s!"fadd {obj} by {t}"
        | none => .bad s!"fadd on {obj}"
      | "load", "W", some r, none => mk (.loadW r)
      | "load", "A", some r, none => mk (.loadA r)
      | "store", "W", none, some v => mk (.storeW v)
      | "store", "A", none, some v => mk (.storeA v)
      | "lock", "L", none, none => mk .lock
      | "unlock", "L", none, none => mk .unlock
      | "relock", "L", none, none => mk .relock
      | "wait", "C", none, none => mk .wait
      | "spur", "C", none, none => mk .spur
      | "n1", "C", w, none => mk (.notifyOne w)
      | "na", "C", some k, none => mk (.notifyAll k)
      | "ret", fn, some v, none => .ret t fn v
      | _, _, _, _ => .bad s!"event {tok}"
  | _ => .bad s!"token {tok}"

def showPc : PC → String
  | .work => "work" | .obsEmpty => "obsEmpty" | .tt1 => "tt1" | .tt2 w => s!"tt2({w})" | .tt3 w => s!"tt3({w})"
  | .tt4 w a => s!"tt4({w},{a})" | .tt5 => "tt5" | .waiting => "waiting" | .woken => "woken" | .tw1 => "tw1"
  | .tw2 w => s!"tw2({w})" | .tw3 w a => s!"tw3({w},{a})" | .tw4 w => s!"tw4({w})" | .tw5 => "tw5"
  | .wu1 r => s!"wu1({r})" | .wu2 => "wu2" | .wu3 => "wu3" | .wu4 w => s!"wu4({w})" | .wu5 w a => s!"wu5({w},{a})"
  | .wu6 => "wu6" | .wu7 => "wu7" | .done => "done" | .panicked => "PANICKED"

def showState (s : State) : String :=
  let lk := match s.lock with | none => "-" | some t => toString t
  s!"n={s.n} W={s.working} A={s.awakening} lock={lk} S={s.shared} own={s.own} pcs=[{", ".intercalate (s.pcs.map showPc)}]"

structure Stats where
  traces : Nat := 0
  states : Std.HashSet State := {}
  trans : Std.HashSet (State × Event) := {}

/-- fold a trace, collecting visited states -/
def runTrace (st : Stats) (s0 : State) (toks : List String) : String × Stats := Id.run do
  let mut s := s0
  let mut st := { st with traces := st.traces + 1, states := st.states.insert s0 }
  let mut i := 0
  let mut steps := 0
  for tok in toks do
    match parseTok tok with
    | .bad why => return (s!"reject {i} malformed {why} | {showState s}", st)
    | .ret t fn v =>
      if !(retOk s t fn v) then
        return (s!"reject {i} return value of {fn} by thread {t} is {v} but the model is elsewhere | {showState s}", st)
    | .ev e =>
      match accept s e with
      | .ok s' =>
        st := { st with states := st.states.insert s', trans := st.trans.insert (s, e) }
        s := s'
        steps := steps + 1
      | .error m => return (s!"reject {i} {m} [{tok}] | {showState s}", st)
    i := i + 1
  let dn := s.pcs.countP (· == .done)
  if s.pcs.any (· == .panicked) then
    return (s!"reject {i} model reached an assertion failure | {showState s}", st)
  return (s!"accept {steps} done={dn} W={s.working} A={s.awakening} S={s.shared} O={s.own.foldl (· + ·) 0}", st)

def respond (st : Stats) (line : String) : String × Stats :=
  match line.trimAscii.toString.splitOn " | " with
  | [hd, tr] =>
    match hd.splitOn " " with
    | [ns, ss, os] =>
      match ns.toNat?, ss.toNat?, (os.splitOn ",").mapM (·.toNat?) with
      | some n, some sh, some own =>
        if own.length = n ∧ 0 < n then
          runTrace st (init n sh own) ((tr.splitOn " ").filter (· ≠ ""))
        else ("!badreq own", st)
      | _, _, _ => ("!badreq header", st)
    | _ => ("!badreq header", st)
  | [hd] =>
    -- a trace without events (n = 1 with an empty pool has at least one event, so this is unusual)
    match hd.splitOn " " with
    | [ns, ss, os] =>
      match ns.toNat?, ss.toNat?, (os.splitOn ",").mapM (·.toNat?) with
      | some n, some sh, some own => if own.length = n ∧ 0 < n then runTrace st (init n sh own) [] else ("!badreq own", st)
      | _, _, _ => ("!badreq header", st)
    | _ => ("!badreq", st)
  | _ => ("!badreq", st)

partial def loop (h : IO.FS.Stream) (out : IO.FS.Stream) (st : Stats) : IO Stats := do
  let line ← h.getLine
  if line.isEmpty then return st
  if line.trimAscii.toString.isEmpty then loop h out st else
  let (r, st') := respond st line
  out.putStrLn r
  loop h out st'

def main : IO Unit := do
  let out ← IO.getStdout
  let st ← loop (← IO.getStdin) out {}
  out.putStrLn s!"#stats traces={st.traces} states={st.states.size} transitions={st.trans.size}"
