import DoraModel.Position.Model
open Dora.Position

def nibVal (c : Char) : Nat :=
  if c.toNat ≥ 97 then c.toNat - 87 else if c.toNat ≥ 65 then c.toNat - 55 else c.toNat - 48
def unHexL : List Char → List UInt8
  | a :: b :: r => UInt8.ofNat (nibVal a * 16 + nibVal b) :: unHexL r
  | _ => []
def unHex (s : String) : List UInt8 := if s == "-" then [] else unHexL s.toList

/-- text = hex of UTF-8 bytes; the Rust harness answers `!notutf8` for anything else -/
def textOf (h : String) : Option Text :=
  (String.fromUTF8? (ByteArray.mk (unHex h).toArray)).map String.toList

/-- `u32` request fields, as the Rust harness parses them -/
def u32? (s : String) : Option Nat :=
  match s.toNat? with
  | some n => if n < 4294967296 then some n else none
  | none => none

def showPos : Option (Nat × Nat) → String
  | some (l, c) => s!"{l} {c}"
  | none => "!panic slice"

def respond (line : String) : String :=
  match line.trimAscii.toString.splitOn " " with
  | cmd :: h :: args =>
    match textOf h with
    | none => "!notutf8"
    | some t =>
      match cmd, args.map u32? with
      | "starts", [] => ",".intercalate ((computeLineStarts t).map toString)
      | "o2p", [some off] => showPos (offsetToPosition t off)
      | "p2o", [some l, some c] =>
        match positionToOffset t l c with
        | some o => toString o
        | none => "!panic slice"
      | "lc", [some off] =>
        match computeLineColumn (computeLineStarts t) off with
        | some (l, c) => s!"{l} {c}"
        | none => "!panic index"
      | "s2r", [some s, some e] =>
        if s ≤ e then
          match spanToRange t s e with
          | some ((a, b), (c, d)) => s!"{a} {b} {c} {d}"
          | none => "!panic slice"
        else "!badreq"
      | _, _ => "!badreq"
  | _ => "!badreq"

partial def loop (h : IO.FS.Stream) (out : IO.FS.Stream) : IO Unit := do
  let line ← h.getLine
  if line.isEmpty then return ()
  if line.trimAscii.toString.isEmpty then loop h out else
  out.putStrLn (respond line)
  loop h out

def main : IO Unit := do
  loop (← IO.getStdin) (← IO.getStdout)
