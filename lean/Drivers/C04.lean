import DoraModel.Stw.Model
import Std.Data.HashSet
/-!
Driver of C04: trace acceptance for the stop-the-world protocol model.

request  (one trace per line):  `<N> | <tid>,<op>,<obj>,<rd>,<wr> …`     (N = number of thread slots)
  ops/objects as logged by the harness' sync shim, object ids already mapped to roles:
    S<u>  state byte of thread u      load S<u> r -   cas S<u> r w|-   swap S<u> r w   for S<u> r w
    RT    Runtime::state              swap RT r w
    I<u>  index_in_thread_list of u   load I<u> r -   store I<u> - w
    X     next_thread_id              fadd X r w
    H     the abstract heap           fadd H r w (mutator access)    store H - w (access by the operation)
    L     Threads::threads            lock L   unlock L
    B     Barrier::data               lock B   unlock B   relock B
    W     Barrier::cv_wakeup          wait W   spur W   na W <number woken> -
    N     Barrier::cv_notify          wait N   spur N   n1 N <woken tid|-> -
    J     Threads::cv_join            na J <number woken> -
    T<u>  thread                      spawn T<u> - -
    K<k>  harness annotation          beg K<k> - -      (0 poll, 1 native call, 2 stop-the-world, 3 spawn, 4 exit)
    -                                 yield - - -
response: `accept <steps> dead=<threads that left> st=<state bytes> stw=<operations completed>`
       or `reject <event index> <reason> [token] | <model state>`
last line at end of input: `#stats traces=… states=… transitions=…`
-/
open Dora.Stw

def num? (s : String) : Option Nat := if s == "-" then none else s.toNat?

def idxOf? (pre : String) (obj : String) : Option Nat :=
  if obj.startsWith pre then (obj.drop pre.length).toString.toNat? else none

def parseTok (tok : String) : Except String Event :=
  match tok.splitOn "," with
  | [ts, op, obj, rd, wr] =>
    match ts.toNat? with
    | none => .error s!"tid {ts}"
    | some t =>
      let mk (a : Act) : Except String Event := .ok ⟨t, a⟩
      let sU := idxOf? "S" obj
      let iU := idxOf? "I" obj
      match op, obj, num? rd, num? wr with
      | "beg", _, none, none => match idxOf? "K" obj with | some k => mk (.beg k) | none => .error s!"beg {obj}"
      | "fadd", "H", some _, some _ => mk .touch
      | "store", "H", none, some _ => mk .opTouch
      | "yield", "-", none, none => mk .yield
      | "fadd", "X", some r, some w => if w = r + 1 then mk .fetchX else .error "fadd X not +1"
      | "swap", "RT", some r, some w => mk (.swapRT r w)
      | "lock", "L", none, none => mk .lockL
      | "unlock", "L", none, none => mk .unlockL
      | "lock", "B", none, none => mk .lockB
      | "unlock", "B", none, none => mk .unlockB
      | "relock", "B", none, none => mk .relockB
      | "wait", "W", none, none => mk .waitW
      | "wait", "N", none, none => mk .waitN
      | "spur", "W", none, none => mk .spur
      | "spur", "N", none, none => mk .spur
      | "n1", "N", w, none => mk (.n1N w)
      | "na", "W", some k, none => mk (.naW k)
      | "na", "J", some k, none => mk (.naJ k)
      | "spawn", _, none, none => match idxOf? "T" obj with | some u => mk (.spawn u) | none => .error s!"spawn {obj}"
      | "load", _, some r, none =>
        (match sU, iU with
         | some u, _ => mk (.loadS u r)
         | none, some u => mk (.loadI u r)
         | none, none => .error s!"load on {obj}")
      | "store", _, none, some w => (match iU with | some u => mk (.storeI u w) | none => .error s!"store on {obj}")
      | "cas", _, some r, w => (match sU with | some u => mk (.casS u r w) | none => .error s!"cas on {obj}")
      | "swap", _, some r, some w => (match sU with | some u => mk (.swapS u r w) | none => .error s!"swap on {obj}")
      | "for", _, some r, some w => (match sU with | some u => mk (.forS u r w) | none => .error s!"for on {obj}")
      | _, _, _, _ => .error s!"event {tok}"
  | _ => .error s!"token {tok}"

def showCtx : Ctx → String
  | .nat => "nat" | .stw => "stw" | .add u => s!"add{u}"

def showRet : Ret → String
  | .scope c => showCtx c | .exit => "exit" | .slow => "slow" | .start => "start"

def showPc : PC → String
  | .unborn => "unborn" | .embryo => "embryo" | .ready => "ready" | .mut => "mut" | .poll0 => "poll0" | .pollSlow => "pollSlow"
  | .spB0 => "spB0" | .spB1 => "spB1" | .spB2 => "spB2" | .spWait => "spWait" | .spWoken => "spWoken"
  | .ps0 c => s!"ps0({showCtx c})" | .park0 r => s!"park0({showRet r})" | .parkS r => s!"parkS({showRet r})"
  | .parkB0 r => s!"parkB0({showRet r})" | .parkB1 r => s!"parkB1({showRet r})" | .parkB2 r => s!"parkB2({showRet r})"
  | .natIn => "natIn" | .unp0 r => s!"unp0({showRet r})" | .unpS r => s!"unpS({showRet r})"
  | .unpB0 r => s!"unpB0({showRet r})" | .unpB1 r => s!"unpB1({showRet r})" | .unpWait r => s!"unpWait({showRet r})"
  | .unpWoken r => s!"unpWoken({showRet r})" | .psEnd c => s!"psEnd({showCtx c})" | .spawnNew => "spawnNew"
  | .addA => "addA" | .addL0 u => s!"addL0({u})" | .addL1 u => s!"addL1({u})" | .addL2 u => s!"addL2({u})"
  | .spawnGo u => s!"spawnGo({u})" | .stwL0 => "stwL0" | .stwL1 => "stwL1" | .opS => "opS" | .armB => "armB"
  | .fo k r => s!"fo({k},{r})" | .wuB1 r => s!"wuB1({r})" | .wuWait r => s!"wuWait({r})" | .wuWoken r => s!"wuWoken({r})"
  | .rtS1 => "rtS1" | .op => "op" | .rs k => s!"rs({k})" | .disB1 => "disB1" | .disB2 => "disB2" | .stwUL => "stwUL"
  | .rmL0 => "rmL0" | .rmL1 => "rmL1" | .rmL1a r => s!"rmL1a({r})" | .rmL2 => "rmL2" | .rmL3 => "rmL3"
  | .dead => "dead" | .panicked => "PANICKED"

def showPhase : Phase → String
  | .idle => "idle" | .req k r => s!"req({k},{r})" | .oper => "oper" | .res k => s!"res({k})"

def showOpt : Option Nat → String
  | none => "-" | some t => toString t

def showState (s : State) : String :=
  let ths := s.thr.map (fun x => s!"{showPc x.pc}/{x.st}/{x.idx}")
  s!"list={s.list} armed={s.armed} stopped={s.stopped} B={showOpt s.lockB} L={showOpt s.lockL} rt={s.rt} phase={showPhase s.phase} thr=[{", ".intercalate ths}]"

structure Stats where
  traces : Nat := 0
  states : Std.HashSet State := {}
  trans : Std.HashSet (State × Event) := {}

def runToks (st : Stats) (s0 : State) (toks : List String) : String × Stats := Id.run do
  let mut s := s0
  let mut st := { st with traces := st.traces + 1, states := st.states.insert s0 }
  let mut i := 0
  for tok in toks do
    match parseTok tok with
    | .error why => return (s!"reject {i} malformed {why} | {showState s}", st)
    | .ok e =>
      match accept s e with
      | .ok s' =>
        st := { st with states := st.states.insert s', trans := st.trans.insert (s, e) }
        s := s'
      | .error m => return (s!"reject {i} {m} [{tok}] | {showState s}", st)
    i := i + 1
  if s.thr.any (fun x => x.pc == .panicked) then
    return (s!"reject {i} model reached an assertion failure | {showState s}", st)
  let dn := s.thr.countP (fun x => x.pc == .dead)
  let sts := ",".intercalate (s.thr.map (fun x => toString x.st))
  return (s!"accept {i} dead={dn} st={sts} stw={s.ops}", st)

def respond (st : Stats) (line : String) : String × Stats :=
  match line.trimAscii.toString.splitOn " | " with
  | [hd, tr] =>
    match hd.trimAscii.toString.toNat? with
    | some n => if 0 < n then runToks st (init n) ((tr.splitOn " ").filter (· ≠ "")) else ("!badreq N", st)
    | none => ("!badreq header", st)
  | [hd] =>
    match (hd.replace "|" "").trimAscii.toString.toNat? with
    | some n => if 0 < n then runToks st (init n) [] else ("!badreq N", st)
    | none => ("!badreq header", st)
  | _ => ("!badreq", st)

partial def loop (h : IO.FS.Stream) (out : IO.FS.Stream) (st : Stats) : IO Stats := do
  let line ← h.getLine
  if line.isEmpty then return st
  if line.trimAscii.toString.isEmpty then loop h out st else
  let (r, st') := respond st line
  out.putStrLn r
  loop h out st'

def main : IO Unit := do
  let out ← IO.getStdout
  let st ← loop (← IO.getStdin) out {}
  out.putStrLn s!"#stats traces={st.traces} states={st.states.size} transitions={st.trans.size}"
