import DoraModel.Gc.HeaderDriver
import DoraModel.Gc.Heap
/-!
drv_c03 header            line protocol on stdin: header-word requests (see harness/crates/c03), one response each
drv_c03 dump <file>...    validate every collection of a heap-dump file written by the hook
                          (dora-runtime/src/gc/verif_heapdump.rs): one line per collection,
                          `ok n=<n> kind=<reason> roots=<r> interior=<i> objects=<o> moved=<m>` or
                          `reject <n> <reason> <why>`; exit status 2 if the file cannot be parsed
-/
open DoraModel.Gc.Heap

partial def headerLoop (h : IO.FS.Stream) (out : IO.FS.Stream) : IO Unit := do
  let line ← h.getLine
  if line.isEmpty then return ()
  if line.trimAscii.toString.isEmpty then headerLoop h out else
  out.putStrLn (DoraModel.Gc.HeaderDriver.respond line)
  headerLoop h out

structure Pending where
  n : String := ""
  phase : String := ""
  reason : String := ""
  roots : Array Root := #[]
  objs : Array Obj := #[]
  interior : Nat := 0

def Pending.heap (p : Pending) : Heap := { roots := p.roots.toList, objs := p.objs.toList }

def report (pre post : Pending) : String :=
  let hp := pre.heap
  let hq := post.heap
  match checkCollection hp hq with
  | .ok () =>
    let φ := buildCandidate hp hq
    let moved := (φ.filter fun ab => ab.1 != ab.2).length
    s!"ok n={pre.n} kind={pre.reason} roots={hp.roots.length} interior={pre.interior} objects={φ.length} moved={moved}"
  | .error e => s!"reject {pre.n} {pre.reason} {e}"

/-- returns (error?, number of collections) -/
def validateFile (path : String) (out : IO.FS.Stream) : IO (Option String) := do
  let text ← IO.FS.readFile path
  let mut cur : Option Pending := none
  let mut pre : Option Pending := none
  let mut lineNo := 0
  for line in text.splitOn "\n" do
    lineNo := lineNo + 1
    let ws := (line.trimAscii.toString.splitOn " ").filter (· ≠ "")
    match ws with
    | [] => pure ()
    | ["collection", n, phase, reason] =>
      if cur.isSome then return some s!"line {lineNo}: collection record inside another"
      cur := some { n := n, phase := phase, reason := reason }
    | ["end", n, phase] =>
      match cur with
      | none => return some s!"line {lineNo}: end without collection"
      | some p =>
        if p.n ≠ n || p.phase ≠ phase then return some s!"line {lineNo}: end does not match"
        cur := none
        if phase == "pre" then
          if pre.isSome then return some s!"line {lineNo}: two pre dumps in a row"
          pre := some p
        else
          match pre with
          | some q =>
            if q.n ≠ n then return some s!"line {lineNo}: post dump {n} follows pre dump {q.n}"
            out.putStrLn (report q p)
            pre := none
          | none => return some s!"line {lineNo}: post dump without pre dump"
    | "root" :: _ =>
      match cur, parseRoot ws with
      | some p, some r =>
        cur := some { p with roots := p.roots.push r, interior := p.interior + (if ws[1]! == "i" then 1 else 0) }
      | _, _ => return some s!"line {lineNo}: bad root record"
    | "obj" :: _ =>
      match cur, parseObj ws with
      | some p, some o => cur := some { p with objs := p.objs.push o }
      | _, _ => return some s!"line {lineNo}: bad obj record"
    | _ => return some s!"line {lineNo}: unknown record"
  -- a pre dump without post dump at the end: the process ended inside the collection (trap/abort); say so
  if let some q := pre then out.putStrLn s!"incomplete {q.n} {q.reason}"
  if cur.isSome then out.putStrLn "incomplete-record"
  return none

def main (args : List String) : IO UInt32 := do
  let out ← IO.getStdout
  match args with
  | ["header"] => headerLoop (← IO.getStdin) out; return 0
  | "dump" :: files =>
    let mut rc : UInt32 := 0
    for f in files do
      match ← validateFile f out with
      | some e => out.putStrLn s!"parse-error {f}: {e}"; rc := 2
      | none => pure ()
    return rc
  | _ =>
    -- default: header-word line protocol (same as `header`)
    headerLoop (← IO.getStdin) out
    return 0
