import DoraModel.Mini.Eval
/-!
Driver for C01/C02: reads one S-expression program per line on stdin
(`(program <name> decl ...)`), runs the MiniDora reference interpreter and prints one line per program:

    <name> <stdout as hex | -> <outcome>

outcome = `exit:<status>` | `trap:<kind>` | `fatal:<hex message>` | `stuck:<hex message>` | `oof`
| `parse-error:<hex message>`.   Optional first argument: the fuel (evaluation depth), default 20000.
With the extra argument `pos` two more fields follow: the source line of the operation that was being
evaluated when the run ended and the dynamic call chain `callee@call-site-line,...` (innermost first) – C14.
-/
open Dora.Mini

def hexNib (n : Nat) : Char := if n < 10 then Char.ofNat (48 + n) else Char.ofNat (87 + n)
def toHex (s : String) : String :=
  if s.isEmpty then "-" else
    String.ofList (s.toUTF8.toList.flatMap fun b => [hexNib (b.toNat / 16), hexNib (b.toNat % 16)])

def outcomeStr : Outcome → String
  | .exit n => s!"exit:{n}"
  | .trap t => "trap:" ++ t.name
  | .fatal m => "fatal:" ++ toHex m
  | .stuck m => "stuck:" ++ toHex m
  | .outOfFuel => "oof"

/-- C14: where the run ended: `<line> <fn>@<call-site line>,...` (innermost frame first; `-` = empty chain) -/
def posStr (s : St) : String :=
  let chain := s.stack.map fun (f, l) => s!"{f}@{l}"
  s!"{s.line} " ++ (if chain.isEmpty then "-" else ",".intercalate chain)

def respond (fuel : Nat) (pos : Bool) (line : String) : String :=
  match Sexp.parseAll line with
  | .error e => "? - parse-error:" ++ toHex e
  | .ok [sx] =>
    match readProg sx with
    | .error e => "? - parse-error:" ++ toHex e
    | .ok p =>
      let (out, o, st) := runProg p fuel
      p.name ++ " " ++ toHex out ++ " " ++ outcomeStr o ++ (if pos then " " ++ posStr st else "")
  | .ok _ => "? - parse-error:" ++ toHex "expected exactly one form per line"

partial def loop (fuel : Nat) (pos : Bool) (h : IO.FS.Stream) (out : IO.FS.Stream) : IO Unit := do
  let line ← h.getLine
  if line.isEmpty then return ()
  if line.trimAscii.toString.isEmpty then loop fuel pos h out else
  out.putStrLn (respond fuel pos line)
  out.flush
  loop fuel pos h out

def main (args : List String) : IO Unit := do
  let fuel := (args.head?.bind String.toNat?).getD 20000
  loop fuel (args.contains "pos") (← IO.getStdin) (← IO.getStdout)
