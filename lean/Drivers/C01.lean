import DoraModel.Mini.Eval
/-!
Driver for C01/C02: reads one S-expression program per line on stdin
(`(program <name> decl ...)`), runs the MiniDora reference interpreter and prints one line per program:

    <name> <stdout as hex | -> <outcome>

outcome = `exit:<status>` | `trap:<kind>` | `fatal:<hex message>` | `stuck:<hex message>` | `oof`
| `parse-error:<hex message>`.   Optional argument: the fuel (evaluation depth), default 20000.
-/
open Dora.Mini

def hexNib (n : Nat) : Char := if n < 10 then Char.ofNat (48 + n) else Char.ofNat (87 + n)
def toHex (s : String) : String :=
  if s.isEmpty then "-" else
    String.ofList (s.toUTF8.toList.flatMap fun b => [hexNib (b.toNat / 16), hexNib (b.toNat % 16)])

def outcomeStr : Outcome → String
  | .exit n => s!"exit:{n}"
  | .trap t => "trap:" ++ t.name
  | .fatal m => "fatal:" ++ toHex m
  | .stuck m => "stuck:" ++ toHex m
  | .outOfFuel => "oof"

def respond (fuel : Nat) (line : String) : String :=
  match Sexp.parseAll line with
  | .error e => "? - parse-error:" ++ toHex e
  | .ok [sx] =>
    match readProg sx with
    | .error e => "? - parse-error:" ++ toHex e
    | .ok p =>
      let (out, o, _) := runProg p fuel
      p.name ++ " " ++ toHex out ++ " " ++ outcomeStr o
  | .ok _ => "? - parse-error:" ++ toHex "expected exactly one form per line"

partial def loop (fuel : Nat) (h : IO.FS.Stream) (out : IO.FS.Stream) : IO Unit := do
  let line ← h.getLine
  if line.isEmpty then return ()
  if line.trimAscii.toString.isEmpty then loop fuel h out else
  out.putStrLn (respond fuel line)
  out.flush
  loop fuel h out

def main (args : List String) : IO Unit := do
  let fuel := (args.head?.bind String.toNat?).getD 20000
  loop fuel (← IO.getStdin) (← IO.getStdout)
