import DoraModel.Trace.Model
import DoraModel.Trace.Bytecode
import DoraModel.Mini.Eval
/-!
Driver for C14. Two kinds of requests on stdin:

1. an artifact in the line format of `tools/c14_extract.py` (`artifact … / fn / call / loc / inlrange / inltable /
   fninfo / finfo / note / end`). At `end` it prints
     `verdict ok fns=<n> locs=<n> reporting_sites=<n> inlined=<n> inlined_locs=<n>`  or  `verdict reject <first violated rule>`
   then, for every call of every compiled function, what the model of `dump_stack_elem` prints for its return offset
     `site <fnidx> <ret> <class> <noloc|ok|panic|loop> <fi:line:col;…>`     (fi = index into `.dora.function_info`)
   then `done`.
2. one S-expression program per line (`(program <name> …)`): the MiniDora reference interpreter runs it and prints
     `mini <name> <stdout hex|-> <outcome> <fn@line,…|->`      innermost first; outcome as in drv_c01.
3. the requests of `h_c14` (bytecode-level lookup, `DoraModel/Trace/Bytecode.lean`):
     `bctab <off:line:col;…|->`  ->  `<line>.<col> …`  (`offset_location q` for q = 0 … last offset + 2)
     `bcwr <name:a:b:c:needs:size:line.col|-,…>`  ->  `len=<n> tab=<off:line:col;…|-> at=<off>=<line>.<col>;…`
   a `none` of the model (= panic of the code) is answered `!panic`.
-/
open Dora.Trace

def parseKind : String → Option Kind
  | "optimized" => some .optimized | "runtime_entry" => some .runtimeEntry | "dora_entry" => some .doraEntry
  | "alloc_failure" => some .allocFailure | "trap" => some .trap | "safepoint" => some .safepoint
  | "unreachable" => some .unreachable | "fatal_error" => some .fatalError | "stack_overflow" => some .stackOverflow
  | _ => none

def parseClass (s : String) : CallClass :=
  match s with
  | "trap" => .trap | "stack_overflow" => .stackOverflow | "fatal_error" => .fatalError | "unreachable" => .unreachable
  | "managed" => .managed | "indirect" => .indirect | "runtime_entry" => .runtimeEntry | _ => .other

def className : CallClass → String
  | .trap => "trap" | .stackOverflow => "stack_overflow" | .fatalError => "fatal_error" | .unreachable => "unreachable"
  | .managed => "managed" | .indirect => "indirect" | .runtimeEntry => "runtime_entry" | .other => "other"

structure St where
  fns : Array Fn := #[]
  inlRange : Array (Nat × Nat) := #[]     -- per function: start, len in the raw inlined table
  inlTable : Array Nat := #[]
  infoOf : Array (Option Nat) := #[]      -- per function: function_info index
  infos : Array (Nat × Nat × Nat) := #[]  -- function_info idx, line, col
  bad : Bool := false

def noInl : Nat := 4294967295

def decodeInl (v : Nat) : Option Nat := if v = noInl then none else some v

def updFn (st : St) (i : Nat) (f : Fn → Fn) : St :=
  if h : i < st.fns.size then { st with fns := st.fns.set i (f st.fns[i]) } else { st with bad := true }

def emptyFn (k : Kind) (size : Nat) : Fn :=
  { kind := k, size := size, info := 0, infoLine := 0, infoCol := 0, locs := [], inls := [], calls := [], bad := false }

/-- attach inlined-function tables and function infos once everything has been read -/
def finish (st : St) : Artifact :=
  let fns := st.fns.toList.zipIdx.map fun (f, i) =>
    let (s, n) := st.inlRange.getD i (0, 0)
    let rawOK := decide ((s + n) * 4 ≤ st.inlTable.size)
    let inls := (List.range n).map fun k =>
      let b := (s + k) * 4
      ({ fn := st.inlTable.getD b 0,
         site := ⟨decodeInl (st.inlTable.getD (b + 1) noInl), st.inlTable.getD (b + 2) 0, st.inlTable.getD (b + 3) 0⟩ } : Inl)
    match st.infoOf.getD i none with
    | none => { f with bad := true }
    | some fi =>
      match st.infos.find? (fun x => x.1 == fi) with
      | none => { f with bad := true }
      | some (_, l, c) => { f with info := fi, infoLine := l, infoCol := c, inls := inls, bad := f.bad || !rawOK }
  { fns := fns, bad := st.bad }

def frameStr (f : Frame) : String := s!"{f.fn}:{f.line}:{f.col}"

def siteLine (i : Nat) (f : Fn) (c : Call) : String :=
  let head := s!"site {i} {c.ret} {className c.cls} "
  match get f.locs c.ret with
  | none => head ++ "noloc " ++ frameStr ⟨f.info, f.infoLine, f.infoCol⟩
  | some _ =>
    match dumpStackElem f c.ret (f.inls.length + 1) with
    | .ok fs => head ++ "ok " ++ ";".intercalate (fs.map frameStr)
    | .panic => head ++ "panic -"
    | .outOfFuel => head ++ "loop -"

def report (st : St) : List String :=
  let a := finish st
  let nlocs := a.fns.foldl (fun n f => n + f.locs.length) 0
  let nsites := a.fns.foldl (fun n f => n + (f.calls.filter (fun c => f.kind == .optimized && c.cls.reports)).length) 0
  let ninl := a.fns.foldl (fun n f => n + f.inls.length) 0
  let ninlloc := a.fns.foldl (fun n f => n + (f.locs.filter (fun e => e.loc.inl.isSome)).length) 0
  let verdict :=
    if wfTrace a then s!"verdict ok fns={a.fns.length} locs={nlocs} reporting_sites={nsites} inlined={ninl} inlined_locs={ninlloc}"
    else s!"verdict reject {explain a}"
  let sites := a.fns.zipIdx.flatMap fun (f, i) =>
    if f.kind == .optimized then f.calls.map (siteLine i f) else []
  verdict :: sites ++ ["done"]

def step (st : St) (line : String) : St × List String :=
  match line.trimAscii.toString.splitOn " " with
  | "artifact" :: _ => ({}, [])
  | ["fn", _i, k, s, e, _fr, _sym] =>
    match parseKind k, s.toNat?, e.toNat? with
    | some kind, some s, some e => ({ st with fns := st.fns.push (emptyFn kind (e - s)) }, [])
    | _, _, _ => ({ st with bad := true }, [])
  | ["call", i, r, c, _x, _sym] =>
    match i.toNat?, r.toNat? with
    | some i, some r => (updFn st i (fun f => { f with calls := f.calls ++ [⟨r, parseClass c⟩] }), [])
    | _, _ => ({ st with bad := true }, [])
  | ["loc", i, pc, inl, l, c] =>
    match i.toNat?, pc.toNat?, inl.toNat?, l.toNat?, c.toNat? with
    | some i, some pc, some inl, some l, some c =>
      (updFn st i (fun f => { f with locs := f.locs ++ [⟨pc, ⟨decodeInl inl, l, c⟩⟩] }), [])
    | _, _, _, _, _ => ({ st with bad := true }, [])
  | ["inlrange", i, s, n] =>
    match i.toNat?, s.toNat?, n.toNat? with
    | some i, some s, some n =>
      if i = st.inlRange.size then ({ st with inlRange := st.inlRange.push (s, n) }, []) else ({ st with bad := true }, [])
    | _, _, _ => ({ st with bad := true }, [])
  | "inltable" :: vs =>
    let ns := vs.filterMap String.toNat?
    if ns.length = (vs.filter (· ≠ "")).length then ({ st with inlTable := ns.toArray }, []) else ({ st with bad := true }, [])
  | ["fninfo", i, fi] =>
    match i.toNat?, fi.toNat? with
    | some i, some fi =>
      if i = st.infoOf.size then ({ st with infoOf := st.infoOf.push (some fi) }, []) else ({ st with bad := true }, [])
    | _, _ => ({ st with bad := true }, [])
  | ["finfo", i, _n, _f, l, c] =>
    match i.toNat?, l.toNat?, c.toNat? with
    | some i, some l, some c => ({ st with infos := st.infos.push (i, l, c) }, [])
    | _, _, _ => ({ st with bad := true }, [])
  | "note" :: "bad" :: _ => ({ st with bad := true }, [])
  | ["end"] => ({}, report st)
  | _ => (st, [])

/-! ### Mini -/
open Dora.Mini in
def hexNib (n : Nat) : Char := if n < 10 then Char.ofNat (48 + n) else Char.ofNat (87 + n)
def toHex (s : String) : String :=
  if s.isEmpty then "-" else
    String.ofList (s.toUTF8.toList.flatMap fun b => [hexNib (b.toNat / 16), hexNib (b.toNat % 16)])

open Dora.Mini in
def outcomeStr : Outcome → String
  | .exit n => s!"exit:{n}"
  | .trap t => "trap:" ++ t.name
  | .fatal m => "fatal:" ++ toHex m
  | .stuck m => "stuck:" ++ toHex m
  | .outOfFuel => "oof"

/-- the interpreter's state when the run stopped: `line` = line of the operation being evaluated, `stack` = active
calls innermost first, each with the line of its call site. The reported chain pairs every function with the line
it is currently at: the innermost with `line`, each caller with the call-site line of its callee. -/
def chainOf (line : Nat) (stack : List (String × Nat)) : List (String × Nat) :=
  match stack with
  | [] => []
  | (f, site) :: rest => (f, line) :: chainOf site rest

open Dora.Mini in
def respondMini (fuel : Nat) (line : String) : String :=
  match Sexp.parseAll line with
  | .error e => "mini ? - parse-error:" ++ toHex e ++ " -"
  | .ok [sx] =>
    match readProg sx with
    | .error e => "mini ? - parse-error:" ++ toHex e ++ " -"
    | .ok p =>
      let (out, o, s) := runProg p fuel
      let ch := chainOf s.line s.stack
      let chs := if ch.isEmpty then "-" else ",".intercalate (ch.map fun (f, l) => s!"{f}@{l}")
      "mini " ++ p.name ++ " " ++ toHex out ++ " " ++ outcomeStr o ++ " " ++ chs
  | .ok _ => "mini ? - parse-error:" ++ toHex "expected exactly one form per line" ++ " -"

/-! ### bytecode-level lookup -/
namespace BcDrv
open Dora.Trace.Bc

def parseTable (s : String) : Option (List BEntry) :=
  if s = "-" then some [] else
    (s.splitOn ";").mapM fun e =>
      match (e.splitOn ":").map String.toNat? with
      | [some o, some l, some c] => some ⟨o, ⟨l, c⟩⟩
      | _ => none

def locStr (l : Loc) : String := s!"{l.line}.{l.col}"

def tableStr (t : List BEntry) : String :=
  if t.isEmpty then "-" else ";".intercalate (t.map fun e => s!"{e.off}:{e.loc.line}:{e.loc.col}")

def parseLoc (s : String) : Option (Option Loc) :=
  if s = "-" then some none else
    match (s.splitOn ".").map String.toNat? with
    | [some l, some c] => some (some ⟨l, c⟩)
    | _ => none

def parseInstr (s : String) : Option Instr :=
  match s.splitOn ":" with
  | [_name, _a, _b, _c, needs, size, loc] =>
    match size.toNat?, parseLoc loc with
    | some sz, some l => some ⟨l, needs == "1", sz⟩
    | _, _ => none
  | _ => none

def respondTab (arg : String) : String :=
  match parseTable arg with
  | none => "!badreq"
  | some t =>
    let last := (t.getLast?.map (·.off)).getD 0
    let rs := (List.range (last + 3)).map fun q => offsetLocation t q
    if rs.any Option.isNone then "!panic"
    else " ".intercalate (rs.filterMap fun r => r.map locStr)

def respondWr (arg : String) : String :=
  match (arg.splitOn ",").mapM parseInstr with
  | none => "!badreq"
  | some is =>
    match emitAll WState.init is with
    | none => "!panic"
    | some s =>
      let offs := (List.range is.length).map (offsetOf is)
      let rs := offs.map fun q => (q, offsetLocation s.table q)
      if rs.any (fun r => r.2.isNone) then "!panic"
      else
        let at_ := ";".intercalate (rs.filterMap fun (q, r) => r.map fun l => s!"{q}={locStr l}")
        s!"len={s.codeLen} tab={tableStr s.table} at={at_}"

def respond (line : String) : Option String :=
  match line.trimAscii.toString.splitOn " " with
  | ["bctab", t] => some (respondTab t)
  | ["bcwr", ops] => some (respondWr ops)
  | _ => none

end BcDrv

partial def loop (h : IO.FS.Stream) (out : IO.FS.Stream) (st : St) : IO Unit := do
  let line ← h.getLine
  if line.isEmpty then return ()
  if line.startsWith "(program" then
    out.putStrLn (respondMini 20000 line)
    out.flush
    loop h out st
  else if let some r := BcDrv.respond line then
    out.putStrLn r
    out.flush
    loop h out st
  else
    let (st', rs) := step st line
    for r in rs do out.putStrLn r
    if !rs.isEmpty then out.flush
    loop h out st'

def main : IO Unit := do
  loop (← IO.getStdin) (← IO.getStdout) {}
