import DoraModel.Wait.Hmap
import DoraModel.Wait.Mtx
import DoraModel.Wait.MtxCheck
import Std.Data.HashSet
/-!
Driver of C09.

1. `hmap <op> <op> …` — an operation sequence against a fresh `ObjectHashMap` model (runtime epoch 0):
     `i<key>:<val>` insert · `g<key>` get · `r<key>` remove · `e` epoch bump · `R<a>:<b>` moving collection
   response: one entry per op `<result>/<capacity>,<entries>,<tombstones>,<deleted>`, result = `ok` | `v<val>` | `none`;
   the sequence stops at the first `!panic` (a Rust assert / overflow / index panic), `!hang` (the Rust probe
   loop does not terminate) or `!nested`.
2. `mtx <n> | <tid>,<op>,<obj>,<rd>,<wr> …` — a trace of the real wait lists / blocking primitives driven by
   the transliterated thread.dora, roles as mapped by the harness (W, CW, WL, B<u>, CB<u>, J<u>, CJ<u>, S<u>;
   marks `call`/`ret`/`cs`).
   response: `accept <steps> W=<w> CW=<cw> fin=<k>` or `reject <index> <reason> [token] | <model state>`
last line at end of input: `#stats …`
-/
open Dora.Wait

/-! ## hmap -/
namespace HmapDrv
open Dora.Wait.Hmap

def parseOp (tok : String) : Option Op :=
  let rest := (tok.drop 1).toString
  let two : Option (Nat × Nat) := match rest.splitOn ":" with
    | [a, b] => (do let x ← a.toNat?; let y ← b.toNat?; pure (x, y))
    | _ => none
  if tok.startsWith "i" then two.map (fun (k, v) => Op.ins k v)
  else if tok.startsWith "g" then rest.toNat?.map Op.get
  else if tok.startsWith "r" then rest.toNat?.map Op.rem
  else if tok == "e" then some Op.epoch
  else if tok.startsWith "R" then two.map (fun (a, b) => Op.reloc a b)
  else none

def showRes : Res → String
  | .ok => "ok"
  | .val none => "none"
  | .val (some v) => s!"v{v}"

def showErr : Err → String
  | .panic _ => "!panic"
  | .diverge => "!hang"
  | .nested => "!nested"

def runLine (toks : List String) : String := Id.run do
  let mut m := Hmap.new
  let mut ep := 0
  let mut out : Array String := #[]
  for tok in toks do
    match parseOp tok with
    | none => return " ".intercalate (out.push s!"!badop:{tok}").toList
    | some op =>
      match step m ep op with
      | .error e => return " ".intercalate (out.push (showErr e)).toList
      | .ok (r, m', ep') =>
        m := m'
        ep := ep'
        out := out.push s!"{showRes r}/{m.capacity},{m.entries},{tombstones m},{m.deleted}"
  return " ".intercalate out.toList

end HmapDrv

/-! ## mtx -/
namespace MtxDrv
open Dora.Wait.Mtx

inductive Tok where
  | ev (e : Event)
  | mark (t : Nat) (kind arg : String)
  | bad (why : String)

def num? (s : String) : Option Nat := if s == "-" then none else s.toNat?

/-- `B3` → some 3 for prefix `B` -/
def idx? (pre obj : String) : Option Nat :=
  if obj.startsWith pre then (obj.drop pre.length).toString.toNat? else none

def parseTok (tok : String) : Tok :=
  match tok.splitOn "," with
  | [ts, op, obj, rd, wr] =>
    match ts.toNat? with
    | none => .bad s!"tid {ts}"
    | some t =>
      let mk (a : Act) : Tok := .ev ⟨t, a⟩
      if op == "ret" || op == "cs" then .mark t op obj else
      if op == "call" then
        match obj, num? rd with
        | "lock", _ => mk (.call .lock)
        | "unlock", _ => mk (.call .unlock)
        | "cwait", _ => mk (.call .cwait)
        | "n1", _ => mk (.call .n1)
        | "nall", _ => mk (.call .nall)
        | "join", some u => mk (.call (.join u))
        | "stop", _ => mk (.call .stop)
        | "gc", _ => mk (.call .gc)
        | _, _ => .bad s!"call {obj}"
      else
      match op, obj, num? rd, num? wr with
      | "cas", "W", some r, w => mk (.casW r w)
      | "swap", "W", some r, some 0 => mk (.swapW r)
      | "load", "W", some r, none => mk (.loadW r)
      | "load", "CW", some r, none => mk (.loadCW r)
      | "store", "CW", none, some v => mk (.storeCW v)
      | "lock", "WL", none, none => mk .lockWL
      | "unlock", "WL", none, none => mk .unlockWL
      | "cas", _, _, _ => if (idx? "S" obj).isSome then mk .casS else .bad s!"cas on {obj}"
      | "load", _, _, none => if (idx? "S" obj).isSome then mk .casS else .bad s!"load of {obj}"
      | "lock", _, none, none =>
        match idx? "B" obj, idx? "J" obj with
        | some u, _ => mk (.lockB u)
        | _, some u => mk (.lockJ u)
        | _, _ => .bad s!"lock {obj}"
      | "unlock", _, none, none =>
        match idx? "B" obj, idx? "J" obj with
        | some u, _ => mk (.unlockB u)
        | _, some u => mk (.unlockJ u)
        | _, _ => .bad s!"unlock {obj}"
      | "relock", _, none, none =>
        match idx? "B" obj, idx? "J" obj with
        | some u, _ => if u = t then mk .relockB else .bad "relock of another thread's blocking data"
        | _, some u => mk (.relockJ u)
        | _, _ => .bad s!"relock {obj}"
      | "wait", _, none, none =>
        match idx? "CB" obj, idx? "CJ" obj with
        | some u, _ => if u = t then mk .waitB else .bad "wait on another thread's cv_blocking"
        | _, some u => mk (.waitJ u)
        | _, _ => .bad s!"wait {obj}"
      | "spur", _, none, none =>
        match idx? "CB" obj, idx? "CJ" obj with
        | some u, _ => if u = t then mk .spurB else .bad "spurious wake-up of another thread"
        | _, some u => mk (.spurJ u)
        | _, _ => .bad s!"spur {obj}"
      | "n1", _, w, none =>
        match idx? "CB" obj with
        | some u => mk (.sigB u w)
        | none => .bad s!"n1 {obj}"
      | "na", _, some k, none =>
        match idx? "CJ" obj with
        | some u => if u = t then mk (.naJ k) else .bad "notify_all on another thread's cv_stopped"
        | none => .bad s!"na {obj}"
      | _, _, _, _ => .bad s!"event {tok}"
  | _ => .bad s!"token {tok}"

def showKind : Kind → String | .mtx => "m" | .cond => "c"
def showRet : Ret → String | .idle => "idle" | .crit => "crit" | .block => "block"
def showPc : PC → String
  | .idle => "idle" | .crit => "crit" | .fin => "fin" | .panicked _ => "PANICKED" | .lk0 => "lk0" | .slow0 => "slow0"
  | .slow2 => "slow2" | .eq0 k => s!"eq0.{showKind k}" | .eq1 k => s!"eq1.{showKind k}" | .eq2 k => s!"eq2.{showKind k}"
  | .eq3 k q => s!"eq3.{showKind k}.{q}" | .blkA k => s!"blkA.{showKind k}" | .blk1 k f => s!"blk1.{showKind k}.{f}"
  | .sleeping k => s!"sleeping.{showKind k}" | .wokenB k => s!"wokenB.{showKind k}"
  | .ul .plain => "ul.plain" | .ul .cwait => "ul.cwait"
  | .wk0 k a r => s!"wk0.{showKind k}.{a}.{showRet r}" | .wk1 k a r => s!"wk1.{showKind k}.{a}.{showRet r}"
  | .wk2 k a r u => s!"wk2.{showKind k}.{a}.{showRet r}.{u}" | .wk3 r => s!"wk3.{showRet r}"
  | .no0 r => s!"no0.{showRet r}" | .na0 r => s!"na0.{showRet r}" | .na1 r => s!"na1.{showRet r}"
  | .jn0 r u => s!"jn0.{showRet r}.{u}" | .jn1 r u f => s!"jn1.{showRet r}.{u}.{f}" | .jsl r u => s!"jsl.{showRet r}.{u}"
  | .jwk r u => s!"jwk.{showRet r}.{u}" | .st0 => "st0" | .st1 => "st1" | .st2 => "st2"
  | .gc0 r => s!"gc0.{showRet r}" | .gc1 r => s!"gc1.{showRet r}"

def showState (s : State) : String :=
  let lk := match s.wl with | none => "-" | some t => toString t
  s!"n={s.n} W={s.w} CW={s.cw} q={s.q} cq={s.cq} b={s.b} running={s.running} wl={lk} pcs=[{", ".intercalate (s.pcs.map showPc)}]"

structure Stats where
  hmapLines : Nat := 0
  traces : Nat := 0
  states : Std.HashSet State := {}
  trans : Std.HashSet (State × Event) := {}

def runTrace (st : Stats) (s0 : State) (toks : List String) : String × Stats := Id.run do
  let mut s := s0
  let mut st := { st with traces := st.traces + 1, states := st.states.insert s0 }
  let mut i := 0
  let mut steps := 0
  for tok in toks do
    match parseTok tok with
    | .bad why => return (s!"reject {i} malformed {why} | {showState s}", st)
    | .mark t kind arg =>
      if !(markOk s t kind arg) then
        return (s!"reject {i} mark {kind} {arg} of thread {t}: the model is elsewhere | {showState s}", st)
    | .ev e =>
      match accept s e with
      | .ok s' =>
        if !st.states.contains s' then
          match invCheck s' with
          | some name => return (s!"reject {i} invariant {name} violated after [{tok}] | {showState s'}", st)
          | none => pure ()
        st := { st with states := st.states.insert s', trans := st.trans.insert (s, e) }
        s := s'
        steps := steps + (match e.act with | .call _ => 0 | _ => 1)   -- `call` is a mark on the harness side
      | .error m => return (s!"reject {i} {m} [{tok}] | {showState s}", st)
    i := i + 1
  let fin := s.pcs.countP (· == .fin)
  return (s!"accept {steps} W={s.w} CW={s.cw} fin={fin}", st)

end MtxDrv

open MtxDrv in
def respond (st : Stats) (line : String) : String × Stats :=
  let l := line.trimAscii.toString
  if l.startsWith "hmap" then
    (HmapDrv.runLine ((l.splitOn " ").drop 1 |>.filter (· ≠ "")), { st with hmapLines := st.hmapLines + 1 })
  else if l.startsWith "mtx " then
    match l.splitOn " | " with
    | [hd, tr] =>
      match (hd.splitOn " ") with
      | [_, ns] =>
        match ns.toNat? with
        | some n => if 0 < n then runTrace st (Dora.Wait.Mtx.init n) ((tr.splitOn " ").filter (· ≠ "")) else ("!badreq n", st)
        | none => ("!badreq n", st)
      | _ => ("!badreq header", st)
    | [hd] =>
      match (hd.splitOn " ") with
      | [_, ns] =>
        match ns.toNat? with
        | some n => if 0 < n then runTrace st (Dora.Wait.Mtx.init n) [] else ("!badreq n", st)
        | none => ("!badreq n", st)
      | _ => ("!badreq header", st)
    | _ => ("!badreq", st)
  else ("!badreq", st)

partial def loop (h : IO.FS.Stream) (out : IO.FS.Stream) (st : MtxDrv.Stats) : IO MtxDrv.Stats := do
  let line ← h.getLine
  if line.isEmpty then return st
  if line.trimAscii.toString.isEmpty then loop h out st else
  let (r, st') := respond st line
  out.putStrLn r
  loop h out st'

def main : IO Unit := do
  let out ← IO.getStdout
  let st ← loop (← IO.getStdin) out {}
  out.putStrLn s!"#stats hmap={st.hmapLines} traces={st.traces} states={st.states.size} transitions={st.trans.size}"
