import DoraModel.Gen.MasmDispatch
/-!
Driver for the machine leg of C01 (`checks/c01_masm.py`). One request per line, fields separated by ` | `:

  `prog <tag> | <call>;<call>;…`
      run the calls on a fresh model macro assembler (regenerated `Gen/Masm.lean`), then `done`, then `emit_bailouts`
      → `<tag> ok <instr>;<instr>;…`  or  `<tag> err <message>` (an `assert!` of the Rust code, an unmodelled arm)
  `exec <tag> | <instr>;… | <r0>,…,<r15> | <cf zf sf of pf> | <addr>=<val>,… or -`
      execute the list with `Dora.X64.Sem.exec`
      → `<tag> done|trap:<n>|de <r0>,…,<r15> <flags>`  or  `<tag> bad:<why>`
-/
open Dora.X64.Sem Dora.Masm

def splitBar (s : String) : List String := (s.splitOn " | ").map fun x => x.trimAscii.toString

def parseInstrs (t : String) : Except String (List Instr) :=
  ((t.splitOn ";").filter (· ≠ "")).mapM fun i => Instr.ofTokens ((i.trimAscii.toString.splitOn " ").filter (· ≠ ""))

def runCalls (t : String) : Except String (List Instr) := do
  let calls ← ((t.splitOn ";").filter (· ≠ "")).mapM fun c =>
    match (c.trimAscii.toString.splitOn " ").filter (· ≠ "") with
    | name :: args => dispatch name args
    | [] => .error "empty call"
  assemble (calls.forM id)

def answer (line : String) : String :=
  match splitBar line with
  | hd :: rest =>
    match hd.splitOn " ", rest with
    | ["prog", tag], [calls] =>
      match runCalls calls with
      | .ok is => tag ++ " ok " ++ ";".intercalate (is.map Instr.toText)
      | .error e => tag ++ " err " ++ e
    | ["exec", tag], [instrs, regs, flags, mem] =>
      match (do
        let is ← parseInstrs instrs
        let r ← readRegs regs
        let f ← readFlags flags
        let m ← readMem mem
        pure (exec is { regs := r, fl := f, mem := m })) with
      | .ok o => tag ++ " " ++ showOutcome o
      | .error e => tag ++ " !parse " ++ e
    | _, _ => "!malformed"
  | [] => "!malformed"

partial def loop (h : IO.FS.Stream) (out : IO.FS.Stream) : IO Unit := do
  let line ← h.getLine
  if line == "" then return
  let l := line.trimAscii.toString
  if l ≠ "" then out.putStrLn (answer l)
  loop h out

def main : IO Unit := do
  let i ← IO.getStdin
  let o ← IO.getStdout
  loop i o
