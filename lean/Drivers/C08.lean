import DoraModel.Gen.A64Dispatch
import DoraModel.A64.SpecText
/-!
Line-protocol driver for C08 (AArch64 encoder).

request  := op (" ; " op)*            a script run on a fresh `AssemblerArm64`
op       := <public method or function name> <operands…>
          | "pad" <n>                 n/4 times `emit_u32(0)`
          | "finalize" <alignment>    only as the last op (default: `finalize 1`)
          registers by number (0..30, 100 = REG_ZERO, 101 = REG_SP), immediates decimal, enums by name,
          labels `L<k>` = the k-th label created by the script, MemOperand = base offset
response := hex of the finalized code (zero runs ≥16 as `z<n>.`) [" " out]*  |  !panic  |  !badreq
also:      "spec" <method> <operands…> → assembly text of the requested instruction(s) | !nospec | !refuse
           "dec" <hex word>            → assembly text of the reference decoding | !undecoded
-/
open Dora.A64

def splitScript (line : String) : List (List String) :=
  (line.splitOn ";").map fun op => (op.trimAscii.toString.splitOn " ").filter (· ≠ "")

def runOp (d : Drv) (op : List String) : Except String Drv :=
  match op with
  | ["pad", n] => do
    let k ← parseNum 32 false n
    let mut s := d.asm
    for _ in [0:k.toNat / 4] do
      let (_, s') ← panicky ((AssemblerArm64.emit_u32 0#32).run s)
      s := s'
    pure { d with asm := s }
  | name :: args => dispatch name args d
  | [] => .error "!badreq"

def runScript (ops : List (List String)) : Except String String := do
  let (ops, align) ← match ops.getLast? with
    | some ["finalize", a] => do
      let al ← parseNum 64 false a
      pure (ops.dropLast, al)
    | _ => pure (ops, 1#64)
  let mut d : Drv := { asm := AssemblerArm64.new, labels := #[], outs := #[] }
  for op in ops do
    d ← runOp d op
  let (buf, _) ← panicky ((AssemblerArm64.finalize align).run d.asm)
  pure (d.outs.foldl (fun s o => s ++ " " ++ o) (hexCode buf.code))

def firstWord (s : String) : String := (s.splitOn " ").headD ""

def respond (line : String) : String :=
  let l := line.trimAscii.toString
  match (l.splitOn " ").filter (· ≠ "") with
  | "spec" :: name :: args => specText name args
  | ["dec", h] => decText h
  | _ =>
    match runScript (splitScript l) with
    | .ok s => s
    | .error e => firstWord e

partial def loop (h : IO.FS.Stream) (out : IO.FS.Stream) : IO Unit := do
  let line ← h.getLine
  if line.isEmpty then return ()
  if line.trimAscii.toString.isEmpty then loop h out else
  out.putStrLn (respond line)
  loop h out

def main : IO Unit := do
  loop (← IO.getStdin) (← IO.getStdout)
