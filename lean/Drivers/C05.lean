import DoraModel.Typing.Check
import DoraModel.Mini.Eval
/-!
Driver for C05: one request per line on stdin, one response line each.

    check <typed S-expression of a program>   ->  ok | error <class> <detail as hex>
    run <fuel> <typed S-expression>           ->  the `check` answer; for an accepted program followed by the
                                                 outcome of the reference interpreter on the ERASED program:
                                                 ` exit:<n>` | ` trap:<kind>` | ` fatal` | ` oof` | ` STUCK:<hex>`
    !read <hex message>                           the line is not a typed twin

`<class>` is the constructor name of `Dora.Typing.TypeError` (`TypeError.className`).
-/
open Dora.Mini Dora.Typing

def hexNib (n : Nat) : Char := if n < 10 then Char.ofNat (48 + n) else Char.ofNat (87 + n)
def toHex (s : String) : String :=
  if s.isEmpty then "-" else
    String.ofList (s.toUTF8.toList.flatMap fun b => [hexNib (b.toNat / 16), hexNib (b.toNat % 16)])

def readLine (text : String) : Except String TProg :=
  match Sexp.parseAll text with
  | .error e => .error e
  | .ok [sx] => readTProg sx
  | .ok _ => .error "expected exactly one form per line"

def checkStr (p : TProg) : String × Bool :=
  match check p with
  | .ok _ => ("ok", true)
  | .error e => ("error " ++ e.className ++ " " ++ toHex e.detail, false)

def outcomeStr : Outcome → String
  | .exit n => s!"exit:{n}"
  | .trap t => "trap:" ++ t.name
  | .fatal _ => "fatal"
  | .stuck m => "STUCK:" ++ toHex m
  | .outOfFuel => "oof"

def respond (line : String) : String :=
  let line := line.trimAscii.toString
  if line.startsWith "check " then
    match readLine (line.drop 6).toString with
    | .error e => "!read " ++ toHex e
    | .ok p => (checkStr p).1
  else if line.startsWith "run " then
    let rest := (line.drop 4).toString
    let fuelStr := (rest.takeWhile (· != ' ')).toString
    let body := (rest.drop (fuelStr.length + 1)).toString
    match readLine body with
    | .error e => "!read " ++ toHex e
    | .ok p =>
      let (s, ok) := checkStr p
      if ok then
        let (_, o, _) := runProg (eraseProg p) (fuelStr.toNat?.getD 20000)
        s ++ " " ++ outcomeStr o
      else s
  else "!badreq"

partial def loop (h : IO.FS.Stream) (out : IO.FS.Stream) : IO Unit := do
  let line ← h.getLine
  if line.isEmpty then return ()
  if line.trimAscii.toString.isEmpty then loop h out else
  out.putStrLn (respond line)
  out.flush
  loop h out

def main : IO Unit := do
  loop (← IO.getStdin) (← IO.getStdout)
