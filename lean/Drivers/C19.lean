import DoraModel.Symbol.Model
open Dora.Symbol

def hexNib (n : Nat) : Char := if n < 10 then Char.ofNat (48 + n) else Char.ofNat (87 + n)
def toHex (bs : List UInt8) : String :=
  if bs.isEmpty then "-" else String.ofList (bs.flatMap fun b => [hexNib (b.toNat / 16), hexNib (b.toNat % 16)])
def nibVal (c : Char) : Nat :=
  if c.toNat ≥ 97 then c.toNat - 87 else if c.toNat ≥ 65 then c.toNat - 55 else c.toNat - 48
def unHexL : List Char → List UInt8
  | a :: b :: r => UInt8.ofNat (nibVal a * 16 + nibVal b) :: unHexL r
  | _ => []
def unHex (s : String) : List UInt8 := if s == "-" then [] else unHexL s.toList

/-- the Rust harness only calls the functions on valid UTF-8 (`&str`); mirror its `!notutf8` -/
def respond (line : String) : String :=
  match line.trimAscii.toString.splitOn " " with
  | ["mangle", h] => toHex (mangleName (unHex h))
  | ["capped", h, m] =>
    match m.toNat? with
    | some k => match mangleNameWithMaxLen (unHex h) k with
      | some r => toHex r
      | none => "!panic maximum symbol length must be at least 34"
    | none => "!badreq"
  | ["demangle", h] =>
    match demangleBytes (unHex h) with
    | some r => match String.fromUTF8? (ByteArray.mk r.toArray) with
      | some _ => toHex r
      | none => "none"
    | none => "none"
  | _ => "!badreq"

partial def loop (h : IO.FS.Stream) (out : IO.FS.Stream) : IO Unit := do
  let line ← h.getLine
  if line.isEmpty then return ()
  if line.trimAscii.toString.isEmpty then loop h out else
  out.putStrLn (respond line)
  loop h out

def main : IO Unit := do
  loop (← IO.getStdin) (← IO.getStdout)
