import DoraModel.Gen.X64Dispatch
import DoraModel.X64.Print
/-!
Driver for C07. One request per line (same file as for `h_c07 run`):
  `<avx 0|1> <op> [; <op>]*`
response: `<hex>\t<status>\t<spec text>\t<decoded text>` or `!panic`
  hex     = code bytes after `finalize(1)` in the regenerated model (compared with the Rust assembler)
  status  = ok        every op's Spec equals the reference decoding of the final buffer, label operands land on the label
            mismatch  decoding of the final buffer ≠ the list of requested instructions
            nospec    some op has no Spec entry
            raw       the line uses a raw-data / positioning op; only the bytes are compared
  texts   = `;`-joined AT&T renderings (for the llvm-mc comparison)
-/
open Dora.X64 Dora.X64.Dec

def hexNib (n : Nat) : Char := if n < 10 then Char.ofNat (48 + n) else Char.ofNat (87 + n)
def toHex (bs : List UInt8) : String :=
  if bs.isEmpty then "-" else String.ofList (bs.flatMap fun b => [hexNib (b.toNat / 16), hexNib (b.toNat % 16)])

/-- `AssemblerX64::finalize(alignment)`: `resolve_jumps(); align_to(alignment)` (the buffer itself is the state) -/
def finalizeM (alignment : Nat) : X64 Unit := do
  resolve_jumps
  align_to alignment

structure Rec where
  start : Nat
  stop : Nat
  spec : SpecResult

structure Run where
  asm : Asm
  labels : List Label := []
  recs : List Rec := []
  raw : Bool := false

def rawOps : List String := ["emit_u8", "emit_u32", "emit_u64", "set_position", "set_position_end", "align_to"]

def runOp (r : Run) (toks : List String) : Option (Except String Run) :=
  match toks with
  | [] => some (.ok r)
  | ["nops", k] =>
    match k.toNat? with
    | none => none
    | some k =>
      some <| (List.range k).foldlM (fun (r : Run) _ =>
        match nop.run r.asm with
        | .ok (_, a) => .ok { r with asm := a, recs := r.recs ++ [⟨r.asm.position, a.position, Spec.nop⟩] }
        | .error e => .error e) r
  | ["create_label"] =>
    some <| match create_label.run r.asm with
    | .ok (l, a) => .ok { r with asm := a, labels := r.labels ++ [l] }
    | .error e => .error e
  | ["create_and_bind_label"] =>
    some <| match create_and_bind_label.run r.asm with
    | .ok (l, a) => .ok { r with asm := a, labels := r.labels ++ [l] }
    | .error e => .error e
  | name :: args =>
    match Dispatch.dispatch r.labels name args with
    | none => none
    | some (act, spec) =>
      some <| match act.run r.asm with
      | .error e => .error e
      | .ok (_, a) =>
        if name == "bind_label" then .ok { r with asm := a }
        else if rawOps.contains name then .ok { r with asm := a, raw := true }
        else .ok { r with asm := a, recs := r.recs ++ [⟨r.asm.position, a.position, spec⟩] }

/-- expected instruction of a record once labels are bound -/
def expected (labels : List (Option UInt32)) (rc : Rec) : Option Instr :=
  match rc.spec with
  | .unspecified => none
  | .plain i => some i
  | .toLabel i l =>
    match labels[l.idx]? with
    | some (some pos) =>
      let d : Int := (pos.toNat : Int) - (rc.stop : Int)
      some { i with ops := i.ops.map fun o => match o with
                                             | .rel _ => .rel d
                                             | .ripRel _ => .ripRel d
                                             | o => o }
    | _ => none

def joinAtt (is : List Instr) : String := ";".intercalate (is.map Instr.att)

def respond (line : String) : String :=
  let line := line.trimAscii.toString
  let (avx, rest) := match line.splitOn " " with
    | a :: r => (a == "1", " ".intercalate r)
    | [] => (false, "")
  let ops := (rest.splitOn ";").map fun o => (o.trimAscii.toString.splitOn " ").filter (· ≠ "")
  let init : Option (Except String Run) := some (.ok { asm := Asm.new avx })
  let res := ops.foldl (fun acc toks =>
    match acc with
    | some (.ok r) => runOp r toks
    | other => other) init
  match res with
  | none => "!badreq"
  | some (.error _) => "!panic"
  | some (.ok r) =>
    match (finalizeM 1).run r.asm with
    | .error _ => "!panic"
    | .ok (_, a) =>
      let hex := toHex a.code
      if r.raw then hex ++ "\traw\t-\t-" else
      let dec := decodeAll (a.code.length + 1) a.code
      let exp := r.recs.map (expected a.labels)
      let specTxt := ";".intercalate (exp.map fun e => match e with | some i => i.att | none => "?")
      let decTxt := match dec with | some is => joinAtt is | none => "undecodable"
      let status :=
        if exp.any Option.isNone then "nospec"
        else match dec with
          | some is => if is == exp.filterMap id then "ok" else "mismatch"
          | none => "mismatch"
      hex ++ "\t" ++ status ++ "\t" ++ specTxt ++ "\t" ++ decTxt

partial def loop (h : IO.FS.Stream) (out : IO.FS.Stream) : IO Unit := do
  let line ← h.getLine
  if line.isEmpty then return ()
  if line.trimAscii.toString.isEmpty then loop h out else
  out.putStrLn (respond line)
  loop h out

def main : IO Unit := do
  loop (← IO.getStdin) (← IO.getStdout)
