import DoraModel.Syntax.Lex
import DoraModel.Syntax.Tree
import DoraModel.Syntax.Core
open Dora.Syntax

/-! Line-protocol driver for C16: answers `lex`, `build`, `ops` requests with the Lean models
(`parse` requests are oracle-only and answered `-`). Same canonical text as `h_c16 run`. -/

def nibVal (c : Char) : Nat :=
  if c.toNat ≥ 97 then c.toNat - 87 else if c.toNat ≥ 65 then c.toNat - 55 else c.toNat - 48

def unHexBytes (s : String) : ByteArray := Id.run do
  if s == "-" then return ByteArray.empty
  let mut out := ByteArray.empty
  let mut hi : Option Nat := none
  for c in s.toList do
    match hi with
    | none => hi := some (nibVal c)
    | some h => out := out.push (UInt8.ofNat (h * 16 + nibVal c)); hi := none
  return out

def unHexText (s : String) : Option (List Char) :=
  (String.fromUTF8? (unHexBytes s)).map String.toList

def lexErrName : LexErr → String
  | .unknownChar c => s!"UnknownChar({c.toNat})"
  | .unclosedComment => "UnclosedComment"
  | .unclosedString => "UnclosedString"
  | .unclosedChar => "UnclosedChar"

def joinWith (sep : String) (xs : List String) : String :=
  match xs with
  | [] => ""
  | x :: rest => rest.foldl (fun acc y => acc ++ sep ++ y) x

def lexLine (cs : List Char) : String :=
  match lex cs with
  | .error .panic => "!panic"
  | .error .outOfFuel => "!outoffuel"
  | .ok r =>
    let rec toks : List TokenKind → List Nat → List String → List String
      | k :: ks, s :: ss, acc => toks ks ss (s!"{k.name}@{s}" :: acc)
      | k :: ks, [], acc => toks ks [] (k.name :: acc)
      | [], _, acc => acc.reverse
    let errs := r.errors.map fun e => s!"{lexErrName e.err}@{e.start}+{e.len}"
    "ok " ++ joinWith "," (toks r.kinds r.starts []) ++ " ; " ++ (if errs.isEmpty then "-" else joinWith "," errs)

def kindByName (n : String) : Option TokenKind := TokenKind.all.find? (fun k => k.name == n)

def parseEvent (s : String) : Option Event :=
  if s == "A" then some .advance
  else if s == "C" then some .close
  else if s.startsWith "O" then
    let body := (s.drop 1).toString
    if body.isEmpty then some (.open [])
    else (body.splitOn ".").mapM kindByName |>.map Event.open
  else none

def eventStr : Event → String
  | .advance => "A"
  | .close => "C"
  | .open ks => "O" ++ joinWith "." (ks.map TokenKind.name)

partial def preorderAux : Green → List String → List String
  | .token k t, acc => s!"{k.name}:{utf8Len t}" :: acc
  | .node k cs len, acc =>
    let acc := s!"{k.name}:{len}(" :: acc
    let acc := cs.foldl (fun a c => preorderAux c a) acc
    ")" :: acc

def preorderStr (g : Green) : String := joinWith " " (preorderAux g []).reverse

def buildLine (cs : List Char) (evs : String) : String :=
  match lex cs with
  | .error _ => "!lexfail"
  | .ok r =>
    match (evs.splitOn ",").mapM parseEvent with
    | none => "!badevents"
    | some es =>
      match buildTree cs r.kinds.toArray r.starts.toArray es with
      | none => "!panic build_tree"
      | some root => "ok " ++ preorderStr root

def parseOp (s : String) : Option Op :=
  if s == "o" then some .open
  else if s == "a" then some .advance
  else if s == "s" then some .skipTrivia
  else if s == "r0" then some (.rawAdvance false)
  else if s == "r1" then some (.rawAdvance true)
  else if s == "t" then some .advanceByAllTrivia
  else if s == "l" then some .advanceByTrailingTrivia
  else if s == "n" then some .advanceByNonLeadingTrivia
  else if s.startsWith "c" then
    match ((s.drop 1).toString.splitOn ":") with
    | [m, k] => do
      let m ← m.toNat?
      let k ← kindByName k
      pure (.close m k)
    | _ => none
  else none

def opsLine (cs : List Char) (ops : String) : String :=
  match lex cs with
  | .error _ => "!lexfail"
  | .ok r =>
    match (if ops == "-" then some [] else (ops.splitOn ",").mapM parseOp) with
    | none => "!badops"
    | some os =>
      match runOps (PState.init cs r.kinds.toArray r.starts.toArray) os with
      | .error .panic => "!panic core"
      | .error .outOfFuel => "!outoffuel core"
      | .ok st =>
        let evs := st.events.toList
        match buildTree cs r.kinds.toArray r.starts.toArray evs with
        | none => "!panic build_tree"
        | some root =>
          s!"ok {st.tokenIdx} {st.leading} | " ++ (if evs.isEmpty then "-" else joinWith "," (evs.map eventStr)) ++ " | " ++ preorderStr root

def respond (line : String) : String :=
  match line.trimAscii.toString.splitOn " " with
  | ["lex", h] => match unHexText h with
    | some cs => lexLine cs
    | none => "!notutf8"
  | ["parse", _] => "-"
  | ["build", h, evs] => match unHexText h with
    | some cs => buildLine cs evs
    | none => "!notutf8"
  | ["ops", h, ops] => match unHexText h with
    | some cs => opsLine cs ops
    | none => "!notutf8"
  | _ => "!badreq"

partial def loop (h : IO.FS.Stream) (out : IO.FS.Stream) : IO Unit := do
  let line ← h.getLine
  if line.isEmpty then return ()
  let t := line.trimAscii.toString
  if t.isEmpty || t.startsWith "#" then loop h out else
  out.putStrLn (respond line)
  loop h out

def main : IO Unit := do
  loop (← IO.getStdin) (← IO.getStdout)
