import DoraModel.Artifact.Model
open Dora.Artifact

def parseKind : String → Option Kind
  | "optimized" => some .optimized | "runtime_entry" => some .runtimeEntry | "dora_entry" => some .doraEntry
  | "alloc_failure" => some .allocFailure | "trap" => some .trap | "safepoint" => some .safepoint
  | "unreachable" => some .unreachable | "fatal_error" => some .fatalError | "stack_overflow" => some .stackOverflow
  | _ => none

def parseClass (s : String) : CallClass :=
  match s with
  | "managed" => .managed | "runtime_entry" => .runtimeEntry | "indirect" => .indirect | "safepoint" => .safepoint
  | "alloc" => .alloc | "unreachable" => .unreachable | "fatal_error" => .fatalError | "trap" => .trap
  | "stack_overflow" => .stackOverflow | "write_barrier" => .writeBarrier | _ => .native

structure St where
  fns : Array Fn := #[]
  bad : Bool := false
  name : String := ""

def updFn (st : St) (i : Nat) (f : Fn → Fn) : St :=
  if h : i < st.fns.size then { st with fns := st.fns.set i (f st.fns[i]) } else { st with bad := true }

def ints (ws : List String) : List Int := ws.filterMap String.toInt?

def splitOI (ws : List String) : List Int × List Int :=
  -- "o a b c i d e"
  let afterO := ws.dropWhile (· != "o") |>.drop 1
  let os := afterO.takeWhile (· != "i")
  let is := afterO.dropWhile (· != "i") |>.drop 1
  (ints os, ints is)

def report (st : St) : String :=
  let a : Artifact := { fns := st.fns.toList, bad := st.bad }
  let ncalls := a.fns.foldl (fun n f => n + (f.calls.filter (fun c => f.kind == .optimized && c.cls.needsMap)).length) 0
  let ngcp := a.fns.foldl (fun n f => n + f.gcps.length) 0
  let nslots := a.fns.foldl (fun n f => n + f.gcps.foldl (fun m g => m + g.offsets.length + g.interior.length) 0) 0
  if wfArtifact a then s!"ok fns={a.fns.length} mapped_calls={ncalls} gcpoints={ngcp} slots={nslots}"
  else s!"reject {explain a}"

instance : BEq Kind := ⟨fun a b => decide (a = b)⟩

def step (st : St) (line : String) : St × Option String :=
  match line.trimAscii.toString.splitOn " " with
  | "artifact" :: _arch :: rest => ({ name := " ".intercalate rest }, none)
  | ["fn", _i, k, s, e, fr, _sym] =>
    match parseKind k, s.toNat?, e.toNat?, fr.toNat? with
    | some kind, some s, some e, some fr =>
      ({ st with fns := st.fns.push { kind := kind, start := s, stop := e, frame := fr, calls := [], gcps := [], locs := [], bad := false } }, none)
    | _, _, _, _ => ({ st with bad := true }, none)
  | ["call", i, r, c, x, _sym] =>
    match i.toNat?, r.toNat?, x.toNat? with
    | some i, some r, some x => (updFn st i (fun f => { f with calls := f.calls ++ [⟨r, parseClass c, x⟩] }), none)
    | _, _, _ => ({ st with bad := true }, none)
  | "gcp" :: i :: pc :: rest =>
    match i.toNat?, pc.toNat? with
    | some i, some pc =>
      let (os, is) := splitOI rest
      (updFn st i (fun f => { f with gcps := f.gcps ++ [⟨pc, os, is⟩] }), none)
    | _, _ => ({ st with bad := true }, none)
  | ["loc", i, pc, inl, l, c] =>
    match i.toNat?, pc.toNat?, inl.toNat?, l.toNat?, c.toNat? with
    | some i, some pc, some inl, some l, some c => (updFn st i (fun f => { f with locs := f.locs ++ [⟨pc, inl, l, c⟩] }), none)
    | _, _, _, _, _ => ({ st with bad := true }, none)
  | "fnote" :: i :: n :: _ =>
    -- block-local stack tracking failed: the frame extension at calls of this function is unknown
    if n.startsWith "pop-below" || n.startsWith "dynamic-rsp" then
      match i.toNat? with
      | some i => (updFn st i (fun f => { f with bad := true }), none)
      | none => ({ st with bad := true }, none)
    else (st, none)
  | "note" :: "bad" :: _ => ({ st with bad := true }, none)
  | ["end"] => ({}, some (report st))
  | _ => (st, none)

partial def loop (h : IO.FS.Stream) (out : IO.FS.Stream) (st : St) : IO Unit := do
  let line ← h.getLine
  if line.isEmpty then return ()
  let (st', r) := step st line
  match r with
  | some s => out.putStrLn s
  | none => pure ()
  loop h out st'

def main : IO Unit := do
  loop (← IO.getStdin) (← IO.getStdout) {}
