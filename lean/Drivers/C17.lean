import DoraModel.Fmt.Model
open Dora.Fmt

/-! Line-protocol driver for C17: renders serialised `Doc`s with the Lean model of render.rs.
requests:  `render <doc> <w1,w2,..>` -> `<w>:<byte length>:<fnv64 of the UTF-8 bytes>` per width
           `renderx <doc> <w>`       -> lower-case hex of the UTF-8 bytes (`-` = empty)
serialised Doc: comma separated prefix form  C<n> children.. | N<indent> d | G d | T<hex> | L | B | I d | H -/

def hexNib (n : Nat) : Char := if n < 10 then Char.ofNat (48 + n) else Char.ofNat (87 + n)
def nibVal (c : Char) : Nat :=
  if c.toNat ≥ 97 then c.toNat - 87 else if c.toNat ≥ 65 then c.toNat - 55 else c.toNat - 48

def unHexBytes (cs : List Char) : ByteArray := Id.run do
  let mut out := ByteArray.empty
  let mut l := cs
  while true do
    match l with
    | a :: b :: r =>
      out := out.push (UInt8.ofNat (nibVal a * 16 + nibVal b))
      l := r
    | _ => break
  return out

def textOfHex (h : String) : Option (List Char) :=
  if h == "-" then some [] else
  match String.fromUTF8? (unHexBytes h.toList) with
  | some s => some s.toList
  | none => none

def toHexBytes (bs : ByteArray) : String :=
  if bs.size == 0 then "-" else
  String.ofList (bs.toList.flatMap fun b => [hexNib (b.toNat / 16), hexNib (b.toNat % 16)])

def fnv64 (bs : ByteArray) : UInt64 := Id.run do
  let mut h : UInt64 := 0xcbf29ce484222325
  for b in bs do
    h := (h ^^^ b.toUInt64) * 0x100000001b3
  return h

def hex16 (v : UInt64) : String :=
  String.ofList ((List.range 16).map fun i => hexNib ((v.toNat >>> (4 * (15 - i))) % 16))

mutual
partial def parseDoc (toks : List String) : Option (Doc × List String) :=
  match toks with
  | [] => none
  | t :: rest =>
    let h := t.take 1
    let arg := (t.drop 1).toString
    if h == "C" then
      match arg.toNat? with
      | some n => (parseMany n rest []).map fun (cs, r) => (Doc.concat cs, r)
      | none => none
    else if h == "N" then
      match arg.toNat?, parseDoc rest with
      | some n, some (d, r) => some (Doc.nest n d, r)
      | _, _ => none
    else if h == "G" then (parseDoc rest).map fun (d, r) => (Doc.group d, r)
    else if h == "I" then (parseDoc rest).map fun (d, r) => (Doc.ifBreak d, r)
    else if h == "T" then (textOfHex arg).map fun s => (Doc.text s, rest)
    else if h == "L" then some (Doc.softLine, rest)
    else if h == "B" then some (Doc.softBreak, rest)
    else if h == "H" then some (Doc.hardLine, rest)
    else none
partial def parseMany (n : Nat) (toks : List String) (acc : List Doc) : Option (List Doc × List String) :=
  if n == 0 then some (acc.reverse, toks) else
  match parseDoc toks with
  | some (d, r) => parseMany (n - 1) r (d :: acc)
  | none => none
end

def docOf (s : String) : Option Doc :=
  match parseDoc (s.splitOn ",") with
  | some (d, []) => some d
  | _ => none

def renderBytes (d : Doc) (w : Nat) : Option ByteArray :=
  (render d w).map fun cs => (String.ofList cs).toUTF8

def respond (line : String) : String :=
  match line.trimAscii.toString.splitOn " " with
  | ["render", ds, ws] =>
    match docOf ds with
    | none => "!baddoc"
    | some d =>
      " ".intercalate ((ws.splitOn ",").map fun w =>
        match w.toNat? with
        | none => "!badwidth"
        | some k =>
          match renderBytes d k with
          | some bs => s!"{k}:{bs.size}:{hex16 (fnv64 bs)}"
          | none => s!"{k}:!nofuel")
  | ["renderx", ds, w] =>
    match docOf ds, w.toNat? with
    | some d, some k =>
      match renderBytes d k with
      | some bs => toHexBytes bs
      | none => "!nofuel"
    | _, _ => "!baddoc"
  | _ => "!badreq"

partial def loop (h : IO.FS.Stream) (out : IO.FS.Stream) : IO Unit := do
  let line ← h.getLine
  if line.isEmpty then return ()
  if line.trimAscii.toString.isEmpty then loop h out else
  out.putStrLn (respond line)
  loop h out

def main : IO Unit := do
  loop (← IO.getStdin) (← IO.getStdout)
