import DoraModel.Alloc.ArraySize
open Dora.Alloc

/-- requests: `cannon <len:int> <es>` | `boots <len:int> <es>`; answers: `refuse` | `size <n>` -/
def respond (line : String) : String :=
  match line.trimAscii.toString.splitOn " " with
  | ["cannon", l, e] =>
    match l.toInt?, e.toNat? with
    | some l, some e =>
      match cannonOutcome true (BitVec.ofInt 64 l) e with
      | none => "refuse"
      | some s => s!"size {s.toNat}"
    | _, _ => "!badreq"
  | ["cannon-unchecked", l, e] =>
    match l.toInt?, e.toNat? with
    | some l, some e =>
      match cannonOutcome false (BitVec.ofInt 64 l) e with
      | none => "refuse"
      | some s => s!"size {s.toInt}"
    | _, _ => "!badreq"
  | ["boots", l, e] =>
    match l.toInt?, e.toNat? with
    | some l, some e =>
      match bootsOutcome true l e with
      | .trap => "refuse"
      | .size s => s!"size {s}"
    | _, _ => "!badreq"
  | _ => "!badreq"

partial def loop (h : IO.FS.Stream) (out : IO.FS.Stream) : IO Unit := do
  let line ← h.getLine
  if line.isEmpty then return ()
  out.putStrLn (respond line)
  loop h out

def main : IO Unit := do loop (← IO.getStdin) (← IO.getStdout)
