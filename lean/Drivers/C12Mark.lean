import DoraModel.Term.MarkCheck
/-!
drv_c12mark <file>...   check every marking run logged by the hook `hooks/c12_marklog.patch`
                        (dora-runtime/src/gc/swiper/verif_marklog.rs).  The file may also contain the heap dumps
                        of `verif_heapdump.rs` (same file named by DORA_VERIF_HEAPDUMP): a marking run that
                        directly follows a `pre` dump is additionally checked against that heap graph.
  one line per marking run:
    `ok n=<n> workers=<k> dump=<0|1> processed=… traced=… lost=… shared=… dequePushes=… tasksWithWork=…`
    `bad n=<n> workers=<k> dump=<0|1> findings=<count>` followed by `finding <key> <text>` lines (≤ 4 per key)
  exit status 2 if the file cannot be parsed
-/
open Dora.Mark Dora.Mark.Check

def hexVal? (s : String) : Option Nat :=
  if s.isEmpty then none else
  s.toList.foldl (fun acc c =>
    match acc with
    | none => none
    | some n =>
      let v := c.toNat
      if 48 ≤ v && v ≤ 57 then some (n * 16 + (v - 48))
      else if 97 ≤ v && v ≤ 102 then some (n * 16 + (v - 87))
      else none) (some 0)

def reportRun (out : IO.FS.Stream) (r : Run) (d : Option Dump) : IO Unit := do
  let (fs, sm) := checkRun r d
  let dm := if d.isSome then 1 else 0
  if fs.isEmpty then
    out.putStrLn s!"ok n={r.n} workers={r.workers} dump={dm} processed={sm.processed} traced={sm.traced} lost={sm.lost} shared={sm.shared} dequePushes={sm.dequePushes} tasksWithWork={sm.tasksWithWork}"
  else
    out.putStrLn s!"bad n={r.n} workers={r.workers} dump={dm} findings={fs.size}"
    let mut seen : Std.HashMap String Nat := {}
    for (k, t) in fs do
      let c := seen.getD k 0
      seen := seen.insert k (c + 1)
      if c < 4 then out.putStrLn s!"finding {k} {t}"

def checkFile (path : String) (out : IO.FS.Stream) : IO (Option String) := do
  let text ← IO.FS.readFile path
  let mut dumpCur : Option Dump := none       -- heap dump record being read
  let mut dumpPhase := ""
  let mut lastPre : Option Dump := none       -- complete `pre` dump not yet followed by its `post`
  let mut run : Option Run := none
  let mut task : Option (Nat × Array Rec) := none
  let mut lineNo := 0
  for line in text.splitOn "\n" do
    lineNo := lineNo + 1
    let ws := (line.trimAscii.toString.splitOn " ").filter (· ≠ "")
    let bad (why : String) : Option String := some s!"line {lineNo}: {why}"
    match ws with
    | [] => pure ()
    | ["collection", _, phase, _] =>
      if dumpCur.isSome || run.isSome then return bad "collection record inside another record"
      dumpCur := some {}
      dumpPhase := phase
    | ["end", _, phase] =>
      match dumpCur with
      | none => return bad "end without collection"
      | some d =>
        if phase ≠ dumpPhase then return bad "end does not match"
        lastPre := if phase == "pre" then some d else none
        dumpCur := none
    | "root" :: kind :: a :: _ =>
      match dumpCur, hexVal? a with
      | some d, some a =>
        if kind ≠ "r" && kind ≠ "i" then return bad "bad root record"
        if a ≠ 0 then dumpCur := some { d with roots := d.roots.push a }
      | _, _ => return bad "bad root record"
    | "obj" :: a :: _ :: _ :: _ :: n :: rest =>
      match dumpCur, hexVal? a, hexVal? n, rest.mapM hexVal? with
      | some d, some a, some n, some refs =>
        if refs.length ≠ n then return bad "bad obj record"
        dumpCur := some { d with refs := d.refs.insert a (refs.filter (· ≠ 0)).toArray }
      | _, _, _, _ => return bad "bad obj record"
    | ["marking", n, k, _, _, pl, ph] =>
      if dumpCur.isSome || run.isSome then return bad "marking record inside another record"
      match hexVal? n, hexVal? k, hexVal? pl, hexVal? ph with
      | some n, some k, some pl, some ph => run := some { n := n, workers := k, permLo := pl, permHi := ph }
      | _, _, _, _ => return bad "bad marking record"
    | ["end", _] =>
      match run with
      | none => return bad "end without marking"
      | some r =>
        let r := match task with
          | some t => { r with tasks := r.tasks.push t }
          | none => r
        reportRun out r lastPre
        run := none
        task := none
        lastPre := none
    | [c] =>
      match run, task, c with
      | some r, none, "R" =>
        if r.roots.isEmpty then return bad "R without r"
        let (x, _) := r.roots.back!
        run := some { r with roots := r.roots.pop.push (x, true) }
      | some _, some (tid, recs), "w" => task := some (tid, recs.push .won)
      | some _, some (tid, recs), "l" => task := some (tid, recs.push .pushL)
      | some _, some (tid, recs), "q" => task := some (tid, recs.push .pushQ)
      | _, _, _ => return bad "unknown record"
    | [c, a] =>
      match run, hexVal? a with
      | some r, some a =>
        match c, task with
        | "r", none => run := some { r with roots := r.roots.push (a, false) }
        | "W", _ =>
          if let some t := task then run := some { r with tasks := r.tasks.push t }
          task := some (a, #[])
        | "p", some (tid, recs) => task := some (tid, recs.push (.pop a))
        | "t", some (tid, recs) => task := some (tid, recs.push (.trace a))
        | "h", some (tid, recs) => task := some (tid, recs.push (.share a))
        | _, _ => return bad "unknown record"
      | _, _ => return bad "unknown record"
    | _ => return bad "unknown record"
  if run.isSome then out.putStrLn "incomplete-marking"
  return none

def main (args : List String) : IO UInt32 := do
  let out ← IO.getStdout
  let mut rc : UInt32 := 0
  for f in args do
    match ← checkFile f out with
    | some e => out.putStrLn s!"parse-error {f}: {e}"; rc := 2
    | none => pure ()
  return rc
