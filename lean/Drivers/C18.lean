import DoraModel.Bytecode.Writer
import DoraModel.Bytecode.Bincode
import DoraModel.Gen.PkgTypes
open Dora.Bytecode

/-! Line-protocol driver for C18. Requests (one per line):
  `bc <op> <op> …`   a writer session, ops comma separated (see harness/crates/c18/src/main.rs), then `generate`
  `rd <hex>`         read an arbitrary byte string as code
  `bin <type> <hex>` decode a bincode value of the given type, re-encode it
-/

def hexNib (n : Nat) : Char := if n < 10 then Char.ofNat (48 + n) else Char.ofNat (87 + n)
def toHexL (bs : List UInt8) : List Char := bs.flatMap fun b => [hexNib (b.toNat / 16), hexNib (b.toNat % 16)]
def toHex (bs : List UInt8) : String := if bs.isEmpty then "-" else String.ofList (toHexL bs)
def nibVal (c : Char) : Nat :=
  if c.toNat ≥ 97 then c.toNat - 87 else if c.toNat ≥ 65 then c.toNat - 55 else c.toNat - 48
def unHexGo : List Char → List UInt8 → List UInt8
  | a :: b :: r, acc => unHexGo r (UInt8.ofNat (nibVal a * 16 + nibVal b) :: acc)
  | _, acc => acc.reverse
def unHex (s : String) : List UInt8 := if s == "-" then [] else unHexGo s.toList []

/-- FNV-1a 64 over the UTF-8 bytes of a string (all strings here are ASCII) -/
def fnv64 (s : String) : UInt64 :=
  s.foldl (fun h c => (h ^^^ c.toNat.toUInt64) * 0x100000001b3) 0xcbf29ce484222325

/-- long fields are replaced by `#<fnv64>:<length>` on both sides -/
def big (s : String) : String := if s.length > 4000 then s!"#{(fnv64 s).toNat}:{s.length}" else s

def joinWith (sep : String) (xs : List String) : String := sep.intercalate xs

def showOperand : Operand → String
  | .num v => toString v
  | .args rs => "[" ++ joinWith ":" (rs.map toString) ++ "]"

/-- listing entry in `visit_*` parameter order -/
def showInstr (p : Nat × Instr) : String :=
  let (off, i) := p
  let ops := i.op.visitPerm.map fun w => showOperand (i.operands.getD w (.num 0))
  s!"{off}:{i.op.name}:{joinWith "," ops}"

def showListing (l : List (Nat × Instr)) : String :=
  if l.isEmpty then "-" else joinWith ";" (l.map showInstr)

def showConst : ConstEntry → String
  | .string b => "s:" ++ toHex b
  | .float32 v => s!"f32:{v}"
  | .float64 v => s!"f64:{v}"
  | .int32 v => s!"i32:{v}"
  | .int64 v => s!"i64:{v}"
  | .char c => s!"ch:{c}"
  | .jumpTable ts d => "jt:[" ++ joinWith ":" (ts.map toString) ++ s!"]/{d}"

def parseList (s : String) : Option (List Nat) :=
  match s.toList with
  | '[' :: rest =>
    let inner := String.ofList (rest.takeWhile (· != ']'))
    if inner.isEmpty then some [] else (inner.splitOn ":").mapM (·.toNat?)
  | _ => none

def findOp (name : String) : Option Opcode := Opcode.all.find? (·.name == name)

def parseOperand (k : Kind) (s : String) : Option Operand :=
  match k with
  | .args => (parseList s).map .args
  | _ => s.toNat?.map .num

/-- API parameters (in `emit_*` order) to the instruction in wire order -/
def buildInstr (op : Opcode) (ps : List String) : Option Instr := do
  let lay := op.writeLayout
  if ps.length != lay.length then none
  let os ← (lay.zip op.emitPerm).mapM fun (k, p) => do parseOperand k (← ps[p]?)
  let i : Instr := ⟨op, os⟩
  if decide i.WF then some i else none

def parseConst (variant : String) (v : String) : Option ConstEntry :=
  match variant with
  | "Int32" => v.toInt?.map .int32
  | "Int64" => v.toInt?.map .int64
  | "Float32" => v.toNat?.map .float32
  | "Float64" => v.toNat?.map .float64
  | "Char" => v.toNat?.map .char
  | "String" => match v.toList with
    | 'x' :: h => some (.string (unHexGo h []))
    | _ => none
  | _ => none

inductive R where
  | ok (w : Writer)
  | panic
  | bad

def emitApi (w : Writer) (name : String) (ps : List String) : R :=
  match findOp name with
  | none => .bad
  | some op =>
    match op.constVariant, ps with
    | some variant, [d, v] =>
      match d.toNat?, parseConst variant v with
      | some d, some e =>
        if d < 4294967296 then
          let (w, idx) := w.addConst e
          match w.emitInstr ⟨op, [.num d, .num idx]⟩ with
          | some w => .ok w
          | none => .panic
        else .bad
      | _, _ => .bad
    | some _, _ => .bad
    | none, _ =>
      match buildInstr op ps with
      | none => .bad
      | some i => match w.emitInstr i with
        | some w => .ok w
        | none => .panic

def repeatEmit : Nat → Writer → Instr → Option Writer
  | 0, w, _ => some w
  | n + 1, w, i => match w.emitInstr i with
    | none => none
    | some w => repeatEmit n w i

def fillConsts : Nat → Nat → Writer → Writer
  | 0, _, w => w
  | n + 1, j, w => fillConsts n (j + 1) (w.addConst (.int32 j)).1

def ofOpt (o : Option Writer) : R := match o with
  | some w => .ok w
  | none => .panic

def step (w : Writer) (op : String) : R :=
  match op.splitOn "," with
  | ["lbl"] => .ok w.createLabel.1
  | ["def"] => .ok w.defineLabel.1
  | ["bind", l] => match l.toNat? with
    | some l => ofOpt (w.bindLabel l)
    | none => .bad
  | ["loc", a, b] => match a.toNat?, b.toNat? with
    | some a, some b => .ok (w.setLocation a b)
    | _, _ => .bad
  | ["jmp", l] => match l.toNat? with
    | some l => ofOpt (w.emitJumpForward .Jump none l)
    | none => .bad
  | ["jf", r, l] => match r.toNat?, l.toNat? with
    | some r, some l => ofOpt (w.emitJumpForward .JumpIfFalse (some r) l)
    | _, _ => .bad
  | ["jt", r, l] => match r.toNat?, l.toNat? with
    | some r, some l => ofOpt (w.emitJumpForward .JumpIfTrue (some r) l)
    | _, _ => .bad
  | ["loop", l] => match l.toNat? with
    | some l => ofOpt (w.emitJumpLoop l)
    | none => .bad
  | ["k", n] => match n.toNat? with
    | some n => .ok (fillConsts n 0 w)
    | none => .bad
  | ["jtab", ts, d] => match parseList ts, d.toNat? with
    | some ts, some d => .ok (w.addConstJumpTable ts d).1
    | _, _ => .bad
  | "i" :: name :: ps => emitApi w name ps
  | "rep" :: n :: name :: ps =>
    match n.toNat?, findOp name with
    | some n, some op =>
      if op.constVariant.isSome then .bad else
      match buildInstr op ps with
      | some i => ofOpt (repeatEmit n w i)
      | none => .bad
    | _, _ => .bad
  | _ => .bad

def runOps : List String → Writer → R
  | [], w => .ok w
  | op :: ops, w => match step w op with
    | .ok w => runOps ops w
    | r => r

def showLocs (l : List (Nat × Nat × Nat)) : String :=
  if l.isEmpty then "-" else joinWith ";" (l.map fun (o, a, b) => s!"{o}:{a}:{b}")

def respondBc (ops : List String) : String :=
  match runOps ops {} with
  | .bad => "!badreq"
  | .panic => "!panic"
  | .ok w =>
    match w.generate with
    | none => "!panic"
    | some w =>
      let code := w.code.toList
      let cp := if w.constPool.isEmpty then "-" else joinWith ";" (w.constPool.toList.map showConst)
      match readAll code with
      | none => s!"code={big (toHex code)} cp={big cp} loc={big (showLocs w.locs.toList)} ins=!panic"
      | some l => s!"code={big (toHex code)} cp={big cp} loc={big (showLocs w.locs.toList)} ins={big (showListing l)}"

def respondRd (h : String) : String :=
  match readAll (unHex h) with
  | none => "!panic"
  | some l => big (showListing l)

def respond (line : String) : String :=
  match line.trimAscii.toString.splitOn " " with
  | "bc" :: ops => respondBc ops
  | ["rd", h] => respondRd h
  | ["bin", ty, h] => Dora.Bincode.respond ty (unHex h) toHex
  | _ => "!badreq"

/-- FNV-1a 64 over bytes -/
def fnvBytes (bs : List UInt8) : UInt64 :=
  bs.foldl (fun h b => (h ^^^ b.toUInt64) * 0x100000001b3) 0xcbf29ce484222325

/-- decode a package with the generated type table, re-encode it -/
def respondPkg (bs : List UInt8) (withSame : Bool) : String :=
  let fuel := (bs.length + 2) * (Dora.Bincode.pkgEnv.size + 1)
  match Dora.Bincode.decodeAll Dora.Bincode.pkgEnv Dora.Bincode.pkgRoot bs with
  | none => "err"
  | some v =>
    let again := Dora.Bincode.encT Dora.Bincode.pkgEnv fuel Dora.Bincode.pkgRoot v
    let wf := Dora.Bincode.wfT Dora.Bincode.pkgEnv fuel Dora.Bincode.pkgRoot v
    let r := s!"ok {(fnvBytes again).toNat}:{again.length} wf={wf}"
    if withSame then s!"{r} same={again == bs}" else r

def mutate (bs : Array UInt8) (kind : String) (pos bit : Nat) : Option (List UInt8) :=
  match kind with
  | "trunc" => if pos ≤ bs.size then some (bs.toList.take pos) else none
  | "flip" => if pos < bs.size ∧ bit < 8 then
      some (bs.setIfInBounds pos (bs[pos]! ^^^ (1 <<< bit.toUInt8))).toList else none
  | _ => none

partial def loop (h : IO.FS.Stream) (out : IO.FS.Stream) (cache : String × ByteArray) : IO Unit := do
  let line ← h.getLine
  if line.isEmpty then return ()
  let l := line.trimAscii.toString
  if l.isEmpty then loop h out cache else
  match l.splitOn " " with
  | "pkg" :: file :: rest =>
    let cache ← if cache.1 == file then pure cache else do
      let b ← IO.FS.readBinFile file
      pure (file, b)
    let bytes : Array UInt8 := cache.2.data
    match rest with
    | [] => out.putStrLn (respondPkg bytes.toList true)
    | [kind, pos, bit] =>
      match pos.toNat?, bit.toNat? with
      | some p, some b =>
        match mutate bytes kind p b with
        | some m => out.putStrLn (respondPkg m false)
        | none => out.putStrLn "!badreq"
      | _, _ => out.putStrLn "!badreq"
    | _ => out.putStrLn "!badreq"
    out.flush
    loop h out cache
  | _ =>
    out.putStrLn (respond line)
    loop h out cache

def main : IO Unit := do
  loop (← IO.getStdin) (← IO.getStdout) ("", ByteArray.empty)
