#!/usr/bin/env python3
"""seed_table.py — markdown table of the seeded changes (seeded/*/meta.json + detected.json), for DESIGN.md §11.4."""
import json
import os
import re

root = "/verif/seeded"
print("| id | change | needs | result of `./check <property> quick` against the patched tree (seeded/<id>/detected.json) |")
print("|----|---|---|---|")
for sid in sorted(os.listdir(root)):
    d = os.path.join(root, sid)
    try:
        m = json.load(open(os.path.join(d, "meta.json")))
    except OSError:
        continue
    det = None
    if os.path.exists(os.path.join(d, "detected.json")):
        det = json.load(open(os.path.join(d, "detected.json")))

    def short(t, n):
        t = re.sub(r"\s+", " ", str(t)).replace("|", "\\|")
        return t if len(t) <= n else t[: n - 1] + "…"
    if det is None:
        res = "not run yet"
    elif det["caught"]:
        first = det["violations"][0] if det["violations"] else ""
        what = first.split("->", 1)[1].strip() if "->" in first else first
        res = "CAUGHT (%d VIOLATION lines; keys %s): %s" % (det["violation_count"], ", ".join("`%s`" % k for k in det.get("replay_keys", [])[:3]) or "—", short(what, 220))
    else:
        res = "**MISSED** (exit %s)" % det["exit"]
    if m.get("verif_note"):
        res += " — " + short(m["verif_note"], 300)
    print("| %s | %s | %s | %s |" % (sid, short(m.get("summary", ""), 260), short(m.get("needs", ""), 200), res))
