#!/usr/bin/env python3
"""manifest_add.py <Cxx> <category> <technique> <level text> <level note> [hook-commit…] — add/replace a check entry."""
import json, sys
pid, cat, tech, text, note = sys.argv[1:6]
hooks = sys.argv[6:]
m = json.load(open('/verif/MANIFEST.json'))
m['checks'] = [c for c in m['checks'] if c['property_id'] != pid]
m['checks'].append({
    "property_id": pid, "quick_cmd": "./check %s quick" % pid, "thorough_cmd": "./check %s thorough" % pid,
    "evidence_file": "evidence/%s.json" % pid, "replay_cmd_template": "./check %s --replay {path}" % pid,
    "engine": "lean-proof", "technique": tech,
    "level_claimed": {"category": cat, "text": text, "design_ref": "DESIGN.md §7 %s" % pid},
    "level_note": note})
m['checks'].sort(key=lambda c: c['property_id'])
m['not_applicable'] = [x for x in m.get('not_applicable', []) if x['property_id'] != pid]
for e in m['engines']:
    if pid not in e['serves_properties']:
        e['serves_properties'].append(pid)
        e['serves_properties'].sort()
for h in hooks:
    if h not in m['hooks']['source_commits']:
        m['hooks']['source_commits'].append(h)
json.dump(m, open('/verif/MANIFEST.json', 'w'), indent=1)
print("claimed", pid)
