#!/usr/bin/env python3
"""One-off helper (NOT run by ./check): prints the per-class theorems that live in
lean/DoraModel/Props/C08/Cls1..4.lean, from the field table below.  The table is a reading of the Arm ARM
encoding diagrams (field position, width, register-31 rule per operand) — NOT derived from arm64.rs; the proofs
then check the translated code against it.  Run by hand when a class encoder is added to arm64.rs:
    python3 tools/gen_c08_props.py > /tmp/cls.lean      and paste the new theorem into one of the Cls files.
"""
import sys

# operand kinds: ('u', k) unsigned k-bit value in a field of `len` bits; ('i', k) signed; 'g' gpr only; 'z' gpr|zr;
# 's' gpr|sp; 'f' neon register; ('eq0',) must be zero, no field; 'cond' / 'shift' / 'ext' / 'lsext' enums
CLASSES = [
    ("addsub_extreg", [("sf", "u32"), ("op", "u32"), ("s", "u32"), ("opt", "u32"), ("rm", "R"), ("option", "Extend"),
                       ("imm3", "u32"), ("rn", "R"), ("rd", "R")],
     [("sf", 31, 1, ("u", 1)), ("op", 30, 1, ("u", 1)), ("s", 29, 1, ("u", 1)), ("opt", None, 0, ("eq0",)),
      ("rm", 16, 5, "z"), ("option", 13, 3, "ext"), ("imm3", 10, 3, ("u", 2)), ("rn", 5, 5, "s"), ("rd", 0, 5, "zs_by_s")],
     (0b01011 << 24) | (1 << 21), []),
    ("addsub_shreg", [("sf", "u32"), ("op", "u32"), ("s", "u32"), ("shift", "Shift"), ("rm", "R"), ("imm6", "u32"),
                      ("rn", "R"), ("rd", "R")],
     [("sf", 31, 1, ("u", 1)), ("op", 30, 1, ("u", 1)), ("s", 29, 1, ("u", 1)), ("shift", 22, 2, "shift_noror"),
      ("rm", 16, 5, "g"), ("imm6", 10, 6, ("u", 6)), ("rn", 5, 5, "z"), ("rd", 0, 5, "z")],
     0b01011 << 24, []),
    ("addsub_imm", [("sf", "u32"), ("op", "u32"), ("s", "u32"), ("shift", "u32"), ("imm12", "u32"), ("rn", "R"), ("rd", "R")],
     [("sf", 31, 1, ("u", 1)), ("op", 30, 1, ("u", 1)), ("s", 29, 1, ("u", 1)), ("shift", 22, 1, ("u", 1)),
      ("imm12", 10, 12, ("u", 12)), ("rn", 5, 5, "s"), ("rd", 0, 5, "zs_by_s")],
     0b10001 << 24, []),
    ("atomic_op", [("size", "u32"), ("v", "u32"), ("a", "u32"), ("r", "u32"), ("rs", "R"), ("o3", "u32"), ("opc", "u32"),
                   ("rn", "R"), ("rt", "R")],
     [("size", 30, 2, ("u", 2)), ("v", 26, 1, ("u", 1)), ("a", 23, 1, ("u", 1)), ("r", 22, 1, ("u", 1)), ("rs", 16, 5, "g"),
      ("o3", 15, 1, ("u", 1)), ("opc", 12, 3, ("u", 2)), ("rn", 5, 5, "g"), ("rt", 0, 5, "g")],
     (0b111 << 27) | (1 << 21), []),
    ("bitfield", [("sf", "u32"), ("opc", "u32"), ("n", "u32"), ("immr", "u32"), ("imms", "u32"), ("rn", "R"), ("rd", "R")],
     [("sf", 31, 1, ("u", 1)), ("opc", 29, 2, ("u", 2)), ("n", 22, 1, ("u", 1)), ("immr", 16, 6, ("u", 6)),
      ("imms", 10, 6, ("u", 6)), ("rn", 5, 5, "g"), ("rd", 0, 5, "g")],
     0b100110 << 23, []),
    ("cmp_branch_imm", [("sf", "u32"), ("op", "u32"), ("rt", "R"), ("imm19", "i32")],
     [("sf", 31, 1, ("u", 1)), ("op", 24, 1, ("u", 1)), ("rt", 0, 5, "g"), ("imm19", 5, 19, ("i", 19))],
     0b011010 << 25, []),
    ("cond_branch_imm", [("cond", "Cond"), ("imm19", "i32")],
     [("cond", 0, 4, "cond"), ("imm19", 5, 19, ("i", 19))], 0b01010100 << 24, []),
    ("csel", [("sf", "u32"), ("op", "u32"), ("s", "u32"), ("rm", "R"), ("cond", "Cond"), ("op2", "u32"), ("rn", "R"), ("rd", "R")],
     [("sf", 31, 1, ("u", 1)), ("op", 30, 1, ("u", 1)), ("s", 29, 1, ("u", 1)), ("rm", 16, 5, "z"), ("cond", 12, 4, "cond"),
      ("op2", 10, 1, ("u", 1)), ("rn", 5, 5, "z"), ("rd", 0, 5, "g")],
     0b11010100 << 21, []),
    ("dataproc1", [("sf", "u32"), ("s", "u32"), ("opcode2", "u32"), ("opcode", "u32"), ("rn", "R"), ("rd", "R")],
     [("sf", 31, 1, ("u", 1)), ("s", 29, 1, ("hyp", 1)), ("opcode2", 16, 5, ("u", 5)), ("opcode", 10, 6, ("u", 6)),
      ("rn", 5, 5, "g"), ("rd", 0, 5, "g")],
     (1 << 30) | (0b11010110 << 21), ["`s` is not range-checked by the code (it asserts `fits_bit(sf)` twice): hypothesis `hs`"]),
    ("dataproc2", [("sf", "u32"), ("s", "u32"), ("rm", "R"), ("opcode", "u32"), ("rn", "R"), ("rd", "R")],
     [("sf", 31, 1, ("u", 1)), ("s", 29, 1, ("u", 1)), ("rm", 16, 5, "g"), ("opcode", 10, 6, ("u", 6)), ("rn", 5, 5, "g"),
      ("rd", 0, 5, "g")],
     0b11010110 << 21, []),
    ("dataproc3", [("sf", "u32"), ("op54", "u32"), ("op31", "u32"), ("rm", "R"), ("o0", "u32"), ("ra", "R"), ("rn", "R"), ("rd", "R")],
     [("sf", 31, 1, ("u", 1)), ("op54", 29, 2, ("u", 2)), ("op31", 21, 3, ("u", 3)), ("rm", 16, 5, "g"), ("o0", 15, 1, ("u", 1)),
      ("ra", 10, 5, "z"), ("rn", 5, 5, "g"), ("rd", 0, 5, "g")],
     0b11011 << 24, []),
    ("exception", [("opc", "u32"), ("imm16", "u32"), ("op2", "u32"), ("ll", "u32")],
     [("opc", 21, 3, ("u", 3)), ("imm16", 5, 16, ("u", 16)), ("op2", None, 0, ("eq0",)), ("ll", 0, 2, ("u", 2))],
     0b11010100 << 24, []),
    ("fp_compare", [("m", "u32"), ("s", "u32"), ("ty", "u32"), ("rm", "F"), ("op", "u32"), ("rn", "F"), ("opcode2", "u32")],
     [("m", None, 0, ("eq0",)), ("s", None, 0, ("eq0",)), ("ty", 22, 1, ("u", 1)), ("rm", 16, 5, "f"), ("op", 14, 2, ("u", 2)),
      ("rn", 5, 5, "f"), ("opcode2", 0, 5, ("u", 5))],
     (0b11110 << 24) | (1 << 21) | (0b1000 << 10), []),
    ("fp_dataproc1", [("m", "u32"), ("s", "u32"), ("ty", "u32"), ("opcode", "u32"), ("rn", "F"), ("rd", "F")],
     [("m", None, 0, ("eq0",)), ("s", None, 0, ("eq0",)), ("ty", 22, 2, ("u", 2)), ("opcode", 15, 6, ("u", 6)), ("rn", 5, 5, "f"),
      ("rd", 0, 5, "f")],
     (0b11110 << 24) | (1 << 21) | (0b10000 << 10), []),
    ("fp_dataproc2", [("m", "u32"), ("s", "u32"), ("ty", "u32"), ("rm", "F"), ("opcode", "u32"), ("rn", "F"), ("rd", "F")],
     [("m", None, 0, ("eq0",)), ("s", None, 0, ("eq0",)), ("ty", 22, 1, ("u", 1)), ("rm", 16, 5, "f"), ("opcode", 12, 4, ("u", 4)),
      ("rn", 5, 5, "f"), ("rd", 0, 5, "f")],
     (0b11110 << 24) | (1 << 21) | (0b10 << 10), []),
    ("fp_int", [("sf", "u32"), ("s", "u32"), ("ty", "u32"), ("rmode", "u32"), ("opcode", "u32"), ("rn", "u32"), ("rd", "u32")],
     [("sf", 31, 1, ("u", 1)), ("s", 29, 1, ("u", 1)), ("ty", 22, 2, ("u", 2)), ("rmode", 19, 2, ("u", 2)), ("opcode", 16, 3, ("u", 3)),
      ("rn", 5, 5, ("u", 5)), ("rd", 0, 5, ("u", 5))],
     (0b11110 << 24) | (1 << 21), []),
    ("ldst_exclusive", [("size", "u32"), ("o2", "u32"), ("l", "u32"), ("o1", "u32"), ("rs", "R"), ("o0", "u32"), ("rt2", "R"),
                        ("rn", "R"), ("rt", "R")],
     [("size", 30, 2, ("u", 2)), ("o2", 23, 1, ("u", 1)), ("l", 22, 1, ("u", 1)), ("o1", 21, 1, ("u", 1)), ("rs", 16, 5, "z"),
      ("o0", 15, 1, ("u", 1)), ("rt2", 10, 5, "z"), ("rn", 5, 5, "s"), ("rt", 0, 5, "z")],
     0b001000 << 24, []),
    ("ldst_pair", [("opc", "u32"), ("v", "u32"), ("l", "u32"), ("imm7", "i32"), ("rt2", "R"), ("rn", "R"), ("rt", "R")],
     [("opc", 30, 2, ("u", 2)), ("v", None, 0, ("guard", 1)), ("l", 22, 1, ("u", 1)), ("imm7", 15, 7, ("i", 7)), ("rt2", 10, 5, "g"),
      ("rn", 5, 5, "s"), ("rt", 0, 5, "g")],
     (0b101 << 27) | (1 << 24),
     ["`v` is checked to be one bit but NOT placed (bit 26 stays 0): see `ldst_pair_drops_v`; every public method passes 0"]),
    ("ldst_pair_post", [("opc", "u32"), ("v", "u32"), ("l", "u32"), ("imm7", "i32"), ("rt2", "R"), ("rn", "R"), ("rt", "R")],
     [("opc", 30, 2, ("u", 2)), ("v", 26, 1, ("u", 1)), ("l", 22, 1, ("u", 1)), ("imm7", 15, 7, ("i", 7)), ("rt2", 10, 5, "z"),
      ("rn", 5, 5, "s"), ("rt", 0, 5, "z")],
     (0b101 << 27) | (0b001 << 23), []),
    ("ldst_pair_pre", [("opc", "u32"), ("v", "u32"), ("l", "u32"), ("imm7", "i32"), ("rt2", "R"), ("rn", "R"), ("rt", "R")],
     [("opc", 30, 2, ("u", 2)), ("v", 26, 1, ("u", 1)), ("l", 22, 1, ("u", 1)), ("imm7", 15, 7, ("i", 7)), ("rt2", 10, 5, "g"),
      ("rn", 5, 5, "s"), ("rt", 0, 5, "g")],
     (0b101 << 27) | (0b011 << 23), []),
    ("logical_imm", [("sf", "u32"), ("opc", "u32"), ("n_immr_imms", "u32"), ("rn", "R"), ("rd", "R")],
     [("sf", 31, 1, ("u", 1)), ("opc", 29, 2, ("u", 2)), ("n_immr_imms", 10, 13, ("u", 13)), ("rn", 5, 5, "g"), ("rd", 0, 5, "g")],
     0b100100 << 23, []),
    ("logical_shreg", [("sf", "u32"), ("opc", "u32"), ("shift", "Shift"), ("n", "u32"), ("rm", "R"), ("imm6", "u32"), ("rn", "R"),
                       ("rd", "R")],
     [("sf", 31, 1, ("u", 1)), ("opc", 29, 2, ("u", 2)), ("shift", 22, 2, "shift"), ("n", 21, 1, ("u", 1)), ("rm", 16, 5, "z"),
      ("imm6", 10, 6, ("u", 5)), ("rn", 5, 5, "z"), ("rd", 0, 5, "g")],
     0b01010 << 24, ["the code accepts shift amounts 0..31 only (`fits_u5`), also for the 64-bit form: stricter than the architecture"]),
    ("move_wide_imm", [("sf", "u32"), ("opc", "u32"), ("hw", "u32"), ("imm16", "u32"), ("rd", "R")],
     [("sf", 31, 1, ("u", 1)), ("opc", 29, 2, ("u", 2)), ("hw", 21, 2, ("u", 2)), ("imm16", 5, 16, ("u", 16)), ("rd", 0, 5, "g")],
     0b100101 << 23, []),
    ("ldst_regimm", [("size", "u32"), ("v", "u32"), ("opc", "u32"), ("imm12", "u32"), ("rn", "R"), ("rt", "u32")],
     [("size", 30, 2, ("u", 2)), ("v", 26, 1, ("u", 1)), ("opc", 22, 2, ("u", 2)), ("imm12", 10, 12, ("u", 12)), ("rn", 5, 5, "s"),
      ("rt", 0, 5, ("u", 5))],
     0b111001 << 24, []),
    ("ldst_regoffset", [("size", "u32"), ("v", "u32"), ("opc", "u32"), ("rm", "R"), ("option", "Extend"), ("s", "u32"), ("rn", "R"),
                        ("rt", "u32")],
     [("size", 30, 2, ("u", 2)), ("v", 26, 1, ("u", 1)), ("opc", 22, 2, ("u", 2)), ("rm", 16, 5, "z"), ("option", 13, 3, "lsext"),
      ("s", 12, 1, ("u", 1)), ("rn", 5, 5, "s"), ("rt", 0, 5, ("u", 5))],
     (0b111 << 27) | (1 << 21) | (0b10 << 10), []),
    ("ldst_reg_unscaledimm", [("size", "u32"), ("v", "u32"), ("opc", "u32"), ("imm9", "i32"), ("rn", "R"), ("rt", "u32")],
     [("size", 30, 2, ("u", 2)), ("v", 26, 1, ("u", 1)), ("opc", 22, 2, ("u", 2)), ("imm9", 12, 9, ("i", 9)), ("rn", 5, 5, "s"),
      ("rt", 0, 5, ("u", 5))],
     0b111 << 27, []),
    ("simd_across_lanes", [("q", "u32"), ("u", "u32"), ("size", "u32"), ("opcode", "u32"), ("rn", "F"), ("rd", "F")],
     [("q", 30, 1, ("u", 1)), ("u", 29, 1, ("u", 1)), ("size", 22, 2, ("u", 2)), ("opcode", 12, 5, ("u", 5)), ("rn", 5, 5, "f"),
      ("rd", 0, 5, "f")],
     (0b01110 << 24) | (0b11000 << 17) | (0b10 << 10), []),
    ("simd_2regs_misc", [("q", "u32"), ("u", "u32"), ("size", "u32"), ("opcode", "u32"), ("rn", "F"), ("rd", "F")],
     [("q", 30, 1, ("u", 1)), ("u", 29, 1, ("u", 1)), ("size", 22, 2, ("u", 2)), ("opcode", 12, 5, ("u", 5)), ("rn", 5, 5, "f"),
      ("rd", 0, 5, "f")],
     (0b01110 << 24) | (0b10000 << 17) | (0b10 << 10), []),
    ("system", [("imm", "u32")], [("imm", 5, 7, ("u", 7))], 0xD503201F, []),
    ("system_cls", [("l", "u32"), ("op0", "u32"), ("op1", "u32"), ("crn", "u32"), ("crm", "u32"), ("op2", "u32"), ("rt", "u32")],
     [("l", 21, 1, ("u", 1)), ("op0", 19, 2, ("u", 2)), ("op1", 16, 3, ("u", 3)), ("crn", 12, 4, ("u", 4)), ("crm", 8, 4, ("u", 4)),
      ("op2", 5, 3, ("u", 3)), ("rt", 0, 5, ("hyp", 5))],
     0b1101010100 << 22, ["`rt` is not range-checked by the code: hypothesis `hrt` (the only caller passes 31)"]),
    ("uncond_branch_imm", [("op", "u32"), ("imm26", "i32")], [("op", 31, 1, ("u", 1)), ("imm26", 0, 26, ("i", 26))], 0b101 << 26, []),
    ("uncond_branch_reg", [("opc", "u32"), ("op2", "u32"), ("op3", "u32"), ("rn", "R"), ("op4", "u32")],
     [("opc", 21, 4, ("u", 4)), ("op2", 16, 5, ("u", 5)), ("op3", 10, 6, ("u", 6)), ("rn", 5, 5, "g"), ("op4", 0, 5, ("u", 5))],
     0b1101011 << 25, []),
]

LTY = {"u32": "BitVec 32", "i32": "BitVec 32", "R": "Register", "F": "NeonRegister", "Cond": "Cond", "Shift": "Shift",
       "Extend": "Extend"}
EX = {"u32": "0#32", "i32": "0#32", "R": "R17", "F": "F31", "Cond": "Cond.GE", "Shift": "Shift.ASR", "Extend": "Extend.SXTW"}


def gen():
    out = []
    for name, params, fields, const, notes in CLASSES:
        hyps = []
        concl = []
        cases = []
        used = 0
        flag_s = False
        for p, lo, ln, kind in fields:
            if lo is not None:
                used |= ((1 << ln) - 1) << lo
            ext = "w.extractLsb' %s %s" % (lo, ln)
            if isinstance(kind, tuple) and kind[0] == "u":
                concl.append("%s.ult %d#32 = true" % (p, 1 << kind[1]))
                concl.append("%s = BitVec.setWidth %d %s" % (ext, ln, p))
            elif isinstance(kind, tuple) and kind[0] == "hyp":
                hyps.append("(h%s : %s.ult %d#32 = true)" % (p, p, 1 << kind[1]))
                concl.append("%s = BitVec.setWidth %d %s" % (ext, ln, p))
            elif isinstance(kind, tuple) and kind[0] == "guard":
                concl.append("%s.ult %d#32 = true" % (p, 1 << kind[1]))
            elif isinstance(kind, tuple) and kind[0] == "i":
                k = kind[1]
                concl.append("BitVec.sle %d#32 %s = true" % ((1 << 32) - (1 << (k - 1)), p))
                concl.append("BitVec.slt %s %d#32 = true" % (p, 1 << (k - 1)))
                concl.append("%s = BitVec.setWidth %d %s" % (ext, ln, p))
            elif isinstance(kind, tuple) and kind[0] == "eq0":
                concl.append("%s = 0#32" % p)
            elif kind == "g":
                concl.append("%s.v.ule 30#8 = true" % p)
                concl.append("%s = BitVec.setWidth 5 %s.v" % (ext, p))
            elif kind == "z":
                concl.append("(%s.v.ule 30#8 = true ∨ %s.v = 100#8)" % (p, p))
                concl.append("%s = (if %s.v.ule 30#8 = true then BitVec.setWidth 5 %s.v else 31#5)" % (ext, p, p))
            elif kind == "s":
                concl.append("(%s.v.ule 30#8 = true ∨ %s.v = 101#8)" % (p, p))
                concl.append("%s = (if %s.v.ule 30#8 = true then BitVec.setWidth 5 %s.v else 31#5)" % (ext, p, p))
            elif kind == "zs_by_s":
                concl.append("(%s.v.ule 30#8 = true ∨ %s.v = (if s = 0#32 then 101#8 else 100#8))" % (p, p))
                concl.append("%s = (if %s.v.ule 30#8 = true then BitVec.setWidth 5 %s.v else 31#5)" % (ext, p, p))
            elif kind == "f":
                hyps.append("(h%s : %s.v.ult 32#8 = true)" % (p, p))
                concl.append("%s = BitVec.setWidth 5 %s.v" % (ext, p))
            elif kind == "cond":
                concl.append("%s = BitVec.setWidth 4 (Cond.u32 %s)" % (ext, p))
                cases.append((p, "Cond.u32"))
            elif kind in ("shift", "shift_noror"):
                if kind == "shift_noror":
                    concl.append("%s ≠ Shift.ROR" % p)
                concl.append("%s = BitVec.setWidth 2 (Shift.u32 %s)" % (ext, p))
                cases.append((p, "Shift.u32"))
            elif kind == "ext":
                # the architectural option table (A64/Lemmas.lean extendOptionSpec), not the encoder's own function
                concl.append("%s = extendOptionSpec %s sf" % (ext, p))
                cases.append((p, "Extend.encoding_for, Extend.encoding, extendOptionSpec"))
            elif kind == "lsext":
                concl.append("Extend.ldst_encoding %s = .ok (BitVec.setWidth 32 (%s))" % (p, ext))
                cases.append((p, "Extend.ldst_encoding"))
            else:
                raise SystemExit("kind %s" % (kind,))
        mask = 0xFFFFFFFF ^ used
        concl.append("w &&& %d#32 = %d#32" % (mask, const & mask))
        if name == "addsub_shreg":
            concl.append("(sf = 0#32 → imm6.ult 32#32 = true)")
        if name == "bitfield":
            concl.append("(sf = 0#32 → immr.ult 32#32 = true ∧ imms.ult 32#32 = true)")
        if name == "move_wide_imm":
            concl.append("(sf = 0#32 → hw.ult 2#32 = true)")
        ps = " ".join("(%s : %s)" % (p, LTY[t]) for p, t in params)
        args = " ".join(p for p, _ in params)
        doc = ["/-- Class `%s` (field placement, register-31 rule per operand, refusal): if the encoder accepts, every"
               % name, "operand fits its field (nothing is truncated), each field holds exactly its operand, and the remaining",
               "bits are the opcode bits of the class."]
        for n in notes:
            doc.append("Note: %s." % n)
        doc[-1] += " -/"
        out.append("\n".join(doc))
        out.append("theorem %s_sound %s %s (w : BitVec 32)\n    (h : cls.%s %s = .ok w) :\n    %s := by"
                   % (name, ps, " ".join(hyps), name, args, " ∧\n    ".join(concl)))
        out.append("  unfold cls.%s at h" % name)
        out.append("  cls_norm at h")
        tac = "bv_decide (timeout := 600)"
        if cases:
            fns = ", ".join(sorted(set(f for _, f in cases)))
            tac = " <;> ".join("cases %s" % p for p, _ in cases) + \
                  " <;> simp only [%s, bind_ok, pure_ok, ok_ok, ex_elim, ex_elim', ex_elim_r, throw, throwThe, MonadExceptOf.throw, reduceCtorEq, false_and, exists_false, and_false] at h ⊢ <;> bv_decide (timeout := 600)" % fns
        out.append("  " + tac)
        exargs = " ".join(EX[t] if p not in ("imm7", "imm9", "imm19", "imm14", "imm26") else "4294967295#32" for p, t in params)
        if name == "system":
            exargs = "5#32"
        out.append("\nexample : ∃ w, cls.%s %s = .ok w := ⟨_, rfl⟩\n" % (name, exargs))
    return "\n".join(out)


if __name__ == "__main__":
    sys.stdout.write(gen())
