#!/usr/bin/env python3
"""Print the prompt for a seeded-mutation sub-agent: seed_prompt.py <Cxx> <n>  (n = variant number)"""
import json, sys
pid, n = sys.argv[1], sys.argv[2]
hint = sys.argv[3] if len(sys.argv) > 3 else ""
for l in open('/verif/properties.jsonl'):
    d = json.loads(l)
    if d['id'] == pid:
        break
wt = "/tmp/seed_%s_%s" % (pid.lower(), n)
out = "/tmp/seedout_%s_%s" % (pid.lower(), n)
print(f"""You are helping to test a verification effort by playing the adversary. The Rust/Dora project dinfuehr/dora is checked out at /repo (a git repository; it builds offline; there is NO network). Below is one semantic property that the project is supposed to have. Your job: produce a realistic change to dinfuehr/dora that BREAKS this property while the project still compiles and its existing test suite still passes — the kind of regression a maintainer could plausibly introduce (an off-by-one at a boundary, a dropped case, a reordered step, a wrong constant, a missing check, a relaxed condition), not sabotage that ordinary use would expose at once. Prefer changes that need something specific to manifest: a particular interleaving, a fault at a particular point, a multi-step sequence of operations, an unusual or boundary input, or two cooperating sites that each look fine alone.

PROPERTY {d['id']} — {d['title']}
Statement: {d['statement']}
Quantifier: {d['quantifier']['text']}
Why the existing tests cannot settle it: {d['why_tests_cant']}
Code anchors: files {', '.join(d['anchors']['files'])}; mechanisms: {'; '.join(m['name'] + ' (' + m['where'] + ')' for m in d['anchors']['mechanism'])}
{hint}

Rules:
1. Work ONLY in your own scratch git worktree: run `git -C /repo worktree add --detach {wt} HEAD` and make all edits there. Never edit /repo itself, never commit anywhere, do not read or touch /verif (it is off limits: what you write must be independent of it).
2. Build and test in the worktree with its own target directory: `cd {wt} && CARGO_TARGET_DIR={wt}/target CARGO_BUILD_JOBS=6 cargo test --workspace --no-fail-fast --offline 2>&1 | tail -40` (the baseline has 992 passing tests; a few minutes; the machine is shared, be patient). Your change must compile without new errors and all tests that pass on the unchanged tree must still pass (run the suite on your changed tree and report the totals).
3. Write a demonstration that fails WITH your change and passes WITHOUT it: a small Rust test/program using the crate's public API, or a small Dora program plus the commands to compile/run it (tool chain: `cargo build --offline -p dora -p dora-cannon-compiler -p dora-runtime -p dora-startup` in the worktree gives target/debug/dora; `target/debug/dora compile --cannon x.dora -o x && ./x` compiles with the baseline code generator; the optimizing compiler additionally needs a bootstrap: `dora compile -c --internal-compile-boots pkgs/boots/boots.dora -o boots.dora-package; dora compile --internal-compile-boots --cannon boots.dora-package -o stage1; dora compile --internal-compile-boots --compiler stage1 boots.dora-package -o target/debug/dora-boots-compiler`), or a shell script. Run it on the changed tree (must fail / show the wrong behaviour) and on the unchanged tree (must pass) — e.g. use `git stash` inside the worktree or a second build — and report both outputs.
4. Keep the change small (ideally 1–15 lines in one or two files). Do not touch tests, do not add dependencies.
5. Deliverables in {out}/ (create it): `patch.diff` (= `git -C {wt} diff`, must apply cleanly to /repo's HEAD with `git apply`), the demonstration file(s) with a `run_demo.sh` that exits non-zero when the property is violated, and `meta.json` with fields: property ("{d['id']}"), summary (what you changed), needs (what it takes to manifest: input class / interleaving / sequence), commands (what you ran), test_suite_result (totals on the changed tree), demo_with_change (observed), demo_without_change (observed).
6. When done: remove your worktree and its build output (`git -C /repo worktree remove --force {wt}`), keep only {out}/. Final answer: a short summary of the change, why it breaks the property, what it needs to manifest, and the evidence that tests still pass.
""")
