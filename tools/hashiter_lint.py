#!/usr/bin/env python3
"""Static tie for C15: find every place where the compile pipeline ITERATES a hash container.

The Lean model (DoraModel/Intern) treats HashMap/HashSet as abstract maps/sets with get/insert/contains
only — then numbering is provably independent of the hash order.  That abstraction is only valid if the
code never iterates such a container in a way that reaches the output.  This lint lists every iteration
site; each site must be in the reviewed allow-list (tools/hashiter_allow.txt: `<file>|<fn>|<name>|<method>`
+ reason) or be visibly order-insensitive (sorted right after / reduced by a commutative fold).

usage: hashiter_lint.py <repo> <dir> [<dir>…]     → one line per site:  STATUS|file|fn|name|method|line|text
"""
import os
import re
import sys

DECL = [
    re.compile(r"\b(\w+)\s*:\s*&?\s*(?:'\w+\s+)?(?:mut\s+)?(?:std::collections::)?(?:Fx)?Hash(?:Map|Set)\b"),
    re.compile(r"\blet\s+(?:mut\s+)?(\w+)\s*(?::[^=;]+)?=\s*(?:std::collections::)?(?:Fx)?Hash(?:Map|Set)\s*::"),
    re.compile(r"\blet\s+(?:mut\s+)?(\w+)\s*:\s*(?:Fx)?Hash(?:Map|Set)\b"),
    re.compile(r"\blet\s+(?:mut\s+)?(\w+)\b[^;]*collect::<\s*(?:Fx)?Hash(?:Map|Set)"),
]
ITER_METHODS = "iter|keys|values|into_iter|drain|iter_mut|values_mut|into_keys|into_values|retain|extract_if"
INSENSITIVE = re.compile(r"\.(sum|count|all|any|max|min|max_by_key|min_by_key|len|is_empty|contains)\s*(::<[^>]*>)?\(")
SORTED = re.compile(r"\.sort(_by|_by_key|_unstable|_unstable_by|_unstable_by_key)?\s*\(|BTree(Map|Set)|collect::<\s*(std::collections::)?(Fx)?Hash(Map|Set)|\.extend\(")


def strip_comments(src):
    src = re.sub(r"//[^\n]*", "", src)
    return re.sub(r"/\*.*?\*/", lambda m: "\n" * m.group(0).count("\n"), src, flags=re.S)


def scan_file(repo, rel):
    src = strip_comments(open(os.path.join(repo, rel), encoding="utf-8", errors="replace").read())
    # stop at the unit-test module
    m = re.search(r"#\[cfg\(test\)\]\s*mod\s+tests", src)
    if m:
        src = src[:m.start()]
    # method chains are often broken before the dot (`map\n    .into_iter()`): join them (line numbers become approximate)
    src = re.sub(r"\n[ \t]*\.(?=[A-Za-z_])", ".", src)
    names = set()
    for rx in DECL:
        names.update(rx.findall(src))
    names.discard("self")
    if not names:
        return []
    lines = src.split("\n")
    fn_at = []
    cur = "?"
    for ln in lines:
        m = re.search(r"\bfn\s+(\w+)", ln)
        if m:
            cur = m.group(1)
        fn_at.append(cur)
    alt = "|".join(sorted(re.escape(n) for n in names))
    use1 = re.compile(r"(?<![\w.])(?:self\s*\.\s*|\w+\s*\.\s*)?(%s)\s*\.\s*(%s)\s*\(" % (alt, ITER_METHODS))
    use2 = re.compile(r"\bfor\s+[^;{]*?\bin\s+&?\s*(?:mut\s+)?(?:self\s*\.\s*|\w+\s*\.\s*)?(%s)\s*[{.]?" % alt)
    hits = []
    for i, ln in enumerate(lines):
        found = []
        for m in use1.finditer(ln):
            found.append((m.group(1), m.group(2)))
        m = use2.search(ln)
        if m and not re.search(r"\bin\s+&?\s*(?:mut\s+)?(?:self\s*\.\s*|\w+\s*\.\s*)?(%s)\s*\.\s*(?!%s)\w+\s*\(" % (alt, ITER_METHODS), ln):
            if not any(f[0] == m.group(1) for f in found):
                found.append((m.group(1), "for"))
        for name, meth in found:
            stmt = " ".join(lines[i:i + 6])
            end = stmt.find(";")
            head = stmt if end < 0 else stmt[:end + 1]
            status = "FLAG"
            if INSENSITIVE.search(head[head.find(name):]):
                status = "insensitive"
            elif SORTED.search(" ".join(lines[i:i + 8])):
                status = "sorted-or-rehashed"
            elif re.search(r"\b%s\s*\.\s*sort" % re.escape(name), " ".join(lines[max(0, i - 6):i])):
                status = "sorted-before-use"   # rebound to a Vec and sorted just above
            hits.append((status, rel, fn_at[i], name, meth, i + 1, ln.strip()[:140]))
    return hits


def main():
    repo = sys.argv[1]
    out = []
    for d in sys.argv[2:]:
        p = os.path.join(repo, d)
        files = []
        if os.path.isfile(p):
            files = [d]
        else:
            for root, _, fs in os.walk(p):
                for f in fs:
                    if f.endswith(".rs") and f != "tests.rs":
                        files.append(os.path.relpath(os.path.join(root, f), repo))
        for rel in sorted(files):
            out += scan_file(repo, rel)
    for h in out:
        print("|".join(str(x) for x in h))


if __name__ == "__main__":
    main()
