#!/usr/bin/env python3
"""C14 view of an emitted `.s`: the C10 artifact lines of tools/artifact_extract.py (unchanged: fn / call / gcp /
loc / inlrange / inltable / note) PLUS what a trap report needs to print names, inserted before `end`:

  fninfo <fnidx> <function_info_idx>                    .dora.functions[fnidx].function_info_idx
  finfo <idx> <name hex|-> <file hex|-> <line> <col>    .dora.function_info[idx] with its strings resolved

usage: c14_extract.py <arch> <workdir> <file.s>         (same as artifact_extract.py; one file)
Trusted like artifact_extract.py (it only re-reads tables the runtime reads in startup.rs).
"""
import os
import sys

sys.path.insert(0, os.path.dirname(os.path.abspath(__file__)))
import artifact_extract as AE  # noqa: E402


def hexs(b):
    return b.hex() if b else "-"


def names(path):
    p = AE.parse_s(path)
    secs = p["sections"]
    out = []
    fitems = secs.get(".dora.functions", [])
    for i in range(len(fitems) // 12):
        out.append("fninfo %d %d" % (i, fitems[i * 12 + 4][1]))
    rod = secs.get(".rodata", [])
    sitems = secs.get(".dora.strings", [])
    strings = []
    for i in range(len(sitems) // 2):
        lab, ln = sitems[2 * i][1], sitems[2 * i + 1][1]
        where = p["sec_labels"].get(lab)
        if where is None or where[0] != ".rodata" or not isinstance(ln, int):
            strings.append(None)
            continue
        vals = [v for (_, v) in rod[where[1]:where[1] + ln]]
        strings.append(bytes(v & 0xff for v in vals) if all(isinstance(v, int) for v in vals) and len(vals) == ln else None)
    iitems = [v for (_, v) in secs.get(".dora.function_info", [])]
    for i in range(len(iitems) // 4):
        n, f, line, col = iitems[4 * i:4 * i + 4]
        ns = strings[n] if isinstance(n, int) and n < len(strings) else None
        fs = strings[f] if isinstance(f, int) and f < len(strings) else None
        if ns is None or fs is None:
            out.append("note bad function-info-string-unreadable %d" % i)
            continue
        out.append("finfo %d %s %s %d %d" % (i, hexs(ns), hexs(fs), line, col))
    return out


def main():
    arch, workdir, path = sys.argv[1], sys.argv[2], sys.argv[3]
    out = []
    AE.extract(path, arch, workdir, out)
    assert out[-1] == "end"
    out = out[:-1] + names(path) + ["end"]
    sys.stdout.write("\n".join(out) + "\n")


if __name__ == "__main__":
    main()
