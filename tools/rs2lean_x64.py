#!/usr/bin/env python3
"""rs2lean_x64 — regenerate the Lean model of dora-asm/src/x64.rs (property C07).

usage: rs2lean_x64.py [--src /repo/dora-asm/src/x64.rs] [--lean /verif/lean] [--harness /verif/harness/crates/c07]
                      [--report out.json]

Writes (overwriting):
  <lean>/DoraModel/Gen/X64.lean            types, constants, helpers and every method of x64.rs
  <lean>/DoraModel/Gen/X64Dispatch.lean    request-name -> (model action, Spec) table for the driver
  <lean>/DoraModel/Gen/X64Thm<k>.lean      one `decide +kernel` theorem per register-only public method
  <harness>/src/dispatch.rs                request-name -> call of the real method (harness)
and a JSON report: translated / unmodelled items (with reasons), public instruction methods with signatures,
methods without a Spec entry, generated theorem names per module.

Python 3 stdlib only. Anything outside the supported Rust subset makes the item `unmodelled` (never skipped silently).
Rust reading: see lean/DoraModel/X64/Prelude.lean.
"""
import json
import os
import re
import sys

sys.path.insert(0, os.path.dirname(os.path.abspath(__file__)))
from rsparse import parse_source, ParseError  # noqa: E402


class Unsupported(Exception):
    pass


PRIM = {"u8": "UInt8", "u32": "UInt32", "u64": "UInt64", "i8": "Int8", "i32": "Int32", "i64": "Int64",
        "usize": "Nat", "isize": "Int", "bool": "Bool", "()": "Unit"}
LEAN_KW = {"at", "from", "end", "then", "do", "open", "instance", "prefix", "where", "with", "fun", "in", "show",
           "have", "by", "if", "else", "match", "let", "mut", "for", "return", "theorem", "def", "namespace",
           "section", "local", "private", "export", "import", "macro", "syntax", "universe", "variable", "Type",
           "Prop", "Sort", "structure", "class", "deriving", "extends", "inductive", "abbrev", "example", "mutual"}
ASSEMBLER = "AssemblerX64"
BUF_FNS = {  # self.buffer.<name>(..) -> (Lean name, return type)
    "create_label": ("Buf.create_label", ("ty", "Label", [])),
    "create_and_bind_label": ("Buf.create_and_bind_label", ("ty", "Label", [])),
    "bind_label": ("Buf.bind_label", ("ty", "()", [])),
    "offset": ("Buf.offset", ("ty", "Option", [("ty", "u32", [])])),
    "position": ("Buf.position", ("ty", "usize", [])),
    "set_position": ("Buf.set_position", ("ty", "()", [])),
    "set_position_end": ("Buf.set_position_end", ("ty", "()", [])),
    "emit_u8": ("Buf.emit_u8", ("ty", "()", [])),
    "emit_u32": ("Buf.emit_u32", ("ty", "()", [])),
    "emit_u64": ("Buf.emit_u64", ("ty", "()", [])),
}
WHILE_FUEL = {"align_to": "alignment"}          # loop bound per function (at most `alignment` int3 bytes are needed)
SKIP_FNS = {(ASSEMBLER, "new"): "constructor; modelled by Asm.new in X64/Prelude.lean",
            (ASSEMBLER, "finalize"): "returns the buffer by value; modelled as `finalizeM` (resolve_jumps; align_to) in Drivers/C07.lean"}


def T(name, *args):
    return ("ty", name, list(args))


def ident(n):
    return n + "_" if n in LEAN_KW else n


class Gen:
    def __init__(self, items):
        self.structs = {}
        self.enums = {}
        self.consts = {}
        self.fns = {}          # (owner|None, name) -> fn
        self.order = []        # declaration order of keys
        self.type_order = []
        for it in items:
            k = it[0]
            if k == "struct":
                self.structs[it[1]] = (it[2], it[3])
                self.type_order.append(it[1])
            elif k == "enum":
                self.enums[it[1]] = it[2]
                self.type_order.append(it[1])
            elif k == "const":
                self.consts[it[1]] = (it[2], it[3])
            elif k == "impl":
                for f in it[2]:
                    self.fns[(it[1], f[1])] = f
                    self.order.append((it[1], f[1]))
            elif k == "fn":
                self.fns[(None, it[1])] = it
                self.order.append((None, it[1]))
        self.fallible = set()
        self.unmodelled = {}   # key -> reason
        self.deps = {}
        self.text = {}

    # ------------------------------------------------------------------ types
    def lty(self, ty):
        if ty is None:
            return "Unit"
        if ty[0] in ("slice", "array"):
            return "(List %s)" % self.lty(ty[1])
        name, args = ty[1], ty[2]
        if name in PRIM:
            return PRIM[name]
        if name == "Option":
            return "(Option %s)" % self.lty(args[0])
        if name == "Vec":
            return "(List %s)" % self.lty(args[0])
        if name in self.structs or name in self.enums or name in ("Label", "ForwardJump", "JumpDistance"):
            return name
        raise Unsupported("type %s" % name)

    def tyname(self, ty):
        return ty[1] if ty and ty[0] == "ty" else None

    def monad_of(self, key):
        if key[0] == ASSEMBLER:
            return "X"
        return "E" if key in self.fallible else None

    # ------------------------------------------------------------------ expressions
    def ex(self, e, cx, want=None):
        """-> (lean text, rust type or None); `want` = type to give to otherwise untyped literals"""
        k = e[0]
        if want is not None and k in ("lit", "paren", "bin", "un") :
            if k == "lit" and not e[2]:
                return "(%s : %s)" % (("0x%x" % e[1] if e[1] > 9 else str(e[1])), self.lty(want)), want
            if k == "paren":
                s, t = self.ex(e[1], cx, want)
                return "(%s)" % s, t
            if k == "un" and e[1] == "-" and e[2][0] == "lit" and not e[2][2]:
                return "((-%d) : %s)" % (e[2][1], self.lty(want)), want
            if k == "bin" and e[1] in ("<<", ">>"):
                a, ta = self.ex(e[2], cx, want)
                b, tb = self.ex(e[3], cx, ta if (ta and self.tyname(ta) in PRIM) else None)
                return "(%s %s %s)" % (a, {"<<": "<<<", ">>": ">>>"}[e[1]], b), ta
        if k == "lit":
            if e[2]:
                return "(%d : %s)" % (e[1], PRIM[e[2]]), T(e[2])
            return ("0x%x" % e[1] if e[1] > 9 else str(e[1])), None
        if k == "bool":
            return ("true" if e[1] else "false"), T("bool")
        if k == "str":
            return json.dumps(e[1]), T("str")
        if k == "unit":
            return "()", T("()")
        if k == "paren":
            s, t = self.ex(e[1], cx)
            return "(%s)" % s, t
        if k == "path":
            segs = e[1]
            if len(segs) == 1:
                n = segs[0]
                if n == "self":
                    if cx["owner"] == ASSEMBLER:
                        raise Unsupported("bare `self` of the assembler")
                    return "this", T(cx["owner"])
                if n in cx["env"]:
                    return ident(n), cx["env"][n]
                if n in self.consts:
                    cx["deps"].add(("const", n))
                    return n, self.consts[n][0]
                raise Unsupported("unknown name %s" % n)
            if len(segs) == 2 and segs[0] in self.enums:
                if segs[1] not in self.enums[segs[0]]:
                    raise Unsupported("unknown variant %s" % "::".join(segs))
                return "%s.%s" % (segs[0], segs[1]), T(segs[0])
            if len(segs) == 2 and segs[0] == "JumpDistance":
                return "JumpDistance.%s" % segs[1], T("JumpDistance")
            raise Unsupported("path %s" % "::".join(segs))
        if k == "un":
            s, t = self.ex(e[2], cx)
            if e[1] == "-":
                if e[2][0] == "lit":
                    return "(-%s)" % s, t
                return "(-%s)" % s, t
            return "(RNot.rnot %s)" % s, t
        if k == "cast":
            s, t = self.ex(e[1], cx)
            tgt = e[2]
            if t is None and e[1][0] == "lit":
                return "(%s : %s)" % (s, self.lty(tgt)), tgt
            return "(RCast.cast %s : %s)" % (s, self.lty(tgt)), tgt
        if k == "bin":
            op = e[1]
            a, ta = self.ex(e[2], cx)
            b, tb = self.ex(e[3], cx)
            t = ta or tb
            if op in ("<<", ">>"):
                if tb is None and ta is not None and self.tyname(ta) in PRIM:
                    b, tb = self.ex(e[3], cx, ta)
            elif ta is None and tb is not None and self.tyname(tb) in PRIM:
                a, ta = self.ex(e[2], cx, tb)
            elif tb is None and ta is not None and self.tyname(ta) in PRIM:
                b, tb = self.ex(e[3], cx, ta)
            if op in ("&&", "||"):
                return "(%s %s %s)" % (a, op, b), T("bool")
            if op in ("==", "!="):
                return "(%s %s %s)" % (a, op, b), T("bool")
            if op in ("<", ">", "<=", ">="):
                lop = {"<": "<", ">": ">", "<=": "≤", ">=": "≥"}[op]
                return "(decide (%s %s %s))" % (a, lop, b), T("bool")
            if op in ("|", "&", "^", "<<", ">>"):
                lop = {"|": "|||", "&": "&&&", "^": "^^^", "<<": "<<<", ">>": ">>>"}[op]
                if self.tyname(t) == "bool":
                    raise Unsupported("bitwise operator on bool")
                return "(%s %s %s)" % (a, lop, b), (ta if op in ("<<", ">>") else t)
            if op == "-":
                if t is None:
                    raise Unsupported("cannot type a subtraction")
                if self.tyname(t) == "usize":
                    self.need_monad(cx, "usize subtraction")
                    return "(← usub %s %s)" % (a, b), t
                return "(%s - %s)" % (a, b), t
            if op == "%":
                if t is None:
                    raise Unsupported("cannot type a remainder")
                if self.tyname(t) == "usize":
                    self.need_monad(cx, "usize remainder")
                    return "(← umod %s %s)" % (a, b), t
                return "(%s %% %s)" % (a, b), t
            if op in ("+", "*"):
                return "(%s %s %s)" % (a, op, b), t
            raise Unsupported("operator %s" % op)
        if k == "field":
            base = e[1]
            if base == ("path", ["self"]) and cx["owner"] == ASSEMBLER:
                if e[2] == "has_avx2":
                    return "(← Buf.has_avx2)", T("bool")
                raise Unsupported("field self.%s of the assembler in this position" % e[2])
            s, t = self.ex(base, cx)
            tn = self.tyname(t)
            if tn in self.structs:
                for fn, fty in self.structs[tn][0]:
                    if fn == e[2]:
                        return "%s.%s" % (s, ident(fn)), fty
            if tn == "ForwardJump":
                ft = {"offset": T("u32"), "label": T("Label"), "distance": T("JumpDistance")}.get(e[2])
                if ft:
                    return "%s.%s" % (s, e[2]), ft
            raise Unsupported("field .%s of %s" % (e[2], tn))
        if k == "index":
            s, t = self.ex(e[1], cx)
            elt = t[1] if t and t[0] in ("slice", "array") else None
            self.need_monad(cx, "indexing")
            if e[2][0] == "range":
                lo, hi = e[2][1], e[2][2]
                los = self.as_nat(lo, cx) if lo else "0"
                if hi is None:
                    return "(← sliceFrom %s %s)" % (s, los), ("slice", elt)
                return "(← sliceRange %s %s %s)" % (s, los, self.as_nat(hi, cx)), ("slice", elt)
            return "(← getIdx %s %s)" % (s, self.as_nat(e[2], cx)), elt
        if k == "ref":
            return self.ex(e[1], cx)
        if k == "repeat":
            s, t = self.ex(e[1], cx)
            n, _ = self.ex(e[2], cx)
            return "(List.replicate %s %s)" % (n, s), ("array", t, 0)
        if k == "structlit":
            name = e[1]
            if name == "ForwardJump":
                ftys = {"offset": T("u32"), "label": T("Label"), "distance": T("JumpDistance")}
            elif name in self.structs and not self.structs[name][1]:
                ftys = dict(self.structs[name][0])
            else:
                raise Unsupported("struct literal %s" % name)
            parts = []
            for fn, fe in e[2]:
                parts.append("%s := %s" % (ident(fn), self.ex_expect(fe, ftys.get(fn), cx)))
            return "({ %s } : %s)" % (", ".join(parts), name), T(name)
        if k == "if":
            if e[3] is None:
                raise Unsupported("if-expression without else")
            c, _ = self.ex(e[1], cx)
            a, ta = self.block_expr(e[2], cx)
            b, tb = self.block_expr(e[3], cx) if e[3][0] == "block" else self.ex(e[3], cx)
            return "(if %s then %s else %s)" % (c, a, b), (ta or tb)
        if k == "match":
            return self.match_expr(e, cx)
        if k == "call":
            return self.call(e, cx)
        if k == "mcall":
            return self.mcall(e, cx)
        if k == "block":
            return self.block_expr(e, cx)
        if k == "macro":
            raise Unsupported("macro %s! in expression position" % e[1])
        raise Unsupported("expression kind %s" % k)

    def as_nat(self, e, cx):
        s, t = self.ex(e, cx)
        if t is not None and self.tyname(t) != "usize":
            raise Unsupported("index of type %s" % (t,))
        return s

    def ex_expect(self, e, ty, cx):
        """expression with a known target type (handles try_into().unwrap())"""
        if e[0] == "mcall" and e[2] == "unwrap" and e[1][0] == "mcall" and e[1][2] == "try_into":
            s, t = self.ex(e[1][1], cx)
            if self.tyname(t) == "usize" and self.tyname(ty) == "u32":
                self.need_monad(cx, "try_into")
                return "(← toU32 %s)" % s
            raise Unsupported("try_into from %s to %s" % (t, ty))
        s, _ = self.ex(e, cx)
        return s

    def need_monad(self, cx, why):
        if cx["monad"] is None:
            cx["wants_fallible"] = True
            raise Unsupported("NEEDS-MONAD " + why)

    def block_expr(self, b, cx):
        if b[0] != "block":
            return self.ex(b, cx)
        if b[1] or b[2] is None:
            raise Unsupported("block with statements in expression position")
        return self.ex(b[2], cx)

    def match_expr(self, e, cx):
        s, t = self.ex(e[1], cx)
        tn = self.tyname(t)
        if tn not in self.enums:
            raise Unsupported("match expression on non-enum")
        arms = []
        rty = None
        for pats, body in e[2]:
            ps = " | ".join(self.pat(p, tn) for p in pats)
            bs, bt = self.block_expr(body, cx)
            rty = rty or bt
            arms.append("| %s => %s" % (ps, bs))
        return "(match %s with %s)" % (s, " ".join(arms)), rty

    def pat(self, p, enum):
        if p[0] == "pwild":
            return "_"
        if p[0] == "ppath" and len(p[1]) == 2 and p[1][0] == enum:
            return ".%s" % p[1][1]
        raise Unsupported("pattern %r" % (p,))

    def fn_ret(self, key):
        f = self.fns[key]
        return f[4] if f[4] is not None else T("()")

    def emit_call(self, key, args_s, cx, recv=None):
        """call of a translated function; returns (text, type)"""
        if key in self.unmodelled or key in SKIP_FNS:
            raise Unsupported("calls unmodelled %s" % (key[1],))
        f = self.fns[key]
        cx["deps"].add(("fn",) + key)
        name = ("%s.%s" % (key[0], key[1])) if key[0] not in (None, ASSEMBLER) else ident(key[1])
        allargs = ([recv] if recv is not None else []) + args_s
        txt = " ".join([name] + allargs)
        mon = self.monad_of(key)
        ret = self.fn_ret(key)
        if mon == "X":
            if cx["monad"] != "X":
                raise Unsupported("assembler method called outside the assembler")
            return "(← %s)" % txt, ret
        if mon == "E":
            self.need_monad(cx, "call of fallible %s" % key[1])
            return "(← %s)" % txt, ret
        return "(%s)" % txt, ret

    def args(self, key, args, cx):
        f = self.fns[key]
        ptys = [p[1] for p in f[3]]
        if len(ptys) != len(args):
            raise Unsupported("arity of %s" % key[1])
        return [self.ex_expect(a, pt, cx) for a, pt in zip(args, ptys)]

    def call(self, e, cx):
        fn, args = e[1], e[2]
        if fn[0] != "path":
            raise Unsupported("indirect call")
        segs = fn[1]
        if segs == ["std", "mem", "replace"]:
            if (len(args) == 2 and args[0] == ("ref", ("field", ("path", ["self"]), "unresolved_jumps"))
                    and cx["owner"] == ASSEMBLER):
                return "(← Buf.take_jumps)", T("Vec", T("ForwardJump"))
            raise Unsupported("std::mem::replace in this form")
        if len(segs) == 1:
            n = segs[0]
            if n in self.structs and self.structs[n][1]:
                flds = self.structs[n][0]
                a = [self.ex_expect(x, ft[1], cx) for x, ft in zip(args, flds)]
                return "(%s.mk %s)" % (n, " ".join(a)), T(n)
            if (None, n) in self.fns:
                return self.emit_call((None, n), self.args((None, n), args, cx), cx)
            raise Unsupported("call of unknown %s" % n)
        if len(segs) == 2 and (segs[0], segs[1]) in self.fns:
            key = (segs[0], segs[1])
            if self.fns[key][2] is not None:
                raise Unsupported("UFCS call of a method")
            return self.emit_call(key, self.args(key, args, cx), cx)
        if segs == ["Vec", "new"]:
            return "[]", None
        raise Unsupported("call of %s" % "::".join(segs))

    def mcall(self, e, cx):
        recv, name, args = e[1], e[2], e[3]
        # self.buffer.*  /  self.buffer.code.len()
        if cx["owner"] == ASSEMBLER:
            if recv == ("field", ("path", ["self"]), "buffer"):
                if name not in BUF_FNS:
                    raise Unsupported("AssemblerBuffer::%s is not modelled" % name)
                ln, rt = BUF_FNS[name]
                a = []
                for x in args:
                    s, t = self.ex(x, cx)
                    a.append(s)
                return "(← %s)" % " ".join([ln] + a), rt
            if recv == ("field", ("field", ("path", ["self"]), "buffer"), "code") and name == "len":
                return "(← Buf.code_len)", T("usize")
            if recv == ("field", ("path", ["self"]), "unresolved_jumps") and name == "push":
                s = self.ex_expect(args[0], T("ForwardJump"), cx)
                return "(← Buf.push_jump %s)" % s, T("()")
            if recv == ("path", ["self"]):
                key = (ASSEMBLER, name)
                if key not in self.fns:
                    raise Unsupported("unknown assembler method %s" % name)
                if cx["monad"] != "X":
                    raise Unsupported("assembler method outside the assembler")
                return self.emit_call(key, self.args(key, args, cx), cx)
        if name == "expect":
            s, t = self.ex(recv, cx)
            if self.tyname(t) != "Option":
                raise Unsupported("expect on non-Option")
            self.need_monad(cx, "expect")
            m, _ = self.ex(args[0], cx)
            return "(← expectSome %s %s)" % (s, m), t[2][0]
        if name in ("unwrap", "try_into"):
            raise Unsupported("`.%s()` without a known target type" % name)
        s, t = self.ex(recv, cx)
        tn = self.tyname(t)
        if tn is None:
            raise Unsupported("method .%s on a value of unknown type" % name)
        key = (tn, name)
        if key not in self.fns:
            raise Unsupported("unknown method %s::%s" % (tn, name))
        f = self.fns[key]
        if f[2] == "mut":
            raise Unsupported("MUTCALL")   # handled at statement level
        return self.emit_call(key, self.args(key, args, cx), cx, recv=s)

    # ------------------------------------------------------------------ statements (do-blocks)
    def infer_let_type(self, name, rest_stmts, cx):
        """type of an untyped let from its first use as a direct call argument"""
        found = []

        def walk(n):
            if isinstance(n, tuple):
                if n and n[0] == "mcall":
                    for i, a in enumerate(n[3]):
                        if a == ("path", [name]):
                            found.append((n, i))
                for c in n:
                    walk(c)
            elif isinstance(n, list):
                for c in n:
                    walk(c)
        walk(rest_stmts)
        for n, i in found:
            recv = n[1]
            cands = []
            if recv == ("path", ["self"]) and (cx["owner"], n[2]) in self.fns:
                cands.append((cx["owner"], n[2]))
            elif recv[0] == "path" and len(recv[1]) == 1 and recv[1][0] in cx["env"]:
                tn = self.tyname(cx["env"][recv[1][0]])
                if (tn, n[2]) in self.fns:
                    cands.append((tn, n[2]))
            for key in cands:
                ps = self.fns[key][3]
                if i < len(ps):
                    return ps[i][1]
        return None

    def stmts(self, block, cx, ind, is_fn_body=False, ret_unit=True):
        """lines of a do-sequence for a block; the tail expression becomes `pure e` when is_fn_body"""
        out = []
        pad = "  " * ind
        sts, tail = block[1], block[2]
        saved_env = dict(cx["env"])
        for idx, st in enumerate(sts):
            k = st[0]
            if k == "let":
                _, name, mut, ty, e = st
                if e[0] == "mcall" and e[2] == "unwrap":
                    s = self.ex_expect(e, ty, cx)
                    t = ty
                else:
                    s, t = self.ex(e, cx)
                t = ty or t
                if t is None:
                    t = self.infer_let_type(name, [sts[idx + 1:], tail], cx)
                ann = (" : %s" % self.lty(t)) if t is not None and not (t[0] == "array" and t[1] is None) else ""
                out.append("%slet %s%s%s := %s" % (pad, "mut " if mut else "", ident(name), ann, s))
                cx["env"][name] = t
                continue
            if k == "expr":
                out += self.stmt_expr(st[1], cx, ind)
                continue
            if k == "assign":
                out += self.assign(st, cx, ind)
                continue
            if k == "for":
                _, pat, e, body = st
                s, t = self.ex(e, cx)
                elt = None
                if t and t[0] in ("slice", "array"):
                    elt = t[1]
                elif self.tyname(t) == "Vec":
                    elt = t[2][0]
                out.append("%sfor %s in %s do" % (pad, ident(pat), s))
                old = cx["env"].get(pat)
                cx["env"][pat] = elt
                out += self.stmts(body, cx, ind + 1) or ["%s  pure ()" % pad]
                if old is not None:
                    cx["env"][pat] = old
                continue
            if k == "while":
                fuel = WHILE_FUEL.get(cx["name"])
                if fuel is None or cx["monad"] != "X":
                    raise Unsupported("while loop without a declared bound")
                c, _ = self.ex(st[1], cx)
                out.append("%sBuf.whileFuel %s (do pure %s) (do" % (pad, fuel, c))
                out += self.stmts(st[2], cx, ind + 2) or ["%s    pure ()" % pad]
                out.append("%s  )" % pad)
                continue
            raise Unsupported("statement %s" % k)
        if tail is not None:
            if tail[0] in ("if", "iflet", "match") and not self.is_value(tail, cx):
                out += self.stmt_expr(tail, cx, ind)
            elif tail[0] == "macro":
                out += self.stmt_expr(tail, cx, ind)
            elif is_fn_body:
                if tail == ("field", ("path", ["self"]), "buffer"):
                    out.append("%spure ()" % pad)
                else:
                    s, _ = self.ex(tail, cx)
                    out.append("%spure %s" % (pad, s))
            else:
                # a call used as the value of a unit block:  { self.foo() }
                out += self.stmt_expr(tail, cx, ind)
        if not is_fn_body:
            cx["env"] = saved_env
        return out

    def is_value(self, e, cx):
        """does this if/match tail produce the function's (non-unit) return value?"""
        return cx.get("ret_nonunit", False)

    def stmt_expr(self, e, cx, ind):
        pad = "  " * ind
        k = e[0]
        if k == "macro":
            return [pad + self.macro(e, cx)]
        if k == "if":
            c, _ = self.ex(e[1], cx)
            out = ["%sif %s then" % (pad, c)]
            out += self.stmts(e[2], cx, ind + 1) or ["%s  pure ()" % pad]
            els = e[3]
            while els is not None:
                if els[0] == "if":
                    c, _ = self.ex(els[1], cx)
                    out.append("%selse if %s then" % (pad, c))
                    out += self.stmts(els[2], cx, ind + 1) or ["%s  pure ()" % pad]
                    els = els[3]
                elif els[0] == "iflet":
                    out.append("%selse" % pad)
                    out += self.stmt_expr(els, cx, ind + 1)
                    els = None
                else:
                    out.append("%selse" % pad)
                    out += self.stmts(els, cx, ind + 1) or ["%s  pure ()" % pad]
                    els = None
            return out
        if k == "iflet":
            _, pat, scrut, then, els = e
            if not (pat[0] == "ptuple" and pat[1] == ["Some"] and len(pat[2]) == 1 and pat[2][0][0] == "pbind"):
                raise Unsupported("if let with pattern %r" % (pat,))
            v = pat[2][0][1]
            s, t = self.ex(scrut, cx)
            if self.tyname(t) != "Option":
                raise Unsupported("if let Some on non-Option")
            out = ["%smatch %s with" % (pad, s), "%s| some %s =>" % (pad, ident(v))]
            old = cx["env"].get(v)
            cx["env"][v] = t[2][0]
            out += self.stmts(then, cx, ind + 1) or ["%s  pure ()" % pad]
            if old is None:
                cx["env"].pop(v, None)
            else:
                cx["env"][v] = old
            out.append("%s| none =>" % pad)
            if els is None:
                out.append("%s  pure ()" % pad)
            elif els[0] == "block":
                out += self.stmts(els, cx, ind + 1) or ["%s  pure ()" % pad]
            else:
                out += self.stmt_expr(els, cx, ind + 1)
            return out
        if k == "match":
            s, t = self.ex(e[1], cx)
            tn = self.tyname(t)
            out = []
            if tn in self.enums or tn == "JumpDistance":
                out.append("%smatch %s with" % (pad, s))
                for pats, body in e[2]:
                    ps = " | ".join(self.pat(p, tn) for p in pats)
                    out.append("%s| %s =>" % (pad, ps))
                    out += self.arm_body(body, cx, ind + 1)
                return out
            # integer scrutinee: if-chain
            first = True
            for pats, body in e[2]:
                if any(p[0] == "pwild" for p in pats):
                    out.append("%selse" % pad if not first else "%sif true then" % pad)
                else:
                    if any(p[0] != "plit" for p in pats):
                        raise Unsupported("match pattern")
                    cond = " || ".join("(%s == %d)" % (s, p[1]) for p in pats)
                    out.append("%s%s %s then" % (pad, "if" if first else "else if", cond))
                out += self.arm_body(body, cx, ind + 1)
                first = False
            if not any(p[0] == "pwild" for pats, _ in e[2] for p in pats):
                raise Unsupported("integer match without a wildcard arm")
            return out
        if k == "block":
            return self.stmts(e, cx, ind)
        if k == "mcall":
            # mutating method on a local struct value:  address.set_modrm(..)
            recv = e[1]
            if recv[0] == "path" and len(recv[1]) == 1:
                rn = recv[1][0]
                rt = T(cx["owner"]) if rn == "self" and cx["owner"] != ASSEMBLER else cx["env"].get(rn)
                tn = self.tyname(rt)
                key = (tn, e[2])
                if tn and key in self.fns and self.fns[key][2] == "mut" and tn != ASSEMBLER:
                    var = "this" if rn == "self" else ident(rn)
                    if key in self.unmodelled:
                        raise Unsupported("calls unmodelled %s" % e[2])
                    cx["deps"].add(("fn",) + key)
                    a = self.args(key, e[3], cx)
                    txt = " ".join(["%s.%s" % key, var] + a)
                    if key in self.fallible:
                        self.need_monad(cx, "call of fallible %s" % e[2])
                        return ["%s%s ← %s" % (pad, var, txt)]
                    return ["%s%s := %s" % (pad, var, txt)]
            s, t = self.ex(e, cx)
            return [pad + self.as_stmt(s)]
        if k == "call":
            s, t = self.ex(e, cx)
            return [pad + self.as_stmt(s)]
        raise Unsupported("expression statement %s" % k)

    def as_stmt(self, s):
        # "(← foo a b)" as a statement -> "foo a b"
        if s.startswith("(← ") and s.endswith(")"):
            return s[3:-1]
        return "let _ := %s" % s

    def arm_body(self, body, cx, ind):
        pad = "  " * ind
        if body[0] == "block":
            return self.stmts(body, cx, ind) or ["%spure ()" % pad]
        return self.stmt_expr(body, cx, ind)

    def macro(self, e, cx):
        name, args = e[1], e[2]
        if name in ("assert", "debug_assert"):
            self.need_monad(cx, name)
            c, _ = self.ex(args[0], cx)
            return "rassert %s %s" % (c, json.dumps(name + " failed"))
        if name in ("assert_eq", "assert_ne"):
            self.need_monad(cx, name)
            a, _ = self.ex(args[0], cx)
            b, _ = self.ex(args[1], cx)
            return "rassert (%s %s %s) %s" % (a, "==" if name == "assert_eq" else "!=", b, json.dumps(name + " failed"))
        if name in ("unreachable", "panic"):
            self.need_monad(cx, name)
            return "throw %s" % json.dumps(name)
        raise Unsupported("macro %s!" % name)

    def assign(self, st, cx, ind):
        pad = "  " * ind
        _, op, lhs, rhs = st
        binop = {"=": None, "|=": "|||", "&=": "&&&", "^=": "^^^", "+=": "+", "-=": "-", "<<=": "<<<", ">>=": ">>>"}[op]
        r, rt = self.ex(rhs, cx)
        # self.field op= e   (mutating method of a value type)
        if lhs[0] == "field" and lhs[1] == ("path", ["self"]) and cx["owner"] != ASSEMBLER and cx["selfkind"] == "mut":
            cur, ft = self.ex(lhs, cx)
            if binop == "-" and self.tyname(ft) == "usize":
                raise Unsupported("usize -=")
            val = r if binop is None else "(%s %s %s)" % (cur, binop, r)
            return ["%sthis := { this with %s := %s }" % (pad, ident(lhs[2]), val)]
        if (lhs[0] == "index" and lhs[1][0] == "field" and lhs[1][1] == ("path", ["self"])
                and cx["owner"] != ASSEMBLER and cx["selfkind"] == "mut" and binop is None):
            cur, ft = self.ex(lhs[1], cx)
            i = self.as_nat(lhs[2], cx)
            self.need_monad(cx, "index assignment")
            return ["%sthis := { this with %s := (← setIdx %s %s %s) }" % (pad, ident(lhs[1][2]), cur, i, r)]
        if lhs[0] == "path" and len(lhs[1]) == 1 and lhs[1][0] in cx["env"]:
            v = ident(lhs[1][0])
            val = r if binop is None else "(%s %s %s)" % (v, binop, r)
            return ["%s%s := %s" % (pad, v, val)]
        raise Unsupported("assignment target")

    # ------------------------------------------------------------------ functions
    def emit_fn(self, key):
        f = self.fns[key]
        owner, name = key
        if f[7]:
            raise Unsupported("parse: " + f[7])
        _, _, selfkind, params, ret, body, pub, _ = f
        if selfkind == "mut" and owner != ASSEMBLER and ret is not None:
            raise Unsupported("&mut self method with a return value")
        monad = self.monad_of(key)
        cx = dict(owner=owner, name=name, env={}, deps=set(), monad=monad, selfkind=selfkind,
                  ret_nonunit=(ret is not None))
        sig = []
        if selfkind is not None and owner != ASSEMBLER:
            sig.append("(this : %s)" % owner)
        for pn, pt in params:
            sig.append("(%s : %s)" % (ident(pn), self.lty(pt)))
            cx["env"][pn] = pt
        lname = ("%s.%s" % (owner, name)) if owner not in (None, ASSEMBLER) else ident(name)
        mutating = selfkind == "mut" and owner != ASSEMBLER
        rt = owner if mutating else self.lty(ret)
        doc = "/-- `%s%s` (%sfn, x64.rs) -/" % ((owner + "::") if owner else "", name, "pub " if pub else "")
        if monad is None:
            if mutating:
                # pure mutating method: still use Id-free `do`-less form is awkward -> treat as fallible-free do in Id
                lines = self.stmts(body, cx, 1, is_fn_body=True)
                txt = "%s\ndef %s %s : %s := Id.run do\n  let mut this := this\n%s\n  pure this" % (
                    doc, lname, " ".join(sig), rt, "\n".join(lines))
                return txt, cx["deps"]
            lets = []
            for st in body[1]:
                if st[0] != "let":
                    self.need_monad(cx, "statement in a pure function")
                s, t = self.ex(st[4], cx)
                t = st[3] or t
                cx["env"][st[1]] = t
                lets.append("  let %s%s := %s" % (ident(st[1]), (" : " + self.lty(t)) if t else "", s))
            if body[2] is None:
                raise Unsupported("pure function without a value")
            s, _ = self.ex(body[2], cx)
            txt = "%s\ndef %s %s : %s :=\n%s  %s" % (doc, lname, " ".join(sig), rt, "".join(x + "\n" for x in lets), s)
            return txt, cx["deps"]
        mty = ("X64 %s" if monad == "X" else "Except String %s") % rt
        lines = []
        if mutating:
            lines.append("  let mut this := this")
        lines += self.stmts(body, cx, 1, is_fn_body=True)
        if mutating:
            lines.append("  pure this")
        if not lines:
            lines = ["  pure ()"]
        txt = "%s\ndef %s %s : %s := do\n%s" % (doc, lname, " ".join(sig), mty, "\n".join(lines))
        return txt, cx["deps"]

    def run(self):
        # fixpoint on fallibility / unmodelled
        for key, why in SKIP_FNS.items():
            if key in self.fns:
                self.unmodelled[key] = "special: " + why
        changed = True
        rounds = 0
        while changed:
            changed = False
            rounds += 1
            self.text = {}
            self.deps = {}
            for key in self.order:
                if key in self.unmodelled:
                    continue
                try:
                    txt, deps = self.emit_fn(key)
                    self.text[key] = txt
                    self.deps[key] = deps
                except Unsupported as ex:
                    msg = str(ex)
                    if "NEEDS-MONAD" in msg and key not in self.fallible and key[0] != ASSEMBLER:
                        self.fallible.add(key)
                        changed = True
                    else:
                        self.unmodelled[key] = msg
                        changed = True
                except KeyError as ex:
                    self.unmodelled[key] = "translator: KeyError %s" % ex
                    changed = True
            if rounds > 50:
                raise RuntimeError("no fixpoint")
        return self

    # ------------------------------------------------------------------ output
    def const_text(self, name):
        ty, e = self.consts[name]
        cx = dict(owner=None, name=name, env={}, deps=set(), monad=None, selfkind=None)
        s, _ = self.ex(e, cx)
        return "def %s : %s := %s" % (name, self.lty(ty), s)

    def types_text(self):
        out = []
        for n in self.type_order:
            if n in (ASSEMBLER, "ForwardJump", "JumpDistance"):
                continue
            if n in self.enums:
                vs = self.enums[n]
                out.append("/-- `enum %s` -/\ninductive %s\n%s\n  deriving DecidableEq, Repr\n" % (
                    n, n, "\n".join("  | %s" % v for v in vs)))
                out.append("/-- all variants of `%s`, in declaration order -/\ndef %s.all : List %s := [%s]\n" % (
                    n, n, n, ", ".join(".%s" % v for v in vs)))
            else:
                flds, _ = self.structs[n]
                out.append("/-- `struct %s` -/\nstructure %s where\n%s\n  deriving DecidableEq, Repr\n" % (
                    n, n, "\n".join("  %s : %s" % (ident(f), self.lty(t)) for f, t in flds)))
        return "\n".join(out)

    def ordered_defs(self):
        """consts and fns in dependency order"""
        done = []
        seen = set()
        const_deps = {}

        def visit(node):
            if node in seen:
                return
            seen.add(node)
            if node[0] == "const":
                cx = dict(owner=None, name=node[1], env={}, deps=set(), monad=None, selfkind=None)
                self.ex(self.consts[node[1]][1], cx)
                for d in sorted(cx["deps"]):
                    visit(d)
                done.append(node)
            else:
                key = (node[1], node[2])
                if key not in self.text:
                    return
                for d in sorted(self.deps[key], key=str):
                    visit(d)
                done.append(node)
        for c in self.consts:
            visit(("const", c))
        for key in self.order:
            visit(("fn",) + key)
        return done


# ---------------------------------------------------------------------- dispatch / theorem generation

KINDS = {"Register": "r", "XmmRegister": "x", "Address": "a", "Immediate": "i", "Label": "l", "Condition": "c",
         "u8": "b", "i32": "d", "usize": "n", "u32": "w", "u64": "q"}
ADMIN = {"create_label", "create_and_bind_label", "bind_label", "set_position", "set_position_end", "align_to",
         "emit_u8", "emit_u32", "emit_u64", "emit_u128", "finalize", "new", "position", "offset"}


def public_methods(g):
    res = []
    for key in g.order:
        if key[0] != ASSEMBLER:
            continue
        f = g.fns[key]
        if not f[6] or f[2] != "mut":
            continue
        kinds = []
        ok = True
        for pn, pt in f[3]:
            k = KINDS.get(g.tyname(pt))
            if k is None:
                ok = False
                break
            kinds.append(k)
        res.append(dict(name=key[1], sig="".join(kinds) if ok else None, params=[p[0] for p in f[3]],
                        admin=key[1] in ADMIN, modelled=key in g.text,
                        why=g.unmodelled.get(key)))
    return res


def avx_guard(g, name):
    """'!avx' / 'avx' / 'true' from a leading debug_assert!(…self.has_avx2)"""
    body = g.fns[(ASSEMBLER, name)][5]
    has = ("field", ("path", ["self"]), "has_avx2")
    for st in body[1]:
        if st[0] == "expr" and st[1][0] == "macro" and st[1][1] in ("debug_assert", "assert"):
            a = st[1][2][0]
            if a == has:
                return "avx"
            if a == ("un", "!", has):
                return "!avx"
    return "true"


LEAN_PARSE = {"r": "pReg", "x": "pXmm", "a": "pAddr", "i": "pImm", "l": "pLabel", "c": "pCond", "b": "pU8",
              "d": "pI32", "n": "pNat", "w": "pU32", "q": "pU64"}
RUST_PARSE = {"r": "t.reg()", "x": "t.xmm()", "a": "t.addr()", "i": "t.imm()", "l": "t.label()", "c": "t.cond()",
              "b": "t.u8()", "d": "t.i32()", "n": "t.usize()", "w": "t.u32()", "q": "t.u64()"}


def spec_names(lean_root):
    p = os.path.join(lean_root, "DoraModel", "X64", "Spec.lean")
    if not os.path.exists(p):
        return set()
    return set(re.findall(r"^def ([A-Za-z_0-9]+)\b", open(p).read(), re.M))


def gen_dispatch_lean(g, methods, specs):
    out = ["import DoraModel.X64.Request", "/-! GENERATED by tools/rs2lean_x64.py from dora-asm/src/x64.rs — do not edit. -/",
           "namespace Dora.X64.Dispatch", "open Dora.X64", "",
           "/-- request name + operand tokens ↦ (model action, requested instruction if specified) -/",
           "def dispatch (labels : List Label) (name : String) (t : List String) : Option (X64 Unit × SpecResult) :=",
           "  match name with"]
    for m in methods:
        if m["sig"] is None or not m["modelled"]:
            continue
        n = m["name"]
        if n in ("create_label", "create_and_bind_label"):
            continue        # return a Label: handled by the driver itself
        lines = []
        margs = []
        sargs = []
        for i, k in enumerate(m["sig"]):
            if k == "l":
                lines.append("let (p%d, t) ← pLabel labels t" % i)
            else:
                lines.append("let (p%d, t) ← %s t" % (i, LEAN_PARSE[k]))
            if k == "a":
                margs.append("(← liftE p%d.build)" % i)
                sargs.append("(← p%d.req)" % i)
            elif k == "r":
                margs.append("(← liftE p%d)" % i)
                sargs.append("(← p%d)" % i)
            else:
                margs.append("p%d" % i)
                sargs.append("p%d" % i)
        act = "(do %s)" % " ".join([ident(n)] + margs)
        if n in specs:
            sp = "specOf (do pure (%s))" % " ".join(["Spec.%s" % n] + sargs)
        else:
            sp = ".unspecified"
        out.append("  | %s => do %s pEnd t; pure (%s, %s)" % (json.dumps(n), "".join(x + "; " for x in lines), act, sp))
    out.append("  | _ => none")
    out.append("")
    out.append("def methodNames : List String := [%s]" % ", ".join(json.dumps(m["name"]) for m in methods
                                                                    if m["sig"] is not None and m["modelled"]))
    out.append("end Dora.X64.Dispatch")
    return "\n".join(out) + "\n"


def gen_dispatch_rust(g, methods):
    conds = g.enums.get("Condition", [])
    out = ["// GENERATED by /verif/tools/rs2lean_x64.py from dora-asm/src/x64.rs — do not edit.",
           "use dora_asm::x64::*;", "use crate::Toks;", "",
           "pub const CONDS: &[Condition] = &[%s];" % ", ".join("Condition::%s" % c for c in conds), "",
           "/// (method, operand kinds): r=Register x=XmmRegister a=Address i=Immediate l=Label c=Condition b=u8 d=i32 n=usize",
           "pub const METHODS: &[(&str, &str)] = &["]
    for m in methods:
        if m["sig"] is not None:
            out.append("    (%s, %s)," % (json.dumps(m["name"]), json.dumps(m["sig"])))
    out.append("];")
    out.append("")
    out.append("pub fn dispatch(a: &mut AssemblerX64, name: &str, t: &mut Toks) -> bool {")
    out.append("    match name {")
    for m in methods:
        if m["sig"] is None:
            continue
        lets = "".join("let p%d = %s; " % (i, RUST_PARSE[k]) for i, k in enumerate(m["sig"]))
        call = "a.%s(%s);" % (m["name"], ", ".join("p%d" % i for i in range(len(m["sig"]))))
        if m["name"] in ("create_label", "create_and_bind_label"):
            call = "let l = a.%s(); t.push_label(l);" % m["name"]
        out.append("        %s => { %st.end(); %s }" % (json.dumps(m["name"]), lets, call))
    out.append("        _ => return false,")
    out.append("    }")
    out.append("    true")
    out.append("}")
    return "\n".join(out) + "\n"


def gen_theorems(g, methods, specs, nmods=14):
    """register-only methods -> `∀ avx regs, okOrRefused … = true := by decide +kernel`"""
    thms = []
    for m in methods:
        if m["admin"] or m["sig"] is None or not m["modelled"] or m["name"] not in specs:
            continue
        if not m["sig"] or any(k not in "rxc" for k in m["sig"]):
            if m["sig"] != "":
                continue
        n = m["name"]
        guard = avx_guard(g, n)
        binders = []
        margs = []
        nargs = []
        lists = []
        ins = []
        vs = []
        for i, (k, pn) in enumerate(zip(m["sig"], m["params"])):
            v = ident(pn)
            vs.append(v)
            if k == "r":
                binders.append("(%s : Fin 16)" % v)
                margs.append("(R %s)" % v)
                nargs.append("(Rn %s)" % v)
                lists.append("regs")
                ins.append("in16")
            elif k == "x":
                binders.append("(%s : Fin 16)" % v)
                margs.append("(X %s)" % v)
                nargs.append("(Xn %s)" % v)
                lists.append("regs")
                ins.append("in16")
            else:
                binders.append("(%s : Fin %d)" % (v, len(g.enums["Condition"])))
                margs.append("(C %s)" % v)
                nargs.append("(Cn %s)" % v)
                lists.append("conds")
                ins.append("in28")
        a = " ".join(margs)
        na = " ".join(nargs)
        gd = {"avx": "avx", "!avx": "(!avx)", "true": "true"}[guard]
        cost = 1
        for k in m["sig"]:
            cost *= 28 if k == "c" else 16
        body = "okOrRefused (enc avx (%s)) %s (%s)" % (" ".join([ident(n), na]).strip(), gd, " ".join(["Spec.%s" % n, na]).strip())
        fold = "bools.all fun avx => " + "".join("%s.all fun %s => " % (l, v) for l, v in zip(lists, vs)) + body
        proof = "inBool h avx"
        for f, v in zip(ins, vs):
            proof = "%s (%s) %s" % (f, proof, v)
        proof = "inBool %s_all avx" % n
        for f, v in zip(ins, vs):
            proof = "%s (%s) %s" % (f, proof, v)
        stmt = ("theorem %s_all : (%s) = true := by\n  decide +kernel\n\n%s\n"
                "theorem %s_ok : ∀ (avx : Bool) %s, okOrRefused (enc avx (%s)) %s (%s) = true :=\n"
                "  fun avx %s => %s"
                % (n, fold, "@@DOC@@", n, " ".join(binders), " ".join([ident(n), a]).strip(), gd,
                   " ".join(["Spec.%s" % n, a]).strip(), " ".join(vs), proof))
        stmt = stmt.replace("∀ (avx : Bool) ,", "∀ (avx : Bool),").replace("fun avx  =>", "fun avx =>")
        doc = ("/-- `%s`: for both values of `has_avx2` and every register operand the emitted bytes decode to exactly "
               "the requested instruction with nothing left over (guard `%s`), and the call is refused otherwise. -/" % (n, guard))
        stmt = "/-- executable form of `%s_ok`: the same statement as a fold over literal operand lists -/\n" % n + stmt.replace("@@DOC@@", doc)
        thms.append((cost, n, stmt))
    # balance modules by cost
    mods = [[] for _ in range(nmods)]
    load = [0] * nmods
    for cost, n, t in sorted(thms, key=lambda x: (-x[0], x[1])):
        i = load.index(min(load))
        mods[i].append((n, t))
        load[i] += cost
    files = {}
    for i, ms in enumerate(mods):
        body = ["import DoraModel.X64.Check",
                "/-! GENERATED by tools/rs2lean_x64.py from dora-asm/src/x64.rs — do not edit.",
                "One theorem per register-only public method of `AssemblerX64` (C07, sentence 1). -/",
                "-- the 14 theorem modules are built in parallel by lake; elaborating the theorems of one module on several",
                "-- threads as well only makes the kernel evaluations compete for the allocator (measured: 6x slower)",
                "set_option Elab.async false",
                "namespace Dora.X64.C07", "open Dora.X64", ""]
        for n, t in sorted(ms):
            body.append(t)
            body.append("")
        body.append("end Dora.X64.C07")
        files["X64Thm%d" % i] = ("\n".join(body) + "\n", ["Dora.X64.C07.%s_ok" % n for n, _ in sorted(ms)])
    return files



def gen_addr_theorems(g, methods, specs, nmods=13):
    """methods taking registers and one Address (`ra`, `ar`, `xa`, `ax`, `xxa`) -> relative statement `<m>_addr`
    (AddrOkR / AddrOkX / AddrOkXX: a finite split over registers, REX.X/REX.B and `has_avx2` with the address bytes and
    length left opaque, X64/AddrFast.lean) + corollaries for Address::offset / index / array / rip and one instance."""
    items = []
    skipped = {}
    for m in methods:
        if m["admin"] or m["sig"] is None or "a" not in m["sig"]:
            continue
        n = m["name"]
        if m["sig"] not in ("ra", "ar", "xa", "ax", "xxa"):
            skipped[n] = "operand kinds `%s`: no generated address theorem for this shape" % m["sig"]
            continue
        if not m["modelled"] or n not in specs:
            skipped[n] = "not modelled / no Spec entry"
            continue
        guard = avx_guard(g, n)
        isx = "x" in m["sig"]
        three = m["sig"] == "xxa"
        rfun = "Xn" if isx else "Rn"
        rfin = "X" if isx else "R"
        pred = "AddrOkXX" if three else ("AddrOkX" if isx else "AddrOkR")
        if three:
            call = lambda r: "%s %s a" % (ident(n), r)
            spec = lambda r, q: "Spec.%s %s %s" % (n, r, q)
            mfun = ident(n)
            sfun = "Spec.%s" % n
        elif m["sig"][0] == "a":
            call = lambda r: "%s a %s" % (ident(n), r)
            spec = lambda r, q: "Spec.%s %s %s" % (n, q, r)
            mfun = "(fun r a => %s a r)" % ident(n)
            sfun = "(fun r q => Spec.%s q r)" % n
        else:
            call = lambda r: "%s %s a" % (ident(n), r)
            spec = lambda r, q: "Spec.%s %s %s" % (n, r, q)
            mfun = ident(n)
            sfun = "Spec.%s" % n
        gfun = {"true": "(fun _ => true)", "avx": "(fun avx => avx)", "!avx": "(fun avx => !avx)"}[guard]
        gexp = {"true": "true", "avx": "avx", "!avx": "(!avx)"}[guard]
        # `cases avx` yields the goals for false, true in this order; kernel_rfl is only checked by the kernel at the end of
        # the theorem, so the right tactic per case is named here instead of tried
        split = {"true": "intro avx; addr_fast avx",
                 "avx": "intro avx; cases avx with | false => addr_refused | true => addr_fast true",
                 "!avx": "intro avx; cases avx with | false => addr_fast false | true => addr_refused"}[guard]
        leaf = lambda r: "AddrLeaf (fun a => enc avx (%s)) (fun req => want (%s)) %s" % (call(r), spec(r, "req"), gexp)
        holes = " ".join(["?_"] * 16)
        txt = []
        regs_doc = "all 16 × 16 register pairs" if three else "all 16 registers"
        txt.append("/-- `%s`, relative to the ModRM interface: for both `has_avx2` values, %s, every `Address` shape "
                   "(REX.X/REX.B, 1-6 bytes, arbitrary byte values) and every memory operand the reference decoder reads those "
                   "address bytes as, the method's bytes decode to exactly `Spec.%s` with that operand and nothing is left over "
                   "(guard `%s`; refused otherwise). -/" % (n, regs_doc, n, guard))
        txt.append("theorem %s_addr : %s %s %s %s := by" % (n, pred, mfun, sfun, gfun))
        if three:
            txt.append("  intro avx dest lhs")
            txt.append("  revert avx lhs")
            txt.append("  refine forall_fin16 (p := fun d => ∀ (avx : Bool) (lhs : Fin 16) (rx rb : Bool) (len : Fin 6),")
            txt.append("    %s (d %% 8) rx rb (len.val + 1))" % leaf("(Xn d) (X lhs)"))
            txt.append("    %s dest" % holes)
            txt.append("  all_goals")
            txt.append("    intro avx lhs")
            txt.append("    revert avx")
            txt.append("    refine forall_fin16 (p := fun l => ∀ (avx : Bool) (rx rb : Bool) (len : Fin 6),")
            txt.append("      %s (_ %% 8) rx rb (len.val + 1))" % leaf("(Xn _) (Xn l)"))
            txt.append("      %s lhs" % holes)
            txt.append("  all_goals (%s)" % split)
        else:
            txt.append("  intro avx dest")
            txt.append("  revert avx")
            txt.append("  refine forall_fin16 (p := fun d => ∀ (avx : Bool) (rx rb : Bool) (len : Fin 6),")
            txt.append("    %s (d %% 8) rx rb (len.val + 1))" % leaf("(%s d)" % rfun))
            txt.append("    %s dest" % holes)
            txt.append("  all_goals (%s)" % split)
        txt.append("")
        if three:
            rargs = "(X dest) (X lhs)"
            binders = "(avx : Bool) (dest lhs : Fin 16)"
            hl = "(fun rx rb len => %s_addr avx dest lhs rx rb len)" % n
            inst = "9 3"
        else:
            rargs = "(%s dest)" % rfin
            binders = "(avx : Bool) (dest : Fin 16)"
            hl = "(fun rx rb len => %s_addr avx dest rx rb len)" % n
            inst = "9"
        e = "(fun a => enc avx (%s))" % call(rargs)
        w = "(fun req => want (%s))" % spec(rargs, "req")
        reg = "⟨dest.val % 8, by omega⟩"
        every = "every register" + (" pair" if three else "")
        tail = ("guard `%s` ⇒ the bytes decode to exactly the Spec entry with nothing left over; otherwise the call is refused" % guard)
        txt.append("/-- `%s` with `Address::offset`: %s, every base (incl. rsp/r12/rbp/r13), **every** i32 displacement: %s. -/" % (n, every, tail))
        txt.append("theorem %s_offset_ok %s (base : Fin 16) (disp : Int32) :" % (n, binders))
        txt.append("    MethodOk %s %s %s (Address.offset (R base) disp) (.off (R base) disp) :=" % (e, w, gexp))
        txt.append("  leaf_offset %s base disp %s" % (reg, hl))
        txt.append("")
        txt.append("/-- `%s` with `Address::index`: %s, every index but rsp (refused by the constructor), every scale, **every** i32 displacement: %s. -/" % (n, every, tail))
        txt.append("theorem %s_index_ok %s (index : Fin 16) (hi : index.val ≠ 4) (scale : Fin 4) (disp : Int32) :" % (n, binders))
        txt.append("    MethodOk %s %s %s (Address.index (R index) (Sn scale.val) disp) (.idx (R index) (Sn scale.val) disp) :=" % (e, w, gexp))
        txt.append("  leaf_index %s index hi scale disp %s" % (reg, hl))
        txt.append("")
        txt.append("/-- `%s` with `Address::array`: %s, every base, every index but rsp/r12 (refused by the constructor), every scale, **every** i32 displacement: %s. -/" % (n, every, tail))
        txt.append("theorem %s_array_ok %s (base index : Fin 16) (hi : index.val ≠ 4 ∧ index.val ≠ 12) (scale : Fin 4) (disp : Int32) :" % (n, binders))
        txt.append("    MethodOk %s %s %s (Address.array (R base) (R index) (Sn scale.val) disp) (.arr (R base) (R index) (Sn scale.val) disp) :=" % (e, w, gexp))
        txt.append("  leaf_array %s base index hi scale disp %s" % (reg, hl))
        txt.append("")
        txt.append("/-- `%s` with `Address::rip`: %s, **every** i32 displacement: %s. -/" % (n, every, tail))
        txt.append("theorem %s_rip_ok %s (disp : Int32) :" % (n, binders))
        txt.append("    MethodOk %s %s %s (Address.rip disp) (.rip disp) :=" % (e, w, gexp))
        txt.append("  leaf_rip %s disp %s" % (reg, hl))
        txt.append("")
        # one instance each (the hypotheses are satisfiable): r9 / xmm9 with -129(%r12) and with 0(%r13,%r9,4)
        okavx = {"true": "false", "avx": "true", "!avx": "false"}[guard]
        txt.append("example := (%s_offset_ok %s %s 12 (-129)).1 rfl" % (n, okavx, inst))
        txt.append("example := (%s_array_ok %s %s 13 9 (by decide) 2 0).1 rfl" % (n, okavx, inst))
        txt.append("")
        cost = 70 if three else 4
        items.append((n, "\n".join(txt), cost))
    mods = [[] for _ in range(nmods)]
    load = [0] * nmods
    for n, t, c in sorted(items, key=lambda x: (-x[2], x[0])):
        i = load.index(min(load))
        mods[i].append((n, t))
        load[i] += c
    files = {}
    for i, ms in enumerate(mods):
        body = ["import DoraModel.X64.ArrayFinal",
                "/-! GENERATED by tools/rs2lean_x64.py from dora-asm/src/x64.rs — do not edit.",
                "Per-method theorems of the methods that take register operands and one `Address` (C07, sentence 1). -/",
                "set_option Elab.async false", "set_option maxRecDepth 4000", "set_option maxHeartbeats 8000000",
                "namespace Dora.X64.C07", "open Dora.X64 Dora.X64.Dec", ""]
        names = []
        for n, t in sorted(ms):
            body.append(t)
            names += ["Dora.X64.C07.%s_%s" % (n, k) for k in ("addr", "offset_ok", "index_ok", "array_ok", "rip_ok")]
        body.append("end Dora.X64.C07")
        files["X64Addr%d" % i] = ("\n".join(body) + "\n", names)
    return files, skipped


def write_if_changed(path, text):
    os.makedirs(os.path.dirname(path), exist_ok=True)
    if os.path.exists(path) and open(path).read() == text:
        return False
    with open(path, "w") as f:
        f.write(text)
    return True


def main(argv):
    src = "/repo/dora-asm/src/x64.rs"
    lean = "/verif/lean"
    harness = "/verif/harness/crates/c07"
    report = None
    i = 1
    while i < len(argv):
        if argv[i] == "--src":
            src = argv[i + 1]
        elif argv[i] == "--lean":
            lean = argv[i + 1]
        elif argv[i] == "--harness":
            harness = argv[i + 1]
        elif argv[i] == "--report":
            report = argv[i + 1]
        i += 2
    items = parse_source(open(src).read())
    g = Gen(items).run()
    out = ["import DoraModel.X64.Prelude",
           "/-! GENERATED by tools/rs2lean_x64.py from dora-asm/src/x64.rs — do not edit; regenerated on every `./check C07`. -/",
           "set_option linter.unusedVariables false", "namespace Dora.X64", "", g.types_text()]
    for node in g.ordered_defs():
        if node[0] == "const":
            out.append(g.const_text(node[1]))
        else:
            out.append(g.text[(node[1], node[2])])
        out.append("")
    out.append("end Dora.X64")
    changed = []
    if write_if_changed(os.path.join(lean, "DoraModel/Gen/X64.lean"), "\n".join(out) + "\n"):
        changed.append("Gen/X64.lean")
    methods = public_methods(g)
    specs = spec_names(lean)
    if write_if_changed(os.path.join(lean, "DoraModel/Gen/X64Dispatch.lean"), gen_dispatch_lean(g, methods, specs)):
        changed.append("Gen/X64Dispatch.lean")
    thm_files = gen_theorems(g, methods, specs)
    thm_names = {}
    for mod, (txt, names) in thm_files.items():
        if write_if_changed(os.path.join(lean, "DoraModel/Gen/%s.lean" % mod), txt):
            changed.append("Gen/%s.lean" % mod)
        thm_names["DoraModel.Gen." + mod] = names
    addr_names = {}
    addr_skipped = {}
    if os.path.exists(os.path.join(lean, "DoraModel/X64/ArrayFinal.lean")):
        addr_files, addr_skipped = gen_addr_theorems(g, methods, specs)
        for mod, (txt, names) in addr_files.items():
            if write_if_changed(os.path.join(lean, "DoraModel/Gen/%s.lean" % mod), txt):
                changed.append("Gen/%s.lean" % mod)
            addr_names["DoraModel.Gen." + mod] = names
    if write_if_changed(os.path.join(harness, "src/dispatch.rs"), gen_dispatch_rust(g, methods)):
        changed.append("dispatch.rs")
    rep = dict(
        source=src,
        translated=sorted("%s::%s" % (k[0] or "", k[1]) for k in g.text),
        unmodelled={("%s::%s" % (k[0] or "", k[1])): v for k, v in g.unmodelled.items()},
        fallible=sorted("%s::%s" % (k[0] or "", k[1]) for k in g.fallible),
        methods=methods,
        unspecified=[m["name"] for m in methods if not m["admin"] and m["sig"] is not None and m["name"] not in specs],
        theorem_modules=thm_names,
        addr_theorem_modules=addr_names,
        addr_skipped=addr_skipped,
        changed=changed)
    if report:
        with open(report, "w") as f:
            json.dump(rep, f, indent=1)
    else:
        json.dump({k: rep[k] for k in ("unmodelled", "unspecified", "changed")}, sys.stdout, indent=1)
        print()
        print("translated %d functions, %d public methods, %d theorems" % (
            len(g.text), len(methods), sum(len(v) for v in thm_names.values())))
    return 0


if __name__ == "__main__":
    sys.exit(main(sys.argv))
