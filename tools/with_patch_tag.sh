#!/bin/bash
# with_patch_tag.sh <patch.diff> <command…>   (MUT_TAG=<name> selects private scratch directories /tmp/mut_*_<name>, so that several mutation runs can go on at once)
# Runs a command (typically ./check Cxx quick) with /repo replaced — for that process tree only, via a private mount
# namespace — by a clone of /repo's HEAD with the patch applied. /repo itself and everybody else's view of it are
# untouched. Evidence and replays of the run go to /tmp/mut_evidence${MUT_TAG:+_$MUT_TAG} and /tmp/mut_replays${MUT_TAG:+_$MUT_TAG}.
set -u
patch=$(readlink -f "$1"); shift
wt=/tmp/mut_repo_$$
git clone -q --local /repo $wt || exit 2
git -C $wt apply "$patch" || { echo "PATCH DOES NOT APPLY"; rm -rf $wt; exit 2; }
mkdir -p /tmp/mut_evidence${MUT_TAG:+_$MUT_TAG} /tmp/mut_replays${MUT_TAG:+_$MUT_TAG}
export VERIF_EVIDENCE_DIR=/tmp/mut_evidence${MUT_TAG:+_$MUT_TAG} VERIF_REPLAYS_DIR=/tmp/mut_replays${MUT_TAG:+_$MUT_TAG} VERIF_BUILD_DIR=/tmp/mut_build${MUT_TAG:+_$MUT_TAG}
mkdir -p /tmp/mut_build${MUT_TAG:+_$MUT_TAG}
unshare --mount bash -c "mount --bind $wt /repo && cd /verif && $*"
rc=$?
# cargo decides freshness by mtime: artifacts built from the patched clone would look fresh for the (older) real sources.
# Touch the real files the patch changed so that the next real build recompiles them.
grep "^+++ b/" "$patch" | sed 's/^+++ b\///' | while read f; do [ -f "/repo/$f" ] && touch "/repo/$f"; done
rm -rf $wt
# the checks with a regenerated model (C07, C08, C16, C18) wrote files derived from the PATCHED sources into /verif/lean and
# /verif/harness: regenerate them from the real /repo again (do not run such a check for real while a mutation run is going on)
(cd /verif && python3 -c "
from checks import c07, c08, c16, c18, c01_masm
for m in (c16, c18, c08, c07, c01_masm):
    try: m.regenerate()
    except Exception as e: print('regenerate', m.__name__, e)
")
exit $rc
