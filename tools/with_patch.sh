#!/bin/bash
# with_patch.sh <patch.diff> <command…>
# Runs a command (typically ./check Cxx quick) with /repo replaced — for that process tree only, via a private mount
# namespace — by a clone of /repo's HEAD with the patch applied. /repo itself and everybody else's view of it are
# untouched. Evidence and replays of the run go to /tmp/mut_evidence and /tmp/mut_replays.
set -u
patch=$(readlink -f "$1"); shift
wt=/tmp/mut_repo_$$
git clone -q --local /repo $wt || exit 2
git -C $wt apply "$patch" || { echo "PATCH DOES NOT APPLY"; rm -rf $wt; exit 2; }
mkdir -p /tmp/mut_evidence /tmp/mut_replays
export VERIF_EVIDENCE_DIR=/tmp/mut_evidence VERIF_REPLAYS_DIR=/tmp/mut_replays VERIF_BUILD_DIR=/tmp/mut_build
mkdir -p /tmp/mut_build
unshare --mount bash -c "mount --bind $wt /repo && cd /verif && $*"
rc=$?
# cargo decides freshness by mtime: artifacts built from the patched clone would look fresh for the (older) real sources.
# Touch the real files the patch changed so that the next real build recompiles them.
grep "^+++ b/" "$patch" | sed 's/^+++ b\///' | while read f; do [ -f "/repo/$f" ] && touch "/repo/$f"; done
rm -rf $wt
exit $rc
