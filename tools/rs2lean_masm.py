#!/usr/bin/env python3
"""rs2lean_masm — regenerate the Lean model of the baseline code generator's integer helpers (property C01, machine leg).

usage: rs2lean_masm.py [--repo /repo] [--lean /verif/lean] [--report out.json]

Reads   <repo>/dora-cannon-compiler/src/masm/x64.rs   (the helpers: int_add_checked, div_common, int_shl, ...)
        <repo>/dora-cannon-compiler/src/masm.rs       (trap, bailout_if, offset_of_array_length, enum CondCode)
        <repo>/dora-cannon-compiler/src/codegen.rs    (check_shift_amount; the register assignment of the emit_* functions)
        <repo>/dora-cannon-compiler/src/asm.rs        (BaselineAssembler: checked to forward 1:1 to the macro assembler)
        <repo>/dora-compiler/src/cpu/x64.rs           (register constants, REG_RESULT/REG_TMP1/..., SCRATCH, REG_PARAMS)
        <repo>/dora-compiler/src/layout.rs            (enum MachineMode, is64, size)
        <repo>/dora-compiler/src/abi.rs               (enum Trap)
        <repo>/dora-asm/src/x64.rs                    (enum Condition + its hardware numbers, enum ScaleFactor)
        <lean>/DoraModel/X64/Sem.lean                 (which AssemblerX64 methods have a semantics: constructors of `Instr`)
Writes (overwriting)
        <lean>/DoraModel/Gen/MasmTypes.lean   enums and constants
        <lean>/DoraModel/Gen/Masm.lean        every helper as a function appending abstract instructions (`M Unit`)
        <lean>/DoraModel/Gen/MasmDispatch.lean  call-text -> model function, for the driver
and a JSON report {translated, unmodelled (required helpers that could not be translated: a broken tie),
unmodelled_optional, partial (functions with an arm that throws "unmodelled"), codegen (register assignments)}.

`self.asm.addq_rr(a.into(), b.into())` becomes `emit (Instr.addq_rr a b)`; `self.emit_bailout(lbl, Trap::X, loc)` is kept and
`emit_bailouts` turns it into `bind lbl; movl_ri edi, X; call_trap`.  Anything outside the supported Rust subset raises
Unsupported: a required helper then is `unmodelled` and the check reports a broken tie (never skipped silently).
Python 3 stdlib only.
"""
import json
import os
import re
import sys

sys.path.insert(0, os.path.dirname(os.path.abspath(__file__)))
from rsparse import Parser, tokenize, ParseError  # noqa: E402


class Unsupported(Exception):
    pass


# ----------------------------------------------------------------------------------------------- what to translate
MASM_X64 = "dora-cannon-compiler/src/masm/x64.rs"
MASM = "dora-cannon-compiler/src/masm.rs"
CODEGEN = "dora-cannon-compiler/src/codegen.rs"
BASM = "dora-cannon-compiler/src/asm.rs"
CPU = "dora-compiler/src/cpu/x64.rs"
LAYOUT = "dora-compiler/src/layout.rs"
ABI = "dora-compiler/src/abi.rs"
ASM = "dora-asm/src/x64.rs"

# (file, name, required).  Order = dependency order of the generated Lean file.
TARGETS = [
    (MASM_X64, "convert_into_condition", True),
    (MASM_X64, "address_from_mem", True),
    (MASM, "offset_of_array_length", True),
    (MASM_X64, "mov_rr", True),
    (MASM_X64, "nop", True),
    (MASM_X64, "load_int_const", True),
    (MASM_X64, "load_true", True),
    (MASM_X64, "load_false", True),
    (MASM_X64, "load_nil", False),
    (MASM_X64, "load_mem", True),
    (MASM_X64, "copy_reg", True),
    (MASM_X64, "jump_if", True),
    (MASM_X64, "jump", True),
    (MASM, "trap", True),
    (MASM, "bailout_if", True),
    (MASM_X64, "set", True),
    (MASM_X64, "cmp_reg", True),
    (MASM_X64, "cmp_reg_imm", True),
    (MASM_X64, "cmp_zero", False),
    (MASM_X64, "cmp_ordering", True),
    (MASM_X64, "test_and_jump_if", False),
    (MASM_X64, "div_common", True),
    (MASM_X64, "int_div_checked", True),
    (MASM_X64, "int_mod_checked", True),
    (MASM_X64, "int_mul", True),
    (MASM_X64, "int_mul_checked", True),
    (MASM_X64, "int_add", True),
    (MASM_X64, "int_add_checked", True),
    (MASM_X64, "int_add_overflowing", False),
    (MASM_X64, "int_sub_overflowing", False),
    (MASM_X64, "int_mul_overflowing", False),
    (MASM_X64, "divmod_overflowing_common", False),
    (MASM_X64, "int_div_overflowing", False),
    (MASM_X64, "int_mod_overflowing", False),
    (MASM_X64, "int_add_imm", False),
    (MASM_X64, "int_sub", True),
    (MASM_X64, "int_sub_checked", True),
    (MASM_X64, "int_shl", True),
    (MASM_X64, "int_shr", True),
    (MASM_X64, "int_shr_imm", False),
    (MASM_X64, "int_sar", True),
    (MASM_X64, "int_rol", False),
    (MASM_X64, "int_ror", False),
    (MASM_X64, "int_or", True),
    (MASM_X64, "int_and", True),
    (MASM_X64, "int_xor", True),
    (MASM_X64, "check_index_out_of_bounds", True),
    (MASM_X64, "extend_int_long", True),
    (MASM_X64, "extend_byte", True),
    (MASM_X64, "int_neg_overflowing", False),
    (MASM_X64, "int_neg", True),
    (MASM_X64, "int_neg_checked", True),
    (MASM_X64, "int_not", True),
    (MASM_X64, "bool_not", False),
    (MASM_X64, "determine_array_size", True),
    (MASM_X64, "compute_remembered_bit", True),
    (MASM_X64, "array_address", False),
    (CODEGEN, "check_shift_amount", True),
]

# codegen.rs emitters whose register assignment is extracted: name -> helpers expected inside (in order)
CODEGEN_EMITTERS = [
    ("emit_checked_add", ["int_add_checked"]),
    ("emit_checked_sub", ["int_sub_checked"]),
    ("emit_checked_mul", ["int_mul_checked"]),
    ("emit_checked_neg", ["int_neg_checked"]),
    ("emit_checked_div", ["int_div_checked"]),
    ("emit_checked_mod", ["int_mod_checked"]),
    ("emit_sub", ["int_sub"]),
    ("emit_and", ["int_and"]),
    ("emit_or", ["int_or"]),
    ("emit_xor", ["int_xor"]),
    ("emit_shl", ["check_shift_amount", "int_shl"]),
    ("emit_shr", ["check_shift_amount", "int_shr"]),
    ("emit_sar", ["check_shift_amount", "int_sar"]),
    ("emit_int_to_int64", ["extend_int_long"]),
    ("emit_extend_uint8", ["extend_byte"]),
    ("emit_test_generic", ["cmp_reg", "set"]),
]

TYPES = {"MachineMode": "MachineMode", "Reg": "Reg", "AsmRegister": "Reg", "AnyReg": "Reg", "Location": "Location",
         "Label": "Label", "CondCode": "CondCode", "Condition": "Condition", "Trap": "Trap", "Mem": "Mem",
         "bool": "Bool", "i32": "Int", "i64": "Int", "u32": "Int", "u8": "Int", "usize": "Int",
         "RuntimeFunction": "RuntimeFunction", "AsmAddress": "Addr", "()": "Unit"}
ENUMS = {}            # name -> variants (filled by extract_enums)
KNOWN_CONSTS = set()  # upper-case constants the generated MasmTypes.lean defines (registers, register lists)
INT_CONSTS = {("i64", "min_value"): "(-9223372036854775808 : Int)", ("i64", "MIN"): "(-9223372036854775808 : Int)",
              ("i32", "min_value"): "(-2147483648 : Int)", ("i32", "MIN"): "(-2147483648 : Int)",
              ("i64", "max_value"): "(9223372036854775807 : Int)", ("i64", "MAX"): "(9223372036854775807 : Int)",
              ("i32", "max_value"): "(2147483647 : Int)", ("i32", "MAX"): "(2147483647 : Int)"}
PRELUDE_FNS = {"create_label": 0, "bind_label": 1, "emit_bailout": 3, "emit_position": 1,
               "raw_call_runtime_function": 1}
LEAN_KW = {"at", "from", "end", "then", "do", "open", "instance", "where", "with", "fun", "in", "show", "have", "by",
           "if", "else", "match", "let", "mut", "for", "return", "set", "get"}


def ident(n):
    return n + "_" if n in LEAN_KW else n


# ----------------------------------------------------------------------------------------------- source extraction
def find_fn_text(src, name):
    """text of `fn name(...) {...}` (first occurrence outside `mod tests`), by brace matching on the raw text"""
    for m in re.finditer(r"(?m)^[ \t]*(?:pub(?:\([a-z]+\))?\s+)?(?:const\s+)?fn\s+%s\s*\(" % re.escape(name), src):
        i = src.index("{", m.end())
        # the signature may contain no braces before the body
        depth = 0
        j = i
        in_str = False
        while j < len(src):
            c = src[j]
            if in_str:
                if c == "\\":
                    j += 1
                elif c == '"':
                    in_str = False
            elif c == '"':
                in_str = True
            elif src.startswith("//", j):
                j = src.index("\n", j)
                continue
            elif c == "{":
                depth += 1
            elif c == "}":
                depth -= 1
                if depth == 0:
                    return src[m.start():j + 1]
            j += 1
    return None


class MParser(Parser):
    """rsparse + `return;` (statement form without a value)"""

    def parse_primary(self, ns):
        if self.at_id("return") and self.at_op(";", 1):
            self.next()
            return ("return",)
        return Parser.parse_primary(self, ns)


def parse_fn(text):
    p = MParser(tokenize(text))
    it = p.parse_item()
    if it is None or it[0] != "fn":
        raise ParseError("not a function")
    return it


def extract_enum(src, name):
    m = re.search(r"pub enum %s\s*\{([^}]*)\}" % name, src)
    if not m:
        raise Unsupported("enum %s not found" % name)
    body = re.sub(r"//[^\n]*", "", m.group(1))
    vs = [v.strip() for v in body.split(",") if v.strip()]
    for v in vs:
        if not re.match(r"^[A-Za-z_][A-Za-z0-9_]*$", v):
            raise Unsupported("enum %s: variant %r has a payload or discriminant" % (name, v))
    return vs


def extract_cpu_consts(src):
    """register constants of cpu/x64.rs (unix variants of cfg'd items)"""
    regs = {}
    alias = {}
    arrays = {}
    lines = src.split("\n")
    skip_next = False
    for idx, line in enumerate(lines):
        s = line.strip()
        if s.startswith("#[cfg("):
            skip_next = "windows" in s and "not" not in s
            continue
        if skip_next:
            if s:
                skip_next = False
            continue
        m = re.match(r"pub (?:const|static) (\w+): Reg = Reg\((\d+)\);", s)
        if m:
            regs[m.group(1)] = int(m.group(2))
            continue
        m = re.match(r"pub (?:const|static) (\w+): Reg = (\w+);", s)
        if m:
            alias[m.group(1)] = m.group(2)
            continue
        m = re.match(r"pub (?:const|static) (\w+): \[Reg; (\d+)\] = \[([^\]]*)\];", s)
        if m:
            arrays[m.group(1)] = [x.strip() for x in m.group(3).split(",") if x.strip()]
    return regs, alias, arrays


def extract_usize_consts(src):
    """`pub const NAME: usize = <expr>;` of dora-compiler/src/abi.rs, evaluated: integer literals (decimal, hex, `_`), names
    of earlier constants, `*`, `+`, `-`, `<<`, parentheses.  Returns {name: (value, source expression)}."""
    vals = {}
    for m in re.finditer(r"(?m)^pub const (\w+): usize = ([^;]+);", src):
        name, expr = m.group(1), m.group(2).strip()
        toks = re.findall(r"0x[0-9a-fA-F_]+|\d[\d_]*|[A-Za-z_]\w*|<<|[*+\-()]", expr)
        if "".join(toks) != re.sub(r"\s+", "", expr):
            continue                       # something outside the little grammar: not modelled
        py = []
        ok = True
        for t in toks:
            if re.match(r"0x|\d", t):
                py.append(str(int(t.replace("_", ""), 0)))
            elif re.match(r"[A-Za-z_]", t):
                if t not in vals:
                    ok = False
                    break
                py.append(str(vals[t][0]))
            else:
                py.append(t)
        if ok:
            try:
                vals[name] = (int(eval(" ".join(py), {"__builtins__": {}})), expr)
            except Exception:
                pass
    return vals


def extract_condition_codes(src):
    m = re.search(r"impl Condition \{\s*pub fn int\(self\) -> u8 \{\s*match self \{(.*?)\n\s*\}\s*\}", src, re.S)
    if not m:
        raise Unsupported("Condition::int not found")
    codes = {}
    for arm in m.group(1).split(","):
        arm = arm.strip()
        if not arm:
            continue
        pats, val = arm.split("=>")
        v = int(val.strip().replace("_", ""), 0)
        for p in pats.split("|"):
            codes[p.strip().replace("Condition::", "")] = v
    return codes


# ----------------------------------------------------------------------------------------------- translation
class Tr:
    def __init__(self, instr_ctors, known_fns, self_asm_is_masm=False, basm_forwarders=None):
        self.instr = instr_ctors          # name -> arity
        self.known = known_fns            # name -> (param lean types, ret lean type) of already translated fns
        self.vars = {}                    # local name -> lean type (when known)
        self.codegen = self_asm_is_masm   # in codegen.rs `self.asm` is the BaselineAssembler
        self.fwd = basm_forwarders or {}
        self.partial = []                 # reasons of arms replaced by a throw

    # ---- expressions: return lean text (may contain `(← …)`)
    def expr(self, e):
        k = e[0]
        if k == "lit":
            return "(%d : Int)" % e[1]
        if k == "bool":
            return "true" if e[1] else "false"
        if k == "paren":
            return self.expr(e[1])
        if k == "ref":
            return self.expr(e[1])
        if k == "path":
            return self.path(e[1])
        if k == "un":
            if e[1] == "!":
                return "(!%s)" % self.expr(e[2])
            return "(-%s)" % self.expr(e[2])
        if k == "cast":
            inner = e[1]
            ty = e[2][1]
            if ty not in ("i64", "i32", "u32", "usize", "u8"):
                raise Unsupported("cast to %s" % ty)
            t = self.type_of(inner)
            if t == "Trap":
                return "(Trap.toInt %s)" % self.expr(inner)
            if t in (None, "Int"):
                return self.expr(inner)          # widening casts between integer types: the value is unchanged
            raise Unsupported("cast of a %s" % t)
        if k == "bin":
            op, a, b = e[1], self.expr(e[2]), self.expr(e[3])
            if op in ("==", "!=", "&&", "||"):
                return "(%s %s %s)" % (a, op, b)
            if op in ("+", "-", "*"):
                return "(%s %s %s)" % (a, op, b)
            if op in ("<", "<=", ">", ">="):
                return "(decide (%s %s %s))" % (a, {"<": "<", "<=": "≤", ">": ">", ">=": "≥"}[op], b)
            raise Unsupported("operator %s" % op)
        if k == "index":
            return "(← getIdx %s %s)" % (self.expr(e[1]), self.expr(e[2]))
        if k == "call":
            return self.call(e[1], e[2])
        if k == "mcall":
            return self.mcall(e[1], e[2], e[3])
        if k == "macro":
            if e[1] == "unreachable":
                return "(← throw \"unreachable!\")"
            raise Unsupported("macro %s! in expression" % e[1])
        if k in ("if", "match", "block"):
            return "(← %s)" % self.mexpr(e, "  ")
        raise Unsupported("expression %s" % k)

    def type_of(self, e):
        if e[0] == "path" and len(e[1]) == 1:
            return self.vars.get(e[1][0])
        if e[0] == "paren":
            return self.type_of(e[1])
        if e[0] == "lit":
            return "Int"
        return None

    def path(self, segs):
        if len(segs) == 1:
            n = segs[0]
            if n == "self":
                if "self" in self.vars:
                    return "self_"
                raise Unsupported("bare self")
            if re.fullmatch(r"[A-Z][A-Z0-9_]*", n) and n not in self.vars and n not in KNOWN_CONSTS:
                raise Unsupported("constant %s is not modelled" % n)
            return ident(n)
        if len(segs) == 2 and segs[0] in ENUMS:
            if segs[1] not in ENUMS[segs[0]]:
                raise Unsupported("unknown variant %s::%s" % tuple(segs))
            return "%s.%s" % (segs[0], segs[1])
        if len(segs) == 2 and tuple(segs) in INT_CONSTS:
            return INT_CONSTS[tuple(segs)]
        raise Unsupported("path %s" % "::".join(segs))

    def call(self, f, args):
        if f[0] != "path":
            raise Unsupported("call of a non-path")
        segs = f[1]
        a = [self.expr(x) for x in args]
        if segs == ["Immediate"]:
            return a[0]
        if tuple(segs) in INT_CONSTS and not a:
            return INT_CONSTS[tuple(segs)]
        if segs[0] == "Mem" and len(segs) == 2:
            return "(Mem.%s %s)" % (segs[1], " ".join(a))
        if segs == ["AsmAddress", "offset"]:
            return "({ base := some %s, disp := %s } : Addr)" % tuple(a)
        if segs == ["AsmAddress", "index"]:
            return "({ index := some (%s, ScaleFactor.toNat %s), disp := %s } : Addr)" % tuple(a)
        if segs == ["AsmAddress", "array"]:
            return "({ base := some %s, index := some (%s, ScaleFactor.toNat %s), disp := %s } : Addr)" % tuple(a)
        if segs == ["Header", "size"]:
            return "(← Header.size)"
        if len(segs) == 1 and (segs[0] in self.known or segs[0] in ("ptr_width",)):
            return "(← %s)" % " ".join([ident(segs[0])] + a)
        raise Unsupported("call of %s" % "::".join(segs))

    def mcall(self, recv, name, args):
        a = [self.expr(x) for x in args]
        # conversions that are the identity on the model's types
        if name == "into" and not a:
            t = self.type_of(recv)
            if t == "ScratchReg":
                return "%s.reg" % self.expr(recv)
            return self.expr(recv)
        if name == "reg" and not a:
            t = self.type_of(recv)
            if t == "ScratchReg":
                return "%s.reg" % self.expr(recv)
            return self.expr(recv)            # AnyReg::reg(): the model reads AnyReg as an integer register
        if name == "freg":
            raise Unsupported("floating point register")
        if recv == ("path", ["self"]):
            if name == "get_scratch":
                raise Unsupported("get_scratch outside `let x = self.get_scratch();`")
            if name in self.known or name in PRELUDE_FNS:
                if name in self.known:
                    # `*scratch` passed where a register is expected: rsparse drops the deref, the model's ScratchReg
                    # is a structure
                    ps = self.known[name][0]
                    a = [x + ".reg" if k < len(ps) and ps[k][1] == "Reg" and self.type_of(args[k]) == "ScratchReg" else x
                         for k, x in enumerate(a)]
                return "(← %s)" % " ".join([ident(name)] + a)
            raise Unsupported("self.%s is not modelled" % name)
        if recv[0] == "field" and recv[1] == ("path", ["self"]) and recv[2] == "asm":
            if self.codegen:
                if name not in self.fwd:
                    raise Unsupported("BaselineAssembler::%s is not a 1:1 forwarder" % name)
                if name not in self.known and name not in PRELUDE_FNS:
                    raise Unsupported("self.asm.%s is not modelled" % name)
                return "(← %s)" % " ".join([ident(name)] + a)
            if name == "create_label":
                return "(← create_label)"
            raise Unsupported("self.asm.%s in expression position" % name)
        t = self.type_of(recv)
        if t == "MachineMode" and name in ("is64", "size") and not a:
            return "(← MachineMode.%s %s)" % (name, self.expr(recv))
        raise Unsupported("method .%s()" % name)

    # ---- monadic expression (a term of type `M α`), used for if/match/block in value position and for bodies
    def mexpr(self, e, ind):
        k = e[0]
        if k == "block":
            return "do\n" + self.block(e, ind + "  ", value=True)
        if k == "if":
            c = self.expr(e[1])
            s = "if %s then %s" % (c, self.mexpr(e[2], ind))
            if e[3] is not None:
                s += "\n%selse %s" % (ind, self.mexpr(e[3], ind))
            else:
                s += "\n%selse pure ()" % ind
            return s
        if k == "match":
            return self.match(e, ind, value=True)
        if k == "macro" and e[1] == "unreachable":
            return "throw \"unreachable!\""
        if self.is_stmt_like(e):
            return self.stmt_expr(e, ind)
        # plain value
        return "pure %s" % self.expr(e)

    def pattern(self, p):
        if p[0] == "pwild":
            return "_"
        if p[0] == "ppath":
            return self.path(p[1])
        if p[0] == "ptuple":
            subs = []
            for q in p[2]:
                if q[0] == "pbind":
                    subs.append(ident(q[1]))
                elif q[0] == "pwild":
                    subs.append("_")
                else:
                    raise Unsupported("nested pattern")
            return "%s %s" % (self.path(p[1]), " ".join(subs))
        if p[0] == "pbind":
            return ident(p[1])
        raise Unsupported("pattern %s" % p[0])

    def match(self, e, ind, value):
        scrut, arms = e[1], e[2]
        if all(all(p[0] in ("plit", "pwild") for p in pats) for pats, _ in arms):
            # integer patterns -> if chain
            s = self.expr(scrut)
            out = ""
            first = True
            for pats, body in arms:
                b = self.arm_body(body, ind)
                if any(p[0] == "pwild" for p in pats):
                    out += ("\n%selse " % ind if not first else "") + b
                    return out
                cond = " || ".join("(%s == (%d : Int))" % (s, p[1]) for p in pats)
                out += ("\n%selse " % ind if not first else "") + "if %s then %s" % (cond, b)
                first = False
            return out + "\n%selse throw \"match: no arm\"" % ind
        out = "match %s with" % self.expr(scrut)
        for pats, body in arms:
            saved = dict(self.vars)
            for p in pats:
                if p[0] == "ptuple":
                    for q in p[2]:
                        if q[0] == "pbind":
                            self.vars.pop(q[1], None)
            out += "\n%s| %s => %s" % (ind, " | ".join(self.pattern(p) for p in pats), self.arm_body(body, ind + "  "))
            self.vars = saved
        return out

    def arm_body(self, body, ind):
        try:
            return self.mexpr(body, ind)
        except Unsupported as ex:
            self.partial.append(str(ex))
            return "throw \"unmodelled: %s\"" % str(ex).replace('"', "'")

    # ---- statements
    def block(self, b, ind, value=False):
        """lines of a do block (without the leading `do`)"""
        assert b[0] == "block"
        stmts, tail = b[1], b[2]
        lines = []
        scratch = []
        saved = dict(self.vars)
        for pos, st in enumerate(stmts):
            if (st[0] == "expr" and st[1][0] == "if" and st[1][3] is None and st[1][2][1]
                    and st[1][2][1][-1] == ("expr", ("return",)) and not scratch and not value):
                then_b = ("block", st[1][2][1][:-1], None)
                rest_b = ("block", stmts[pos + 1:], tail)
                lines.append("%sif %s then do" % (ind, self.expr(st[1][1])))
                lines.append(self.block(then_b, ind + "  "))
                lines.append("%selse do" % ind)
                lines.append(self.block(rest_b, ind + "  "))
                self.vars = saved
                return "\n".join(lines)
            lines += self.stmt(st, ind, scratch)
        frees = ["%sfree_scratch %s" % (ind, ident(s)) for s in reversed(scratch)]
        if tail is not None:
            if tail[0] in ("if", "match") or (tail[0] in ("mcall", "call", "macro") and self.is_stmt_like(tail)):
                if frees:
                    lines.append("%slet r__ ← %s" % (ind, self.stmt_expr(tail, ind)))
                    lines += frees
                    lines.append("%spure r__" % ind)
                else:
                    lines.append("%s%s" % (ind, self.stmt_expr(tail, ind)))
            else:
                t = self.expr(tail)
                lines += frees
                lines.append("%spure %s" % (ind, t))
        else:
            lines += frees
            if not lines or lines[-1].lstrip().startswith("let "):
                lines.append("%spure ()" % ind)
        self.vars = saved
        return "\n".join(lines)

    def is_stmt_like(self, e):
        if e[0] == "macro":
            return True
        if e[0] == "mcall":
            r = e[1]
            if r == ("path", ["self"]):
                return True
            if r[0] == "field" and r[1] == ("path", ["self"]) and r[2] == "asm":
                return True
        return False

    def stmt_expr(self, e, ind):
        """an expression used as a statement: a term of type `M _`"""
        k = e[0]
        if k == "mcall":
            recv, name, args = e[1], e[2], e[3]
            if recv[0] == "field" and recv[1] == ("path", ["self"]) and recv[2] == "asm" and not self.codegen:
                if name == "bind_label":
                    return "bind_label %s" % self.expr(args[0])
                if name not in self.instr:
                    raise Unsupported("AssemblerX64::%s has no semantics in X64/Sem.lean" % name)
                if self.instr[name] != len(args):
                    raise Unsupported("AssemblerX64::%s: arity %d, Instr has %d" % (name, len(args), self.instr[name]))
                a = []
                for x in args:
                    t = self.expr(x)
                    if self.is_condition(x):
                        t = "(cc %s)" % t
                    a.append(t)
                return "emit (Instr.%s%s)" % (name, "".join(" " + x for x in a))
            t = self.expr(e)
            assert t.startswith("(← ") and t.endswith(")")
            return t[3:-1]
        if k in ("if", "match", "block"):
            return self.mexpr(e, ind)
        if k == "macro":
            return self.macro(e)
        raise Unsupported("statement expression %s" % k)

    def is_condition(self, x):
        if x[0] == "path" and len(x[1]) == 2 and x[1][0] == "Condition":
            return True
        if x[0] == "call" and x[1] == ("path", ["convert_into_condition"]):
            return True
        if x[0] == "path" and len(x[1]) == 1 and self.vars.get(x[1][0]) == "Condition":
            return True
        return False

    def macro(self, e):
        name, args = e[1], e[2]
        if name in ("assert", "debug_assert"):
            msg = args[1][1] if len(args) > 1 and args[1][0] == "str" else "assertion failed"
            return "rassert %s \"%s\"" % (self.expr(args[0]), msg)
        if name in ("assert_eq", "debug_assert_eq"):
            return "rassert (%s == %s) \"assert_eq failed\"" % (self.expr(args[0]), self.expr(args[1]))
        if name == "unreachable":
            return "throw \"unreachable!\""
        raise Unsupported("macro %s!" % name)

    def stmt(self, st, ind, scratch):
        k = st[0]
        if k == "let":
            name, ty, e = st[1], st[3], st[4]
            if e[0] == "mcall" and e[1] == ("path", ["self"]) and e[2] == "get_scratch":
                self.vars[name] = "ScratchReg"
                scratch.append(name)
                return ["%slet %s ← get_scratch" % (ind, ident(name))]
            if self.mentions(e, "offset_location"):
                self.vars[name] = "Location"
                return ["%slet %s : Location := {}" % (ind, ident(name))]
            if e[0] in ("if", "match", "block"):
                t = self.mexpr(e, ind + "  ")
                self.vars[name] = self.guess_type(e)
                return ["%slet %s ← (%s)" % (ind, ident(name), t)]
            if e[0] == "mcall" and e[2] == "create_label":
                self.vars[name] = "Label"
                return ["%slet %s ← create_label" % (ind, ident(name))]
            t = self.expr(e)
            self.vars[name] = TYPES.get(ty[1]) if ty else self.guess_type(e)
            return ["%slet %s := %s" % (ind, ident(name), t)]
        if k == "expr":
            return ["%s%s" % (ind, self.stmt_expr(st[1], ind))]
        raise Unsupported("statement %s" % k)

    def guess_type(self, e):
        if e[0] == "cast":
            return "Int"
        if e[0] == "lit":
            return "Int"
        if e[0] == "path" and len(e[1]) == 2 and e[1][0] in ENUMS:
            return e[1][0]
        if e[0] == "block" and e[2] is not None:
            return self.guess_type(e[2])
        if e[0] == "match":
            for _, body in e[2]:
                t = self.guess_type(body)
                if t:
                    return t
        if e[0] == "if":
            return self.guess_type(e[2]) or (self.guess_type(e[3]) if e[3] else None)
        return None

    def mentions(self, e, word):
        if isinstance(e, tuple):
            return any(self.mentions(x, word) for x in e)
        if isinstance(e, list):
            return any(self.mentions(x, word) for x in e)
        return e == word


def lean_type(ty):
    if ty[0] != "ty" or ty[1] not in TYPES:
        raise Unsupported("type %s" % (ty,))
    return TYPES[ty[1]]


def translate_fn(fn, instr, known, codegen=False, fwd=None):
    name, selfkind, params, ret, body = fn[1], fn[2], fn[3], fn[4], fn[5]
    if body is None:
        raise Unsupported("not in the supported Rust subset: %s" % fn[7])
    tr = Tr(instr, known, codegen, fwd)
    ps = []
    for pn, pt in params:
        lt = lean_type(pt)
        tr.vars[pn.lstrip("_")] = lt
        tr.vars[pn] = lt
        ps.append((ident(pn), lt))
    rt = lean_type(ret) if ret else "Unit"
    text = tr.block(body, "  ", value=ret is not None)
    sig = "".join(" (%s : %s)" % p for p in ps)
    return ps, rt, "def %s%s : M %s := do\n%s\n" % (ident(name), sig, rt, text), tr.partial


def instr_ctors(sem_text):
    m = re.search(r"inductive Instr\n(.*?)\n  deriving", sem_text, re.S)
    ctors = {}
    for part in re.split(r"\n?\s*\|\s*", m.group(1)):
        part = part.strip()
        if not part:
            continue
        name = part.split()[0]
        n = 0
        for grp in re.findall(r"\(([^)]*)\)", part):
            names = grp.split(":")[0].split()
            n += len(names)
        ctors[name] = n
    return ctors


def instr_ctor_sigs(sem_text):
    """[(name, [arg type names])] of `inductive Instr`"""
    m = re.search(r"inductive Instr\n(.*?)\n  deriving", sem_text, re.S)
    res = []
    for part in re.split(r"\n?\s*\|\s*", m.group(1)):
        part = part.strip()
        if not part:
            continue
        name = part.split()[0]
        tys = []
        for grp in re.findall(r"\(([^)]*)\)", part):
            names, t = grp.split(":")
            tys += [t.strip()] * len(names.split())
        res.append((name, tys))
    return res


def gen_instr_io(sigs):
    """printer and parser of the instruction text of the line protocol (derived from the constructor list of Sem.lean)"""
    show = {"Reg": "showReg", "Int": "showInt", "Cond": "showCond", "Label": "showLabel", "Addr": "showAddr"}
    ntok = {"Reg": 1, "Int": 1, "Cond": 1, "Label": 1, "Addr": 3}
    out = ["import DoraModel.X64.MasmIOBase",
           "/-! GENERATED by tools/rs2lean_masm.py from the constructor list of X64/Sem.lean — do not edit. -/",
           "namespace Dora.X64.Sem", "",
           "def Instr.toText : Instr → String"]
    for name, tys in sigs:
        vs = ["x%d" % k for k in range(len(tys))]
        parts = " ++ ".join(["\"%s\"" % name] + ["\" \" ++ %s %s" % (show[t], v) for t, v in zip(tys, vs)])
        out.append("  | .%s%s => %s" % (name, "".join(" " + v for v in vs), parts))
    out.append("")
    out.append("def Instr.ofTokens : List String → Except String Instr")
    for name, tys in sigs:
        pats = []
        binds = []
        k = 0
        for j, t in enumerate(tys):
            if t == "Addr":
                pats += ["t%d" % k, "t%d" % (k + 1), "t%d" % (k + 2)]
                binds.append("let v%d ← readAddr t%d t%d t%d" % (j, k, k + 1, k + 2))
                k += 3
            else:
                pats.append("t%d" % k)
                binds.append("let v%d ← read%s t%d" % (j, t, k))
                k += 1
        args = "".join(" v%d" % j for j in range(len(tys)))
        if tys:
            out.append("  | \"%s\" :: [%s] => do\n    %s\n    pure (.%s%s)" % (name, ", ".join(pats), "\n    ".join(binds), name, args))
        else:
            out.append("  | [\"%s\"] => pure .%s" % (name, name))
    out.append("  | ts => .error (\"unknown instruction or wrong arity: \" ++ \" \".intercalate ts)")
    out.append("\nend Dora.X64.Sem\n")
    return "\n".join(out)


def check_forwarder(basm_src, name):
    """BaselineAssembler::name must be exactly `self.masm.name(<its parameters in order>);`"""
    t = find_fn_text(basm_src, name)
    if t is None:
        return False
    try:
        fn = parse_fn(t)
    except ParseError:
        return False
    body = fn[5]
    if body is None:
        return False
    stmts, tail = body[1], body[2]
    e = None
    if len(stmts) == 1 and tail is None and stmts[0][0] == "expr":
        e = stmts[0][1]
    elif not stmts and tail is not None:
        e = tail
    if e is None or e[0] != "mcall" or e[2] != name:
        return False
    if e[1] != ("field", ("path", ["self"]), "masm"):
        return False
    return [a for a in e[3]] == [("path", [p[0]]) for p in fn[3]]


def collect_calls(e, names, out):
    """all `self.asm.<name>(..)` / `self.<name>(..)` calls with name in names, in source order"""
    if isinstance(e, tuple):
        if e and e[0] == "mcall" and e[2] in names:
            r = e[1]
            if r == ("path", ["self"]) or (r[0] == "field" and r[1] == ("path", ["self"]) and r[2] == "asm"):
                out.append((e[2], e[3]))
        for x in e:
            collect_calls(x, names, out)
    elif isinstance(e, list):
        for x in e:
            collect_calls(x, names, out)


def codegen_arg(a):
    """argument of a helper call inside an emit_* function -> (lean text, parameter it needs or None)"""
    if a[0] == "mcall" and a[2] == "into" and not a[3]:
        return codegen_arg(a[1])
    if a[0] == "path" and len(a[1]) == 1:
        n = a[1][0]
        if re.match(r"^(REG_[A-Z0-9]+|R[A-Z0-9]+)$", n):
            return n, None
        if n in ("m", "mode"):
            return "mode", "mode"
        if n in ("position", "loc", "location"):
            return "loc", "loc"
        if n == "op":
            return "op", "op"
        raise Unsupported("argument %s" % n)
    if a[0] == "mcall" and a[1] == ("path", ["self"]) and a[2] == "mode":
        return "mode", "mode"
    raise Unsupported("argument expression %s" % (a[0],))


def main(argv):
    repo, lean, report_path = "/repo", "/verif/lean", None
    i = 1
    while i < len(argv):
        if argv[i] == "--repo":
            repo = argv[i + 1]
        elif argv[i] == "--lean":
            lean = argv[i + 1]
        elif argv[i] == "--report":
            report_path = argv[i + 1]
        i += 2
    rd = lambda p: open(os.path.join(repo, p), encoding="utf-8").read()
    src = {p: rd(p) for p in (MASM_X64, MASM, CODEGEN, BASM, CPU, LAYOUT, ABI, ASM)}
    sem = open(os.path.join(lean, "DoraModel/X64/Sem.lean"), encoding="utf-8").read()
    instr = instr_ctors(sem)
    report = dict(translated=[], unmodelled={}, unmodelled_optional={}, partial={}, codegen={}, instr_ctors=len(instr))

    # ---- types
    ENUMS["MachineMode"] = extract_enum(src[LAYOUT], "MachineMode")
    ENUMS["Trap"] = extract_enum(src[ABI], "Trap")
    ENUMS["CondCode"] = extract_enum(src[MASM], "CondCode")
    ENUMS["Condition"] = extract_enum(src[ASM], "Condition")
    ENUMS["ScaleFactor"] = extract_enum(src[ASM], "ScaleFactor")
    ENUMS["RuntimeFunction"] = ["TrapTrampoline", "Other"]          # declared in MasmPrelude.lean
    ENUMS["Mem"] = ["Local", "Base", "Index", "Offset"]               # declared in MasmPrelude.lean
    codes = extract_condition_codes(src[ASM])
    regs, alias, arrays = extract_cpu_consts(src[CPU])
    KNOWN_CONSTS.update(regs)
    KNOWN_CONSTS.update(alias)
    KNOWN_CONSTS.update(arrays)
    abi_consts = extract_usize_consts(src[ABI])
    report["abi_consts"] = {k: v[0] for k, v in abi_consts.items()}
    ty = ["import DoraModel.X64.Sem",
          "/-! GENERATED by tools/rs2lean_masm.py — do not edit. Enums and constants of the baseline macro assembler. -/",
          "namespace Dora.Masm", "open Dora.X64.Sem", ""]
    for en, srcfile in (("MachineMode", LAYOUT), ("Trap", ABI), ("CondCode", MASM), ("Condition", ASM), ("ScaleFactor", ASM)):
        ty.append("/-- `enum %s` of %s -/" % (en, srcfile))
        ty.append("inductive %s\n%s\n  deriving DecidableEq, Repr, Inhabited\n" % (en, "\n".join("  | %s" % v for v in ENUMS[en])))
    for en in ("MachineMode", "Trap", "CondCode"):
        ty.append("def %s.ofString : String → Option %s\n%s\n  | _ => none\n" % (
            en, en, "\n".join("  | \"%s\" => some .%s" % (v, v) for v in ENUMS[en])))
    ty.append("/-- `trap as i64`: the discriminant (declaration order, `#[repr(u8)]`) -/")
    ty.append("def Trap.toInt : Trap → Int\n%s\n" % "\n".join("  | .%s => %d" % (v, k) for k, v in enumerate(ENUMS["Trap"])))
    ty.append("/-- `Condition::int` -/")
    missing = [v for v in ENUMS["Condition"] if v not in codes]
    if missing:
        raise SystemExit("Condition::int lacks %s" % missing)
    ty.append("def Condition.code : Condition → Nat\n%s\n" % "\n".join("  | .%s => %d" % (v, codes[v]) for v in ENUMS["Condition"]))
    ty.append("/-- the hardware condition a `Condition` stands for -/\ndef cc (c : Condition) : Cond := Cond.ofCode c.code\n")
    ty.append("/-- `ScaleFactor` as a multiplier (One, Two, Four, Eight) -/")
    ty.append("def ScaleFactor.toNat : ScaleFactor → Nat\n%s\n" % "\n".join(
        "  | .%s => %d" % (v, {"One": 1, "Two": 2, "Four": 4, "Eight": 8}[v]) for v in ENUMS["ScaleFactor"]))
    ty.append("/-! register constants of %s -/" % CPU)
    for n, v in sorted(regs.items(), key=lambda kv: kv[1]):
        if v < 16:
            ty.append("def %s : Reg := %d" % (n, v))
    for n, v in alias.items():
        if v in regs and regs[v] < 16:
            ty.append("def %s : Reg := %s" % (n, v))
    for n, vs in arrays.items():
        if all(v in regs or v in alias for v in vs):
            ty.append("def %s : List Reg := [%s]" % (n, ", ".join(vs)))
    ty.append("\n/-! `usize` constants of %s the helpers name (value evaluated from the source expression) -/" % ABI)
    for n in ("LARGE_OBJECT_SIZE", "REMEMBERED_BIT_SHIFT"):
        if n in abi_consts:
            ty.append("/-- `pub const %s: usize = %s;` -/\ndef %s : Int := %d" % (n, abi_consts[n][1], n, abi_consts[n][0]))
            KNOWN_CONSTS.add(n)
    ty.append("\nend Dora.Masm\n")

    # ---- functions
    out = ["import DoraModel.X64.MasmPrelude",
           "/-! GENERATED by tools/rs2lean_masm.py — do not edit. The integer helpers of the baseline macro assembler as",
           "functions that append abstract instructions (`Dora.X64.Sem.Instr`). Source: dora-cannon-compiler/src/masm/x64.rs, masm.rs, codegen.rs. -/",
           "set_option linter.unusedVariables false", "namespace Dora.Masm",
           "open Dora.X64.Sem", "",
           "/-- `self.get_scratch()`: `ScratchRegisters::new()` uses `SCRATCH` -/",
           "def get_scratch : M ScratchReg := get_scratch_from SCRATCH", ""]
    known = {}
    # impl MachineMode { is64, size }
    for mname in ("is64", "size"):
        m = re.search(r"impl MachineMode \{(.*?)\n\}", src[LAYOUT], re.S)
        t = find_fn_text(m.group(1), mname)
        try:
            fn = parse_fn(t)
            tr = Tr(instr, known)
            tr.vars["self"] = "MachineMode"
            # `match self {..}`: rsparse gives ('path',['self'])
            body = fn[5]
            txt = tr.block(body, "  ", value=True).replace("match self with", "match self_ with")
            rt = lean_type(fn[4])
            out.append("/-- `MachineMode::%s` (%s) -/" % (mname, LAYOUT))
            out.append("def MachineMode.%s (self_ : MachineMode) : M %s := do\n%s\n" % (mname, rt, txt))
            report["translated"].append("MachineMode::" + mname)
        except (Unsupported, ParseError) as ex:
            report["unmodelled"]["MachineMode::" + mname] = str(ex)
    fwd = {}
    sigs = {}
    emitted_bailouts = False
    for path, name, required in TARGETS:
        text = find_fn_text(src[path], name)
        key = name
        bucket = "unmodelled" if required else "unmodelled_optional"
        if text is None:
            report[bucket][key] = "function not found in %s" % path
            continue
        try:
            fn = parse_fn(text)
            if path == CODEGEN:
                calls = []
                collect_calls(fn[5], set(known) | set(PRELUDE_FNS), calls)
                for cn, _ in calls:
                    if cn not in fwd:
                        fwd[cn] = check_forwarder(src[BASM], cn)
                fwd_ok = {k for k, v in fwd.items() if v}
                ps, rt, lean_text, partial = translate_fn(fn, instr, known, codegen=True, fwd=fwd_ok)
            else:
                ps, rt, lean_text, partial = translate_fn(fn, instr, known)
        except (Unsupported, ParseError) as ex:
            report[bucket][key] = str(ex)
            continue
        known[name] = (ps, rt)
        sigs[name] = ps
        out.append("/-- `%s` (%s) -/" % (name, path))
        out.append(lean_text)
        report["translated"].append(name)
        if partial:
            report["partial"][name] = partial
        if name == "trap" and "nop" in known and not emitted_bailouts:
            emitted_bailouts = True
            out.append("/-- `MacroAssembler::emit_bailouts` (masm.rs; written out by the translator: the Rust drains a Vec of tuples):\n"
                       "    for every recorded bailout `bind_label(lbl); trap(trap, location)`, then one `nop` if there was any -/")
            out.append("def emit_bailouts : M Unit := do\n  let s ← get\n  set { s with bailouts := [] }\n"
                       "  for (lbl, t, location) in s.bailouts do\n    bind_label lbl\n    trap t location\n"
                       "  if s.bailouts.length > 0 then\n    nop\n")
    if not emitted_bailouts:
        report["unmodelled"]["emit_bailouts"] = "needs trap and nop"

    # ---- codegen.rs: which registers the emitters pass
    for ename, expect in CODEGEN_EMITTERS:
        text = find_fn_text(src[CODEGEN], ename)
        if text is None:
            report["unmodelled"]["codegen:" + ename] = "function not found"
            continue
        try:
            fn = parse_fn(text)
            if fn[5] is None:
                raise Unsupported(fn[7])
            calls = []
            collect_calls(fn[5], set(expect), calls)
            got = [c[0] for c in calls]
            if got != expect:
                raise Unsupported("expected helper calls %s, found %s" % (expect, got))
            lines = []
            params = []
            for cn, args in calls:
                if cn not in known:
                    raise Unsupported("%s is unmodelled" % cn)
                if cn != "check_shift_amount" and not check_forwarder(src[BASM], cn):
                    raise Unsupported("BaselineAssembler::%s is not a 1:1 forwarder" % cn)
                ts = []
                for a in args:
                    t, p = codegen_arg(a)
                    ts.append(t)
                    if p and p not in params:
                        params.append(p)
                lines.append("  %s %s" % (ident(cn), " ".join(ts)))
                report["codegen"].setdefault(ename, []).append([cn] + ts)
            ptypes = {"mode": "MachineMode", "loc": "Location", "op": "CondCode"}
            sig = "".join(" (%s : %s)" % (p, ptypes[p]) for p in params)
            out.append("/-- the helper calls of `CannonCodeGen::%s` (codegen.rs) with the registers it passes -/" % ename)
            out.append("def cg_%s%s : M Unit := do\n%s\n" % (ename, sig, "\n".join(lines)))
            sigs["cg_" + ename] = [(p, ptypes[p]) for p in params]
        except (Unsupported, ParseError) as ex:
            report["unmodelled"]["codegen:" + ename] = str(ex)
    out.append("/-- run a helper on a fresh macro assembler; the result is `body ++ [done] ++ bailouts` -/")
    out.append("def assemble (h : M Unit) : Except String (List Instr) :=\n"
               "  match (do h; emit .done; emit_bailouts : M Unit).run {} with\n"
               "  | .ok (_, s) => .ok s.code\n  | .error e => .error e\n")
    out.append("end Dora.Masm\n")

    # ---- dispatch for the driver
    disp = ["import DoraModel.Gen.Masm", "import DoraModel.Gen.MasmInstrIO",
            "/-! GENERATED by tools/rs2lean_masm.py — do not edit. Call text -> model function (driver `drv_c01m`). -/",
            "namespace Dora.Masm", "open Dora.X64.Sem", "",
            "def dispatch (name : String) (a : List String) : Except String (M Unit) :=", "  match name, a with"]
    parser = {"MachineMode": "parseMode", "Reg": "parseReg", "Int": "parseInt", "CondCode": "parseCondCode",
              "Trap": "parseTrap", "Bool": "parseBool"}
    for name, ps in sigs.items():
        if name in ("trap", "address_from_mem", "convert_into_condition", "offset_of_array_length", "load_mem", "jump_if", "jump"):
            continue
        vs = []
        binds = []
        ok = True
        for k, (pn, pt) in enumerate(ps):
            if pt == "Location":
                continue
            if pt not in parser:
                ok = False
                break
            vs.append("x%d" % k)
            binds.append("let v%d ← %s x%d" % (k, parser[pt], k))
        if not ok:
            continue
        args = " ".join("({} : Location)" if pt == "Location" else "v%d" % k for k, (pn, pt) in enumerate(ps))
        disp.append("  | \"%s\", [%s] => do\n    %s\n    pure (%s %s *> pure ())" % (
            name, ", ".join(vs), "\n    ".join(binds) if binds else "pure ()", ident(name), args))
    disp.append("  | n, _ => .error (\"unknown call or wrong arity: \" ++ n)")
    disp.append("\nend Dora.Masm\n")

    def write(rel, text):
        p = os.path.join(lean, rel)
        old = open(p, encoding="utf-8").read() if os.path.exists(p) else None
        if old != text:
            with open(p, "w", encoding="utf-8") as f:
                f.write(text)
            return True
        return False
    report["changed"] = [r for r, t in (("DoraModel/Gen/MasmTypes.lean", "\n".join(ty)),
                                        ("DoraModel/Gen/MasmInstrIO.lean", gen_instr_io(instr_ctor_sigs(sem))),
                                        ("DoraModel/Gen/Masm.lean", "\n".join(out)),
                                        ("DoraModel/Gen/MasmDispatch.lean", "\n".join(disp))) if write(r, t)]
    if report_path:
        with open(report_path, "w") as f:
            json.dump(report, f, indent=1)
    print(json.dumps({k: (v if k != "translated" else len(v)) for k, v in report.items()}, indent=1))
    return 0


if __name__ == "__main__":
    sys.exit(main(sys.argv))
