#!/usr/bin/env python3
"""rs2lean_a64 — translate dora-asm/src/{lib,arm64}.rs (the Rust subset they use) to Lean 4.

usage: rs2lean_a64.py <repo> <lean-out-dir> <harness-src-dir> <report.json>

Writes  <lean-out-dir>/A64.lean          types, Register/Cond/Shift/Extend, fits_*, immediates, cls::*
        <lean-out-dir>/A64Asm.lean       AssemblerBuffer + every AssemblerArm64 method (state monad)
        <lean-out-dir>/A64Dispatch.lean  name -> method dispatch for the driver
        <harness-src-dir>/dispatch.rs    the same dispatch for the Rust harness + method table
        <report.json>                    {translated:[...], unmodelled:[{item, why}], methods:[...]}
Anything it cannot translate is listed as `unmodelled` with the reason (never skipped silently).
Python 3 stdlib only.
"""
import json
import os
import re
import sys


class Unsupported(Exception):
    pass


# ------------------------------------------------------------------------------------------ lexer

TOKEN_RE = re.compile(r"""
    (?P<ws>\s+|//[^\n]*|/\*.*?\*/)
  | (?P<int>0[xX][0-9a-fA-F_]+(?:[ui](?:8|16|32|64|128|size))?
          |0[bB][01_]+(?:[ui](?:8|16|32|64|128|size))?
          |[0-9][0-9_]*(?:[ui](?:8|16|32|64|128|size))?)
  | (?P<str>"(?:[^"\\]|\\.)*")
  | (?P<id>[A-Za-z_][A-Za-z0-9_]*)
  | (?P<op><<=|>>=|\.\.=|::|->|=>|==|!=|<=|>=|&&|\|\||<<|>>|\+=|-=|\*=|/=|%=|\|=|&=|\^=|\.\.|[-+*/%&|^!<>=.,;:(){}\[\]#?@$])
""", re.X | re.S)


def lex(src):
    toks = []
    pos = 0
    line = 1
    while pos < len(src):
        m = TOKEN_RE.match(src, pos)
        if not m:
            raise Unsupported("lexer: unexpected character %r at line %d" % (src[pos], line))
        kind = m.lastgroup
        text = m.group(kind)
        if kind != "ws":
            toks.append((kind, text, line))
        line += text.count("\n")
        pos = m.end()
    toks.append(("eof", "", line))
    return toks


class N:
    """AST node."""

    def __init__(self, k, line=0, **kw):
        self.k = k
        self.line = line
        self.ty = None
        self.__dict__.update(kw)

    def __repr__(self):
        return "N(%s,%s)" % (self.k, {a: b for a, b in self.__dict__.items() if a not in ("k", "ty", "line")})


# ------------------------------------------------------------------------------------------ parser

class Parser:
    def __init__(self, toks):
        self.t = toks
        self.i = 0

    def peek(self, o=0):
        return self.t[self.i + o]

    def at(self, text, o=0):
        k, t, _ = self.t[self.i + o]
        return t == text and k in ("op", "id")

    def eat(self, text):
        if self.at(text):
            self.i += 1
            return True
        return False

    def expect(self, text):
        if not self.eat(text):
            k, t, l = self.peek()
            raise Unsupported("parser: expected `%s`, found `%s` at line %d" % (text, t, l))

    def ident(self):
        k, t, l = self.peek()
        if k != "id":
            raise Unsupported("parser: expected identifier, found `%s` at line %d" % (t, l))
        self.i += 1
        return t

    def skip_balanced(self, open_, close):
        depth = 0
        while True:
            k, t, l = self.peek()
            if k == "eof":
                raise Unsupported("parser: unbalanced %s" % open_)
            self.i += 1
            if k == "op" and t == open_:
                depth += 1
            elif k == "op" and t == close:
                depth -= 1
                if depth == 0:
                    return

    # -- items
    def attrs(self):
        res = []
        while self.at("#"):
            start = self.i
            self.i += 1
            self.eat("!")
            self.skip_balanced("[", "]")
            res.append("".join(t for _, t, _ in self.t[start:self.i]))
        return res

    def vis(self):
        if self.eat("pub"):
            if self.at("("):
                self.skip_balanced("(", ")")
                return "pub(restricted)"
            return "pub"
        return ""

    def items(self, until=None):
        res = []
        while not (self.peek()[0] == "eof" or (until and self.at(until))):
            at = self.attrs()
            it = self.item(at)
            if it is not None:
                res.append(it)
        return res

    def item(self, attrs):
        line = self.peek()[2]
        vis = self.vis()
        if self.eat("use"):
            while not self.eat(";"):
                self.i += 1
            return None
        if self.at("macro_rules"):
            self.i += 2
            self.ident()
            if self.at("{"):
                self.skip_balanced("{", "}")
            else:
                self.skip_balanced("(", ")")
                self.eat(";")
            return None
        if self.eat("const"):
            name = self.ident()
            self.expect(":")
            ty = self.type_()
            self.expect("=")
            e = self.expr()
            self.expect(";")
            return N("const", line, name=name, dty=ty, init=e, vis=vis)
        if self.eat("struct"):
            name = self.ident()
            if self.at("("):
                self.expect("(")
                fields = []
                while not self.at(")"):
                    self.vis()
                    fields.append(self.type_())
                    if not self.eat(","):
                        break
                self.expect(")")
                self.expect(";")
                return N("tstruct", line, name=name, fields=fields, vis=vis)
            self.expect("{")
            fields = []
            while not self.at("}"):
                self.attrs()
                self.vis()
                fname = self.ident()
                self.expect(":")
                fields.append((fname, self.type_()))
                if not self.eat(","):
                    break
            self.expect("}")
            return N("struct", line, name=name, fields=fields, vis=vis)
        if self.eat("enum"):
            name = self.ident()
            self.expect("{")
            variants = []
            while not self.at("}"):
                self.attrs()
                vname = self.ident()
                if self.at("("):
                    self.expect("(")
                    tys = []
                    while not self.at(")"):
                        tys.append(self.type_())
                        if not self.eat(","):
                            break
                    self.expect(")")
                    variants.append((vname, "tuple", [("_%d" % i, t) for i, t in enumerate(tys)]))
                elif self.at("{"):
                    self.expect("{")
                    fs = []
                    while not self.at("}"):
                        fn = self.ident()
                        self.expect(":")
                        fs.append((fn, self.type_()))
                        if not self.eat(","):
                            break
                    self.expect("}")
                    variants.append((vname, "struct", fs))
                else:
                    variants.append((vname, "unit", []))
                if not self.eat(","):
                    break
            self.expect("}")
            return N("enum", line, name=name, variants=variants, vis=vis)
        if self.eat("impl"):
            name = self.ident()
            if self.at("for") or self.at("<"):
                raise Unsupported("trait impl / generic impl at line %d" % line)
            self.expect("{")
            fns = self.items("}")
            self.expect("}")
            return N("impl", line, name=name, items=fns)
        if self.eat("mod"):
            name = self.ident()
            if self.eat(";"):
                return None
            if any("cfg(test)" in a.replace(" ", "") for a in attrs):
                self.skip_balanced("{", "}")
                return None
            self.expect("{")
            its = self.items("}")
            self.expect("}")
            return N("mod", line, name=name, items=its)
        if self.eat("fn"):
            name = self.ident()
            self.expect("(")
            params = []
            selfk = None
            while not self.at(")"):
                if self.at("&") and (self.at("self", 1) or (self.at("mut", 1) and self.at("self", 2))):
                    self.i += 1
                    selfk = "&mut" if self.eat("mut") else "&"
                    self.expect("self")
                elif self.at("self"):
                    self.i += 1
                    selfk = "val"
                elif self.at("mut") and self.at("self", 1):
                    self.i += 2
                    selfk = "mutval"
                else:
                    mut = self.eat("mut")
                    pname = self.ident()
                    self.expect(":")
                    params.append((pname, self.type_(), mut))
                if not self.eat(","):
                    break
            self.expect(")")
            ret = None
            if self.eat("->"):
                ret = self.type_()
            body = self.block()
            return N("fn", line, name=name, params=params, selfk=selfk, ret=ret, body=body, vis=vis,
                     attrs=attrs)
        k, t, l = self.peek()
        raise Unsupported("parser: unsupported item starting with `%s` at line %d" % (t, l))

    # -- types:  ('int',name) | ('bool',) | ('adt',name) | ('opt',T) | ('vec',T) | ('tuple',[T]) | ('unit',)
    def type_(self):
        if self.eat("&"):
            self.eat("mut")
            return self.type_()
        if self.eat("("):
            ts = []
            while not self.at(")"):
                ts.append(self.type_())
                if not self.eat(","):
                    break
            self.expect(")")
            return ("unit",) if not ts else ("tuple", ts)
        name = self.ident()
        while self.eat("::"):
            name = self.ident()
        if name in ("u8", "u16", "u32", "u64", "u128", "usize", "i8", "i16", "i32", "i64", "isize"):
            return ("int", name)
        if name == "bool":
            return ("bool",)
        if name in ("Option", "Vec"):
            self.expect("<")
            inner = self.type_()
            # `>>` may have been lexed as one token
            if self.at(">>"):
                k, t, l = self.t[self.i]
                self.t[self.i] = ("op", ">", l)
                self.t.insert(self.i, ("op", ">", l))
            self.expect(">")
            return ("opt" if name == "Option" else "vec", inner)
        return ("adt", name)

    # -- blocks / statements
    def block(self):
        line = self.peek()[2]
        self.expect("{")
        stmts = []
        tail = None
        while not self.at("}"):
            if self.at("#"):
                self.attrs()
                continue
            if self.eat(";"):
                continue
            if self.at("let"):
                l = self.peek()[2]
                self.i += 1
                pat = self.pattern()
                dty = None
                if self.eat(":"):
                    dty = self.type_()
                init = None
                if self.eat("="):
                    init = self.expr()
                self.expect(";")
                stmts.append(N("let", l, pat=pat, dty=dty, init=init))
                continue
            e = self.expr(stmt=True)
            if self.eat(";"):
                stmts.append(N("expr", e.line, e=e))
            elif self.at("}"):
                tail = e
            elif e.k in ("if", "match", "while", "for", "block"):
                stmts.append(N("expr", e.line, e=e))
            else:
                k, t, l = self.peek()
                raise Unsupported("parser: expected `;` or `}`, found `%s` at line %d" % (t, l))
        self.expect("}")
        return N("block", line, stmts=stmts, tail=tail)

    def pattern(self):
        line = self.peek()[2]
        if self.eat("("):
            ps = []
            while not self.at(")"):
                ps.append(self.pattern())
                if not self.eat(","):
                    break
            self.expect(")")
            return N("ptuple", line, ps=ps)
        if self.at("_") and self.peek()[0] == "id" and self.peek()[1] == "_":
            self.i += 1
            return N("pwild", line)
        if self.peek()[0] == "int" or self.at("-"):
            e = self.unary()
            return N("plit", line, e=e)
        mut = self.eat("mut")
        name = self.ident()
        path = [name]
        while self.eat("::"):
            path.append(self.ident())
        if self.at("("):
            self.expect("(")
            ps = []
            while not self.at(")"):
                ps.append(self.pattern())
                if not self.eat(","):
                    break
            self.expect(")")
            return N("pctor", line, path=path, ps=ps)
        if self.at("{"):
            self.expect("{")
            fs = []
            while not self.at("}"):
                fn = self.ident()
                if self.eat(":"):
                    fs.append((fn, self.pattern()))
                else:
                    fs.append((fn, N("pid", line, name=fn, mut=False)))
                if not self.eat(","):
                    break
            self.expect("}")
            return N("pstruct", line, path=path, fs=fs)
        if len(path) > 1 or name in ("None",):
            return N("pctor", line, path=path, ps=[])
        return N("pid", line, name=name, mut=mut)

    def pattern_alts(self):
        ps = [self.pattern()]
        while self.eat("|"):
            ps.append(self.pattern())
        return ps

    # -- expressions
    BIN = [
        ["||"], ["&&"], ["==", "!=", "<", ">", "<=", ">="], ["|"], ["^"], ["&"], ["<<", ">>"],
        ["+", "-"], ["*", "/", "%"],
    ]
    ASSIGN = ["=", "+=", "-=", "*=", "/=", "%=", "|=", "&=", "^=", "<<=", ">>="]

    def expr(self, nostruct=False, stmt=False):
        line = self.peek()[2]
        lhs = self.range_(nostruct)
        for a in self.ASSIGN:
            if self.at(a) and self.peek()[0] == "op":
                self.i += 1
                rhs = self.expr(nostruct)
                return N("assign", line, op=a, lhs=lhs, rhs=rhs)
        return lhs

    def range_(self, nostruct):
        line = self.peek()[2]
        lhs = self.binary(0, nostruct)
        if self.at("..") and self.peek()[0] == "op":
            self.i += 1
            if self.at("]") or self.at(")"):
                return N("range", line, lo=lhs, hi=None)
            rhs = self.binary(0, nostruct)
            return N("range", line, lo=lhs, hi=rhs)
        return lhs

    def binary(self, lvl, nostruct):
        if lvl == len(self.BIN):
            return self.cast(nostruct)
        line = self.peek()[2]
        lhs = self.binary(lvl + 1, nostruct)
        while True:
            k, t, _ = self.peek()
            if k == "op" and t in self.BIN[lvl]:
                self.i += 1
                rhs = self.binary(lvl + 1, nostruct)
                lhs = N("bin", line, op=t, l=lhs, r=rhs)
            else:
                return lhs

    def cast(self, nostruct):
        line = self.peek()[2]
        e = self.unary(nostruct)
        while self.at("as"):
            self.i += 1
            e = N("cast", line, e=e, to=self.type_())
        return e

    def unary(self, nostruct=False):
        line = self.peek()[2]
        k, t, _ = self.peek()
        if k == "op" and t in ("-", "!", "*"):
            self.i += 1
            return N("un", line, op=t, e=self.unary(nostruct))
        if k == "op" and t == "&":
            self.i += 1
            self.eat("mut")
            return N("ref", line, e=self.unary(nostruct))
        return self.postfix(nostruct)

    def args(self):
        self.expect("(")
        res = []
        while not self.at(")"):
            res.append(self.expr())
            if not self.eat(","):
                break
        self.expect(")")
        return res

    def postfix(self, nostruct):
        e = self.primary(nostruct)
        while True:
            line = self.peek()[2]
            if self.at(".") and self.peek()[0] == "op":
                self.i += 1
                k, t, _ = self.peek()
                if k == "int":
                    self.i += 1
                    e = N("field", line, e=e, name=t)
                    continue
                name = self.ident()
                targs = None
                if self.at("::"):
                    self.i += 1
                    self.expect("<")
                    targs = [self.type_()]
                    self.expect(">")
                if self.at("("):
                    e = N("mcall", line, recv=e, name=name, args=self.args(), targs=targs)
                else:
                    e = N("field", line, e=e, name=name)
                continue
            if self.at("("):
                e = N("call", line, f=e, args=self.args())
                continue
            if self.at("["):
                self.i += 1
                idx = self.expr()
                self.expect("]")
                e = N("index", line, e=e, idx=idx)
                continue
            return e

    def primary(self, nostruct):
        k, t, line = self.peek()
        if k == "int":
            self.i += 1
            m = re.match(r"^(0[xX][0-9a-fA-F_]+?|0[bB][01_]+|[0-9][0-9_]*?)((?:[ui](?:8|16|32|64|128|size))?)$", t)
            body, suf = m.group(1), m.group(2)
            if body[:2].lower() == "0x":
                # a hex literal may end in something that looks like a suffix only if it is one
                v = int(body.replace("_", ""), 16)
            elif body[:2].lower() == "0b":
                v = int(body.replace("_", ""), 2)
            else:
                v = int(body.replace("_", ""))
            return N("lit", line, v=v, suf=suf or None)
        if k == "str":
            self.i += 1
            return N("str", line, v=t)
        if self.at("("):
            self.i += 1
            if self.eat(")"):
                return N("tuple", line, es=[])
            e = self.expr()
            if self.at(","):
                es = [e]
                while self.eat(","):
                    if self.at(")"):
                        break
                    es.append(self.expr())
                self.expect(")")
                return N("tuple", line, es=es)
            self.expect(")")
            return N("paren", line, e=e)
        if self.at("{"):
            return self.block()
        if self.at("if"):
            return self.if_()
        if self.eat("match"):
            scr = self.expr(nostruct=True)
            self.expect("{")
            arms = []
            while not self.at("}"):
                pats = self.pattern_alts()
                self.expect("=>")
                body = self.expr()
                arms.append((pats, body))
                if not self.eat(","):
                    if not self.at("}") and body.k != "block":
                        raise Unsupported("parser: match arm at line %d" % line)
            self.expect("}")
            return N("match", line, scr=scr, arms=arms)
        if self.eat("while"):
            c = self.expr(nostruct=True)
            return N("while", line, c=c, body=self.block())
        if self.eat("for"):
            pat = self.pattern()
            self.expect("in")
            it = self.expr(nostruct=True)
            return N("for", line, pat=pat, it=it, body=self.block())
        if self.eat("return"):
            if self.at(";") or self.at("}"):
                return N("return", line, e=None)
            return N("return", line, e=self.expr())
        if self.eat("break"):
            return N("break", line)
        if self.eat("true"):
            return N("bool", line, v=True)
        if self.eat("false"):
            return N("bool", line, v=False)
        if k == "id":
            path = [self.ident()]
            while self.at("::") and self.peek(1)[0] == "id":
                self.i += 1
                path.append(self.ident())
            if self.at("!") and self.peek(1)[1] in ("(", "[", "{") and len(path) == 1:
                self.i += 1
                return N("macro", line, name=path[0], args=self.args())
            if self.at("{") and not nostruct and path[-1][0].isupper():
                self.i += 1
                fs = []
                while not self.at("}"):
                    fn = self.ident()
                    if self.eat(":"):
                        fs.append((fn, self.expr()))
                    else:
                        fs.append((fn, N("path", line, path=[fn])))
                    if not self.eat(","):
                        break
                self.expect("}")
                return N("structlit", line, path=path, fs=fs)
            return N("path", line, path=path)
        raise Unsupported("parser: unexpected `%s` at line %d" % (t, line))

    def if_(self):
        line = self.peek()[2]
        self.expect("if")
        if self.eat("let"):
            pats = self.pattern_alts()
            self.expect("=")
            scr = self.expr(nostruct=True)
            then = self.block()
            els = None
            if self.eat("else"):
                els = self.if_() if self.at("if") else self.block()
            # desugar to match
            arms = [(pats, then), ([N("pwild", line)], els if els is not None else N("block", line, stmts=[], tail=None))]
            return N("match", line, scr=scr, arms=arms)
        c = self.expr(nostruct=True)
        then = self.block()
        els = None
        if self.eat("else"):
            els = self.if_() if self.at("if") else self.block()
        return N("if", line, c=c, then=then, els=els)


def parse_file(path):
    src = open(path, encoding="utf-8").read()
    return Parser(lex(src)).items(), src


# ------------------------------------------------------------------------------------------ types

class TyVar:
    """type variable of an integer literal (defaults to i32 like rustc) or of an unknown element type"""
    n = 0

    def __init__(self, intlit):
        self.ref = None
        self.intlit = intlit
        TyVar.n += 1
        self.id = TyVar.n


def resolve(t):
    while isinstance(t, TyVar) and t.ref is not None:
        t = t.ref
    if isinstance(t, tuple):
        if t[0] in ("opt", "vec", "range"):
            return (t[0], resolve(t[1]))
        if t[0] == "tuple":
            return ("tuple", [resolve(x) for x in t[1]])
    return t


def unify(a, b, what=""):
    a = resolve(a)
    b = resolve(b)
    if a is b:
        return
    if isinstance(a, TyVar):
        if a.intlit and not isinstance(b, TyVar) and b[0] != "int":
            raise Unsupported("type mismatch: integer literal vs %s (%s)" % (b, what))
        if isinstance(b, TyVar) and a.intlit and not b.intlit:
            b.ref = a
        else:
            a.ref = b
        return
    if isinstance(b, TyVar):
        unify(b, a, what)
        return
    if a[0] != b[0]:
        raise Unsupported("type mismatch: %s vs %s (%s)" % (a, b, what))
    if a[0] in ("opt", "vec", "range"):
        unify(a[1], b[1], what)
    elif a[0] == "tuple":
        if len(a[1]) != len(b[1]):
            raise Unsupported("tuple arity (%s)" % what)
        for x, y in zip(a[1], b[1]):
            unify(x, y, what)
    elif a != b:
        raise Unsupported("type mismatch: %s vs %s (%s)" % (a, b, what))


def final(t):
    """resolve, defaulting open integer-literal variables to i32"""
    t = resolve(t)
    if isinstance(t, TyVar):
        if t.intlit:
            return ("int", "i32")
        return ("unit",)
    if t[0] in ("opt", "vec", "range"):
        return (t[0], final(t[1]))
    if t[0] == "tuple":
        return ("tuple", [final(x) for x in t[1]])
    return t


BOOL = ("bool",)
UNIT = ("unit",)
U32 = ("int", "u32")
USIZE = ("int", "usize")

WIDTH = {"u8": 8, "i8": 8, "u16": 16, "i16": 16, "u32": 32, "i32": 32, "u64": 64, "i64": 64,
         "usize": 64, "isize": 64, "u128": 128}


def is_signed(t):
    return t[1][0] == "i"


class FnInfo:
    def __init__(self, node, owner, okind, src_file):
        self.node = node
        self.owner = owner      # None | type name | mod name
        self.okind = okind      # 'free' | 'mod' | 'impl'
        self.name = node.name
        self.params = node.params
        self.selfk = node.selfk
        self.ret = node.ret or UNIT
        self.level = 0          # 0 pure, 1 Except, 2 state monad over `owner`
        self.src_file = src_file
        self.public = node.vis == "pub"
        self.lean = (owner + "." if owner else "") + lean_ident(node.name)
        self.failed = None


LEAN_KW = set("""at from end in fun do then else if let have show by with match open namespace section variable
instance class structure where deriving mut for return break continue try catch finally unless theorem def
example axiom Type Prop Sort nomatch using calc macro syntax prefix infix notation import export private
protected partial unsafe noncomputable local universe mutual opaque abbrev inductive extends hiding renaming
exists obtain suffices infixl infixr postfix attribute elab omit include initialize this true false
and or not some none pure get set modify throw default""".split())


def lean_ident(n):
    if n in LEAN_KW:
        return n + "_"
    return n


class Prog:
    def __init__(self):
        self.newtypes = {}    # name -> field type
        self.structs = {}     # name -> [(f, ty)]
        self.enums = {}       # name -> [(vname, kind, [(f,ty)])]
        self.consts = {}      # name -> node
        self.fns = {}         # key -> FnInfo
        self.order = []       # item emission order: ('type', name) | ('const', name) | ('fn', key)
        self.stateful = set()  # types with a `&mut self` method

    def add_items(self, items, src_file, owner=None, okind="free"):
        for it in items:
            if it.k == "tstruct":
                if len(it.fields) != 1:
                    raise Unsupported("tuple struct %s with %d fields" % (it.name, len(it.fields)))
                self.newtypes[it.name] = it.fields[0]
                self.order.append(("type", it.name))
            elif it.k == "struct":
                self.structs[it.name] = it.fields
                self.order.append(("type", it.name))
            elif it.k == "enum":
                self.enums[it.name] = it.variants
                self.order.append(("type", it.name))
            elif it.k == "const":
                self.consts[it.name] = it
                self.order.append(("const", it.name))
            elif it.k == "impl":
                self.add_items(it.items, src_file, it.name, "impl")
            elif it.k == "mod":
                self.add_items(it.items, src_file, it.name, "mod")
            elif it.k == "fn":
                fi = FnInfo(it, owner, okind, src_file)
                key = (owner + "::" if owner else "") + it.name
                self.fns[key] = fi
                self.order.append(("fn", key))
                if okind == "impl" and it.selfk == "&mut":
                    self.stateful.add(owner)
            else:
                raise Unsupported("item kind %s" % it.k)

    def find_fn(self, path, cur_owner):
        """resolve a call path"""
        if len(path) == 1:
            for key in ((cur_owner + "::" + path[0]) if cur_owner else None, path[0]):
                if key and key in self.fns and (self.fns[key].okind != "impl" or key == path[0]):
                    return self.fns[key]
            if path[0] in self.fns:
                return self.fns[path[0]]
            return None
        key = "::".join(path[-2:])
        return self.fns.get(key)


class Var:
    n = 0

    def __init__(self, name, ty, mut):
        self.name = name
        self.ty = ty
        self.mut = mut
        self.assigned = False


# ------------------------------------------------------------------------------------------ inference

class Infer:
    def __init__(self, prog, fi):
        self.p = prog
        self.fi = fi
        self.scopes = [{}]
        self.selfty = ("adt", fi.owner) if fi.okind == "impl" else None

    def push(self):
        self.scopes.append({})

    def pop(self):
        self.scopes.pop()

    def bind(self, name, ty, mut):
        v = Var(name, ty, mut)
        self.scopes[-1][name] = v
        return v

    def lookup(self, name):
        for s in reversed(self.scopes):
            if name in s:
                return s[name]
        return None

    def run(self):
        fi = self.fi
        for (n, t, m) in fi.params:
            fi.node.__dict__.setdefault("pvars", []).append(self.bind(n, t, m))
        t = self.block(fi.node.body)
        if resolve(fi.ret) != UNIT or t is not None:
            if not self.diverges_block(fi.node.body):
                unify(t if t is not None else UNIT, fi.ret, "return type of " + fi.name)

    def diverges_block(self, b):
        if b.tail is not None:
            return self.diverges(b.tail)
        if b.stmts and b.stmts[-1].k == "expr":
            return self.diverges(b.stmts[-1].e)
        return False

    def diverges(self, e):
        if e.k == "return":
            return True
        if e.k == "macro" and e.name in ("panic", "unreachable", "unimplemented"):
            return True
        if e.k == "block":
            return self.diverges_block(e)
        return False

    def block(self, b):
        self.push()
        for s in b.stmts:
            if s.k == "let":
                t = None
                if s.init is not None:
                    t = self.expr(s.init)
                if s.dty is not None:
                    if t is not None:
                        unify(t, s.dty, "let at line %d" % s.line)
                    t = s.dty
                if t is None:
                    t = TyVar(False)
                self.pat(s.pat, t, deferred=(s.init is None))
            else:
                self.expr(s.e)
        t = UNIT
        if b.tail is not None:
            t = self.expr(b.tail)
        b.ty = t
        self.pop()
        return t

    def pat(self, p, t, deferred=False):
        p.ty = t
        if p.k == "pid":
            p.var = self.bind(p.name, t, p.mut or deferred)
        elif p.k == "pwild":
            pass
        elif p.k == "plit":
            unify(self.expr(p.e), t, "literal pattern")
        elif p.k == "ptuple":
            ts = [TyVar(False) for _ in p.ps]
            unify(t, ("tuple", ts), "tuple pattern")
            for q, qt in zip(p.ps, ts):
                self.pat(q, qt)
        elif p.k == "pctor":
            path = p.path
            if path == ["Some"]:
                inner = TyVar(False)
                unify(t, ("opt", inner), "Some pattern")
                self.pat(p.ps[0], inner)
            elif path == ["None"]:
                unify(t, ("opt", TyVar(False)), "None pattern")
            elif len(path) == 1 and path[0] in self.p.newtypes:
                unify(t, ("adt", path[0]), "newtype pattern")
                self.pat(p.ps[0], self.p.newtypes[path[0]])
            elif len(path) == 2 and path[0] in self.p.enums:
                unify(t, ("adt", path[0]), "enum pattern")
                var = [v for v in self.p.enums[path[0]] if v[0] == path[1]]
                if not var:
                    raise Unsupported("unknown variant %s" % "::".join(path))
                p.variant = var[0]
                if len(p.ps) != len(var[0][2]):
                    raise Unsupported("variant pattern arity %s" % "::".join(path))
                for q, (fn, ft) in zip(p.ps, var[0][2]):
                    self.pat(q, ft)
            else:
                raise Unsupported("pattern %s at line %d" % ("::".join(path), p.line))
        elif p.k == "pstruct":
            path = p.path
            if len(path) == 1 and path[0] in self.p.structs:
                unify(t, ("adt", path[0]), "struct pattern")
                fts = dict(self.p.structs[path[0]])
                for fn, q in p.fs:
                    self.pat(q, fts[fn])
            elif len(path) == 2 and path[0] in self.p.enums:
                unify(t, ("adt", path[0]), "enum pattern")
                var = [v for v in self.p.enums[path[0]] if v[0] == path[1]][0]
                p.variant = var
                fts = dict(var[2])
                for fn, q in p.fs:
                    self.pat(q, fts[fn])
            else:
                raise Unsupported("struct pattern %s" % "::".join(path))
        else:
            raise Unsupported("pattern kind " + p.k)

    def expr(self, e):
        t = self.expr_(e)
        e.ty = t
        return t

    def expr_(self, e):
        k = e.k
        P = self.p
        if k == "lit":
            return ("int", e.suf) if e.suf else TyVar(True)
        if k == "bool":
            return BOOL
        if k == "str":
            return ("str",)
        if k == "paren":
            return self.expr(e.e)
        if k == "ref":
            return self.expr(e.e)
        if k == "tuple":
            if not e.es:
                return UNIT
            return ("tuple", [self.expr(x) for x in e.es])
        if k == "path":
            path = e.path
            if len(path) == 1:
                n = path[0]
                if n == "self":
                    e.res = ("self",)
                    return self.selfty
                v = self.lookup(n)
                if v is not None:
                    e.res = ("var", v)
                    return v.ty
                if n in P.consts:
                    e.res = ("const", n)
                    return P.consts[n].dty
                if n == "None":
                    e.res = ("none",)
                    return ("opt", TyVar(False))
                raise Unsupported("unknown name `%s` at line %d" % (n, e.line))
            if len(path) == 2 and path[0] in P.enums:
                var = [v for v in P.enums[path[0]] if v[0] == path[1]]
                if var and var[0][1] == "unit":
                    e.res = ("variant", path[0], path[1])
                    return ("adt", path[0])
            if len(path) == 2 and path[0] in WIDTH and path[1] in ("MAX", "MIN"):
                e.res = ("intconst", path[0], path[1])
                return ("int", path[0])
            raise Unsupported("unknown path `%s` at line %d" % ("::".join(path), e.line))
        if k == "un":
            t = self.expr(e.e)
            return t
        if k == "cast":
            self.expr(e.e)
            return e.to
        if k == "bin":
            lt = self.expr(e.l)
            rt = self.expr(e.r)
            if e.op in ("&&", "||"):
                unify(lt, BOOL, "&&")
                unify(rt, BOOL, "&&")
                return BOOL
            if e.op in ("==", "!=", "<", ">", "<=", ">="):
                unify(lt, rt, "comparison at line %d" % e.line)
                return BOOL
            if e.op in ("<<", ">>"):
                return lt
            unify(lt, rt, "operator %s at line %d" % (e.op, e.line))
            return lt
        if k == "assign":
            lt = self.expr(e.lhs)
            rt = self.expr(e.rhs)
            if e.op not in ("<<=", ">>="):
                unify(lt, rt, "assignment at line %d" % e.line)
            if e.lhs.k == "path" and getattr(e.lhs, "res", ("",))[0] == "var":
                e.lhs.res[1].assigned = True
            return UNIT
        if k == "field":
            t = resolve(self.expr(e.e))
            if isinstance(t, TyVar) or t[0] != "adt":
                raise Unsupported("field access on %s at line %d" % (t, e.line))
            if t[1] in P.newtypes and e.name == "0":
                return P.newtypes[t[1]]
            if t[1] in P.structs:
                for fn, ft in P.structs[t[1]]:
                    if fn == e.name:
                        return ft
            raise Unsupported("unknown field %s.%s at line %d" % (t[1], e.name, e.line))
        if k == "index":
            t = self.expr(e.e)
            if e.idx.k == "range":
                self.expr(e.idx.lo)
                unify(e.idx.lo.ty, USIZE, "slice index")
                e.idx.ty = ("range", USIZE)
                return ("slice", t)
            it = self.expr(e.idx)
            unify(it, USIZE, "index")
            el = TyVar(False)
            unify(t, ("vec", el), "indexing")
            return el
        if k == "range":
            a = self.expr(e.lo)
            b = self.expr(e.hi)
            unify(a, b, "range")
            return ("range", a)
        if k == "structlit":
            path = e.path
            if len(path) == 1 and path[0] in P.structs:
                fts = dict(P.structs[path[0]])
                for fn, fe in e.fs:
                    unify(self.expr(fe), fts[fn], "field %s" % fn)
                return ("adt", path[0])
            if len(path) == 2 and path[0] in P.enums:
                var = [v for v in P.enums[path[0]] if v[0] == path[1]][0]
                e.variant = var
                fts = dict(var[2])
                for fn, fe in e.fs:
                    unify(self.expr(fe), fts[fn], "field %s" % fn)
                return ("adt", path[0])
            raise Unsupported("struct literal %s" % "::".join(path))
        if k == "call":
            return self.call(e)
        if k == "mcall":
            return self.mcall(e)
        if k == "macro":
            if e.name == "assert":
                unify(self.expr(e.args[0]), BOOL, "assert!")
                return UNIT
            if e.name in ("assert_eq", "assert_ne"):
                unify(self.expr(e.args[0]), self.expr(e.args[1]), "assert_eq!")
                return UNIT
            if e.name in ("panic", "unreachable", "unimplemented"):
                return TyVar(False)
            raise Unsupported("macro %s! at line %d" % (e.name, e.line))
        if k == "if":
            unify(self.expr(e.c), BOOL, "if condition")
            tt = self.block(e.then)
            if e.els is None:
                return UNIT
            et = self.expr(e.els) if e.els.k == "if" else self.block(e.els)
            e.els.ty = et
            if self.diverges_block(e.then):
                return et
            if e.els.k == "block" and self.diverges_block(e.els):
                return tt
            unify(tt, et, "if branches at line %d" % e.line)
            return tt
        if k == "match":
            st = self.expr(e.scr)
            rt = None
            for pats, body in e.arms:
                self.push()
                for q in pats:
                    self.pat(q, st)
                bt = self.expr(body) if body.k != "block" else self.block(body)
                body.ty = bt
                self.pop()
                if self.diverges(body):
                    continue
                if rt is None:
                    rt = bt
                else:
                    unify(rt, bt, "match arms at line %d" % e.line)
            return rt if rt is not None else UNIT
        if k == "block":
            return self.block(e)
        if k == "while":
            unify(self.expr(e.c), BOOL, "while")
            self.block(e.body)
            return UNIT
        if k == "for":
            it = resolve(self.expr(e.it))
            self.push()
            if not isinstance(it, TyVar) and it[0] == "range":
                self.pat(e.pat, it[1])
            elif not isinstance(it, TyVar) and it[0] == "vec":
                self.pat(e.pat, it[1])
            else:
                raise Unsupported("for over %s at line %d" % (it, e.line))
            self.block(e.body)
            self.pop()
            return UNIT
        if k == "return":
            if e.e is not None:
                unify(self.expr(e.e), self.fi.ret, "return")
            return TyVar(False)
        if k == "break":
            return TyVar(False)
        raise Unsupported("expression kind %s at line %d" % (k, e.line))

    def call(self, e):
        P = self.p
        if e.f.k != "path":
            raise Unsupported("call of a non-path at line %d" % e.line)
        path = e.f.path
        ats = [self.expr(a) for a in e.args]
        if path == ["Some"]:
            e.res = ("some",)
            return ("opt", ats[0])
        if path == ["Vec", "new"]:
            e.res = ("vecnew",)
            return ("vec", TyVar(False))
        if path[-2:] == ["mem", "replace"]:
            e.res = ("memreplace",)
            unify(ats[0], ats[1], "mem::replace")
            return ats[0]
        if len(path) == 1 and path[0] in P.newtypes:
            e.res = ("newtype", path[0])
            unify(ats[0], P.newtypes[path[0]], "newtype constructor")
            return ("adt", path[0])
        if len(path) == 2 and path[0] in P.enums:
            var = [v for v in P.enums[path[0]] if v[0] == path[1]]
            if var:
                e.res = ("variantctor", path[0], var[0])
                for a, (fn, ft) in zip(ats, var[0][2]):
                    unify(a, ft, "variant argument")
                return ("adt", path[0])
        fi = P.find_fn(path, self.fi.owner if self.fi.okind in ("mod",) else None)
        if fi is None or fi.selfk is not None:
            raise Unsupported("call of unknown function `%s` at line %d" % ("::".join(path), e.line))
        if len(fi.params) != len(ats):
            raise Unsupported("arity of %s at line %d" % (fi.name, e.line))
        for a, (pn, pt, pm) in zip(ats, fi.params):
            unify(a, pt, "argument %s of %s at line %d" % (pn, fi.name, e.line))
        e.res = ("fn", fi)
        return fi.ret

    def mcall(self, e):
        P = self.p
        rt = resolve(self.expr(e.recv))
        ats = [self.expr(a) for a in e.args]
        name = e.name
        if e.targs is not None and name.startswith("write_u"):
            e.res = ("write_le", int(name[7:]) // 8)
            return ("ioresult",)
        if isinstance(rt, TyVar):
            if rt.intlit and name in ("trailing_zeros", "leading_zeros", "wrapping_add"):
                pass
            else:
                raise Unsupported("method .%s on unknown type at line %d" % (name, e.line))
        if not isinstance(rt, TyVar) and rt == ("tryinto",):
            if name in ("expect", "unwrap"):
                e.res = ("tryinto_unwrap",)
                e.ty_target = TyVar(True)
                return e.ty_target
        if not isinstance(rt, TyVar) and rt == ("ioresult",) and name in ("unwrap", "expect"):
            e.res = ("io_unwrap",)
            return UNIT
        if not isinstance(rt, TyVar) and rt[0] == "adt":
            key = rt[1] + "::" + name
            if key in P.fns and P.fns[key].selfk is not None:
                fi = P.fns[key]
                if len(fi.params) != len(ats):
                    raise Unsupported("arity of %s at line %d" % (key, e.line))
                for a, (pn, pt, pm) in zip(ats, fi.params):
                    unify(a, pt, "argument %s of %s at line %d" % (pn, key, e.line))
                e.res = ("method", fi)
                return fi.ret
            if name == "into" and not ats:
                e.res = ("identity",)
                return rt
        if isinstance(rt, TyVar) or rt[0] == "int":
            if name in ("trailing_zeros", "leading_zeros") and not ats:
                e.res = ("intop", name)
                return U32
            if name == "wrapping_add":
                unify(rt, ats[0], "wrapping_add")
                e.res = ("intop", name)
                return rt
            if name == "try_into" and not ats:
                e.res = ("tryinto",)
                return ("tryinto",)
        if not isinstance(rt, TyVar) and rt[0] == "vec":
            if name == "len" and not ats:
                e.res = ("veclen",)
                return USIZE
            if name == "push":
                unify(rt[1], ats[0], "push")
                e.res = ("vecpush",)
                return UNIT
        if not isinstance(rt, TyVar) and rt[0] == "opt":
            if name in ("unwrap", "expect"):
                e.res = ("optunwrap",)
                return rt[1]
            if name in ("is_none", "is_some") and not ats:
                e.res = ("opttest", name)
                return BOOL
        raise Unsupported("method .%s on %s at line %d" % (name, rt, e.line))


# ------------------------------------------------------------------------------------------ emission

class NeedsEffects(Exception):
    """raised while emitting a function at level 0 when a construct needs the error/state monad"""


def lty(t):
    t = final(t)
    if t[0] == "int":
        return "BitVec %d" % WIDTH[t[1]]
    if t[0] == "bool":
        return "Bool"
    if t[0] == "adt":
        return t[1]
    if t[0] == "opt":
        return "Option (%s)" % lty(t[1])
    if t[0] == "vec":
        return "Array (%s)" % lty(t[1])
    if t[0] == "tuple":
        return "(" + " × ".join(lty(x) for x in t[1]) + ")"
    if t[0] == "unit":
        return "Unit"
    raise Unsupported("no Lean type for %s" % (t,))


def tonat(x):
    return ("(%s).toNat" % x) if re.search(r"#\d+$", x) else x + ".toNat"


def lit(v, t):
    w = WIDTH[t[1]]
    return "%d#%d" % (v % (1 << w), w)


def in_range(v, t):
    w = WIDTH[t[1]]
    if is_signed(t):
        return -(1 << (w - 1)) <= v < (1 << (w - 1))
    return 0 <= v < (1 << w)


class Emit:
    def __init__(self, prog, fi, level):
        self.p = prog
        self.fi = fi
        self.level = level
        self.lines = []
        self.ind = 1
        self.tmp = 0
        self.calls = set()
        self.stateful = fi.okind == "impl" and fi.owner in prog.stateful and fi.selfk is not None
        self.file = os.path.basename(fi.src_file)
        self.in_nested = 0
        self.loop_depth = 0

    # -- output helpers
    def out(self, s):
        self.lines.append("  " * self.ind + s)

    def fresh(self, base="t"):
        self.tmp += 1
        return "%s%d_" % (base, self.tmp)

    def need(self, why):
        if self.level == 0:
            raise NeedsEffects(why)

    def bindm(self, rhs, base="t"):
        """let t ← rhs"""
        self.need("monadic bind")
        t = self.fresh(base)
        self.out("let %s ← %s" % (t, rhs))
        return t

    def msg(self, e, what):
        return '"%s at %s:%d"' % (what, self.file, e.line)

    def trial(self, f):
        """run f() into a scratch buffer; returns (result, lines)"""
        saved = self.lines
        self.lines = []
        try:
            r = f()
            return r, self.lines
        finally:
            self.lines = saved

    # -- constants
    def cv(self, e):
        """mathematical value of a literal-only integer expression (Rust const evaluation), else None"""
        k = e.k
        if k == "lit":
            return e.v
        if k == "paren":
            return self.cv(e.e)
        t = final(e.ty) if e.ty is not None else None
        if k == "path" and getattr(e, "res", ("",))[0] == "intconst":
            w = WIDTH[e.res[1]]
            sg = e.res[1][0] == "i"
            if e.res[2] == "MAX":
                return (1 << (w - 1)) - 1 if sg else (1 << w) - 1
            return -(1 << (w - 1)) if sg else 0
        if t is None or t[0] != "int":
            return None
        w = WIDTH[t[1]]
        if k == "un":
            v = self.cv(e.e)
            if v is None:
                return None
            if e.op == "-":
                r = -v
            elif e.op == "!":
                r = ~v if is_signed(t) else ((1 << w) - 1) ^ v
            else:
                return None
            if not in_range(r, t):
                raise Unsupported("constant overflow at line %d" % e.line)
            return r
        if k == "cast":
            v = self.cv(e.e)
            ft = final(e.e.ty)
            if v is None or ft[0] != "int":
                return None
            r = v % (1 << w)
            if is_signed(t) and r >= (1 << (w - 1)):
                r -= 1 << w
            return r
        if k == "bin" and e.op not in ("&&", "||", "==", "!=", "<", ">", "<=", ">="):
            a = self.cv(e.l)
            b = self.cv(e.r)
            if a is None or b is None:
                return None
            op = e.op
            if op == "+":
                r = a + b
            elif op == "-":
                r = a - b
            elif op == "*":
                r = a * b
            elif op == "|":
                r = a | b
            elif op == "&":
                r = a & b
            elif op == "^":
                r = a ^ b
            elif op == "<<":
                if not 0 <= b < w:
                    raise Unsupported("constant shift overflow at line %d" % e.line)
                r = (a << b) % (1 << w)
                if is_signed(t) and r >= (1 << (w - 1)):
                    r -= 1 << w
            elif op == ">>":
                if not 0 <= b < w:
                    raise Unsupported("constant shift overflow at line %d" % e.line)
                r = a >> b
            elif op == "/" and b != 0:
                r = abs(a) // abs(b) * (1 if (a < 0) == (b < 0) else -1)
            elif op == "%" and b != 0:
                r = abs(a) % abs(b) * (1 if a >= 0 else -1)
            else:
                return None
            if not in_range(r, t):
                raise Unsupported("constant overflow at line %d" % e.line)
            return r
        return None

    # -- values
    def val(self, e):
        t = final(e.ty)
        if t[0] == "int":
            c = self.cv(e)
            if c is not None:
                if not in_range(c, t):
                    raise Unsupported("literal %d out of range for %s at line %d" % (c, t[1], e.line))
                return lit(c, t)
        k = e.k
        if k == "bool":
            return "true" if e.v else "false"
        if k in ("paren", "ref"):
            return self.val(e.e)
        if k == "tuple":
            if not e.es:
                return "()"
            return "(" + ", ".join(self.val(x) for x in e.es) + ")"
        if k == "path":
            r = e.res
            if r[0] == "self":
                if self.stateful:
                    return self.bindm("get", "s")
                return "self"
            if r[0] == "var":
                return lean_ident(r[1].name)
            if r[0] == "const":
                return lean_ident(r[1])
            if r[0] == "none":
                return "none"
            if r[0] == "variant":
                return "%s.%s" % (r[1], r[2])
            raise Unsupported("path value %s" % (r,))
        if k == "un":
            if e.op == "*":
                return self.val(e.e)
            x = self.val(e.e)
            if e.op == "!":
                return "(!%s)" % x if t[0] == "bool" else "(~~~%s)" % x
            if e.op == "-":
                if not is_signed(t):
                    raise Unsupported("negation of unsigned at line %d" % e.line)
                return self.bindm("negS %s" % x)
        if k == "cast":
            return self.cast(e)
        if k == "bin":
            return self.binop(e.op, e.l, e.r, e)
        if k == "field":
            x = self.val(e.e)
            if e.name == "0":
                return "%s.v" % x
            return "%s.%s" % (x, lean_ident(e.name))
        if k == "index":
            a = self.val(e.e)
            i = self.val(e.idx)
            return self.bindm("vecIndex %s %s" % (a, i))
        if k == "structlit":
            if len(e.path) == 1:
                fs = ", ".join("%s := %s" % (lean_ident(fn), self.val(fe)) for fn, fe in e.fs)
                return "({ %s } : %s)" % (fs, e.path[0])
            vals = dict((fn, self.val(fe)) for fn, fe in e.fs)
            return "(%s.%s %s)" % (e.path[0], e.path[1], " ".join(vals[fn] for fn, _ in e.variant[2]))
        if k == "call":
            return self.call(e)
        if k == "mcall":
            return self.mcall(e, want_value=True)
        if k in ("if", "match", "block"):
            return self.nested_value(e)
        if k == "macro" and e.name in ("panic", "unreachable", "unimplemented"):
            self.need("panic")
            return self.bindm("(throw %s : Except String (%s))" % (self.msg(e, e.name), lty(t)))
        raise Unsupported("value of expression kind %s at line %d" % (k, e.line))

    def cast(self, e):
        ft = final(e.e.ty)
        tt = final(e.to)
        x = self.val(e.e)
        if tt[0] != "int":
            raise Unsupported("cast to %s at line %d" % (tt, e.line))
        w = WIDTH[tt[1]]
        if ft[0] == "bool":
            return "(if %s then 1#%d else 0#%d)" % (x, w, w)
        if ft[0] != "int":
            raise Unsupported("cast from %s at line %d" % (ft, e.line))
        fw = WIDTH[ft[1]]
        if fw == w:
            return x
        if w > fw and is_signed(ft):
            return "(BitVec.signExtend %d %s)" % (w, x)
        return "(BitVec.setWidth %d %s)" % (w, x)

    def binop(self, op, l, r, e):
        if op in ("&&", "||"):
            a = self.val(l)
            b, lines = self.trial(lambda: self.val(r))
            if not lines:
                return "(%s %s %s)" % (a, op, b)
            self.need("short-circuit with effects")
            t = self.fresh()
            self.out("let %s ← do" % t)
            self.ind += 1
            self.out("if %s then" % (a if op == "&&" else "!" + a))
            self.ind += 1
            self.in_nested += 1
            b = self.val(r)
            self.in_nested -= 1
            self.out("pure %s" % b)
            self.ind -= 1
            self.out("else")
            self.out("  pure %s" % ("false" if op == "&&" else "true"))
            self.ind -= 1
            return t
        lt = final(l.ty)
        if op in ("==", "!="):
            a = self.val(l)
            b = self.val(r)
            if lt[0] == "adt" and lt[1] in self.p.newtypes:
                a, b = a + ".v", b + ".v"
            return "(%s %s %s)" % (a, op, b)
        if op in ("<", ">", "<=", ">="):
            a = self.val(l)
            b = self.val(r)
            if lt[0] != "int":
                raise Unsupported("ordering on %s at line %d" % (lt, e.line))
            if op in (">", ">="):
                a, b = b, a
            f = ("s" if is_signed(lt) else "u") + ("lt" if op in ("<", ">") else "le")
            return "(BitVec.%s %s %s)" % (f, a, b)
        if lt[0] != "int":
            raise Unsupported("operator %s on %s at line %d" % (op, lt, e.line))
        sg = is_signed(lt)
        a = self.val(l)
        if op in ("<<", ">>"):
            n = self.cv(r)
            if n is not None:
                if not 0 <= n < WIDTH[lt[1]]:
                    self.need("shift overflow")
                    return self.bindm("(throw %s : Except String (%s))" % (self.msg(e, "shift overflow"), lty(lt)))
                if op == "<<":
                    return "(%s <<< %d)" % (a, n)
                return "(BitVec.sshiftRight %s %d)" % (a, n) if sg else "(%s >>> %d)" % (a, n)
            b = self.val(r)
            f = "shlC" if op == "<<" else ("shrS" if sg else "shrU")
            return self.bindm("%s %s %s" % (f, a, tonat(b)))
        b = self.val(r)
        if op == "|":
            return "(%s ||| %s)" % (a, b)
        if op == "&":
            return "(%s &&& %s)" % (a, b)
        if op == "^":
            return "(%s ^^^ %s)" % (a, b)
        if op in ("/", "%"):
            c = self.cv(r)
            if c is not None and c != 0 and c != -1:
                if sg:
                    return "(BitVec.%s %s %s)" % ("sdiv" if op == "/" else "srem", a, b)
                return "(%s %s %s)" % (a, op, b)
            return self.bindm("%s%s %s %s" % ("div" if op == "/" else "rem", "S" if sg else "U", a, b))
        f = {"+": "add", "-": "sub", "*": "mul"}[op] + ("S" if sg else "U")
        return self.bindm("%s %s %s" % (f, a, b))

    def fn_app(self, fi, args, self_arg=None):
        self.calls.add(fi)
        xs = ([self_arg] if self_arg is not None else []) + args
        app = " ".join([fi.lean] + xs)
        return app

    def call(self, e):
        r = e.res
        if r[0] == "some":
            return "(some %s)" % self.val(e.args[0])
        if r[0] == "vecnew":
            return "#[]"
        if r[0] == "newtype":
            return "(%s.mk %s)" % (r[1], self.val(e.args[0]))
        if r[0] == "variantctor":
            return "(%s.%s %s)" % (r[1], r[2][0], " ".join(self.val(a) for a in e.args))
        if r[0] == "memreplace":
            place = e.args[0]
            while place.k in ("ref", "paren"):
                place = place.e
            if not (self.stateful and place.k == "field" and place.e.k == "path" and place.e.path == ["self"]):
                raise Unsupported("mem::replace on something other than a field of self at line %d" % e.line)
            nv = self.val(e.args[1])
            s = self.bindm("get", "s")
            self.out("set { %s with %s := %s }" % (s, lean_ident(place.name), nv))
            return "%s.%s" % (s, lean_ident(place.name))
        if r[0] == "fn":
            fi = r[1]
            args = [self.val(a) for a in e.args]
            app = self.fn_app(fi, args)
            if fi.level == 0:
                return "(%s)" % app if args else app
            return self.bindm(app)
        raise Unsupported("call %s at line %d" % (r, e.line))

    def is_self_field(self, e):
        while e.k in ("ref", "paren"):
            e = e.e
        return e.k == "field" and e.e.k == "path" and e.e.path == ["self"]

    def mcall(self, e, want_value):
        r = e.res
        P = self.p
        if r[0] == "identity":
            return self.val(e.recv)
        if r[0] == "intop":
            x = self.val(e.recv)
            if r[1] == "trailing_zeros":
                return "(ctz %s)" % x
            if r[1] == "leading_zeros":
                return "(clz %s)" % x
            return "(%s + %s)" % (x, self.val(e.args[0]))
        if r[0] == "tryinto_unwrap":
            inner = e.recv
            x = self.val(inner.recv)
            tt = final(e.ty)
            return self.bindm("tryInto %d %s %s" % (WIDTH[tt[1]], "true" if is_signed(tt) else "false", x))
        if r[0] == "optunwrap":
            x = self.val(e.recv)
            return self.bindm("optExpect %s %s" % (x, self.msg(e, "unwrap on None")))
        if r[0] == "opttest":
            x = self.val(e.recv)
            return "%s.%s" % (x, "isNone" if r[1] == "is_none" else "isSome")
        if r[0] == "veclen":
            return "(BitVec.ofNat 64 %s.size)" % self.val(e.recv)
        if r[0] == "vecpush":
            if not (self.stateful and self.is_self_field(e.recv)):
                raise Unsupported("push on something other than a field of self at line %d" % e.line)
            f = e.recv
            while f.k != "field":
                f = f.e
            v = self.val(e.args[0])
            self.need("state")
            self.out("modify fun s_ => { s_ with %s := s_.%s.push %s }" % (lean_ident(f.name), lean_ident(f.name), v))
            return "()"
        if r[0] == "io_unwrap":
            w = e.recv
            n = w.res[1]
            v = self.val(w.args[0])
            tgt = w.recv
            while tgt.k in ("paren", "ref"):
                tgt = tgt.e
            self.need("state")
            if self.stateful and self.is_self_field(tgt):
                f = lean_ident(tgt.name)
                self.out("modify fun s_ => { s_ with %s := pushLE s_.%s %s %d }" % (f, f, tonat(v), n))
                return "()"
            if tgt.k == "index" and tgt.idx.k == "range" and tgt.idx.hi is None and self.is_self_field(tgt.e):
                f = tgt.e
                while f.k != "field":
                    f = f.e
                f = lean_ident(f.name)
                pos = self.val(tgt.idx.lo)
                s = self.bindm("get", "s")
                c = self.bindm("overwriteLE %s.%s %s %s %d" % (s, f, tonat(pos), tonat(v), n))
                self.out("set { %s with %s := %s }" % (s, f, c))
                return "()"
            raise Unsupported("write_u%d on an unsupported target at line %d" % (n * 8, e.line))
        if r[0] == "method":
            fi = r[1]
            args = [self.val(a) for a in e.args]
            callee_stateful = fi.owner in P.stateful
            if not callee_stateful:
                x = self.val(e.recv)
                app = self.fn_app(fi, args, x)
                if fi.level == 0:
                    return "(%s)" % app
                return self.bindm(app)
            self.need("state")
            recv = e.recv
            while recv.k in ("paren", "ref"):
                recv = recv.e
            app = self.fn_app(fi, args)
            unit = final(fi.ret) == UNIT
            if recv.k == "path" and recv.path == ["self"] and fi.owner == self.fi.owner and self.stateful:
                if unit:
                    self.out(app)
                    return "()"
                return self.bindm(app)
            if self.stateful and self.is_self_field(recv):
                f = lean_ident(recv.name)
                s = self.bindm("get", "s")
                t = self.fresh()
                b = self.fresh("b")
                self.out("let (%s, %s) ← (%s).run %s.%s" % (t, b, app, s, f))
                self.out("set { %s with %s := %s }" % (s, f, b))
                return "()" if unit else t
            raise Unsupported("call of stateful method %s on an unsupported receiver at line %d" % (fi.name, e.line))
        raise Unsupported("method call %s at line %d" % (r, e.line))

    def nested_value(self, e):
        """if / match / block in value position"""
        if e.k == "if" and e.els is not None and not e.then.stmts and e.then.tail is not None:
            # try a pure term
            def attempt():
                c = self.val(e.c)
                a = self.val(e.then.tail)
                if e.els.k == "if":
                    b = self.val(e.els)
                elif not e.els.stmts and e.els.tail is not None:
                    b = self.val(e.els.tail)
                else:
                    raise NeedsEffects("branch with statements")
                return "(if %s then %s else %s)" % (c, a, b)
            try:
                saved_tmp = self.tmp
                r, lines = self.trial(attempt)
                if not lines:
                    return r
                self.tmp = saved_tmp
            except NeedsEffects:
                if self.level == 0:
                    raise
        if e.k == "block" and not e.stmts and e.tail is not None:
            return self.val(e.tail)
        self.need("nested control flow in value position")
        self.check_no_escape(e)
        t = self.fresh()
        self.out("let %s ← do" % t)
        self.ind += 1
        self.in_nested += 1
        self.tail(e)
        self.in_nested -= 1
        self.ind -= 1
        return t

    def check_no_escape(self, e):
        """a nested do block must not return / break / assign outer variables"""
        def walk(x):
            if isinstance(x, N):
                if x.k in ("return", "break"):
                    raise Unsupported("return/break inside a value-position block at line %d" % x.line)
                if x.k == "assign":
                    raise Unsupported("assignment inside a value-position block at line %d" % x.line)
                for v in x.__dict__.values():
                    walk(v)
            elif isinstance(x, (list, tuple)):
                for y in x:
                    walk(y)
        walk(e)

    # -- patterns
    def lpat(self, p):
        if p.k == "pwild":
            return "_"
        if p.k == "pid":
            return lean_ident(p.name)
        if p.k == "plit":
            return self.val(p.e)
        if p.k == "ptuple":
            return "(" + ", ".join(self.lpat(q) for q in p.ps) + ")"
        if p.k == "pctor":
            if p.path == ["Some"]:
                return "some %s" % self.lpat(p.ps[0])
            if p.path == ["None"]:
                return "none"
            if len(p.path) == 1:
                return "⟨%s⟩" % self.lpat(p.ps[0])
            return ("%s.%s %s" % (p.path[0], p.path[1], " ".join(self.lpat(q) for q in p.ps))).strip()
        if p.k == "pstruct":
            if len(p.path) == 2:
                d = dict(p.fs)
                return "%s.%s %s" % (p.path[0], p.path[1],
                                     " ".join(self.lpat(d[fn]) if fn in d else "_" for fn, _ in p.variant[2]))
            raise Unsupported("struct pattern in match at line %d" % p.line)
        raise Unsupported("pattern " + p.k)

    def let_pat(self, p, v):
        if p.k == "pid":
            mut = "mut " if (p.var.mut and self.level > 0) else ""
            if p.var.mut and p.var.assigned and self.level == 0:
                raise NeedsEffects("mutable variable")
            self.out("let %s%s : %s := %s" % (mut, lean_ident(p.name), lty(p.ty), v))
        elif p.k == "pwild":
            pass
        elif p.k == "ptuple":
            if all(q.k == "pid" and not q.var.assigned for q in p.ps):
                self.out("let (%s) := %s" % (", ".join(lean_ident(q.name) for q in p.ps), v))
            else:
                raise Unsupported("tuple pattern with mutable parts at line %d" % p.line)
        elif p.k == "pstruct" and len(p.path) == 1:
            t = self.fresh("p")
            self.out("let %s := %s" % (t, v))
            for fn, q in p.fs:
                self.let_pat(q, "%s.%s" % (t, lean_ident(fn)))
        elif p.k == "pctor" and len(p.path) == 1 and p.path[0] in self.p.newtypes:
            self.let_pat(p.ps[0], "%s.v" % v)
        else:
            raise Unsupported("let pattern %s at line %d" % (p.k, p.line))

    # -- statements
    def block_stmts(self, b):
        for s in b.stmts:
            if s.k == "let":
                if s.init is None:
                    self.need("deferred initialisation")
                    if s.pat.k != "pid":
                        raise Unsupported("deferred let with a pattern at line %d" % s.line)
                    self.out("let mut %s : %s := default" % (lean_ident(s.pat.name), lty(s.pat.ty)))
                else:
                    self.let_pat(s.pat, self.val(s.init))
            else:
                self.stmt(s.e)

    def stmt(self, e):
        k = e.k
        if k == "paren":
            return self.stmt(e.e)
        if k == "macro":
            self.need("assertion")
            if e.name == "assert":
                self.out("rassert %s %s" % (self.val(e.args[0]), self.msg(e, "assertion failed")))
            elif e.name in ("assert_eq", "assert_ne"):
                fake = N("bin", e.line, op="==" if e.name == "assert_eq" else "!=", l=e.args[0], r=e.args[1])
                fake.ty = BOOL
                self.out("rassert %s %s" % (self.val(fake), self.msg(e, "assertion failed")))
            else:
                self.out("throw %s" % self.msg(e, e.name))
            return
        if k == "assign":
            return self.assign(e)
        if k == "if":
            c = self.val(e.c)
            self.need("if statement") if self.level == 0 else None
            self.out("if %s then" % c)
            self.ind += 1
            self.body_stmt(e.then)
            self.ind -= 1
            if e.els is not None:
                self.out("else")
                self.ind += 1
                if e.els.k == "if":
                    self.stmt(e.els)
                else:
                    self.body_stmt(e.els)
                self.ind -= 1
            return
        if k == "match":
            self.need("match statement")
            s = self.val(e.scr)
            self.out("match %s with" % s)
            for pats, body in e.arms:
                self.out("| " + " | ".join(self.lpat(q) for q in pats) + " =>")
                self.ind += 1
                if body.k == "block":
                    self.body_stmt(body)
                else:
                    n0 = len(self.lines)
                    self.stmt(body)
                    if len(self.lines) == n0:
                        self.out("pure ()")
                self.ind -= 1
            return
        if k == "block":
            self.block_stmts(e)
            if e.tail is not None:
                self.stmt(e.tail)
            return
        if k == "while":
            self.need("loop")
            done = self.fresh("done")
            self.out("let mut %s := false" % done)
            # fuel: a loop over local integers gets a short structural list (the kernel can evaluate it, proofs can
            # unroll it); a loop that depends on the assembler state gets a long range. Running out of fuel is an error.
            def uses_self(x):
                if isinstance(x, N):
                    if x.k == "path" and x.path == ["self"]:
                        return True
                    return any(uses_self(v) for kk, v in x.__dict__.items() if kk != "ty")
                if isinstance(x, (list, tuple)):
                    return any(uses_self(y) for y in x)
                return False
            self.out("for _ in %s do" % ("[0:100000]" if uses_self(e.c) else "List.range 72"))
            self.ind += 1
            c = self.val(e.c)
            self.out("if !%s then" % c)
            self.out("  %s := true" % done)
            self.out("  break")
            self.loop_flags = getattr(self, "loop_flags", []) + [done]
            self.loop_depth += 1
            self.body_stmt(e.body)
            self.loop_depth -= 1
            self.loop_flags.pop()
            self.ind -= 1
            self.out("rassert %s \"loop fuel exhausted (model artefact)\"" % done)
            return
        if k == "for":
            self.need("loop")
            it = e.it
            while it.k in ("paren", "ref"):
                it = it.e
            itt = final(it.ty)
            if it.k == "range":
                lo = self.val(it.lo)
                hi = self.val(it.hi)
                w = WIDTH[itt[1][1]]
                i = self.fresh("i")
                self.out("for %s in [%s:%s] do" % (i, tonat(lo), tonat(hi)))
                self.ind += 1
                if e.pat.k == "pid":
                    self.out("let %s : BitVec %d := BitVec.ofNat %d %s" % (lean_ident(e.pat.name), w, w, i))
                elif e.pat.k != "pwild":
                    raise Unsupported("for pattern at line %d" % e.line)
            elif itt[0] == "vec":
                x = self.val(it)
                self.out("for %s in %s do" % (self.lpat(e.pat), x))
                self.ind += 1
            else:
                raise Unsupported("for over %s at line %d" % (itt, e.line))
            self.loop_flags = getattr(self, "loop_flags", []) + [None]
            self.loop_depth += 1
            self.body_stmt(e.body)
            self.loop_depth -= 1
            self.loop_flags.pop()
            self.ind -= 1
            return
        if k == "return":
            self.need("return")
            if self.in_nested:
                raise Unsupported("return inside a nested block at line %d" % e.line)
            if e.e is None:
                self.out("return ()")
            else:
                self.out("return %s" % self.val(e.e))
            return
        if k == "break":
            self.need("break")
            if self.in_nested:
                raise Unsupported("break inside a nested block at line %d" % e.line)
            flag = self.loop_flags[-1]
            if flag:
                self.out("%s := true" % flag)
            self.out("break")
            return
        if k in ("call", "mcall"):
            t = final(e.ty)
            n0 = len(self.lines)
            v = self.mcall(e, False) if k == "mcall" else self.call(e)
            if v != "()" and len(self.lines) == n0:
                # pure call whose value is dropped
                self.out("let _ := %s" % v)
            return
        # any other expression evaluated for effect
        v = self.val(e)
        return

    def body_stmt(self, b):
        n0 = len(self.lines)
        self.block_stmts(b)
        if b.tail is not None:
            self.stmt(b.tail)
        if len(self.lines) == n0 or self.lines[-1].lstrip().startswith("let "):
            self.out("pure ()")

    def assign(self, e):
        self.need("assignment")
        lhs = e.lhs
        if e.op == "=":
            rv = lambda: self.val(e.rhs)
        else:
            fake = N("bin", e.line, op=e.op[:-1], l=lhs, r=e.rhs)
            fake.ty = lhs.ty
            rv = lambda: self.val(fake)
        if lhs.k == "path" and lhs.res[0] == "var":
            if self.in_nested:
                raise Unsupported("assignment inside a nested block at line %d" % e.line)
            v = rv()
            self.out("%s := %s" % (lean_ident(lhs.res[1].name), v))
            return
        if self.stateful and self.is_self_field(lhs):
            v = rv()
            f = lean_ident(lhs.name)
            self.out("modify fun s_ => { s_ with %s := %s }" % (f, v))
            return
        if self.stateful and lhs.k == "index" and self.is_self_field(lhs.e) and e.op == "=":
            f = lean_ident(lhs.e.name)
            i = self.val(lhs.idx)
            v = rv()
            s = self.bindm("get", "s")
            a = self.bindm("vecSet %s.%s %s %s" % (s, f, i, v))
            self.out("set { %s with %s := %s }" % (s, f, a))
            return
        raise Unsupported("assignment target at line %d" % e.line)

    # -- tail position
    def tail(self, e):
        k = e.k
        ret = "pure " if self.level > 0 else ""
        if k == "paren":
            return self.tail(e.e)
        if k == "block":
            self.block_stmts(e)
            if e.tail is not None:
                return self.tail(e.tail)
            if self.level > 0:
                if not (e.stmts and self.ends_diverging(e)):
                    self.out("pure ()")
                return
            raise NeedsEffects("unit block")
        if k == "if" and e.els is not None:
            c = self.val(e.c)
            self.out("if %s then" % c)
            self.ind += 1
            self.tail(e.then)
            self.ind -= 1
            self.out("else")
            self.ind += 1
            self.tail(e.els)
            self.ind -= 1
            return
        if k == "match":
            s = self.val(e.scr)
            self.out("match %s with" % s)
            for pats, body in e.arms:
                self.out("| " + " | ".join(self.lpat(q) for q in pats) + " =>")
                self.ind += 1
                self.tail(body)
                self.ind -= 1
            return
        if k == "macro" and e.name in ("panic", "unreachable", "unimplemented"):
            self.need("panic")
            self.out("throw %s" % self.msg(e, e.name))
            return
        if k == "return":
            return self.stmt(e)
        t = final(e.ty)
        if t == UNIT and k in ("if", "assign", "macro", "while", "for", "call", "mcall"):
            self.stmt(e)
            if self.level > 0:
                self.out("pure ()")
            return
        v = self.val(e)
        self.out("%s%s" % (ret, v))

    def ends_diverging(self, b):
        last = b.stmts[-1]
        return last.k == "expr" and last.e.k in ("return",) or \
            (last.k == "expr" and last.e.k == "macro" and last.e.name in ("panic", "unreachable", "unimplemented"))

    # -- whole function
    def function(self):
        fi = self.fi
        params = []
        if fi.selfk is not None and not self.stateful:
            params.append("(self : %s)" % fi.owner)
        for (n, t, m) in fi.params:
            params.append("(%s : %s)" % (lean_ident(n), lty(t)))
        rt = lty(fi.ret)
        if self.level == 0:
            head = "def %s %s : %s :=" % (fi.lean, " ".join(params), rt)
        elif self.level == 1:
            head = "def %s %s : Except String (%s) := do" % (fi.lean, " ".join(params), rt)
        else:
            head = "def %s %s : SM %s (%s) := do" % (fi.lean, " ".join(params), fi.owner, rt)
        for v in getattr(fi.node, "pvars", []):
            if v.mut:
                if self.level == 0:
                    raise NeedsEffects("mutable parameter")
                self.out("let mut %s := %s" % (lean_ident(v.name), lean_ident(v.name)))
        self.tail(fi.node.body)
        doc = "/-- `%s%s` (%s:%d) -/" % ((fi.owner + "::") if fi.owner else "", fi.name, self.file, fi.node.line)
        return doc + "\n" + head.replace("  :", " :") + "\n" + "\n".join(self.lines) + "\n"


# ------------------------------------------------------------------------------------------ driver

HEADER = """/-
GENERATED by /verif/tools/rs2lean_a64.py from %s — do not edit.
Regenerated on every `./check C08` run; the theorems in DoraModel/Props/C08.lean are checked against
whatever this file says after regeneration.
-/
"""


def type_deps(t, acc):
    t = resolve(t)
    if isinstance(t, TyVar):
        return
    if t[0] == "adt":
        acc.add(t[1])
    elif t[0] in ("opt", "vec"):
        type_deps(t[1], acc)
    elif t[0] == "tuple":
        for x in t[1]:
            type_deps(x, acc)


def emit_types(P):
    names = list(P.newtypes) + list(P.structs) + list(P.enums)
    deps = {}
    for n in names:
        acc = set()
        if n in P.newtypes:
            type_deps(P.newtypes[n], acc)
        elif n in P.structs:
            for _, ft in P.structs[n]:
                type_deps(ft, acc)
        else:
            for _, _, fs in P.enums[n]:
                for _, ft in fs:
                    type_deps(ft, acc)
        deps[n] = acc - {n}
    done = []
    out = []

    def visit(n, stack=()):
        if n in done:
            return
        if n in stack:
            raise Unsupported("recursive type " + n)
        for d in sorted(deps[n]):
            if d not in deps:
                raise Unsupported("type %s refers to unknown type %s" % (n, d))
            visit(d, stack + (n,))
        done.append(n)
        if n in P.newtypes:
            out.append("structure %s where\n  v : %s\n  deriving DecidableEq, Repr, Inhabited\n" % (n, lty(P.newtypes[n])))
        elif n in P.structs:
            fs = "\n".join("  %s : %s" % (lean_ident(f), lty(t)) for f, t in P.structs[n])
            out.append("structure %s where\n%s\n  deriving Inhabited\n" % (n, fs))
        else:
            vs = []
            for vn, kind, fs in P.enums[n]:
                vs.append("  | %s %s" % (vn, " ".join("(%s : %s)" % (lean_ident(f), lty(t)) for f, t in fs)))
            allunit = all(k == "unit" for _, k, _ in P.enums[n])
            out.append("inductive %s where\n%s\n  deriving %sInhabited\n" % (n, "\n".join(v.rstrip() for v in vs),
                                                                          "DecidableEq, Repr, " if allunit else ""))
    for n in names:
        visit(n)
    return "\n".join(out)


def emit_consts(P):
    out = []
    fake_node = N("fn", 0, name="<const>", params=[], selfk=None, ret=None, body=None, vis="", attrs=[])
    for n, c in P.consts.items():
        fi = FnInfo(fake_node, None, "free", "arm64.rs")
        inf = Infer(P, fi)
        unify(inf.expr(c.init), c.dty, "const " + n)
        em = Emit(P, fi, 0)
        v = em.val(c.init)
        out.append("def %s : %s := %s" % (lean_ident(n), lty(c.dty), v))
    return "\n".join(out) + "\n"


KIND = {"Register": "R", "NeonRegister": "F", "Label": "L", "MemOperand": "M"}


def param_kind(P, t):
    t = final(t)
    if t[0] == "int":
        return t[1]
    if t[0] == "bool":
        return "bool"
    if t[0] == "adt":
        if t[1] in KIND:
            return KIND[t[1]]
        if t[1] in P.enums and all(k == "unit" for _, k, _ in P.enums[t[1]]):
            return "E:" + t[1]
    return None


def ret_kind(P, t):
    t = final(t)
    if t == UNIT:
        return "unit"
    if t[0] == "int":
        return "int"
    if t[0] == "bool":
        return "bool"
    if t == ("adt", "Label"):
        return "label"
    if t[0] == "opt" and final(t[1])[0] == "int":
        return "optint"
    return None


def write_if_changed(path, text):
    if not os.path.exists(path) or open(path).read() != text:
        open(path, "w").write(text)


def translate(repo, lean_out, harness_src, report_path):
    P = Prog()
    report = dict(source=[], translated=[], unmodelled=[], methods=[], functions=[])
    files = [os.path.join(repo, "dora-asm/src/lib.rs"), os.path.join(repo, "dora-asm/src/arm64.rs")]
    for f in files:
        items, src = parse_file(f)
        # lib.rs also declares `pub mod arm64; pub mod x64;` (skipped) — x64 is C07's
        P.add_items(items, f)
        report["source"].append(f)
    failed = {}
    for key, fi in P.fns.items():
        if fi.owner in P.structs and fi.name in [f for f, _ in P.structs[fi.owner]]:
            fi.lean = fi.owner + "." + fi.name + "_fn"     # Lean: a structure field of that name exists
    for key, fi in P.fns.items():
        try:
            Infer(P, fi).run()
        except Unsupported as ex:
            failed[key] = str(ex)
            fi.failed = str(ex)
    for key, fi in P.fns.items():
        fi.level = 2 if (fi.okind == "impl" and fi.owner in P.stateful and fi.selfk is not None) else 0
    texts = {}
    calls = {}
    for rnd in range(12):
        changed = False
        for key, fi in P.fns.items():
            if fi.failed:
                continue
            try:
                em = Emit(P, fi, fi.level)
                texts[key] = em.function()
                calls[key] = em.calls
                bad = [c for c in em.calls if c.failed]
                if bad:
                    raise Unsupported("calls unmodelled `%s`" % bad[0].name)
            except NeedsEffects:
                fi.level = 1
                changed = True
            except Unsupported as ex:
                fi.failed = str(ex)
                failed[key] = str(ex)
                changed = True
        if not changed:
            break
    else:
        raise Unsupported("level fixpoint did not converge")
    # order by call graph
    order = []
    seen = {}
    inv = {fi: key for key, fi in P.fns.items()}

    def visit(key):
        st = seen.get(key)
        if st == 2:
            return
        if st == 1:
            P.fns[key].failed = failed[key] = "recursive function (not supported)"
            return
        seen[key] = 1
        for c in sorted(calls.get(key, ()), key=lambda c: inv[c]):
            visit(inv[c])
        seen[key] = 2
        order.append(key)
    for key in P.fns:
        if not P.fns[key].failed:
            visit(key)
    for key, why in failed.items():
        report["unmodelled"].append(dict(item=key, why=why, line=P.fns[key].node.line))
    # the logical-immediate encoder and what it calls go into a module of their own: the kernel-evaluated round-trip
    # slices (DoraModel/A64/LogImm) depend only on it, so unrelated edits of arm64.rs do not rebuild them
    logimm_keys = set()

    def closure(key):
        if key in logimm_keys or key not in calls:
            return
        logimm_keys.add(key)
        for c in calls[key]:
            closure(inv[c])
    if "encode_logical_imm" in P.fns and not P.fns["encode_logical_imm"].failed:
        closure("encode_logical_imm")
        if any(P.fns[k].okind != "free" for k in logimm_keys):
            logimm_keys = set()
    core, asm, logimm = [], [], []
    for key in order:
        fi = P.fns[key]
        if fi.failed:
            continue
        (logimm if key in logimm_keys else asm if fi.level == 2 else core).append(texts[key])
        report["translated"].append(dict(item=key, level=fi.level, lean=fi.lean))
    os.makedirs(lean_out, exist_ok=True)
    srcs = ", ".join(os.path.relpath(f, repo) for f in files)
    write_if_changed(os.path.join(lean_out, "A64LogImm.lean"),
                     "import DoraModel.A64.Prelude\n" + HEADER % srcs
                     + "set_option linter.unusedVariables false\nnamespace Dora.A64\n\n" + "\n".join(logimm) + "\nend Dora.A64\n")
    with open(os.path.join(lean_out, "A64.lean"), "w") as f:
        f.write("import DoraModel.A64.Prelude\nimport DoraModel.Gen.A64LogImm\n" + HEADER % srcs)
        f.write("set_option linter.unusedVariables false\nnamespace Dora.A64\n\n")
        f.write(emit_types(P) + "\n" + emit_consts(P) + "\n" + "\n".join(core))
        f.write("\nend Dora.A64\n")
    # the stateful part: split into chunks so that the files elaborate in parallel
    chunk = 110
    parts = [asm[i:i + chunk] for i in range(0, len(asm), chunk)] or [[]]
    names = []
    for i, part in enumerate(parts):
        nm = "A64Asm%d" % i if i + 1 < len(parts) else "A64Asm"
        names.append(nm)
        with open(os.path.join(lean_out, nm + ".lean"), "w") as f:
            f.write("import DoraModel.Gen.%s\n" % ("A64" if i == 0 else names[i - 1]) + HEADER % srcs)
            f.write("set_option linter.unusedVariables false\nnamespace Dora.A64\n\n")
            f.write("\n".join(part))
            f.write("\nend Dora.A64\n")
    for stale in os.listdir(lean_out):
        if re.match(r"A64Asm\d+\.lean$", stale) and stale[:-5] not in names:
            os.unlink(os.path.join(lean_out, stale))
    emit_dispatch(P, lean_out, harness_src, report)
    report["counts"] = dict(translated=len(report["translated"]), unmodelled=len(report["unmodelled"]),
                            methods=len(report["methods"]), functions=len(report["functions"]))
    # per-method theorems (C08 sentence 1) over what was just written: Gen/A64Thm<k>.lean, Gen/A64ThmAll.lean
    sys.path.insert(0, os.path.dirname(os.path.abspath(__file__)))
    import gen_c08_thms
    report["method_theorems"] = gen_c08_thms.generate(lean_out, report)
    with open(report_path, "w") as f:
        json.dump(report, f, indent=1)
    return report


# ------------------------------------------------------------------------------------------ dispatch tables

def emit_dispatch(P, lean_out, harness_src, report):
    enums = {n: [v[0] for v in vs] for n, vs in P.enums.items() if all(k == "unit" for _, k, _ in vs)}
    meths = []
    for key, fi in P.fns.items():
        if fi.okind == "impl" and fi.owner == "AssemblerArm64" and fi.public and fi.selfk in ("&", "&mut"):
            kinds = [param_kind(P, t) for (_, t, _) in fi.params]
            rk = ret_kind(P, fi.ret)
            if fi.failed:
                report["methods"].append(dict(name=fi.name, modelled=False, why=fi.failed))
                why = fi.failed
            elif None in kinds or rk is None:
                report["unmodelled"].append(dict(item=key, why="operand type without a request syntax", line=fi.node.line))
                continue
            else:
                report["methods"].append(dict(name=fi.name, modelled=True, kinds=kinds, ret=rk))
            if None not in kinds and rk is not None:
                meths.append((fi, kinds, rk))
    funs = []
    for key, fi in P.fns.items():
        if fi.selfk is None and fi.public and (fi.okind == "free" or (fi.okind == "mod" and fi.owner == "cls")):
            kinds = [param_kind(P, t) for (_, t, _) in fi.params]
            rk = ret_kind(P, fi.ret)
            if None in kinds or rk not in ("int", "bool") or fi.failed:
                continue
            funs.append((fi, kinds, rk))
            report["functions"].append(dict(name=key, kinds=kinds, ret=rk))

    # ---- Rust
    def rarg(kind, i):
        a = "args[%d]" % i
        if kind == "R":
            return "reg(%s)?" % a
        if kind == "F":
            return "freg(%s)?" % a
        if kind == "L":
            return "lbl(labels, %s)?" % a
        if kind.startswith("E:"):
            return "en_%s(%s)?" % (kind[2:].lower(), a)
        if kind == "bool":
            return "(%s == \"true\")" % a
        return "num::<%s>(%s)?" % (kind, a)

    def rargs(kinds):
        res = []
        i = 0
        for k in kinds:
            if k == "M":
                res.append("MemOperand::new(reg(args[%d])?, num::<i64>(args[%d])?)" % (i, i + 1))
                i += 2
            else:
                res.append(rarg(k, i))
                i += 1
        return res, i

    def rret(call, rk):
        if rk == "unit":
            return "%s;" % call
        if rk == "label":
            return "let l = %s; labels.push(l);" % call
        if rk == "optint":
            return "outs.push(match %s { Some(v) => format!(\"some:{}\", v), None => \"none\".to_string() });" % call
        return "outs.push(format!(\"{}\", %s));" % call

    r = ["// GENERATED by /verif/tools/rs2lean_a64.py from dora-asm/src/arm64.rs — do not edit.",
         "use dora_asm::arm64::*;", "use dora_asm::Label;", "use crate::{reg, freg, lbl, num};", ""]
    r.append("pub const ENUMS: &[(&str, &[&str])] = &[")
    for n, vs in enums.items():
        r.append("    (\"%s\", &[%s])," % (n, ", ".join('"%s"' % v for v in vs)))
    r.append("];\n")
    for n, vs in enums.items():
        r.append("pub fn en_%s(s: &str) -> Option<%s> {\n    Some(match s {" % (n.lower(), n))
        for v in vs:
            r.append("        \"%s\" => %s::%s," % (v, n, v))
        r.append("        _ => return None,\n    })\n}\n")
    r.append("/// (method name, operand kinds, modelled in Lean)")
    r.append("pub const METHODS: &[(&str, &[&str], bool)] = &[")
    for fi, kinds, rk in meths:
        r.append("    (\"%s\", &[%s], %s)," % (fi.name, ", ".join('"%s"' % k for k in kinds), "false" if fi.failed else "true"))
    r.append("];\n")
    r.append("pub const FUNCTIONS: &[(&str, &[&str])] = &[")
    for fi, kinds, rk in funs:
        r.append("    (\"%s\", &[%s])," % (fi.name, ", ".join('"%s"' % k for k in kinds)))
    r.append("];\n")
    r.append("#[allow(unused_variables)]")
    r.append("pub fn dispatch(a: &mut AssemblerArm64, labels: &mut Vec<Label>, outs: &mut Vec<String>, name: &str, args: &[&str]) -> Option<()> {")
    r.append("    match name {")
    for fi, kinds, rk in meths:
        xs, n = rargs(kinds)
        r.append("        \"%s\" => {" % fi.name)
        r.append("            if args.len() != %d { return None; }" % n)
        for j, x in enumerate(xs):
            r.append("            let x%d = %s;" % (j, x))
        r.append("            " + rret("a.%s(%s)" % (fi.name, ", ".join("x%d" % j for j in range(len(xs)))), rk))
        r.append("        }")
    r.append("        _ => return None,\n    }\n    Some(())\n}\n")
    r.append("pub fn dispatch_fn(outs: &mut Vec<String>, name: &str, args: &[&str]) -> Option<()> {")
    r.append("    let labels: &Vec<Label> = &Vec::new();\n    let _ = labels;\n    match name {")
    for fi, kinds, rk in funs:
        xs, n = rargs(kinds)
        path = ("cls::" if fi.owner == "cls" else "") + fi.name
        r.append("        \"%s\" => {" % fi.name)
        r.append("            if args.len() != %d { return None; }" % n)
        for j, x in enumerate(xs):
            r.append("            let x%d = %s;" % (j, x))
        r.append("            " + rret("%s(%s)" % (path, ", ".join("x%d" % j for j in range(len(xs)))), rk))
        r.append("        }")
    r.append("        _ => return None,\n    }\n    Some(())\n}")
    os.makedirs(harness_src, exist_ok=True)
    new = "\n".join(r) + "\n"
    dp = os.path.join(harness_src, "dispatch.rs")
    if not os.path.exists(dp) or open(dp).read() != new:
        open(dp, "w").write(new)

    # ---- Lean
    def larg(kind, i):
        a = "a%d" % i
        if kind == "R":
            return "parseReg %s" % a
        if kind == "F":
            return "parseFReg %s" % a
        if kind == "L":
            return "parseLabel d.labels %s" % a
        if kind.startswith("E:"):
            return "parse%s %s" % (kind[2:], a)
        if kind == "bool":
            return "pure (%s == \"true\")" % a
        return "parseNum %d %s %s" % (WIDTH[kind], "true" if kind[0] == "i" else "false", a)

    L = ["import DoraModel.Gen.A64Asm", "import DoraModel.A64.DriverLib", HEADER % "dora-asm/src/arm64.rs",
         "set_option linter.unusedVariables false",
         "namespace Dora.A64", ""]
    for n, vs in enums.items():
        L.append("def parse%s (s : String) : Except String %s :=\n  match s with" % (n, n))
        for v in vs:
            L.append("  | \"%s\" => .ok %s.%s" % (v, n, v))
        L.append("  | _ => .error \"!badreq\"\n")

    def larm(fi, kinds, rk, stateful):
        names = []
        binds = []
        xs = []
        i = 0
        for k in kinds:
            if k == "M":
                names += ["a%d" % i, "a%d" % (i + 1)]
                binds.append("let x%d ← parseReg a%d" % (i, i))
                binds.append("let x%d ← parseNum 64 true a%d" % (i + 1, i + 1))
                xs.append("(MemOperand.new x%d x%d)" % (i, i + 1))
                i += 2
            else:
                names.append("a%d" % i)
                binds.append("let x%d ← %s" % (i, larg(k, i)))
                xs.append("x%d" % i)
                i += 1
        res = ["  | \"%s\", [%s] => do" % (fi.name, ", ".join(names))]
        res += ["    " + b for b in binds]
        app = " ".join([fi.lean] + xs)
        if stateful:
            res.append("    let (r, s) ← panicky ((%s).run d.asm)" % app)
            if rk == "unit":
                res.append("    pure { d with asm := s }")
            elif rk == "label":
                res.append("    pure { d with asm := s, labels := d.labels.push r }")
            elif rk == "optint":
                res.append("    pure { d with asm := s, outs := d.outs.push (match r with | some v => \"some:\" ++ toString v.toNat | none => \"none\") }")
            elif rk == "bool":
                res.append("    pure { d with asm := s, outs := d.outs.push (toString r) }")
            else:
                res.append("    pure { d with asm := s, outs := d.outs.push (toString r.toNat) }")
        else:
            lvl = fi.level
            call = "panicky (%s)" % app if lvl == 1 else "pure (%s)" % app
            res.append("    let r ← %s" % call)
            if rk == "bool":
                res.append("    pure { d with outs := d.outs.push (toString r) }")
            else:
                res.append("    pure { d with outs := d.outs.push (toString r.toNat) }")
        return res

    # several smaller matches elaborate much faster than one with 300 arms
    groups = [meths[i:i + 40] for i in range(0, len(meths), 40)]
    for gi, g in enumerate(groups):
        L.append("def dispatch%d (name : String) (args : List String) (d : Drv) : Except String (Option Drv) :=" % gi)
        L.append("  match name, args with")
        for fi, kinds, rk in g:
            if fi.failed:
                L.append("  | \"%s\", _ => .error \"!unmodelled\"" % fi.name)
                continue
            arm = larm(fi, kinds, rk, True)
            arm[0] = arm[0].replace("=> do", "=> some <$> do")
            L += arm
        L.append("  | _, _ => pure none\n")
    L.append("def dispatchFn (name : String) (args : List String) (d : Drv) : Except String (Option Drv) :=")
    L.append("  match name, args with")
    for fi, kinds, rk in funs:
        arm = larm(fi, kinds, rk, False)
        arm[0] = arm[0].replace("=> do", "=> some <$> do")
        L += arm
    L.append("  | _, _ => pure none\n")
    L.append("def dispatch (name : String) (args : List String) (d : Drv) : Except String Drv := do")
    for gi in range(len(groups)):
        L.append("  if let some r ← dispatch%d name args d then return r" % gi)
    L.append("  if let some r ← dispatchFn name args d then return r")
    L.append("  throw \"!badreq\"\n")
    L.append("def methodNames : List String := [%s]" % ", ".join('"%s"' % fi.name for fi, _, _ in meths))
    L.append("\n/-- operand kinds of every public method (R register, F neon register, L label, M base+offset, E:<enum>, integer types) -/")
    L.append("def methodKinds : List (String × List String) := [")
    L.append(",\n".join("  (\"%s\", [%s])" % (fi.name, ", ".join('"%s"' % k for k in kinds)) for fi, kinds, _ in meths))
    L.append("]")
    L.append("\nend Dora.A64")
    open(os.path.join(lean_out, "A64Dispatch.lean"), "w").write("\n".join(L) + "\n")


if __name__ == "__main__":
    if len(sys.argv) != 5:
        print(__doc__)
        sys.exit(2)
    try:
        rep = translate(*sys.argv[1:5])
    except Unsupported as ex:
        print("rs2lean_a64: cannot translate: %s" % ex)
        sys.exit(1)
    print("rs2lean_a64: translated %(translated)d items, unmodelled %(unmodelled)d, methods %(methods)d, functions %(functions)d"
          % rep["counts"])
    for u in rep["unmodelled"]:
        print("  unmodelled: %s (%s)" % (u["item"], u["why"]))
