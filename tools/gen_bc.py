#!/usr/bin/env python3
"""gen_bc.py — regenerate the C18 tables from /repo/dora-bytecode/src on every check run.

Reads   opcode.rs  (BYTECODE_OPCODE_* numbers)
        data.rs    (enum BytecodeOpcode, From<BytecodeOpcode> for u8, TryFrom<u8>, needs_location)
        reader.rs  (read_instruction arm by arm: which read_* calls in which order; dispatch -> visit_* order;
                    trait BytecodeVisitor signatures)
        writer.rs  (every pub fn emit_*: opcode, helper, operand order on the wire)
Writes  /verif/lean/DoraModel/Gen/BcOpcodes.lean        (Lean tables the proofs and the driver use)
        /verif/harness/crates/c18/src/gen_dispatch.rs   (request -> real emit_* call, real visitor -> listing)

Anything it does not recognise is a broken tie: it raises (exit status 2) instead of skipping.
Stdlib only.
"""
import json
import os
import re
import sys

SRC = "/repo/dora-bytecode/src"
OUT_LEAN = "/verif/lean/DoraModel/Gen/BcOpcodes.lean"
OUT_RS = "/verif/harness/crates/c18/src/gen_dispatch.rs"


class TieError(Exception):
    pass


def need(cond, msg):
    if not cond:
        raise TieError(msg)


def read(name):
    return open(os.path.join(SRC, name), encoding="utf-8").read()


def strip_comments(s):
    return re.sub(r"//[^\n]*", "", s)


def block_after(s, start_idx):
    """Text of the brace block that opens at or after start_idx (without the outer braces), end index."""
    i = s.index("{", start_idx)
    depth = 0
    j = i
    while j < len(s):
        if s[j] == "{":
            depth += 1
        elif s[j] == "}":
            depth -= 1
            if depth == 0:
                return s[i + 1:j], j + 1
        j += 1
    raise TieError("unbalanced braces")


def snake(name):
    return re.sub(r"(?<!^)(?=[A-Z])", "_", name).lower()


# ----------------------------------------------------------------------------- opcode.rs / data.rs

def parse_opcodes():
    opc = strip_comments(read("opcode.rs"))
    consts = {m.group(1): int(m.group(2))
              for m in re.finditer(r"pub const (BYTECODE_OPCODE_\w+): u8 = (\d+);", opc)}
    need(consts, "no BYTECODE_OPCODE_* constants in opcode.rs")
    data = strip_comments(read("data.rs"))
    body, _ = block_after(data, data.index("pub enum BytecodeOpcode"))
    variants = [v.strip() for v in body.split(",") if v.strip()]
    need(all(re.fullmatch(r"\w+", v) for v in variants), "BytecodeOpcode has non-unit variants")
    fbody, _ = block_after(data, data.index("impl From<BytecodeOpcode> for u8"))
    to_byte = {}
    for m in re.finditer(r"BytecodeOpcode::(\w+)\s*=>\s*opc::(\w+)\s*,", fbody):
        need(m.group(2) in consts, "From<BytecodeOpcode>: unknown constant " + m.group(2))
        need(m.group(1) not in to_byte, "From<BytecodeOpcode>: duplicate arm " + m.group(1))
        to_byte[m.group(1)] = consts[m.group(2)]
    need(set(to_byte) == set(variants), "From<BytecodeOpcode> for u8 does not cover the enum: %s"
         % sorted(set(variants) ^ set(to_byte)))
    tbody, _ = block_after(data, data.index("impl TryFrom<u8> for BytecodeOpcode"))
    of_byte = []
    for m in re.finditer(r"opc::(\w+)\s*=>\s*Ok\(BytecodeOpcode::(\w+)\)\s*,", tbody):
        need(m.group(1) in consts, "TryFrom<u8>: unknown constant " + m.group(1))
        of_byte.append((consts[m.group(1)], m.group(2)))
    need(re.search(r"_\s*=>\s*Err\(\(\)\)", tbody), "TryFrom<u8>: no `_ => Err(())` arm")
    need(len(of_byte) == len(re.findall(r"=>", tbody)) - 1, "TryFrom<u8>: unrecognised arm")
    nbody, _ = block_after(data, data.index("pub fn needs_location"))
    m = re.search(r"match \*self \{(.*?)=>\s*true", nbody, re.S)
    need(m, "needs_location: unrecognised shape")
    needs_loc = re.findall(r"BytecodeOpcode::(\w+)", m.group(1))
    need(set(needs_loc) <= set(variants), "needs_location names an unknown opcode")
    return variants, to_byte, of_byte, needs_loc


# ----------------------------------------------------------------------------- reader.rs

READ_KIND = {"register": "reg", "const_pool_idx": "idx", "global": "global", "const": "const",
             "byte": "byte", "index": "var32", "forward_offset": "fixed32", "arguments": "args"}


def parse_reader(variants):
    rd = strip_comments(read("reader.rs"))
    # primitives must be what the hand-written Lean model says they are
    for fn, callee in [("read_register", "read_index"), ("read_global", "read_index"),
                       ("read_const", "read_index"), ("read_const_pool_idx", "read_index"),
                       ("read_forward_offset", "read_u32_fixed"), ("read_index", "read_u32_variable")]:
        b, _ = block_after(rd, rd.index("fn %s(" % fn))
        need(("self.%s()" % callee) in b, "reader: %s no longer calls %s" % (fn, callee))
    b, _ = block_after(rd, rd.index("fn read_arguments("))
    need(re.search(r"let count = self\.read_index\(\) as usize;.*for _ in 0\.\.count \{\s*arguments\.push\(self\.read_register\(\)\);",
                   b, re.S), "reader: read_arguments has an unrecognised shape")
    body, _ = block_after(rd, rd.index("fn read_instruction("))
    mm = re.search(r"let inst = match opcode \{", body)
    need(mm, "read_instruction: no `let inst = match opcode`")
    arms, _ = block_after(body, mm.start())
    pieces = re.split(r"BytecodeOpcode::(\w+)\s*=>", arms)
    need(pieces[0].strip() == "", "read_instruction: text before the first arm")
    layout = {}
    fields = {}   # opcode -> {field name: wire position}
    for k in range(1, len(pieces), 2):
        op, text = pieces[k], pieces[k + 1]
        need(op in variants and op not in layout, "read_instruction: bad/duplicate arm " + op)
        reads = re.findall(r"let (\w+) = self\.read_(\w+)\(\)(?: as u8)?;", text)
        need(len(reads) == len(re.findall(r"self\.read_", text)), "read_instruction %s: unrecognised read" % op)
        for _, r in reads:
            need(r in READ_KIND, "read_instruction %s: unknown read_%s" % (op, r))
        layout[op] = [READ_KIND[r] for _, r in reads]
        m = re.search(r"BytecodeInstruction::(\w+)\s*(\{([^}]*)\})?", text)
        need(m and m.group(1) == op, "read_instruction %s: builds a different instruction" % op)
        fmap = {}
        locs = [v for v, _ in reads]
        if m.group(3):
            for f in [x.strip() for x in m.group(3).split(",") if x.strip()]:
                if ":" in f:
                    fname, lv = [y.strip() for y in f.split(":")]
                else:
                    fname = lv = f
                need(lv in locs, "read_instruction %s: field %s from unknown local %s" % (op, fname, lv))
                fmap[fname] = locs.index(lv)
        need(sorted(fmap.values()) == list(range(len(reads))), "read_instruction %s: a value read is dropped or used twice" % op)
        fields[op] = fmap
    need(set(layout) == set(variants), "read_instruction does not cover: %s" % sorted(set(variants) - set(layout)))
    # dispatch -> visitor order
    dbody, _ = block_after(rd, rd.index("fn dispatch_instruction("))
    pieces = re.split(r"BytecodeInstruction::(\w+)\s*(?:\{([^}]*)\})?\s*=>", dbody)
    visit = {}
    for k in range(1, len(pieces), 3):
        op, pat, text = pieces[k], pieces[k + 1] or "", pieces[k + 2]
        need(op in variants and op not in visit, "dispatch: bad/duplicate arm " + op)
        pf = [x.strip() for x in pat.split(",") if x.strip()]
        m = re.search(r"\.\s*visit_(\w+)\(([^)]*)\)", text)
        need(m, "dispatch %s: no visit_ call" % op)
        args = [re.sub(r"\s+as u8$", "", x.strip()) for x in m.group(2).split(",") if x.strip()]
        need(sorted(args) == sorted(pf) and set(pf) == set(fields[op]), "dispatch %s: fields/arguments mismatch" % op)
        visit[op] = dict(fn="visit_" + m.group(1), perm=[fields[op][a] for a in args])
    need(set(visit) == set(variants), "dispatch does not cover every instruction")
    # visitor trait signatures
    tbody, _ = block_after(rd, rd.index("pub trait BytecodeVisitor"))
    sigs = {}
    for m in re.finditer(r"fn (visit_\w+)\(\s*&mut self,?([^)]*)\)", tbody):
        ps = [x.strip() for x in m.group(2).split(",") if x.strip()]
        sigs[m.group(1)] = [tuple(y.strip() for y in p.split(":")) for p in ps]
    for op, v in visit.items():
        need(v["fn"] in sigs, "visitor trait lacks " + v["fn"])
        v["types"] = [t for _, t in sigs[v["fn"]]]
        need(len(v["types"]) == len(v["perm"]), "visitor %s: arity" % v["fn"])
    return layout, visit


# ----------------------------------------------------------------------------- writer.rs

def parse_fns(src):
    fns = {}
    for m in re.finditer(r"(pub )?fn (\w+)\(\s*(&mut self|mut self|&self)\s*,?([^)]*)\)[^{;]*\{", src):
        body, _ = block_after(src, m.end() - 1)
        ps = [x.strip() for x in m.group(4).split(",") if x.strip()]
        params = []
        for p in ps:
            n, t = p.split(":", 1)
            params.append((n.strip().replace("mut ", ""), t.strip()))
        fns[m.group(2)] = dict(pub=bool(m.group(1)), params=params, body=body)
    return fns


def split_args(s):
    out, depth, cur = [], 0, ""
    for ch in s:
        if ch in "([{":
            depth += 1
        elif ch in ")]}":
            depth -= 1
        if ch == "," and depth == 0:
            out.append(cur.strip())
            cur = ""
        else:
            cur += ch
    if cur.strip():
        out.append(cur.strip())
    return out


TYPE_KIND = {"Register": "reg", "ConstPoolIdx": "idx", "GlobalId": "global", "ConstId": "const", "u32": "var32",
             "u8": "byte"}


def wire_of_values(fn_name, params, body):
    """A helper (or emit fn) whose body is `let values = [...]; self.emit_values(inst, &values); [self.emit_u8(v);]`.
    Returns list of (param name, kind) in wire order; the opcode expression."""
    ptypes = dict(params)
    m = re.search(r"self\.emit_values\(\s*([\w:]+)\s*,\s*&(\w+|\[[^\]]*\])\s*,?\s*\)\s*;", body, re.S)
    need(m, "writer %s: no emit_values call" % fn_name)
    opexpr, vals = m.group(1), m.group(2)
    if not vals.startswith("["):
        mv = re.search(r"let (?:mut )?%s = (?:vec!)?\[([^\]]*)\]\s*;" % vals, body, re.S)
        need(mv, "writer %s: `%s` is not a literal list" % (fn_name, vals))
        elems = split_args(mv.group(1))
    else:
        elems = split_args(vals[1:-1])
    wire = []
    for e in elems:
        m1 = re.fullmatch(r"(\w+)\.to_usize\(\) as u32", e)
        m2 = re.fullmatch(r"(\w+)\.0", e)
        m3 = re.fullmatch(r"(\w+)\.index_as_u32\(\)", e)
        m4 = re.fullmatch(r"(\w+)\.len\(\) as u32", e)
        m5 = re.fullmatch(r"(\w+)", e)
        if m1:
            need(ptypes.get(m1.group(1)) == "Register", "writer %s: %s is not a Register" % (fn_name, e))
            wire.append((m1.group(1), "reg"))
        elif m2:
            need(ptypes.get(m2.group(1)) == "ConstPoolIdx", "writer %s: %s is not a ConstPoolIdx" % (fn_name, e))
            wire.append((m2.group(1), "idx"))
        elif m3:
            t = ptypes.get(m3.group(1))
            need(t in ("GlobalId", "ConstId"), "writer %s: %s has type %s" % (fn_name, e, t))
            wire.append((m3.group(1), TYPE_KIND[t]))
        elif m4:
            need(ptypes.get(m4.group(1)) == "&[Register]", "writer %s: %s is not &[Register]" % (fn_name, e))
            need(e == elems[-1], "writer %s: argument count is not the last listed value" % fn_name)
            need(re.search(r"for (\w+) in %s \{\s*%s\.push\(\1\.to_usize\(\) as u32\);\s*\}" % (m4.group(1), vals), body),
                 "writer %s: arguments are not pushed after their count" % fn_name)
            wire.append((m4.group(1), "args"))
        elif m5:
            need(ptypes.get(m5.group(1)) == "u32", "writer %s: %s is not a u32" % (fn_name, e))
            wire.append((m5.group(1), "var32"))
        else:
            raise TieError("writer %s: unrecognised value expression `%s`" % (fn_name, e))
    rest = body[body.index("self.emit_values"):]
    m6 = re.search(r"self\.emit_u8\((\w+)\)\s*;", rest)
    if m6:
        need(ptypes.get(m6.group(1)) == "u8", "writer %s: emit_u8 of a non-u8" % fn_name)
        wire.append((m6.group(1), "byte"))
    need(len(re.findall(r"self\.emit_", body)) == 1 + (1 if m6 else 0), "writer %s: further emit_ calls" % fn_name)
    return wire, opexpr


def parse_writer(variants):
    wr = strip_comments(read("writer.rs"))
    fns = parse_fns(wr)
    # primitives the hand model relies on
    b = fns["emit_values"]["body"]
    need(re.search(r"self\.emit_opcode\(op\.into\(\)\);\s*for &value in values \{\s*self\.emit_u32_variable\(value\);", b),
         "writer: emit_values has an unrecognised shape")
    need("if op.needs_location()" in b and "self.emit_location();" in b, "writer: emit_values no longer records locations")
    b = fns["emit_jmp_forward"]["body"]
    need(re.search(r"let start = self\.offset\(\);\s*self\.emit_opcode\(inst\.into\(\)\);\s*if let Some\(cond\) = cond \{\s*"
                   r"self\.emit_u32_variable\(cond\.to_usize\(\) as u32\);\s*\}\s*let address = self\.offset\(\);\s*"
                   r"self\.emit_u32_fixed\(0\);\s*self\.unresolved_jump_offsets\.push\(\(start, address, lbl\)\);", b),
         "writer: emit_jmp_forward has an unrecognised shape")
    emit = {}
    for name, f in fns.items():
        if not (f["pub"] and name.startswith("emit_")):
            continue
        body = f["body"]
        ptypes = dict(f["params"])
        consts = {}   # local -> ConstPoolEntry variant built from which param
        for m in re.finditer(r"let (\w+) = self\.add_const\(ConstPoolEntry::(\w+)\((\w+)(?: as \w+)?\)\);", body):
            consts[m.group(1)] = (m.group(2), m.group(3))
        mops = re.findall(r"BytecodeOpcode::(\w+)", body)
        need(len(mops) == 1, "writer %s: expected exactly one opcode, found %s" % (name, mops))
        op = mops[0]
        need(op in variants and op not in emit, "writer %s: bad/duplicate opcode %s" % (name, op))
        api = [(n, t) for n, t in f["params"]]
        mcall = re.search(r"self\.(emit_\w+)\(\s*BytecodeOpcode::\w+\s*,?(.*?)\)\s*;", body, re.S)
        need(mcall, "writer %s: no emitting call" % name)
        helper = mcall.group(1)
        entry = dict(fn=name, op=op, api=api, const=None)
        if helper == "emit_values":
            wire, _ = wire_of_values(name, f["params"], body)
            entry["wire"] = [(n, k) for n, k in wire]
        elif helper == "emit_jmp_forward":
            args = split_args(mcall.group(2))
            need(len(args) == 2 and ptypes.get(args[1]) == "Label", "writer %s: emit_jmp_forward arguments" % name)
            mc = re.fullmatch(r"Some\((\w+)\)", args[0])
            need(mc or args[0] == "None", "writer %s: condition argument" % name)
            entry["wire"] = ([(mc.group(1), "reg")] if mc else []) + [(args[1], "fixed32")]
            entry["jump"] = "forward"
        else:
            need(helper in fns, "writer %s: unknown helper %s" % (name, helper))
            h = fns[helper]
            hwire, opexpr = wire_of_values(helper, h["params"], h["body"])
            need(opexpr == h["params"][0][0], "writer %s: helper does not emit the opcode it is given" % helper)
            args = split_args(mcall.group(2))
            need(len(args) == len(h["params"]) - 1, "writer %s: helper arity" % name)
            amap = dict(zip([p for p, _ in h["params"][1:]], args))
            wire = []
            for hp, k in hwire:
                a = amap[hp]
                need(re.fullmatch(r"\w+", a), "writer %s: argument `%s` is not a plain name" % (name, a))
                wire.append((a, k))
            entry["wire"] = wire
            if op == "JumpLoop":
                need(re.search(r"let offset = self\.lookup_label\(lbl\)\.expect\(\"label not bound\"\);\s*"
                               r"assert!\(offset\.to_usize\(\) <= self\.code\.len\(\)\);\s*"
                               r"let distance = \(self\.code\.len\(\) - offset\.to_usize\(\)\) as u32;", body),
                     "writer emit_jump_loop: unrecognised shape")
                entry["jump"] = "loop"
                entry["wire"] = [("lbl", "var32")]
        # every wire value must come from an API parameter (or a const-pool entry made from one)
        apin = [n for n, _ in api]
        perm = []
        for a, k in entry["wire"]:
            if a in consts:
                variant, src = consts[a]
                need(src in apin, "writer %s: constant from unknown value" % name)
                entry["const"] = variant
                perm.append(apin.index(src))
            else:
                need(a in apin, "writer %s: wire value `%s` is not a parameter" % (name, a))
                perm.append(apin.index(a))
        need(sorted(perm) == list(range(len(api))), "writer %s: a parameter is dropped or used twice" % name)
        entry["perm"] = perm
        emit[op] = entry
    need(set(emit) == set(variants), "writer has no emit function for: %s" % sorted(set(variants) - set(emit)))
    return emit


# ----------------------------------------------------------------------------- output

def lean_list(xs):
    return "[" + ", ".join(xs) + "]"


def gen_lean(variants, to_byte, of_byte, needs_loc, rlayout, visit, emit):
    L = []
    L.append("/- GENERATED by /verif/tools/gen_bc.py from /repo/dora-bytecode/src/{opcode,data,reader,writer}.rs.")
    L.append("   Rewritten on every check run; do not edit. -/")
    L.append("namespace Dora.Bytecode")
    L.append("")
    L.append("/-- operand kinds on the wire: everything is `emit_u32_variable` except `byte` (one raw byte) and")
    L.append("    `fixed32` (`emit_u32_fixed`, the patched forward-jump distance); `args` = count followed by registers -/")
    L.append("inductive Kind where")
    L.append("  | reg | idx | global | const | byte | var32 | fixed32 | args")
    L.append("  deriving DecidableEq, Repr, Inhabited")
    L.append("")
    L.append("/-- `enum BytecodeOpcode` (data.rs) -/")
    L.append("inductive Opcode where")
    for v in variants:
        L.append("  | %s" % v)
    L.append("  deriving DecidableEq, Repr, Inhabited")
    L.append("")
    L.append("namespace Opcode")
    L.append("")
    L.append("def all : List Opcode := " + lean_list(["." + v for v in variants]))
    L.append("")
    L.append("/-- `impl From<BytecodeOpcode> for u8` with the numbers of opcode.rs -/")
    L.append("def toByte : Opcode → UInt8")
    for v in variants:
        L.append("  | .%s => %d" % (v, to_byte[v]))
    L.append("")
    L.append("/-- the arms of `impl TryFrom<u8> for BytecodeOpcode`, in source order -/")
    L.append("def ofByteTable : List (UInt8 × Opcode) := " + lean_list(["(%d, .%s)" % (n, v) for n, v in of_byte]))
    L.append("")
    L.append("/-- `BytecodeOpcode::try_from` (first matching arm; `_ => Err(())` is `none`) -/")
    L.append("def ofByte? (b : UInt8) : Option Opcode := (ofByteTable.find? (fun p => p.1 == b)).map (·.2)")
    L.append("")
    L.append("def name : Opcode → String")
    for v in variants:
        L.append("  | .%s => \"%s\"" % (v, v))
    L.append("")
    L.append("/-- `BytecodeOpcode::needs_location` -/")
    L.append("def needsLocation : Opcode → Bool")
    for v in variants:
        L.append("  | .%s => %s" % (v, "true" if v in needs_loc else "false"))
    L.append("")
    L.append("/-- operands in the order `BytecodeReader::read_instruction` reads them -/")
    L.append("def readLayout : Opcode → List Kind")
    for v in variants:
        L.append("  | .%s => %s" % (v, lean_list(["." + k for k in rlayout[v]])))
    L.append("")
    L.append("/-- operands in the order the `emit_*` function of the writer puts them on the wire -/")
    L.append("def writeLayout : Opcode → List Kind")
    for v in variants:
        L.append("  | .%s => %s" % (v, lean_list(["." + k for _, k in emit[v]["wire"]])))
    L.append("")
    L.append("/-- wire position ↦ index of the `emit_*` parameter written there -/")
    L.append("def emitPerm : Opcode → List Nat")
    for v in variants:
        L.append("  | .%s => %s" % (v, lean_list([str(i) for i in emit[v]["perm"]])))
    L.append("")
    L.append("/-- `visit_*` parameter ↦ wire position it was read from -/")
    L.append("def visitPerm : Opcode → List Nat")
    for v in variants:
        L.append("  | .%s => %s" % (v, lean_list([str(i) for i in visit[v]["perm"]])))
    L.append("")
    L.append("/-- `emit_const_*`: the `ConstPoolEntry` variant the value parameter is stored as -/")
    L.append("def constVariant : Opcode → Option String")
    for v in variants:
        c = emit[v]["const"]
        L.append("  | .%s => %s" % (v, ("some \"%s\"" % c) if c else "none"))
    L.append("")
    L.append("end Opcode")
    L.append("end Dora.Bytecode")
    return "\n".join(L) + "\n"


RS_ARG = {
    "Register": "Register(a[{i}].n() as usize)",
    "ConstPoolIdx": "ConstPoolIdx(a[{i}].n() as u32)",
    "GlobalId": "GlobalId::from(a[{i}].n() as usize)",
    "ConstId": "ConstId::from(a[{i}].n() as usize)",
    "u8": "a[{i}].n() as u8",
    "u32": "a[{i}].n() as u32",
    "i32": "a[{i}].n() as i32",
    "i64": "a[{i}].n() as i64",
    "f32": "f32::from_bits(a[{i}].n() as u32)",
    "f64": "f64::from_bits(a[{i}].n() as u64)",
    "char": "char::from_u32(a[{i}].n() as u32).expect(\"request: not a char\")",
    "String": "a[{i}].s()",
    "&[Register]": "&a[{i}].l().iter().map(|&x| Register(x as usize)).collect::<Vec<_>>()",
}
RS_VIS = {
    "Register": "V::N({n}.0 as u64)",
    "ConstPoolIdx": "V::N({n}.0 as u64)",
    "GlobalId": "V::N({n}.index_as_u32() as u64)",
    "ConstId": "V::N({n}.index_as_u32() as u64)",
    "u8": "V::N({n} as u64)",
    "u32": "V::N({n} as u64)",
    "Vec<Register>": "V::L({n}.iter().map(|r| r.0 as u64).collect())",
}


def gen_rs(variants, visit, emit):
    R = []
    R.append("// GENERATED by /verif/tools/gen_bc.py from /repo/dora-bytecode/src/{reader,writer}.rs; do not edit.")
    R.append("// request operands (in the order of the emit_* parameters) -> the real emit_* call;")
    R.append("// the real visitor callbacks -> listing entries (operands in visit_* parameter order).")
    R.append("use dora_bytecode::{BytecodeOffset, BytecodeVisitor, BytecodeWriter, ConstId, ConstPoolIdx, GlobalId, Register};")
    R.append("use crate::{Arg, Lister, V};")
    R.append("")
    R.append("/// number of parameters of the emit function; None = not an instruction handled here (jumps)")
    R.append("pub fn arity(name: &str) -> Option<usize> {")
    R.append("    match name {")
    for v in variants:
        if "jump" in emit[v]:
            continue
        R.append("        \"%s\" => Some(%d)," % (v, len(emit[v]["api"])))
    R.append("        _ => None,")
    R.append("    }")
    R.append("}")
    R.append("")
    R.append("pub fn emit(w: &mut BytecodeWriter, name: &str, a: &[Arg]) {")
    R.append("    match name {")
    for v in variants:
        e = emit[v]
        if "jump" in e:
            continue
        args = []
        for i, (n, t) in enumerate(e["api"]):
            need(t in RS_ARG, "harness generator: parameter type %s of %s" % (t, e["fn"]))
            args.append(RS_ARG[t].format(i=i))
        R.append("        \"%s\" => w.%s(%s)," % (v, e["fn"], ", ".join(args)))
    R.append("        _ => panic!(\"request: unknown instruction {}\", name),")
    R.append("    }")
    R.append("}")
    R.append("")
    R.append("impl BytecodeVisitor for Lister {")
    R.append("    fn visit_instruction(&mut self, offset: BytecodeOffset) {")
    R.append("        self.at(offset.to_u32());")
    R.append("    }")
    for v in variants:
        vi = visit[v]
        ps = ", ".join("a%d: %s" % (i, t) for i, t in enumerate(vi["types"]))
        vs = []
        for i, t in enumerate(vi["types"]):
            need(t in RS_VIS, "harness generator: visitor parameter type %s of %s" % (t, vi["fn"]))
            vs.append(RS_VIS[t].format(n="a%d" % i))
        R.append("    fn %s(&mut self%s) {" % (vi["fn"], (", " + ps) if ps else ""))
        R.append("        self.ins(\"%s\", vec![%s]);" % (v, ", ".join(vs)))
        R.append("    }")
    R.append("}")
    return "\n".join(R) + "\n"


# ----------------------------------------------------------------------------- package type tree (derive items)

OUT_PKG = os.environ.get("GEN_BC_PKG_OUT", "/verif/lean/DoraModel/Gen/PkgTypes.lean")
PKG_FILES = ["program.rs", "data.rs", "ty.rs", "opcode.rs"]
PRIMS = {"u8": "u8", "u16": "u16", "u32": "u32", "u64": "u64", "usize": "u64", "i32": "i32", "i64": "i64",
         "bool": "bool", "f32": "f32", "f64": "f64", "char": "char", "String": "str"}


def split_top(s, sep=","):
    out, depth, cur = [], 0, ""
    for ch in s:
        if ch in "([{<":
            depth += 1
        elif ch in ")]}>":
            depth -= 1
        if ch == sep and depth == 0:
            out.append(cur.strip())
            cur = ""
        else:
            cur += ch
    if cur.strip():
        out.append(cur.strip())
    return out


def paren_after(s, i, open_ch, close_ch):
    depth = 0
    j = i
    while j < len(s):
        if s[j] == open_ch:
            depth += 1
        elif s[j] == close_ch:
            depth -= 1
            if depth == 0:
                return s[i + 1:j], j + 1
        j += 1
    raise TieError("unbalanced " + open_ch)


def parse_items():
    """name -> ('struct', [(field, type)]) | ('enum', [(variant, [types])]) | ('alias', type) for the derive items."""
    items = {}
    for fn in PKG_FILES:
        src = strip_comments(read(fn))
        for m in re.finditer(r"pub type (\w+) = ([^;]+);", src):
            items[m.group(1)] = ("alias", m.group(2).strip())
        for m in re.finditer(r"#\[derive\(([^)]*)\)\]\s*((?:#\[[^\]]*\]\s*)*)pub (struct|enum) (\w+)\s*(<[^>{(]*>)?\s*([{(])", src):
            derives = [d.strip() for d in m.group(1).split(",")]
            name = m.group(4)
            if not ("Encode" in derives and "Decode" in derives):
                continue
            need(not m.group(5), "derive item %s is generic" % name)
            need(name not in items, "derive item %s defined twice" % name)
            if m.group(3) == "struct":
                if m.group(6) == "{":
                    body, _ = block_after(src, m.end() - 1)
                    fields = []
                    for f in split_top(body):
                        f = re.sub(r"^(pub(\([^)]*\))?\s+)", "", f)
                        need(":" in f, "struct %s: field `%s`" % (name, f))
                        n, t = f.split(":", 1)
                        fields.append((n.strip(), t.strip()))
                    items[name] = ("struct", fields)
                else:
                    body, _ = paren_after(src, m.end() - 1, "(", ")")
                    tys = [re.sub(r"^(pub(\([^)]*\))?\s+)", "", t) for t in split_top(body)]
                    items[name] = ("struct", [(str(i), t) for i, t in enumerate(tys)])
            else:
                need(m.group(6) == "{", "enum %s: shape" % name)
                body, _ = block_after(src, m.end() - 1)
                variants = []
                for v in split_top(body):
                    mv = re.fullmatch(r"(\w+)\s*(?:=\s*(\d+))?", v)
                    if mv:
                        if mv.group(2) is not None:
                            # bincode_derive 2.0.1 ignores explicit discriminants (position counts); insist they agree
                            need(int(mv.group(2)) == len(variants),
                                 "enum %s: discriminant of %s differs from its position" % (name, mv.group(1)))
                        variants.append((mv.group(1), []))
                        continue
                    mv = re.fullmatch(r"(\w+)\s*\((.*)\)", v, re.S)
                    if mv:
                        variants.append((mv.group(1), split_top(mv.group(2))))
                        continue
                    mv = re.fullmatch(r"(\w+)\s*\{(.*)\}", v, re.S)
                    need(mv, "enum %s: variant `%s`" % (name, v[:40]))
                    tys = []
                    for f in split_top(mv.group(2)):
                        need(":" in f, "enum %s: field `%s`" % (name, f))
                        tys.append(f.split(":", 1)[1].strip())
                    variants.append((mv.group(1), tys))
                items[name] = ("enum", variants)
    # the hand-written codec of Id<T>: the u32 inside
    prog = strip_comments(read("program.rs"))
    need(re.search(r"impl<T> Encode for Id<T> \{\s*fn encode<[^{]*\{\s*self\.0\.encode\(encoder\)\s*\}", prog),
         "program.rs: Encode for Id<T> is no longer `self.0.encode(encoder)`")
    need(re.search(r"impl<Context, T> Decode<Context> for Id<T> \{[^}]*\{\s*Ok\(Id\(u32::decode\(decoder\)\?, PhantomData\)\)", prog, re.S),
         "program.rs: Decode for Id<T> is no longer `u32::decode`")
    need(re.search(r"pub struct Id<T>\(u32, PhantomData<T>\);", prog), "program.rs: Id<T> is no longer (u32, PhantomData<T>)")
    return items


class PkgEnv:
    def __init__(self, items):
        self.items = items
        self.entries = []     # lean text per index
        self.names = []
        self.memo = {}

    def alloc(self, key, name):
        self.memo[key] = len(self.entries)
        self.entries.append(None)
        self.names.append(name)
        return self.memo[key]

    def ty(self, t):
        t = re.sub(r"\s+", " ", t.strip())
        if t in self.memo:
            return self.memo[t]
        if t in PRIMS:
            i = self.alloc(t, t)
            self.entries[i] = ".prim .%s" % PRIMS[t]
            return i
        if t == "Vec<u8>":
            i = self.alloc(t, t)
            self.entries[i] = ".prim .bytes"
            return i
        m = re.fullmatch(r"(\w+)<(.*)>", t)
        if m:
            head, inner = m.group(1), m.group(2)
            if head == "Id":
                need(re.fullmatch(r"\w+", inner), "Id<%s>" % inner)
                return self.ty("u32")
            if head in ("Box", "Arc"):
                # Box<T> / Arc<T> encode as T (features/impl_alloc.rs)
                i = self.alloc(t, t)
                e = self.ty(inner)
                self.entries[i] = ".tuple [%d]" % e
                return i
            if head in ("Vec", "Option"):
                i = self.alloc(t, t)
                e = self.ty(inner)
                self.entries[i] = ".%s %d" % ("vec" if head == "Vec" else "opt", e)
                return i
            raise TieError("package types: unknown generic %s" % t)
        if t.startswith("(") and t.endswith(")"):
            i = self.alloc(t, t)
            es = [self.ty(x) for x in split_top(t[1:-1])]
            self.entries[i] = ".tuple [%s]" % ", ".join(map(str, es))
            return i
        need(re.fullmatch(r"\w+", t), "package types: unrecognised type `%s`" % t)
        need(t in self.items, "package types: `%s` has no #[derive(Encode, Decode)] (and no known hand-written codec)" % t)
        kind, body = self.items[t]
        if kind == "alias":
            j = self.ty(body)
            self.memo[t] = j
            return j
        i = self.alloc(t, t)
        if kind == "struct":
            es = [self.ty(ft) for _, ft in body]
            self.entries[i] = ".tuple [%s]" % ", ".join(map(str, es))
        else:
            vs = []
            for vn, tys in body:
                key = "%s::%s" % (t, vn)
                j = self.alloc(key, key)
                es = [self.ty(x) for x in tys]
                self.entries[j] = ".tuple [%s]" % ", ".join(map(str, es))
                vs.append(j)
            self.entries[i] = ".enum [%s]" % ", ".join(map(str, vs))
        return i


PRIM_SAMPLE = {"u8": ".nat 200", "u16": ".nat 60000", "u32": ".nat 70000", "u64": ".nat 5000000000", "i32": ".int (-5)",
               "i64": ".int (-9223372036854775808)", "bool": ".bool true", "f32": ".nat 2143289345",
               "f64": ".nat 9221120237041090561", "char": ".nat 9731", "str": ".bytes [0xC3, 0xA9, 0x41]",
               "bytes": ".bytes [68, 128, 1]"}


def sample_value(env, t, depth, visiting=()):
    """(Lean text, nesting levels) of a sample value of table type t; below depth 0 the smallest value is taken
    (empty vectors, None, the first enum variant that does not lead back to a type being built); None = no finite value."""
    if depth <= 0 and t in visiting:
        return None
    vis = visiting + (t,) if depth <= 0 else ()
    e = env.entries[t]
    m = re.fullmatch(r"\.prim \.(\w+)", e)
    if m:
        return PRIM_SAMPLE[m.group(1)], 1
    m = re.fullmatch(r"\.(vec|opt) (\d+)", e)
    if m:
        inner = int(m.group(2))
        sub = sample_value(env, inner, depth - 1, vis) if depth > 0 else None
        if m.group(1) == "vec":
            return (".list [%s]" % sub[0], sub[1] + 1) if sub else (".list []", 1)
        return (".opt (some (%s))" % sub[0], sub[1] + 1) if sub else (".opt none", 1)
    m = re.fullmatch(r"\.tuple \[(.*)\]", e)
    if m:
        ts = [int(x) for x in m.group(1).split(",") if x.strip()]
        subs = [sample_value(env, x, depth - 1, vis) for x in ts]
        if any(x is None for x in subs):
            return None
        return ".tuple [%s]" % ", ".join(x[0] for x in subs), 1 + max([x[1] for x in subs] + [0])
    m = re.fullmatch(r"\.enum \[(.*)\]", e)
    need(m, "sample value: entry " + e)
    vs = [int(x) for x in m.group(1).split(",") if x.strip()]
    order = ([depth % len(vs)] if depth > 0 else []) + list(range(len(vs)))
    for i in order:
        sub = sample_value(env, vs[i], depth - 1, vis)
        if sub:
            return ".variant %d (%s)" % (i, sub[0]), sub[1] + 1
    return None


def gen_pkg():
    items = parse_items()
    env = PkgEnv(items)
    root = env.ty("Program")
    need(all(e is not None for e in env.entries), "package types: unfinished entry")
    L = []
    L.append("import DoraModel.Bytecode.Schema")
    L.append("/- GENERATED by /verif/tools/gen_bc.py from the #[derive(Encode, Decode)] items of")
    L.append("   /repo/dora-bytecode/src/{program,data,ty,opcode}.rs reachable from `Program`. Rewritten on every check run. -/")
    L.append("namespace Dora.Bincode")
    L.append("")
    L.append("/-- the type table: entry i describes the Rust type `pkgTypeNames[i]` -/")
    L.append("def pkgEnv : Env := #[")
    for i, e in enumerate(env.entries):
        L.append("  %s%s  -- %d %s" % (e, "," if i + 1 < len(env.entries) else "", i, env.names[i]))
    L.append("]")
    L.append("")
    L.append("/-- table index of `Program` -/")
    L.append("def pkgRoot : Nat := %d" % root)
    L.append("")
    L.append("def pkgTypeNames : Array String := #[%s]" % ", ".join('"%s"' % n for n in env.names))
    L.append("")
    depth = 6
    sv = sample_value(env, root, depth)
    need(sv is not None, "package types: no finite sample value of Program")
    L.append("/-- a sample value of type `Program` built from the table (one element per vector, `Some` for options,")
    L.append("    variant `depth mod n` for enums down to nesting depth %d, the smallest value below) — the non-vacuity witness -/" % depth)
    L.append("def pkgExample : PVal :=")
    L.append("  " + sv[0])
    L.append("")
    L.append("def pkgExampleFuel : Nat := %d" % (sv[1] + 1))
    L.append("")
    L.append("end Dora.Bincode")
    text = "\n".join(L) + "\n"
    changed = write_if_changed(OUT_PKG, text)
    derive_items = sorted(n for n in env.names if n in items)
    return dict(entries=len(env.entries), root=root, changed=changed, derive_items=derive_items)



def write_if_changed(path, text):
    os.makedirs(os.path.dirname(path), exist_ok=True)
    if os.path.exists(path) and open(path, encoding="utf-8").read() == text:
        return False
    with open(path, "w", encoding="utf-8") as f:
        f.write(text)
    return True


def generate():
    variants, to_byte, of_byte, needs_loc = parse_opcodes()
    rlayout, visit = parse_reader(variants)
    emit = parse_writer(variants)
    lean = gen_lean(variants, to_byte, of_byte, needs_loc, rlayout, visit, emit)
    rs = gen_rs(variants, visit, emit)
    c1 = write_if_changed(OUT_LEAN, lean)
    c2 = write_if_changed(OUT_RS, rs)
    pkg = gen_pkg()
    info = dict(opcodes=len(variants), lean_changed=c1, rs_changed=c2, pkg=pkg,
                table={v: dict(byte=to_byte[v], read=rlayout[v], write=[k for _, k in emit[v]["wire"]],
                               api=[t for _, t in emit[v]["api"]], emit_perm=emit[v]["perm"],
                               visit_perm=visit[v]["perm"], const=emit[v]["const"], jump=emit[v].get("jump"),
                               needs_location=v in needs_loc) for v in variants})
    return info


if __name__ == "__main__":
    try:
        info = generate()
    except TieError as e:
        print("gen_bc: BROKEN TIE: %s" % e)
        sys.exit(2)
    if "--json" in sys.argv:
        print(json.dumps(info))
    else:
        print("gen_bc: %d opcodes; lean %s; harness dispatch %s; package type table %d entries (%d derive items) %s" % (
            info["opcodes"], "rewritten" if info["lean_changed"] else "unchanged",
            "rewritten" if info["rs_changed"] else "unchanged", info["pkg"]["entries"],
            len(info["pkg"]["derive_items"]), "rewritten" if info["pkg"]["changed"] else "unchanged"))
