#!/usr/bin/env python3
"""Turn a `.s` file emitted by `dora compile -S` into the line format read by the Lean validator (drv_c10).

Trusted (not proved): this script, gcc/llvm-mc (assembling) and llvm-objdump (x86-64 instruction boundaries).
What it extracts
  * layout of .text from the `.s` text itself (labels, .p2align, .byte counts, .reloc lines)
  * the metadata sections .dora.functions / .gcpoints / .gcpoint_offsets / .gcpoint_interior_pointers /
    .locations / .inlined_functions exactly as the runtime reads them (dora-runtime/src/startup.rs)
  * per function: every call instruction (x64: llvm-objdump; arm64: fixed-width decode of bl/blr), its return
    offset, the class of its target (from the relocation symbol), the static frame size from the prologue and
    the extra stack pushed inside the current basic block at the call ("frame as extended at that call site").

output lines (one artifact):
  artifact <arch> <path>
  fn <idx> <kind> <start> <end> <frame> <symbol>
  call <fnidx> <ret_off> <class> <extra> <target-symbol-or-->
  gcp <fnidx> <pc_off> o <offsets…> i <interior…>
  loc <fnidx> <pc_off> <inlined_id> <line> <col>
  inl <fnidx> <local_idx> <fields…>
  note <text>            (extraction problems; the validator rejects an artifact with notes of kind `bad`)
  end
"""
import os
import re
import subprocess
import sys

KIND_NAMES = {0: "optimized", 1: "runtime_entry", 2: "dora_entry", 3: "alloc_failure", 4: "trap", 5: "safepoint",
              6: "unreachable", 7: "fatal_error", 8: "stack_overflow"}


def classify_target(sym):
    if sym is None:
        return "indirect"
    if sym.endswith("_24runtime_5Fentry") or sym.endswith("$runtime_entry"):
        return "runtime_entry"
    m = {
        "dora_aot_trap_trampoline": "trap",
        "dora_aot_stack_overflow_trampoline": "stack_overflow",
        "dora_aot_safepoint_trampoline": "safepoint",
        "dora_aot_gc_allocation_trampoline": "alloc",
        "dora_aot_unreachable_trampoline": "unreachable",
        "dora_aot_fatal_error_trampoline": "fatal_error",
        "dora_aot_write_barrier_slow_path": "write_barrier",
    }
    if sym in m:
        return m[sym]
    if sym.startswith("dora_native_") or sym.startswith("dora_aot_") and sym not in m:
        return "native:" + sym
    if sym.startswith("dora_"):
        return "managed"
    return "native:" + sym


def parse_s(path):
    """Returns dict(text_labels={label: off}, relocs=[(label, off, type, target)], sections={name: [items]}, fn_bytes)."""
    text_labels = {}
    relocs = []
    sections = {}
    cur = ".text"
    off = 0
    data = bytearray()
    sec_items = None
    sec_labels = {}
    for raw in open(path, encoding="utf-8", errors="replace"):
        line = raw.strip()
        if not line or line.startswith("#") or line.startswith("//"):
            continue
        if line == ".text":
            cur = ".text"
            sec_items = None
            continue
        m = re.match(r"\.section\s+([^\s,]+)", line)
        if m:
            cur = m.group(1)
            sec_items = sections.setdefault(cur, [])
            continue
        if line == ".rodata" or line == ".data" or line == ".bss":
            cur = line
            sec_items = sections.setdefault(cur, [])
            continue
        if cur == ".text":
            m = re.match(r"\.p2align\s+(\d+)", line)
            if m:
                a = 1 << int(m.group(1))
                pad = (-off) % a
                off += pad
                data += b"\xcc" * pad
                continue
            if line.startswith(".byte"):
                vals = [int(x, 16) for x in re.findall(r"0x([0-9a-fA-F]+)", line)]
                data += bytes(vals)
                off += len(vals)
                continue
            if line.startswith(".long") or line.startswith(".word") or line.startswith(".inst"):
                vals = re.findall(r"(0x[0-9a-fA-F]+|\d+)", line.split(None, 1)[1])
                for v in vals:
                    data += int(v, 0).to_bytes(4, "little")
                    off += 4
                continue
            if line.startswith(".quad"):
                data += b"\0" * 8
                off += 8
                continue
            m = re.match(r"\.reloc\s+([^\s+,]+)\s*\+\s*(\d+)\s*,\s*(\w+)\s*,\s*(.+)$", line)
            if m:
                tgt = m.group(4).strip()
                tsym = re.split(r"\s*[-+]\s*", tgt)[0]
                relocs.append((m.group(1), int(m.group(2)), m.group(3), tsym))
                continue
            m = re.match(r"\.reloc\s+([^\s+,]+)\s*,\s*(\w+)\s*,\s*(.+)$", line)
            if m:
                tsym = re.split(r"\s*[-+]\s*", m.group(3).strip())[0]
                relocs.append((m.group(1), 0, m.group(2), tsym))
                continue
            m = re.match(r"([A-Za-z_.$][\w.$]*):$", line)
            if m:
                text_labels[m.group(1)] = off
                continue
            continue
        else:
            m = re.match(r"([A-Za-z_.$][\w.$]*):$", line)
            if m:
                sec_labels[m.group(1)] = (cur, len(sec_items))
                continue
            m = re.match(r"\.(long|quad|byte|short|word)\s+(.*)$", line)
            if m and sec_items is not None:
                for v in m.group(2).split(","):
                    v = v.strip()
                    try:
                        sec_items.append((m.group(1), int(v, 0)))
                    except ValueError:
                        sec_items.append((m.group(1), v))
                continue
    return dict(text_labels=text_labels, relocs=relocs, sections=sections, text=bytes(data), sec_labels=sec_labels)


def objdump_x64(path_s, workdir):
    o = os.path.join(workdir, os.path.basename(path_s) + ".o")
    r = subprocess.run(["gcc", "-c", path_s, "-o", o], capture_output=True, text=True)
    if r.returncode != 0:
        raise RuntimeError("gcc -c failed: " + r.stderr[-500:])
    od = "llvm-objdump-14" if subprocess.run(["which", "llvm-objdump-14"], capture_output=True).returncode == 0 else "llvm-objdump"
    r = subprocess.run([od, "-d", "--no-show-raw-insn", "--section=.text", o], capture_output=True, text=True)
    os.unlink(o)
    insns = []   # (addr, mnemonic, operands)
    for line in r.stdout.splitlines():
        m = re.match(r"\s*([0-9a-f]+):\s+(\S+)\s*(.*)$", line)
        if m:
            insns.append((int(m.group(1), 16), m.group(2), m.group(3).split("#")[0].strip()))
    return insns


def analyse_x64(fn, insns, relocs_by_off):
    """fn = (start, end). Returns (frame, calls[(ret_off, cls, extra, sym)], notes)."""
    start, end = fn
    body = [(a, mn, ops) for (a, mn, ops) in insns if start <= a < end]
    notes = []
    frame = 0
    # prologue: pushq %rbp; movq %rsp,%rbp; [subq $N,%rsp]
    if len(body) >= 2 and body[0][1] == "pushq" and body[0][2] == "%rbp" and body[1][1] == "movq" and body[1][2].replace(" ", "") == "%rsp,%rbp":
        if len(body) >= 3 and body[2][1] == "subq":
            m = re.match(r"\$(-?\d+|0x[0-9a-f]+),\s*%rsp", body[2][2])
            if m:
                frame = int(m.group(1), 0)
    else:
        notes.append("no-standard-prologue")
    targets = set()
    for (a, mn, ops) in body:
        if mn.startswith("j"):
            m = re.match(r"0x([0-9a-f]+)", ops)
            if m:
                targets.add(int(m.group(1), 16))
    calls = []
    extra = 0
    prev_ends_block = False
    for idx, (a, mn, ops) in enumerate(body):
        if a in targets or prev_ends_block:
            extra = 0
        prev_ends_block = mn in ("jmp", "retq", "ret", "int3", "ud2")
        nxt = body[idx + 1][0] if idx + 1 < len(body) else end
        if mn in ("pushq", "push"):
            if idx > 0:
                extra += 8
        elif mn in ("popq", "pop"):
            if ops != "%rbp":
                extra -= 8
                if extra < 0:
                    notes.append("pop-below-block-start@%d" % (a - start))
                    extra = 0
        elif mn == "subq" and ops.endswith("%rsp") and idx > 2:
            m = re.match(r"\$(-?\d+|0x[0-9a-f]+),\s*%rsp", ops)
            if m:
                extra += int(m.group(1), 0)
            else:
                notes.append("dynamic-rsp-adjust@%d" % (a - start))
        elif mn == "addq" and ops.endswith("%rsp"):
            m = re.match(r"\$(-?\d+|0x[0-9a-f]+),\s*%rsp", ops)
            if m:
                extra -= int(m.group(1), 0)
        if mn in ("callq", "call"):
            ret = nxt - start
            sym = None
            if not ops.startswith("*"):
                # direct call: the rel32 field is the last 4 bytes
                sym = relocs_by_off.get(nxt - 4)
                if sym is None:
                    m = re.match(r"0x([0-9a-f]+)", ops)
                    sym = "<local:%s>" % (m.group(1) if m else "?")
            calls.append((ret, classify_target(sym), extra, sym or "-"))
    return frame, calls, notes


def analyse_a64(fn, text, relocs_by_off):
    start, end = fn
    words = [(a, int.from_bytes(text[a:a + 4], "little")) for a in range(start, end - 3, 4)]
    notes = []
    frame = 0
    # prologue: stp x29,x30,[sp,#-16]! ; mov x29,sp | add x29,sp,xzr ; [sub sp,sp,#N | movz x9,#N ; sub sp,sp,x9]
    prologue_len = 2
    if len(words) >= 2 and words[0][1] == 0xa9bf7bfd and words[1][1] in (0x910003fd, 0x8b3f63fd, 0x8b1f03fd, 0x8b3f63fd):
        if len(words) >= 3:
            w = words[2][1]
            if (w & 0xff8003ff) == 0xd10003ff:      # sub sp, sp, #imm{, lsl #12}
                imm = (w >> 10) & 0xfff
                if (w >> 22) & 1:
                    imm <<= 12
                frame = imm
                prologue_len = 3
            elif (w & 0xffe0001f) == 0xd2800009 and len(words) >= 4 and words[3][1] in (0xcb2963ff, 0xcb0903ff):
                frame = (w >> 5) & 0xffff      # movz x9, #imm ; sub sp, sp, x9
                prologue_len = 4
    else:
        notes.append("no-standard-prologue")
    targets = set()
    for (a, w) in words:
        if (w & 0x7c000000) == 0x14000000 and not (w >> 31):      # b
            imm = w & 0x3ffffff
            if imm & 0x2000000:
                imm -= 1 << 26
            targets.add(a + imm * 4)
        elif (w & 0xff000010) == 0x54000000 or (w & 0x7e000000) == 0x34000000:   # b.cond / cbz / cbnz
            imm = (w >> 5) & 0x7ffff
            if imm & 0x40000:
                imm -= 1 << 19
            targets.add(a + imm * 4)
        elif (w & 0x7e000000) == 0x36000000:   # tbz/tbnz
            imm = (w >> 5) & 0x3fff
            if imm & 0x2000:
                imm -= 1 << 14
            targets.add(a + imm * 4)
    calls = []
    extra = 0
    prev_ends = False
    for idx, (a, w) in enumerate(words):
        if a in targets or prev_ends:
            extra = 0
        prev_ends = ((w & 0xfc000000) == 0x14000000) or w == 0xd65f03c0 or (w & 0xffe0001f) == 0xd4200000
        if idx > 0:
            # pre-indexed stores to sp (push): str xt,[sp,#-imm]! / stp ..,[sp,#-imm]!
            if (w & 0xffc003e0) == 0xa98003e0 or (w & 0xffc003e0) == 0x6d8003e0 or (w & 0xffc003e0) == 0xad8003e0:     # stp pre-index, base sp
                imm7 = (w >> 15) & 0x7f
                if imm7 & 0x40:
                    imm7 -= 128
                scale = 16 if (w >> 24) == 0xad else 8
                extra += -imm7 * scale
            elif (w & 0xffe00fe0) == 0xf8000fe0 or (w & 0xffe00fe0) == 0xfc000fe0:   # str x/d pre-index base sp
                imm9 = (w >> 12) & 0x1ff
                if imm9 & 0x100:
                    imm9 -= 512
                extra += -imm9
            elif (w & 0xffc003e0) == 0xa8c003e0 or (w & 0xffc003e0) == 0x6cc003e0 or (w & 0xffc003e0) == 0xacc003e0:   # ldp post-index base sp
                imm7 = (w >> 15) & 0x7f
                if imm7 & 0x40:
                    imm7 -= 128
                scale = 16 if (w >> 24) == 0xac else 8
                if not (w & 0x1f) == 29:
                    extra -= imm7 * scale
            elif (w & 0xffe00fe0) == 0xf84007e0 or (w & 0xffe00fe0) == 0xfc4007e0:   # ldr post-index base sp
                imm9 = (w >> 12) & 0x1ff
                if imm9 & 0x100:
                    imm9 -= 512
                extra -= imm9
            elif (w & 0xff8003ff) == 0xd10003ff and idx >= prologue_len:     # sub sp, sp, #imm
                imm = (w >> 10) & 0xfff
                if (w >> 22) & 1:
                    imm <<= 12
                extra += imm
            elif (w & 0xff8003ff) == 0x910003ff:                  # add sp, sp, #imm
                imm = (w >> 10) & 0xfff
                if (w >> 22) & 1:
                    imm <<= 12
                extra -= imm
            if extra < 0:
                notes.append("pop-below-block-start@%d" % (a - start))
                extra = 0
        if (w & 0xfc000000) == 0x94000000:     # bl
            sym = relocs_by_off.get(a)
            if sym is None:
                sym = "<local>"
            calls.append((a + 4 - start, classify_target(sym), extra, sym))
        elif (w & 0xfffffc1f) == 0xd63f0000:   # blr
            calls.append((a + 4 - start, "indirect", extra, "-"))
    return frame, calls, notes


def extract(path, arch, workdir, out):
    p = parse_s(path)
    labels = p["text_labels"]
    secs = p["sections"]
    out.append("artifact %s %s" % (arch, path))
    notes = []
    # relocations by absolute .text offset
    rel = {}
    for (lab, off, typ, tgt) in p["relocs"]:
        if lab in labels:
            rel[labels[lab] + off] = tgt
    fitems = secs.get(".dora.functions", [])
    gitems = [v for (_, v) in secs.get(".dora.gcpoints", [])]
    goff = [v for (_, v) in secs.get(".dora.gcpoint_offsets", [])]
    gint = [v for (_, v) in secs.get(".dora.gcpoint_interior_pointers", [])]
    litems = [v for (_, v) in secs.get(".dora.locations", [])]
    iitems = [v for (_, v) in secs.get(".dora.inlined_functions", [])]

    def s32(v):
        v &= 0xffffffff
        return v - (1 << 32) if v & 0x80000000 else v

    insns = objdump_x64(path, workdir) if arch == "x64" else None
    nf = len(fitems) // 12
    if len(fitems) % 12 != 0:
        notes.append("bad functions-table-length %d" % len(fitems))
    inl_width = None
    for i in range(nf):
        e = [v for (_, v) in fitems[i * 12:(i + 1) * 12]]
        start_l, end_l, fct_id, kind, info, gs, gl, ls, ll, is_, il, _pad = e
        if start_l not in labels or end_l not in labels:
            notes.append("bad function-label-missing %s" % start_l)
            continue
        start, end = labels[start_l], labels[end_l]
        if arch == "x64":
            frame, calls, fn_notes = analyse_x64((start, end), insns, rel)
        else:
            frame, calls, fn_notes = analyse_a64((start, end), p["text"], rel)
        out.append("fn %d %s %d %d %d %s" % (i, KIND_NAMES.get(kind, "kind%d" % kind), start, end, frame, start_l))
        for n in fn_notes:
            out.append("fnote %d %s" % (i, n))
        for (ret, cls, extra, sym) in calls:
            out.append("call %d %d %s %d %s" % (i, ret, cls.replace(" ", "_"), extra, sym))
        if (gs + gl) * 5 > len(gitems):
            notes.append("bad gcpoint-range-out-of-table fn=%d" % i)
        else:
            for g in range(gs, gs + gl):
                pc, os_, ol, ps, pl = gitems[g * 5:(g + 1) * 5]
                if os_ + ol > len(goff) or ps + pl > len(gint):
                    notes.append("bad gcpoint-slot-range-out-of-table fn=%d" % i)
                    continue
                out.append("gcp %d %d o %s i %s" % (i, pc, " ".join(str(s32(x)) for x in goff[os_:os_ + ol]),
                                                   " ".join(str(s32(x)) for x in gint[ps:ps + pl])))
        if (ls + ll) * 4 > len(litems):
            notes.append("bad location-range-out-of-table fn=%d" % i)
        else:
            for l in range(ls, ls + ll):
                pc, inl, line, col = litems[l * 4:(l + 1) * 4]
                out.append("loc %d %d %d %d %d" % (i, pc, inl, line, col))
        out.append("inlrange %d %d %d" % (i, is_, il))
    # inlined function table raw (width determined by the emitter; kept raw for the forest check)
    out.append("inltable %s" % " ".join(str(v) for v in iitems))
    for n in notes:
        out.append("note %s" % n)
    out.append("end")


def main():
    arch = sys.argv[1]
    workdir = sys.argv[2]
    out = []
    for path in sys.argv[3:]:
        extract(path, arch, workdir, out)
    sys.stdout.write("\n".join(out) + "\n")


if __name__ == "__main__":
    main()
