#!/bin/bash
# seed_confirm.sh <patch.diff>  — apply a seeded change in the shared scratch worktree /tmp/confirm_wt (created on
# demand from /repo's HEAD), run the full test suite there, print totals, and leave the worktree PATCHED so that the
# demonstration can be run next; `seed_confirm.sh --reset` restores it; `--remove` deletes worktree and build output.
set -u
WT=/tmp/confirm_wt
export CARGO_TARGET_DIR=/tmp/confirm_wt/target CARGO_NET_OFFLINE=true CARGO_BUILD_JOBS=8
if [ "$1" = "--remove" ]; then git -C /repo worktree remove --force $WT; exit 0; fi
if [ ! -d $WT ]; then git -C /repo worktree add --detach $WT HEAD >/dev/null || exit 2; fi
git -C $WT checkout -q -- . && git -C $WT clean -fdq -e target
git -C $WT checkout -q --detach $(git -C /repo rev-parse HEAD)
if [ "$1" = "--reset" ]; then exit 0; fi
git -C $WT apply "$1" || { echo "PATCH DOES NOT APPLY"; exit 2; }
git -C $WT diff --stat | tail -3
cd $WT && cargo test --workspace --no-fail-fast --offline > /tmp/confirm_test.log 2>&1
echo "cargo test rc=$?"
grep -E "^test result" /tmp/confirm_test.log | awk '{p+=$4; f+=$6; i+=$8} END {print "passed="p" failed="f" ignored="i}'
grep -E "^error|FAILED|panicked" /tmp/confirm_test.log | head -5
