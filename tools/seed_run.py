#!/usr/bin/env python3
"""seed_run.py [--tier quick|thorough] <seed id>…   (default: every directory under /verif/seeded)

For each seeded change: run the quick check of the property it breaks against a private clone of /repo with the patch
applied (tools/with_patch_tag.sh, MUT_TAG=seed: nothing in /repo, /verif/evidence or /verif/.build is touched) and record
what the check reported in seeded/<id>/detected.json:
  {"check": "./check C07 quick", "exit": 1, "violations": ["VIOLATION property=… key …", …], "caught": true,
   "verif_commit": "<git rev of /verif>", "repo_commit": "<git rev of /repo>", "wall_s": …}
A seeded change is CAUGHT when the check exits 1 with at least one VIOLATION line (on the unchanged tree the same check exits 0).
Manual tool; never run by a registered check.
"""
import json
import os
import re
import subprocess
import sys
import time

VERIF = "/verif"


def rev(d):
    return subprocess.run(["git", "-C", d, "rev-parse", "--short", "HEAD"], capture_output=True, text=True).stdout.strip()


def main(argv):
    tier = "quick"
    if argv and argv[0] == "--tier":
        tier = argv[1]
        argv = argv[2:]
    ids = argv or sorted(os.listdir(os.path.join(VERIF, "seeded")))
    for sid in ids:
        d = os.path.join(VERIF, "seeded", sid)
        patch = os.path.join(d, "patch.diff")
        if not os.path.exists(patch):
            continue
        prop = json.load(open(os.path.join(d, "meta.json")))["property"]
        ok = subprocess.run(["git", "-C", "/repo", "apply", "--check", patch], capture_output=True, text=True)
        if ok.returncode != 0:
            print("%s: patch no longer applies to /repo HEAD: %s" % (sid, ok.stderr.strip()[:200]), flush=True)
            continue
        cmd = "./check %s %s" % (prop, tier)
        t0 = time.time()
        env = dict(os.environ, MUT_TAG=os.environ.get("SEED_TAG", "seed"))
        p = subprocess.run([os.path.join(VERIF, "tools/with_patch_tag.sh"), patch, cmd], cwd=VERIF, env=env,
                           stdout=subprocess.PIPE, stderr=subprocess.STDOUT, text=True, errors="replace")
        lines = p.stdout.split("\n")
        viol = []
        for i, l in enumerate(lines):
            if l.startswith("VIOLATION"):
                nxt = lines[i + 1].strip() if i + 1 < len(lines) and lines[i + 1].startswith("  ->") else ""
                viol.append((l + " " + nxt)[:600])
        err = [l for l in lines if l.startswith("CHECK-ERROR")]
        keys = sorted(set(re.findall(r"replays/C\d\d/\w+?_((?:proof|corr|oracle)_[A-Za-z0-9_.-]+?)_\d+\.json", p.stdout)))
        res = dict(check=cmd, exit=p.returncode, caught=(p.returncode == 1 and bool(viol)), violations=viol[:12],
                   violation_count=len(viol), replay_keys=keys[:20], check_errors=err[:3],
                   verif_commit=rev(VERIF), repo_commit=rev("/repo"), wall_s=round(time.time() - t0))
        json.dump(res, open(os.path.join(d, "detected.json"), "w"), indent=1)
        open("/tmp/seed_run_%s.log" % sid, "w").write(p.stdout)
        print("%s: exit=%d caught=%s violations=%d (%ds) %s" % (sid, p.returncode, res["caught"], len(viol), res["wall_s"],
                                                            "; ".join(keys[:4])), flush=True)


if __name__ == "__main__":
    main(sys.argv[1:])
