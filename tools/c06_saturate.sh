#!/bin/bash
# run ./check C06 quick for a range of seeds and collect unlisted panic-site keys (manual tool; never run by a check)
out=/tmp/c06_sat.log; : > $out
for s in $(seq $1 $2); do
  VERIF_SEED=$s ./check C06 quick > /tmp/c06_sat_run.log 2>&1
  n=$(grep -c "^VIOLATION" /tmp/c06_sat_run.log)
  echo "seed $s violations $n" >> $out
  if [ "$n" != "0" ]; then
    mkdir -p /tmp/c06_sat_replays/$s; cp replays/C06/quick_*.json /tmp/c06_sat_replays/$s/ 2>/dev/null
    grep "^VIOLATION" /tmp/c06_sat_run.log >> $out
  fi
done
echo done >> $out
