#!/bin/bash
# runs every claimed quick check in turn; prints id, exit status, wall time, VIOLATION / CHECK-ERROR lines
cd /verif
out=${1:-/tmp/quick_all}
mkdir -p $out
for id in $(jq -r '.checks[].property_id' MANIFEST.json); do
  s=$(date +%s)
  ./check $id quick > $out/$id.log 2>&1
  rc=$?
  e=$(date +%s)
  echo "$id rc=$rc $((e-s))s known=$(grep -c '^KNOWN-FINDING' $out/$id.log) viol=$(grep -c '^VIOLATION' $out/$id.log)"
  grep -E '^(VIOLATION|CHECK-ERROR)' $out/$id.log | head -5
done
